package main

import (
	"encoding/json"
	"sort"

	openfgav1 "github.com/openfga/api/proto/openfga/v1"
	gonum "gonum.org/v1/gonum/graph"
	"gonum.org/v1/gonum/graph/multi"
	"google.golang.org/protobuf/proto"

	"github.com/openfga/language/pkg/go/graph"
)

func encPGraph(g *graph.AuthorizationModelGraph) any {
	nodes := A{}
	it := g.Nodes()
	type nd struct {
		id    int64
		label string
		t     int
	}
	ns := []nd{}
	for it.Next() {
		n := it.Node().(*graph.AuthorizationModelNode)
		ns = append(ns, nd{n.ID(), n.Label(), int(n.NodeType())})
	}
	sort.Slice(ns, func(i, j int) bool { return ns[i].id < ns[j].id })
	for _, n := range ns {
		nodes = append(nodes, A{int(n.id), encStr(n.label), n.t})
	}
	type ln struct {
		from, to, id int64
		t            int
		ts           string
	}
	ls := []ln{}
	ei := g.Edges()
	for ei.Next() {
		e := ei.Edge().(multi.Edge)
		li := e.Lines
		for li.Next() {
			l := li.Line().(*graph.AuthorizationModelEdge)
			ls = append(ls, ln{l.From().ID(), l.To().ID(), l.ID(), int(l.EdgeType()), l.TuplesetRelation()})
		}
	}
	sort.Slice(ls, func(i, j int) bool {
		if ls[i].from != ls[j].from {
			return ls[i].from < ls[j].from
		}
		if ls[i].to != ls[j].to {
			return ls[i].to < ls[j].to
		}
		return ls[i].id < ls[j].id
	})
	lines := A{}
	for _, l := range ls {
		lines = append(lines, A{int(l.from), int(l.to), l.t, encStr(l.ts)})
	}
	return A{bool(g.GetDrawingDirection()), nodes, lines}
}

var _ gonum.Node

func init() {
	register("pgraph", func(req json.RawMessage) (any, error) {
		var q struct {
			M      any     `json:"m"`
			Labels [][]int `json:"labels"`
			Repeat int     `json:"repeat"`
		}
		if err := json.Unmarshal(req, &q); err != nil {
			return nil, err
		}
		m, err := decModel(q.M)
		if err != nil {
			return nil, err
		}
		before := proto.Clone(m).(*openfgav1.AuthorizationModel)
		g, gerr := graph.NewAuthorizationModelGraph(m)
		if gerr != nil {
			return map[string]any{"ok": 0, "err": encStr(gerr.Error())}, nil
		}
		res := map[string]any{"ok": 1, "g0": encPGraph(g), "dot0": encStr(g.GetDOT())}
		dots := A{}
		for i := 0; i < q.Repeat; i++ {
			g2, e := graph.NewAuthorizationModelGraph(m)
			if e == nil {
				dots = append(dots, encStr(g2.GetDOT()))
			}
		}
		res["dots"] = dots
		r1, e1 := g.Reversed()
		if e1 != nil {
			res["rev_err"] = encStr(e1.Error())
			return res, nil
		}
		r2, e2 := r1.Reversed()
		if e2 != nil {
			res["rev_err"] = encStr(e2.Error())
			return res, nil
		}
		res["g1"] = encPGraph(r1)
		res["g2"] = encPGraph(r2)
		res["dot1"] = encStr(r1.GetDOT())
		res["dot2"] = encStr(r2.GetDOT())
		// a second, independent double reversal (map iteration order inside Reversed)
		rr := A{}
		for i := 0; i < q.Repeat; i++ {
			a, _ := g.Reversed()
			b, _ := a.Reversed()
			rr = append(rr, encStr(b.GetDOT()))
		}
		res["dot2_repeats"] = rr
		labels := make([]string, len(q.Labels))
		for i, l := range q.Labels {
			labels[i] = cpsToString(l)
		}
		paths := func(gr *graph.AuthorizationModelGraph) any {
			out := A{}
			for _, a := range labels {
				row := A{}
				for _, b := range labels {
					ok, e := gr.PathExists(a, b)
					switch {
					case e != nil:
						row = append(row, 2)
					case ok:
						row = append(row, 1)
					default:
						row = append(row, 0)
					}
				}
				out = append(out, row)
			}
			return out
		}
		res["paths0"] = paths(g)
		res["paths1"] = paths(r1)
		found := A{}
		for _, a := range labels {
			n, e := g.GetNodeByLabel(a)
			if e != nil {
				found = append(found, A{})
			} else {
				found = append(found, A{encStr(n.Label()), int(n.NodeType())})
			}
		}
		res["lookup"] = found
		ct, rt := g.GetCycles().VerifFlags()
		res["cycles"] = A{ct, rt}
		res["model_unchanged"] = proto.Equal(before, m)
		return res, nil
	})
}

package main

import (
	"bytes"
	"encoding/json"
	"fmt"
	"math/rand"
	"sort"
	"sync"

	openfgav1 "github.com/openfga/api/proto/openfga/v1"
	"google.golang.org/protobuf/encoding/protojson"
	"google.golang.org/protobuf/proto"

	"github.com/openfga/language/pkg/go/graph"
	"github.com/openfga/language/pkg/go/transformer"
)

// shuffleJSON re-encodes a JSON document with the keys of every object in a random order.
func shuffleJSON(bs []byte, rng *rand.Rand) ([]byte, error) {
	dec := json.NewDecoder(bytes.NewReader(bs))
	dec.UseNumber()
	var v any
	if err := dec.Decode(&v); err != nil {
		return nil, err
	}
	var buf bytes.Buffer
	var enc func(x any) error
	enc = func(x any) error {
		switch t := x.(type) {
		case map[string]any:
			keys := make([]string, 0, len(t))
			for k := range t {
				keys = append(keys, k)
			}
			sort.Strings(keys)
			rng.Shuffle(len(keys), func(i, j int) { keys[i], keys[j] = keys[j], keys[i] })
			buf.WriteByte('{')
			for i, k := range keys {
				if i > 0 {
					buf.WriteByte(',')
				}
				kb, _ := json.Marshal(k)
				buf.Write(kb)
				buf.WriteByte(':')
				if err := enc(t[k]); err != nil {
					return err
				}
			}
			buf.WriteByte('}')
		case []any:
			buf.WriteByte('[')
			for i, y := range t {
				if i > 0 {
					buf.WriteByte(',')
				}
				if err := enc(y); err != nil {
					return err
				}
			}
			buf.WriteByte(']')
		default:
			b, err := json.Marshal(t)
			if err != nil {
				return err
			}
			buf.Write(b)
		}
		return nil
	}
	if err := enc(v); err != nil {
		return nil, err
	}
	return buf.Bytes(), nil
}

func init() {
	// C14: the same model as JSON with shuffled object keys, several times
	register("print_shuffled", func(req json.RawMessage) (any, error) {
		var q struct {
			M    any   `json:"m"`
			Src  bool  `json:"src"`
			N    int   `json:"n"`
			Seed int64 `json:"seed"`
		}
		if err := json.Unmarshal(req, &q); err != nil {
			return nil, err
		}
		m, err := decModel(q.M)
		if err != nil {
			return nil, err
		}
		bs, merr := protojson.Marshal(m)
		if merr != nil {
			return map[string]any{"marshal_err": encStr(merr.Error())}, nil
		}
		rng := rand.New(rand.NewSource(q.Seed))
		outs := A{}
		for i := 0; i < q.N; i++ {
			sb, e := shuffleJSON(bs, rng)
			if e != nil {
				return nil, e
			}
			p, e2 := transformer.TransformJSONStringToDSL(string(sb), transformer.WithIncludeSourceInformation(q.Src))
			if e2 != nil {
				outs = append(outs, A{0, encStr(e2.Error())})
			} else {
				outs = append(outs, A{1, encStr(*p)})
			}
		}
		return map[string]any{"outs": outs}, nil
	})

	// C13: one shared read-only model used from many goroutines at once
	register("shared", func(req json.RawMessage) (any, error) {
		var q struct {
			M       any  `json:"m"`
			Workers int  `json:"workers"`
			Rounds  int  `json:"rounds"`
			NoWG    bool `json:"nowg"` // leave the weighted graph out (models whose verdict depends on map order: K-WG-cycles)
		}
		if err := json.Unmarshal(req, &q); err != nil {
			return nil, err
		}
		m, err := decModel(q.M)
		if err != nil {
			return nil, err
		}
		before := proto.Clone(m).(*openfgav1.AuthorizationModel)
		one := func() string {
			t1, e1 := transformer.TransformJSONProtoToDSL(m)
			t2, e2 := transformer.TransformJSONProtoToDSL(m, transformer.WithIncludeSourceInformation(true))
			s := fmt.Sprintf("%v|%q|%v|%q|", e1, t1, e2, t2)
			wg, e3 := graph.NewWeightedAuthorizationModelGraphBuilder().Build(m)
			if q.NoWG {
				s += "wskip" // built (for the race detector and the frame) but not compared
			} else if e3 != nil {
				s += "werr" // the verdict only: the error class may depend on the traversal order
			} else {
				b, _ := json.Marshal(encWGraph(wg, m))
				s += string(b)
			}
			pg, e4 := graph.NewAuthorizationModelGraph(m)
			if e4 == nil {
				s += "|" + pg.GetDOT()
			}
			return s
		}
		seq := one()
		results := make([]string, q.Workers*q.Rounds)
		var w sync.WaitGroup
		for i := 0; i < q.Workers; i++ {
			w.Add(1)
			go func(i int) {
				defer w.Done()
				for r := 0; r < q.Rounds; r++ {
					results[i*q.Rounds+r] = one()
				}
			}(i)
		}
		w.Wait()
		differ := 0
		snippet := ""
		for _, r := range results {
			if r != seq {
				differ++
				if snippet == "" {
					k := 0
					for k < len(r) && k < len(seq) && r[k] == seq[k] {
						k++
					}
					lo := k - 120
					if lo < 0 {
						lo = 0
					}
					hi := k + 120
					a, b := seq, r
					if hi > len(a) {
						a = a + ""
					}
					snippet = fmt.Sprintf("sequential: ...%s... concurrent: ...%s...", clip(a, lo, hi), clip(b, lo, hi))
				}
			}
		}
		return map[string]any{"differ": differ, "calls": len(results), "unchanged": proto.Equal(before, m), "first_difference": snippet}, nil
	})
}

func clip(s string, lo, hi int) string {
	if hi > len(s) {
		hi = len(s)
	}
	if lo > hi {
		lo = hi
	}
	return s[lo:hi]
}

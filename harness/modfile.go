package main

import (
	"encoding/json"
	"errors"

	"gopkg.in/yaml.v3"

	"github.com/openfga/language/pkg/go/transformer"
)

func encBytes(s string) any {
	out := make(A, 0, len(s))
	for i := 0; i < len(s); i++ {
		out = append(out, int(s[i]))
	}
	return out
}

func bytesToString(b []int) string {
	bs := make([]byte, len(b))
	for i, c := range b {
		bs[i] = byte(c)
	}
	return string(bs)
}

func encYNode(n *yaml.Node) any {
	if n.IsZero() {
		return A{}
	}
	items := A{}
	for _, c := range n.Content {
		items = append(items, A{encBytes(c.Tag), encBytes(c.Value), c.Line, c.Column})
	}
	return A{A{encBytes(n.Tag), encBytes(n.Value), n.Line, n.Column, items}}
}

func init() {
	// TransformModFile on raw bytes, together with the abstract YAML view the model takes as input
	register("modfile", func(req json.RawMessage) (any, error) {
		var q struct {
			D []int `json:"d"`
		}
		if err := json.Unmarshal(req, &q); err != nil {
			return nil, err
		}
		data := bytesToString(q.D)
		res := map[string]any{}
		y := &transformer.YAMLModFile{}
		yerr := yaml.Unmarshal([]byte(data), y)
		res["yaml_err"] = yerr != nil
		if yerr == nil {
			res["schema"] = encYNode(&y.Schema)
			res["contents"] = encYNode(&y.Contents)
		}
		mf, err := transformer.TransformModFile(data)
		if err != nil {
			var me *transformer.ModFileValidationMultipleError
			if errors.As(err, &me) {
				es := A{}
				for _, e := range me.Errors {
					var ve *transformer.ModFileValidationError
					if errors.As(e, &ve) {
						es = append(es, A{ve.Line, ve.Column, encBytes(ve.Msg)})
					} else {
						es = append(es, A{-1, -1, encBytes(e.Error())})
					}
				}
				res["result"] = map[string]any{"ok": 0, "errs": es, "has_file": mf != nil}
			} else {
				res["result"] = map[string]any{"ok": 0, "other": encBytes(err.Error()), "has_file": mf != nil}
			}
			return res, nil
		}
		cs := A{}
		for _, p := range mf.Contents.Value {
			cs = append(cs, A{encBytes(p.Value), p.Line, p.Column})
		}
		res["result"] = map[string]any{"ok": 1,
			"schema":   A{encBytes(mf.Schema.Value), mf.Schema.Line, mf.Schema.Column},
			"contents": cs, "cl": mf.Contents.Line, "cc": mf.Contents.Column}
		return res, nil
	})
}

package main

import (
	"encoding/json"
	"regexp"
	"strconv"

	"github.com/antlr4-go/antlr/v4"
	"github.com/hashicorp/go-multierror"
	openfgav1 "github.com/openfga/api/proto/openfga/v1"
	"google.golang.org/protobuf/encoding/protojson"
	"google.golang.org/protobuf/proto"

	parser "github.com/openfga/language/pkg/go/gen"
	"github.com/openfga/language/pkg/go/transformer"
	"github.com/openfga/language/pkg/go/utils"
)

var syntaxErrRe = regexp.MustCompile(`(?s)^syntax error at line=(-?\d+), column=(-?\d+): (.*)$`)

// encErrors flattens an error returned by the transformer into [[line, column, message]...];
// an error that is not a syntax error is reported as [-1, -1, text].
func encErrors(err error) any {
	out := A{}
	var items []error
	if me, ok := err.(*multierror.Error); ok {
		items = me.Errors
	} else {
		items = []error{err}
	}
	for _, e := range items {
		m := syntaxErrRe.FindStringSubmatch(e.Error())
		if m == nil {
			out = append(out, A{-1, -1, encStr(e.Error())})
			continue
		}
		l, _ := strconv.Atoi(m[1])
		c, _ := strconv.Atoi(m[2])
		out = append(out, A{l, c, encStr(m[3])})
	}
	return out
}

func cleanForLexer(data string) string {
	// the pre-pass is private to ParseDSL; the harness observes it through the token stream of
	// the public lexer run on the same cleaned text the model computes (sent by the orchestrator)
	return data
}

func init() {
	// tokens of the generated lexer on a given (already cleaned) text
	register("lex", func(req json.RawMessage) (any, error) {
		var q struct {
			D []int `json:"d"`
		}
		if err := json.Unmarshal(req, &q); err != nil {
			return nil, err
		}
		lx := parser.NewOpenFGALexer(antlr.NewInputStream(cpsToString(q.D)))
		lx.RemoveErrorListeners()
		el := &countingListener{}
		lx.AddErrorListener(el)
		toks := A{}
		for {
			t := lx.NextToken()
			if t.GetTokenType() == antlr.TokenEOF {
				break
			}
			name := ""
			if tt := t.GetTokenType(); tt > 0 && tt < len(lx.SymbolicNames) {
				name = lx.SymbolicNames[tt]
			}
			toks = append(toks, A{name, encStr(t.GetText()), t.GetLine(), t.GetColumn(), t.GetChannel()})
		}
		return map[string]any{"tokens": toks, "errors": el.errs}, nil
	})

	register("dsl", func(req json.RawMessage) (any, error) {
		var q struct {
			D       []int `json:"d"`
			Modular bool  `json:"modular"`
		}
		if err := json.Unmarshal(req, &q); err != nil {
			return nil, err
		}
		d := cpsToString(q.D)
		var m *openfgav1.AuthorizationModel
		var exts map[string]*openfgav1.TypeDefinition
		var err error
		if q.Modular {
			m, exts, err = transformer.TransformModularDSLToProto(d)
		} else {
			m, err = transformer.TransformDSLToProto(d)
		}
		if err != nil {
			return map[string]any{"ok": 0, "errs": encErrors(err), "has_model": m != nil}, nil
		}
		ex := A{}
		for _, k := range sortedKeys(exts) {
			ex = append(ex, A{encStr(k), encTypeDef(exts[k])})
		}
		return map[string]any{"ok": 1, "model": encModel(m), "exts": ex, "exts_nil": exts == nil}, nil
	})

	register("print", func(req json.RawMessage) (any, error) {
		var q struct {
			M   any    `json:"m"`
			Src bool   `json:"src"`
			Via string `json:"via"`
		}
		if err := json.Unmarshal(req, &q); err != nil {
			return nil, err
		}
		m, err := decModel(q.M)
		if err != nil {
			return nil, err
		}
		before := proto.Clone(m).(*openfgav1.AuthorizationModel)
		var text string
		var perr error
		if q.Via == "json" {
			bs, merr := protojson.Marshal(m)
			if merr != nil {
				return map[string]any{"ok": 0, "err": encStr("marshal: " + merr.Error())}, nil
			}
			p, e := transformer.TransformJSONStringToDSL(string(bs), transformer.WithIncludeSourceInformation(q.Src))
			perr = e
			if p != nil {
				text = *p
			}
		} else {
			text, perr = transformer.TransformJSONProtoToDSL(m, transformer.WithIncludeSourceInformation(q.Src))
		}
		res := map[string]any{"after": encTypeDefs(m.GetTypeDefinitions()), "unchanged": proto.Equal(before, m)}
		if perr != nil {
			res["ok"] = 0
			res["err"] = encStr(perr.Error())
		} else {
			res["ok"] = 1
			res["text"] = encStr(text)
		}
		return res, nil
	})

	// C02: utils.IsRelationAssignable for every relation of a model: [[type, relation, 0|1]...] in type order, relations by name
	register("assignable", func(req json.RawMessage) (any, error) {
		var q struct {
			M any `json:"m"`
		}
		if err := json.Unmarshal(req, &q); err != nil {
			return nil, err
		}
		m, err := decModel(q.M)
		if err != nil {
			return nil, err
		}
		out := A{}
		for _, td := range m.GetTypeDefinitions() {
			for _, r := range sortedKeys(td.GetRelations()) {
				v := 0
				if utils.IsRelationAssignable(td.GetRelations()[r]) {
					v = 1
				}
				out = append(out, A{encStr(td.GetType()), encStr(r), v})
			}
		}
		return map[string]any{"rels": out}, nil
	})

	// C01: the composition DSL -> model -> DSL -> model -> DSL -> model -> DSL inside one process,
	// through the JSON string API ("json") or handing the in-memory model to the printer ("direct")
	register("rt", func(req json.RawMessage) (any, error) {
		var q struct {
			D   []int  `json:"d"`
			Via string `json:"via"`
		}
		if err := json.Unmarshal(req, &q); err != nil {
			return nil, err
		}
		d := cpsToString(q.D)
		steps := A{}
		res := map[string]any{}
		cur := d
		for i := 0; i < 3; i++ {
			var m *openfgav1.AuthorizationModel
			var err error
			var text string
			if q.Via == "json" {
				js, e := transformer.TransformDSLToJSON(cur)
				if e != nil {
					res["fail"] = A{i, "parse", encStr(e.Error())}
					break
				}
				m, err = transformer.LoadJSONStringToProto(js)
				if err != nil {
					res["fail"] = A{i, "load", encStr(err.Error())}
					break
				}
				p, e2 := transformer.TransformJSONStringToDSL(js)
				if e2 != nil {
					steps = append(steps, A{encModel(m)})
					res["fail"] = A{i, "print", encStr(e2.Error())}
					break
				}
				text = *p
			} else {
				m, err = transformer.TransformDSLToProto(cur)
				if err != nil {
					res["fail"] = A{i, "parse", encStr(err.Error())}
					break
				}
				text, err = transformer.TransformJSONProtoToDSL(m)
				if err != nil {
					steps = append(steps, A{encModel(m)})
					res["fail"] = A{i, "print", encStr(err.Error())}
					break
				}
			}
			steps = append(steps, A{encModel(m), encStr(text)})
			cur = text
		}
		res["steps"] = steps
		return res, nil
	})
}

type countingListener struct {
	*antlr.DefaultErrorListener
	errs []any
}

func (c *countingListener) SyntaxError(_ antlr.Recognizer, _ interface{}, line, column int, msg string, _ antlr.RecognitionException) {
	c.errs = append(c.errs, A{line, column, encStr(msg)})
}

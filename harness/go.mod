module verifharness

go 1.23.0

require (
	github.com/antlr4-go/antlr/v4 v4.13.1
	github.com/hashicorp/go-multierror v1.1.1
	github.com/openfga/api/proto v0.0.0-20250127102726-f9709139a369
	github.com/openfga/language/pkg/go v0.0.0
	gonum.org/v1/gonum v0.16.0
	google.golang.org/protobuf v1.36.6
	gopkg.in/yaml.v3 v3.0.1
)

require (
	github.com/envoyproxy/protoc-gen-validate v1.2.1 // indirect
	github.com/grpc-ecosystem/grpc-gateway/v2 v2.26.3 // indirect
	github.com/hashicorp/errwrap v1.1.0 // indirect
	github.com/oklog/ulid/v2 v2.1.0 // indirect
	golang.org/x/exp v0.0.0-20250305212735-054e65f0b394 // indirect
	golang.org/x/net v0.37.0 // indirect
	golang.org/x/sys v0.31.0 // indirect
	golang.org/x/text v0.23.0 // indirect
	google.golang.org/genproto/googleapis/api v0.0.0-20250311190419-81fb87f6b8bf // indirect
	google.golang.org/genproto/googleapis/rpc v0.0.0-20250311190419-81fb87f6b8bf // indirect
	google.golang.org/grpc v1.71.0 // indirect
)

replace github.com/openfga/language/pkg/go => /repo/pkg/go

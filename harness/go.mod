module verifharness

go 1.23.0

require github.com/openfga/language/pkg/go v0.0.0

replace github.com/openfga/language/pkg/go => /repo/pkg/go

package main

import (
	"encoding/json"
	"errors"
	"reflect"
	"sort"

	openfgav1 "github.com/openfga/api/proto/openfga/v1"

	"github.com/openfga/language/pkg/go/transformer"
	"github.com/openfga/language/pkg/go/utils"
)

func fileFieldOf(e error) string {
	v := reflect.ValueOf(e)
	for v.Kind() == reflect.Ptr || v.Kind() == reflect.Interface {
		if v.IsNil() {
			return ""
		}
		v = v.Elem()
	}
	if v.Kind() != reflect.Struct {
		return ""
	}
	f := v.FieldByName("File")
	if !f.IsValid() || f.Kind() != reflect.String {
		return ""
	}
	return f.String()
}

func encMergeResult(m *openfgav1.AuthorizationModel, err error) map[string]any {
	if err != nil {
		es := A{}
		var me *transformer.ModuleValidationMultipleError
		if errors.As(err, &me) {
			for _, e := range me.Errors {
				var se *transformer.ModuleTransformationSingleError
				if errors.As(e, &se) {
					es = append(es, A{1, encStr(se.Msg), encStr(se.File), se.Line.Start, se.Line.End, se.Column.Start, se.Column.End})
				} else {
					// a DSL syntax error of one of the files; the name of that file, if the error type has such a field
					// (read by reflection, so that this harness also builds against a tree without it)
					es = append(es, A{0, encStr(e.Error()), encStr(fileFieldOf(e))})
				}
			}
		} else {
			es = append(es, A{2, encStr(err.Error())})
		}
		return map[string]any{"ok": 0, "errs": es, "has_model": m != nil}
	}
	mods := A{}
	for _, td := range m.GetTypeDefinitions() {
		rels := A{}
		names := make([]string, 0)
		for k := range td.GetRelations() {
			names = append(names, k)
		}
		sort.Strings(names)
		for _, k := range names {
			mod, e := utils.GetModuleForObjectTypeRelation(td, k)
			if e != nil {
				rels = append(rels, A{encStr(k), A{}})
			} else {
				rels = append(rels, A{encStr(k), A{encStr(mod)}})
			}
		}
		mods = append(mods, A{encStr(td.GetType()), rels})
	}
	return map[string]any{"ok": 1, "model": encModel(m), "modules": mods}
}

func init() {
	register("merge", func(req json.RawMessage) (any, error) {
		var q struct {
			Files  [][2][]int `json:"files"`
			Schema []int      `json:"schema"`
			Repeat int        `json:"repeat"`
		}
		if err := json.Unmarshal(req, &q); err != nil {
			return nil, err
		}
		if q.Repeat < 1 {
			q.Repeat = 1
		}
		runs := A{}
		unchanged := true
		for i := 0; i < q.Repeat; i++ {
			files := make([]transformer.ModuleFile, len(q.Files))
			for k, f := range q.Files {
				files[k] = transformer.ModuleFile{Name: cpsToString(f[0]), Contents: cpsToString(f[1])}
			}
			before := append([]transformer.ModuleFile(nil), files...)
			m, err := transformer.TransformModuleFilesToModel(files, cpsToString(q.Schema))
			for k := range files {
				if files[k] != before[k] {
					unchanged = false
				}
			}
			runs = append(runs, encMergeResult(m, err))
		}
		return map[string]any{"runs": runs, "files_unchanged": unchanged}, nil
	})
}

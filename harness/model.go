package main

// Conversion between openfgav1.AuthorizationModel and the framework's wire shape (nested JSON
// arrays of integers, DESIGN.md Appendix D; the same shapes as coq/Model/WireModel.v).
// Maps are emitted sorted by key.

import (
	"fmt"
	"sort"

	openfgav1 "github.com/openfga/api/proto/openfga/v1"
)

type A = []any

func encStr(s string) any {
	out := make(A, 0, len(s))
	for _, r := range s {
		out = append(out, int(r))
	}
	return out
}

func decStr(x any) (string, error) {
	l, ok := x.([]any)
	if !ok {
		return "", fmt.Errorf("string: not a list")
	}
	rs := make([]rune, len(l))
	for i, v := range l {
		f, ok := v.(float64)
		if !ok {
			return "", fmt.Errorf("string: not a number")
		}
		rs[i] = rune(int(f))
	}
	return string(rs), nil
}

func encOptStr(present bool, s string) any {
	if !present {
		return A{}
	}
	return A{encStr(s)}
}

func encUserset(u *openfgav1.Userset) any {
	if u == nil {
		return A{0}
	}
	switch v := u.GetUserset().(type) {
	case *openfgav1.Userset_This:
		if v.This == nil {
			return A{1, 0}
		}
		return A{1, 1}
	case *openfgav1.Userset_ComputedUserset:
		return A{2, encStr(v.ComputedUserset.GetRelation())}
	case *openfgav1.Userset_TupleToUserset:
		return A{3, encStr(v.TupleToUserset.GetTupleset().GetRelation()), encStr(v.TupleToUserset.GetComputedUserset().GetRelation())}
	case *openfgav1.Userset_Union:
		out := A{4}
		for _, c := range v.Union.GetChild() {
			out = append(out, encUserset(c))
		}
		return out
	case *openfgav1.Userset_Intersection:
		out := A{5}
		for _, c := range v.Intersection.GetChild() {
			out = append(out, encUserset(c))
		}
		return out
	case *openfgav1.Userset_Difference:
		return A{6, encUserset(v.Difference.GetBase()), encUserset(v.Difference.GetSubtract())}
	}
	return A{0}
}

func encRef(r *openfgav1.RelationReference) any {
	var kind any = A{0}
	switch v := r.GetRelationOrWildcard().(type) {
	case *openfgav1.RelationReference_Relation:
		kind = A{1, encStr(v.Relation)}
	case *openfgav1.RelationReference_Wildcard:
		kind = A{2}
	}
	return A{encStr(r.GetType()), kind, encStr(r.GetCondition())}
}

func encRefs(rs []*openfgav1.RelationReference) any {
	out := A{}
	for _, r := range rs {
		out = append(out, encRef(r))
	}
	return out
}

func encRelMeta(m *openfgav1.RelationMetadata) any {
	return A{encRefs(m.GetDirectlyRelatedUserTypes()), encStr(m.GetModule()),
		encOptStr(m.GetSourceInfo() != nil, m.GetSourceInfo().GetFile())}
}

func sortedKeys[V any](m map[string]V) []string {
	ks := make([]string, 0, len(m))
	for k := range m {
		ks = append(ks, k)
	}
	sort.Strings(ks)
	return ks
}

func encTypeDef(t *openfgav1.TypeDefinition) any {
	rels := A{}
	for _, k := range sortedKeys(t.GetRelations()) {
		rels = append(rels, A{encStr(k), encUserset(t.GetRelations()[k])})
	}
	var meta any = A{}
	if md := t.GetMetadata(); md != nil {
		rm := A{}
		for _, k := range sortedKeys(md.GetRelations()) {
			rm = append(rm, A{encStr(k), encRelMeta(md.GetRelations()[k])})
		}
		meta = A{A{rm, encStr(md.GetModule()), encOptStr(md.GetSourceInfo() != nil, md.GetSourceInfo().GetFile())}}
	}
	return A{encStr(t.GetType()), rels, meta}
}

func encTypeDefs(ts []*openfgav1.TypeDefinition) any {
	out := A{}
	for _, t := range ts {
		out = append(out, encTypeDef(t))
	}
	return out
}

func encPType(p *openfgav1.ConditionParamTypeRef) any {
	out := A{int(p.GetTypeName())}
	for _, g := range p.GetGenericTypes() {
		out = append(out, encPType(g))
	}
	return out
}

func encCondition(c *openfgav1.Condition) any {
	ps := A{}
	for _, k := range sortedKeys(c.GetParameters()) {
		ps = append(ps, A{encStr(k), encPType(c.GetParameters()[k])})
	}
	var meta any = A{}
	if md := c.GetMetadata(); md != nil {
		meta = A{A{encStr(md.GetModule()), encOptStr(md.GetSourceInfo() != nil, md.GetSourceInfo().GetFile())}}
	}
	return A{encStr(c.GetName()), encStr(c.GetExpression()), ps, meta}
}

func encModel(m *openfgav1.AuthorizationModel) any {
	cs := A{}
	for _, k := range sortedKeys(m.GetConditions()) {
		cs = append(cs, A{encStr(k), encCondition(m.GetConditions()[k])})
	}
	return A{encStr(m.GetSchemaVersion()), encTypeDefs(m.GetTypeDefinitions()), cs}
}

// ---- decoding ----

func asList(x any, what string) ([]any, error) {
	l, ok := x.([]any)
	if !ok {
		return nil, fmt.Errorf("%s: not a list", what)
	}
	return l, nil
}

func asInt(x any) (int, bool) {
	f, ok := x.(float64)
	return int(f), ok
}

func decUserset(x any) (*openfgav1.Userset, error) {
	l, err := asList(x, "userset")
	if err != nil || len(l) == 0 {
		return nil, fmt.Errorf("userset: bad shape")
	}
	tag, _ := asInt(l[0])
	switch tag {
	case 0:
		return &openfgav1.Userset{}, nil
	case 1:
		r, _ := asInt(l[1])
		if r == 0 {
			return &openfgav1.Userset{Userset: &openfgav1.Userset_This{}}, nil
		}
		return &openfgav1.Userset{Userset: &openfgav1.Userset_This{This: &openfgav1.DirectUserset{}}}, nil
	case 2:
		s, err := decStr(l[1])
		if err != nil {
			return nil, err
		}
		return &openfgav1.Userset{Userset: &openfgav1.Userset_ComputedUserset{ComputedUserset: &openfgav1.ObjectRelation{Relation: s}}}, nil
	case 3:
		t, err := decStr(l[1])
		if err != nil {
			return nil, err
		}
		c, err := decStr(l[2])
		if err != nil {
			return nil, err
		}
		return &openfgav1.Userset{Userset: &openfgav1.Userset_TupleToUserset{TupleToUserset: &openfgav1.TupleToUserset{
			Tupleset: &openfgav1.ObjectRelation{Relation: t}, ComputedUserset: &openfgav1.ObjectRelation{Relation: c}}}}, nil
	case 4, 5:
		cs := []*openfgav1.Userset{}
		for _, y := range l[1:] {
			c, err := decUserset(y)
			if err != nil {
				return nil, err
			}
			cs = append(cs, c)
		}
		if tag == 4 {
			return &openfgav1.Userset{Userset: &openfgav1.Userset_Union{Union: &openfgav1.Usersets{Child: cs}}}, nil
		}
		return &openfgav1.Userset{Userset: &openfgav1.Userset_Intersection{Intersection: &openfgav1.Usersets{Child: cs}}}, nil
	case 6:
		b, err := decUserset(l[1])
		if err != nil {
			return nil, err
		}
		s, err := decUserset(l[2])
		if err != nil {
			return nil, err
		}
		return &openfgav1.Userset{Userset: &openfgav1.Userset_Difference{Difference: &openfgav1.Difference{Base: b, Subtract: s}}}, nil
	}
	return nil, fmt.Errorf("userset: bad tag %d", tag)
}

func decRef(x any) (*openfgav1.RelationReference, error) {
	l, err := asList(x, "ref")
	if err != nil || len(l) != 3 {
		return nil, fmt.Errorf("ref: bad shape")
	}
	t, err := decStr(l[0])
	if err != nil {
		return nil, err
	}
	c, err := decStr(l[2])
	if err != nil {
		return nil, err
	}
	r := &openfgav1.RelationReference{Type: t, Condition: c}
	k, err := asList(l[1], "ref kind")
	if err != nil || len(k) == 0 {
		return nil, fmt.Errorf("ref kind: bad shape")
	}
	tag, _ := asInt(k[0])
	switch tag {
	case 1:
		rel, err := decStr(k[1])
		if err != nil {
			return nil, err
		}
		r.RelationOrWildcard = &openfgav1.RelationReference_Relation{Relation: rel}
	case 2:
		r.RelationOrWildcard = &openfgav1.RelationReference_Wildcard{Wildcard: &openfgav1.Wildcard{}}
	}
	return r, nil
}

func decOptStr(x any) (bool, string, error) {
	l, err := asList(x, "opt")
	if err != nil {
		return false, "", err
	}
	if len(l) == 0 {
		return false, "", nil
	}
	s, err := decStr(l[0])
	return true, s, err
}

func decRelMeta(x any) (*openfgav1.RelationMetadata, error) {
	l, err := asList(x, "relmeta")
	if err != nil || len(l) != 3 {
		return nil, fmt.Errorf("relmeta: bad shape")
	}
	rs, err := asList(l[0], "refs")
	if err != nil {
		return nil, err
	}
	m := &openfgav1.RelationMetadata{DirectlyRelatedUserTypes: []*openfgav1.RelationReference{}}
	for _, y := range rs {
		r, err := decRef(y)
		if err != nil {
			return nil, err
		}
		m.DirectlyRelatedUserTypes = append(m.DirectlyRelatedUserTypes, r)
	}
	if m.Module, err = decStr(l[1]); err != nil {
		return nil, err
	}
	ok, f, err := decOptStr(l[2])
	if err != nil {
		return nil, err
	}
	if ok {
		m.SourceInfo = &openfgav1.SourceInfo{File: f}
	}
	return m, nil
}

func decTypeDef(x any) (*openfgav1.TypeDefinition, error) {
	l, err := asList(x, "typedef")
	if err != nil || len(l) != 3 {
		return nil, fmt.Errorf("typedef: bad shape")
	}
	t := &openfgav1.TypeDefinition{}
	if t.Type, err = decStr(l[0]); err != nil {
		return nil, err
	}
	rels, err := asList(l[1], "rels")
	if err != nil {
		return nil, err
	}
	if len(rels) > 0 {
		t.Relations = map[string]*openfgav1.Userset{}
	}
	for _, y := range rels {
		p, err := asList(y, "rel")
		if err != nil || len(p) != 2 {
			return nil, fmt.Errorf("rel: bad shape")
		}
		k, err := decStr(p[0])
		if err != nil {
			return nil, err
		}
		u, err := decUserset(p[1])
		if err != nil {
			return nil, err
		}
		t.Relations[k] = u
	}
	mo, err := asList(l[2], "meta opt")
	if err != nil {
		return nil, err
	}
	if len(mo) == 1 {
		ml, err := asList(mo[0], "meta")
		if err != nil || len(ml) != 3 {
			return nil, fmt.Errorf("meta: bad shape")
		}
		md := &openfgav1.Metadata{}
		rm, err := asList(ml[0], "relmetas")
		if err != nil {
			return nil, err
		}
		if len(rm) > 0 {
			md.Relations = map[string]*openfgav1.RelationMetadata{}
		}
		for _, y := range rm {
			p, err := asList(y, "relmeta pair")
			if err != nil || len(p) != 2 {
				return nil, fmt.Errorf("relmeta pair: bad shape")
			}
			k, err := decStr(p[0])
			if err != nil {
				return nil, err
			}
			v, err := decRelMeta(p[1])
			if err != nil {
				return nil, err
			}
			md.Relations[k] = v
		}
		if md.Module, err = decStr(ml[1]); err != nil {
			return nil, err
		}
		ok, f, err := decOptStr(ml[2])
		if err != nil {
			return nil, err
		}
		if ok {
			md.SourceInfo = &openfgav1.SourceInfo{File: f}
		}
		t.Metadata = md
	}
	return t, nil
}

func decPType(x any) (*openfgav1.ConditionParamTypeRef, error) {
	l, err := asList(x, "ptype")
	if err != nil || len(l) == 0 {
		return nil, fmt.Errorf("ptype: bad shape")
	}
	n, _ := asInt(l[0])
	p := &openfgav1.ConditionParamTypeRef{TypeName: openfgav1.ConditionParamTypeRef_TypeName(n)}
	for _, y := range l[1:] {
		g, err := decPType(y)
		if err != nil {
			return nil, err
		}
		p.GenericTypes = append(p.GenericTypes, g)
	}
	return p, nil
}

func decCondition(x any) (*openfgav1.Condition, error) {
	l, err := asList(x, "condition")
	if err != nil || len(l) != 4 {
		return nil, fmt.Errorf("condition: bad shape")
	}
	c := &openfgav1.Condition{}
	if c.Name, err = decStr(l[0]); err != nil {
		return nil, err
	}
	if c.Expression, err = decStr(l[1]); err != nil {
		return nil, err
	}
	ps, err := asList(l[2], "params")
	if err != nil {
		return nil, err
	}
	if len(ps) > 0 {
		c.Parameters = map[string]*openfgav1.ConditionParamTypeRef{}
	}
	for _, y := range ps {
		p, err := asList(y, "param")
		if err != nil || len(p) != 2 {
			return nil, fmt.Errorf("param: bad shape")
		}
		k, err := decStr(p[0])
		if err != nil {
			return nil, err
		}
		v, err := decPType(p[1])
		if err != nil {
			return nil, err
		}
		c.Parameters[k] = v
	}
	mo, err := asList(l[3], "cond meta opt")
	if err != nil {
		return nil, err
	}
	if len(mo) == 1 {
		ml, err := asList(mo[0], "cond meta")
		if err != nil || len(ml) != 2 {
			return nil, fmt.Errorf("cond meta: bad shape")
		}
		md := &openfgav1.ConditionMetadata{}
		if md.Module, err = decStr(ml[0]); err != nil {
			return nil, err
		}
		ok, f, err := decOptStr(ml[1])
		if err != nil {
			return nil, err
		}
		if ok {
			md.SourceInfo = &openfgav1.SourceInfo{File: f}
		}
		c.Metadata = md
	}
	return c, nil
}

func decModel(x any) (*openfgav1.AuthorizationModel, error) {
	l, err := asList(x, "model")
	if err != nil || len(l) != 3 {
		return nil, fmt.Errorf("model: bad shape")
	}
	m := &openfgav1.AuthorizationModel{}
	if m.SchemaVersion, err = decStr(l[0]); err != nil {
		return nil, err
	}
	ts, err := asList(l[1], "types")
	if err != nil {
		return nil, err
	}
	for _, y := range ts {
		t, err := decTypeDef(y)
		if err != nil {
			return nil, err
		}
		m.TypeDefinitions = append(m.TypeDefinitions, t)
	}
	cs, err := asList(l[2], "conds")
	if err != nil {
		return nil, err
	}
	if len(cs) > 0 {
		m.Conditions = map[string]*openfgav1.Condition{}
	}
	for _, y := range cs {
		p, err := asList(y, "cond pair")
		if err != nil || len(p) != 2 {
			return nil, fmt.Errorf("cond pair: bad shape")
		}
		k, err := decStr(p[0])
		if err != nil {
			return nil, err
		}
		c, err := decCondition(p[1])
		if err != nil {
			return nil, err
		}
		m.Conditions[k] = c
	}
	return m, nil
}

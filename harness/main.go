// Command harness runs operations of /repo's Go packages on request lines (JSON, one per line)
// and prints one JSON result per line, in input order.  Every call runs under recover() and a
// deadline, so PANIC and TIMEOUT are observables like any other.
package main

import (
	"bufio"
	"encoding/json"
	"flag"
	"fmt"
	"os"
	"runtime/debug"
	"sync"
	"time"
)

type handler func(req json.RawMessage) (any, error)

var handlers = map[string]handler{}

func register(op string, h handler) { handlers[op] = h }

type envelope struct {
	Op string `json:"op"`
}

type result struct {
	R       any    `json:"r,omitempty"`
	Panic   string `json:"panic,omitempty"`
	Stack   string `json:"stack,omitempty"`
	Timeout bool   `json:"timeout,omitempty"`
	Bad     string `json:"bad,omitempty"`
	Ms      int64  `json:"ms,omitempty"`
}

func runOne(line []byte, deadline time.Duration) result {
	var env envelope
	if err := json.Unmarshal(line, &env); err != nil {
		return result{Bad: "json: " + err.Error()}
	}
	h, ok := handlers[env.Op]
	if !ok {
		return result{Bad: "unknown op " + env.Op}
	}
	done := make(chan result, 1)
	start := time.Now()
	go func() {
		defer func() {
			if p := recover(); p != nil {
				done <- result{Panic: fmt.Sprint(p), Stack: string(debug.Stack())}
			}
		}()
		r, err := h(line)
		if err != nil {
			done <- result{Bad: err.Error()}
			return
		}
		done <- result{R: r}
	}()
	select {
	case r := <-done:
		r.Ms = time.Since(start).Milliseconds()
		return r
	case <-time.After(deadline):
		return result{Timeout: true, Ms: deadline.Milliseconds()}
	}
}

func main() {
	seq := flag.Bool("seq", false, "process requests strictly one after another (history-sensitive checks)")
	workers := flag.Int("workers", 16, "parallel workers in batch mode")
	deadlineMs := flag.Int("deadline-ms", 20000, "per-request deadline")
	flag.Parse()
	deadline := time.Duration(*deadlineMs) * time.Millisecond

	rd := bufio.NewReaderSize(os.Stdin, 1<<20)
	wr := bufio.NewWriterSize(os.Stdout, 1<<20)
	defer wr.Flush()
	enc := json.NewEncoder(wr)
	enc.SetEscapeHTML(false)

	var lines [][]byte
	for {
		line, err := rd.ReadBytes('\n')
		if len(line) > 0 {
			if *seq {
				_ = enc.Encode(runOne(line, deadline))
				wr.Flush()
			} else {
				lines = append(lines, line)
			}
		}
		if err != nil {
			break
		}
	}
	if *seq {
		return
	}
	results := make([]result, len(lines))
	var wg sync.WaitGroup
	ch := make(chan int, len(lines))
	for i := range lines {
		ch <- i
	}
	close(ch)
	for w := 0; w < *workers; w++ {
		wg.Add(1)
		go func() {
			defer wg.Done()
			for i := range ch {
				results[i] = runOne(lines[i], deadline)
			}
		}()
	}
	wg.Wait()
	for i := range results {
		_ = enc.Encode(results[i])
	}
}

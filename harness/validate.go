package main

import (
	"encoding/json"

	"github.com/openfga/language/pkg/go/validation"
)

// cps: a string is sent as its code points so that no JSON escaping question arises.
func cpsToString(cps []int) string {
	rs := make([]rune, len(cps))
	for i, c := range cps {
		rs[i] = rune(c)
	}
	return string(rs)
}

func init() {
	register("validate", func(req json.RawMessage) (any, error) {
		var q struct {
			S    []int `json:"s"`
			Only *int  `json:"only"`
		}
		if err := json.Unmarshal(req, &q); err != nil {
			return nil, err
		}
		s := cpsToString(q.S)
		if q.Only != nil {
			// one validator only (C13: the order in which the validators are first used in a process must not matter)
			fs := []func(string) bool{validation.ValidateObject, validation.ValidateObjectID, validation.ValidateRelation,
				validation.ValidateUserSet, validation.ValidateUserObject, validation.ValidateUserWildcard, validation.ValidateUser,
				validation.ValidateRelationshipCondition, validation.ValidateType}
			if *q.Only < 0 || *q.Only >= len(fs) {
				return nil, nil
			}
			if fs[*q.Only](s) {
				return []int{1}, nil
			}
			return []int{0}, nil
		}
		b := func(x bool) int {
			if x {
				return 1
			}
			return 0
		}
		// order = VALIDATORS in run/gen_coq.py = go_validators in Gen/Rules.v
		return []int{
			b(validation.ValidateObject(s)),
			b(validation.ValidateObjectID(s)),
			b(validation.ValidateRelation(s)),
			b(validation.ValidateUserSet(s)),
			b(validation.ValidateUserObject(s)),
			b(validation.ValidateUserWildcard(s)),
			b(validation.ValidateUser(s)),
			b(validation.ValidateRelationshipCondition(s)),
			b(validation.ValidateType(s)),
		}, nil
	})
}

package main

import (
	"encoding/json"
	"errors"
	"fmt"
	"sort"
	"strconv"
	"strings"
	"sync"

	openfgav1 "github.com/openfga/api/proto/openfga/v1"
	"google.golang.org/protobuf/proto"

	"github.com/openfga/language/pkg/go/graph"
)

// canonical names of operator nodes: "<operator>:<k>", k = creation order, recomputed structurally
// (types sorted, relations sorted, pre-order over the rewrite edges to operator nodes in edge order);
// ULIDs are not used: ulid.Make is not monotonic across goroutines
func canonNames(wg *graph.WeightedAuthorizationModelGraph, m *openfgav1.AuthorizationModel) (map[string]string, map[string]string) {
	fwd := map[string]string{}
	back := map[string]string{}
	k := 0
	var visit func(id string)
	visit = func(id string) {
		for _, e := range wg.GetEdges()[id] {
			to := e.GetTo()
			if to.GetNodeType() == graph.OperatorNode && e.GetEdgeType() == graph.RewriteEdge {
				tid := to.GetUniqueLabel()
				if _, seen := fwd[tid]; seen {
					continue
				}
				c := to.GetLabel() + ":" + strconv.Itoa(k)
				k++
				fwd[tid] = c
				back[c] = tid
				visit(tid)
			}
		}
	}
	tds := append([]*openfgav1.TypeDefinition(nil), m.GetTypeDefinitions()...)
	sort.SliceStable(tds, func(i, j int) bool { return tds[i].GetType() < tds[j].GetType() })
	for _, td := range tds {
		for _, r := range sortedKeys(td.GetRelations()) {
			visit(td.GetType() + "#" + r)
		}
	}
	return fwd, back
}

func cn(fwd map[string]string, id string) string {
	if c, ok := fwd[id]; ok {
		return c
	}
	return id
}

func encWeights(w map[string]int, fwd map[string]string) any {
	ks := sortedKeys(w)
	out := A{}
	for _, k := range ks {
		name := k
		if strings.HasPrefix(k, "R#") {
			name = "R#" + cn(fwd, k[2:])
		}
		out = append(out, A{encStr(name), w[k]})
	}
	sort.Slice(out, func(i, j int) bool { return cmpInts(out[i].(A)[0].(A), out[j].(A)[0].(A)) < 0 })
	return out
}

func cmpInts(a, b A) int {
	for i := 0; i < len(a) && i < len(b); i++ {
		x, y := a[i].(int), b[i].(int)
		if x != y {
			if x < y {
				return -1
			}
			return 1
		}
	}
	return len(a) - len(b)
}

func encStrs(xs []string) any {
	out := A{}
	for _, x := range xs {
		out = append(out, encStr(x))
	}
	return out
}

// nodes sorted by canonical id; edges grouped by source in that order, in edge-list order
func encWGraph(wg *graph.WeightedAuthorizationModelGraph, m *openfgav1.AuthorizationModel) any {
	fwd, _ := canonNames(wg, m)
	ids := []string{}
	for id := range wg.GetNodes() {
		ids = append(ids, id)
	}
	sort.Slice(ids, func(i, j int) bool { return cn(fwd, ids[i]) < cn(fwd, ids[j]) })
	nodes := A{}
	edges := A{}
	for _, id := range ids {
		n := wg.GetNodes()[id]
		nodes = append(nodes, A{encStr(cn(fwd, id)), encStr(n.GetLabel()), int(n.GetNodeType()), encWeights(n.GetWeights(), fwd), encStrs(n.GetWildcards())})
		for _, e := range wg.GetEdges()[id] {
			edges = append(edges, A{encStr(cn(fwd, e.GetFrom().GetUniqueLabel())), encStr(cn(fwd, e.GetTo().GetUniqueLabel())), int(e.GetEdgeType()),
				encStr(e.GetTuplesetRelation()), encStrs(e.GetConditions()), encWeights(e.GetWeights(), fwd), encStrs(e.GetWildcards())})
		}
	}
	return A{nodes, edges}
}

func errClass(err error) int {
	switch {
	case errors.Is(err, graph.ErrContrainstTupleCycle):
		return 3
	case errors.Is(err, graph.ErrTupleCycle):
		return 2
	case errors.Is(err, graph.ErrModelCycle):
		return 1
	case errors.Is(err, graph.ErrInvalidModel):
		return 0
	}
	return 9
}

func encGResult(wg *graph.WeightedAuthorizationModelGraph, err error, m *openfgav1.AuthorizationModel) any {
	if err != nil {
		return map[string]any{"ok": 0, "class": errClass(err), "msg": encStr(err.Error()), "has_graph": wg != nil}
	}
	return map[string]any{"ok": 1, "graph": encWGraph(wg, m)}
}

func init() {
	register("wgraph", func(req json.RawMessage) (any, error) {
		var q struct {
			M      any       `json:"m"`
			Orders [][][]int `json:"orders"`
			Repeat int       `json:"repeat"`
		}
		if err := json.Unmarshal(req, &q); err != nil {
			return nil, err
		}
		m, err := decModel(q.M)
		if err != nil {
			return nil, err
		}
		before := proto.Clone(m).(*openfgav1.AuthorizationModel)
		res := map[string]any{}
		b := graph.NewWeightedAuthorizationModelGraphBuilder()
		un, uerr := b.VerifBuildUnweighted(m)
		res["unweighted"] = encGResult(un, uerr, m)
		ordered := A{}
		if uerr == nil {
			for _, o := range q.Orders {
				wg, _ := graph.NewWeightedAuthorizationModelGraphBuilder().VerifBuildUnweighted(m)
				_, back := canonNames(wg, m)
				labels := make([]string, len(o))
				for i, l := range o {
					s := cpsToString(l)
					if a, ok := back[s]; ok {
						s = a
					}
					labels[i] = s
				}
				e := wg.VerifAssignWeightsInOrder(labels)
				if e != nil {
					ordered = append(ordered, encGResult(nil, e, m))
				} else {
					ordered = append(ordered, encGResult(wg, nil, m))
				}
			}
		}
		res["ordered"] = ordered
		builds := A{}
		for i := 0; i < q.Repeat; i++ {
			wg, e := graph.NewWeightedAuthorizationModelGraphBuilder().Build(m)
			builds = append(builds, encGResult(wg, e, m))
		}
		res["builds"] = builds
		res["model_unchanged"] = proto.Equal(before, m)
		return res, nil
	})
}

// C06 (histories): one builder object used for a sequence of different models, one after the other and from
// several goroutines at once; every outcome is reported next to that of a fresh builder.
func init() {
	register("wgraph_shared", func(req json.RawMessage) (any, error) {
		var q struct {
			Ms     []any `json:"ms"`
			Rounds int   `json:"rounds"`
		}
		if err := json.Unmarshal(req, &q); err != nil {
			return nil, err
		}
		ms := make([]*openfgav1.AuthorizationModel, 0, len(q.Ms))
		for _, x := range q.Ms {
			m, err := decModel(x)
			if err != nil {
				return nil, err
			}
			ms = append(ms, m)
		}
		fresh, seq := A{}, A{}
		for _, m := range ms {
			wg, e := graph.NewWeightedAuthorizationModelGraphBuilder().Build(m)
			fresh = append(fresh, encGResult(wg, e, m))
		}
		shared := graph.NewWeightedAuthorizationModelGraphBuilder()
		for _, m := range ms {
			wg, e := shared.Build(m)
			seq = append(seq, encGResult(wg, e, m))
		}
		conc := A{}
		for r := 0; r < q.Rounds; r++ {
			b := graph.NewWeightedAuthorizationModelGraphBuilder()
			outs := make([]any, len(ms))
			var w sync.WaitGroup
			for i, m := range ms {
				w.Add(1)
				go func(i int, m *openfgav1.AuthorizationModel) {
					defer w.Done()
					defer func() {
						if p := recover(); p != nil {
							outs[i] = map[string]any{"ok": 0, "class": 8, "msg": encStr(fmt.Sprint("panic: ", p)), "has_graph": false}
						}
					}()
					wg, e := b.Build(m)
					outs[i] = encGResult(wg, e, m)
				}(i, m)
			}
			w.Wait()
			conc = append(conc, A(outs))
		}
		return map[string]any{"fresh": fresh, "seq": seq, "conc": conc}, nil
	})
}

(* driver.ml — generic line-oriented front end of the extracted model.
   stdin: one S-expression per line, atoms are decimal naturals.  stdout: one result per line.
   All decoding/encoding of requests is done inside the extracted Coq code ([dispatch]). *)
module M = Fgamodel

let rec pos_of_int (n : int) : M.positive =
  if n = 1 then M.XH
  else if n land 1 = 1 then M.XI (pos_of_int (n lsr 1))
  else M.XO (pos_of_int (n lsr 1))

let n_of_int (n : int) : M.n = if n = 0 then M.N0 else M.Npos (pos_of_int n)

let rec int_of_pos (p : M.positive) : int =
  match p with M.XH -> 1 | M.XO q -> 2 * int_of_pos q | M.XI q -> 2 * int_of_pos q + 1

let int_of_n (x : M.n) : int = match x with M.N0 -> 0 | M.Npos p -> int_of_pos p

exception Parse_error of string

let parse (s : String.t) : M.sx =
  let len = String.length s in
  let i = ref 0 in
  let skip () = while !i < len && (s.[!i] = ' ' || s.[!i] = '\t' || s.[!i] = '\r') do incr i done in
  let rec item () : M.sx =
    skip ();
    if !i >= len then raise (Parse_error "eof")
    else if s.[!i] = '(' then begin
      incr i;
      let acc = ref [] in
      let fin = ref false in
      while not !fin do
        skip ();
        if !i >= len then raise (Parse_error "unclosed")
        else if s.[!i] = ')' then (incr i; fin := true)
        else acc := item () :: !acc
      done;
      M.SL (List.rev !acc)
    end else begin
      let st = !i in
      while !i < len && s.[!i] >= '0' && s.[!i] <= '9' do incr i done;
      if !i = st then raise (Parse_error (Printf.sprintf "bad char at %d" st));
      M.SA (n_of_int (int_of_string (String.sub s st (!i - st))))
    end
  in
  let r = item () in
  skip ();
  if !i <> len then raise (Parse_error "trailing");
  r

let rec print (b : Buffer.t) (x : M.sx) : unit =
  match x with
  | M.SA n -> Buffer.add_string b (string_of_int (int_of_n n))
  | M.SL l ->
      Buffer.add_char b '(';
      List.iteri (fun k y -> if k > 0 then Buffer.add_char b ' '; print b y) l;
      Buffer.add_char b ')'

let () =
  let b = Buffer.create 65536 in
  (try
     while true do
       let line = input_line stdin in
       Buffer.clear b;
       (try print b (M.dispatch (parse line))
        with
        | Parse_error m -> Buffer.add_string b ("(998 " ^ String.concat " " (List.map (fun c -> string_of_int (Char.code c)) (List.init (String.length m) (String.get m))) ^ ")")
        | Stack_overflow -> Buffer.add_string b "(997)");
       Buffer.add_char b '\n';
       print_string (Buffer.contents b)
     done
   with End_of_file -> ());
  flush stdout

(* Model/WGraph.v — the weighted authorization-model graph: builder (weighted_graph_builder.go) and
   AssignWeights (weighted_graph.go), transcribed, after the repairs F8 (only the first operand
   initialises an intersection) and F9 (a rewrite self-loop is a model cycle).

   Go maps keyed by node label are association lists in insertion order; the one iteration order
   that can reach the result — the depth-first start order of AssignWeights — is an explicit
   argument.  Weight maps are association lists; their internal iteration order is fixed here
   (insertion order) — that the Go map order of these inner ranges does not reach the result is
   an assumption checked by the correspondence under repeated runs.  ULIDs of operator nodes are
   a counter: "union:<k>" in creation order. *)
From Verif Require Import Base.Str Base.Outcome Model.Ast Model.Printer.

Inductive ntype := NType | NTypeRel | NOperator | NWildcard.
Inductive etype := EDirect | ERewrite | ETTU | EComputed.
Definition ntype_eqb (a b : ntype) : bool :=
  match a, b with NType, NType | NTypeRel, NTypeRel | NOperator, NOperator | NWildcard, NWildcard => true | _, _ => false end.
Definition etype_eqb (a b : etype) : bool :=
  match a, b with EDirect, EDirect | ERewrite, ERewrite | ETTU, ETTU | EComputed, EComputed => true | _, _ => false end.

Definition infinite : N := 2147483647.          (* math.MaxInt32 *)
Definition wmap := list (str * N).

Record wnode := { n_id : str; n_label : str; n_type : ntype; n_weights : wmap; n_wild : list str }.
Record wedge := { e_from : str; e_to : str; e_type : etype; e_tupleset : str; e_conds : list str;
                  e_weights : wmap; e_wild : list str }.
Record wgraph := { g_nodes : list wnode; g_edges : list (str * list wedge); g_ops : N }.

Inductive werr :=
| WInvalidModel (why : str)
| WModelCycle
| WTupleCycle (unresolved : nat)
| WConstraintTupleCycle
| WTupleCycleInvalidNode
| WOutOfFuel.

Definition no_cond : str := lit "none".

(* ---------------------------------------------------------------------------------------- *)
(* graph primitives                                                                          *)
(* ---------------------------------------------------------------------------------------- *)

Fixpoint find_node (id : str) (l : list wnode) : option wnode :=
  match l with
  | [] => None
  | n :: r => if str_eqb (n_id n) id then Some n else find_node id r
  end.

Definition edges_from (g : wgraph) (id : str) : list wedge :=
  match assoc id (g_edges g) with Some l => l | None => [] end.

Definition drop_last2 (s : str) : str := firstn (length s - 2) s.

Definition get_or_add_node (g : wgraph) (id label : str) (t : ntype) : wgraph * wnode :=
  match find_node id (g_nodes g) with
  | Some n => (g, n)
  | None =>
      let n := {| n_id := id; n_label := label; n_type := t; n_weights := [];
                  n_wild := match t with NWildcard => [drop_last2 id] | _ => [] end |} in
      ({| g_nodes := g_nodes g ++ [n]; g_edges := g_edges g; g_ops := g_ops g |}, n)
  end.

Definition push_edge (g : wgraph) (e : wedge) : wgraph :=
  {| g_nodes := g_nodes g;
     g_edges := match assoc (e_from e) (g_edges g) with
                | Some l => assoc_set (e_from e) (l ++ [e]) (g_edges g)
                | None => g_edges g ++ [(e_from e, [e])]
                end;
     g_ops := g_ops g |}.

Definition add_edge (g : wgraph) (from to : str) (t : etype) (tupleset : str) : wgraph :=
  push_edge g {| e_from := from; e_to := to; e_type := t; e_tupleset := tupleset; e_conds := [no_cond];
                 e_weights := []; e_wild := [] |}.

Definition same_edge (e : wedge) (to : str) (t : etype) (tupleset : str) : bool :=
  str_eqb (e_to e) to && etype_eqb (e_type e) t && str_eqb (e_tupleset e) tupleset.

Definition has_edge (g : wgraph) (from to : str) (t : etype) (tupleset : str) : bool :=
  existsb (fun e => same_edge e to t tupleset) (edges_from g from).

Fixpoint upsert_in (l : list wedge) (to : str) (t : etype) (tupleset cond : str) : option (list wedge) :=
  match l with
  | [] => None
  | e :: r =>
      if same_edge e to t tupleset then
        if mem_str cond (e_conds e) then Some l
        else Some ({| e_from := e_from e; e_to := e_to e; e_type := e_type e; e_tupleset := e_tupleset e;
                      e_conds := e_conds e ++ [cond]; e_weights := e_weights e; e_wild := e_wild e |} :: r)
      else match upsert_in r to t tupleset cond with
           | Some r' => Some (e :: r')
           | None => None
           end
  end.

Definition upsert_edge (g : wgraph) (from to : str) (t : etype) (tupleset cond : str) : wgraph :=
  let cond := if is_empty cond then no_cond else cond in
  match upsert_in (edges_from g from) to t tupleset cond with
  | Some l => {| g_nodes := g_nodes g; g_edges := assoc_set from l (g_edges g); g_ops := g_ops g |}
  | None => push_edge g {| e_from := from; e_to := to; e_type := t; e_tupleset := tupleset; e_conds := [cond];
                           e_weights := []; e_wild := [] |}
  end.

(* ---------------------------------------------------------------------------------------- *)
(* builder                                                                                   *)
(* ---------------------------------------------------------------------------------------- *)

Definition type_and_relation_exists (m : model) (ty rel : str) : bool :=
  existsb (fun t => str_eqb (td_name t) ty && match assoc rel (td_rels t) with Some _ => true | None => false end)
          (m_types m).

Definition parse_this (g : wgraph) (parent : wnode) (td : typedef) (rel : str) : wgraph :=
  fold_left
    (fun g r =>
       let '(g, cur) :=
         match rr_kind r with
         | RPlain => get_or_add_node g (rr_type r) (rr_type r) NType
         | RWild => get_or_add_node g (rr_type r ++ lit ":*") (rr_type r ++ lit ":*") NWildcard
         | RRel x => get_or_add_node g (rr_type r ++ lit "#" ++ x) (rr_type r ++ lit "#" ++ x) NTypeRel
         end in
       upsert_edge g (n_id parent) (n_id cur) EDirect [] (rr_cond r))
    (rm_types_of (assoc rel (td_meta_rels td))) g.

Definition parse_computed (g : wgraph) (parent : wnode) (td : typedef) (rel : str) : wgraph :=
  let id := td_name td ++ lit "#" ++ rel in
  let '(g, n) := get_or_add_node g id id NTypeRel in
  let t := if ntype_eqb (n_type parent) NTypeRel && ntype_eqb (n_type n) NTypeRel then EComputed else ERewrite in
  add_edge g (n_id parent) (n_id n) t [].

Fixpoint parse_ttu_refs (g : wgraph) (parent : wnode) (m : model) (td : typedef) (tupleset computed : str)
         (refs : list relation_ref) : outcome wgraph werr :=
  match refs with
  | [] => Ok g
  | r :: rest =>
      let ty := rr_type r in
      if negb (type_and_relation_exists m ty computed) then
        Err (WInvalidModel (ty ++ lit " type does not have defined " ++ computed ++ lit " relation"))
      else
        let id := ty ++ lit "#" ++ computed in
        let '(g, n) := get_or_add_node g id id NTypeRel in
        let label := td_name td ++ lit "#" ++ tupleset in
        let g := if has_edge g (n_id parent) (n_id n) ETTU label then g
                 else upsert_edge g (n_id parent) (n_id n) ETTU label (rr_cond r) in
        parse_ttu_refs g parent m td tupleset computed rest
  end.

Definition parse_ttu (g : wgraph) (parent : wnode) (m : model) (td : typedef) (tupleset computed : str)
  : outcome wgraph werr :=
  match assoc tupleset (td_meta_rels td) with
  | None => Err (WInvalidModel (tupleset ++ lit " invalid tupleset relation"))
  | Some rm =>
      match rm_types rm with
      | [] => Err (WInvalidModel (lit "No type and relation link exists for tupleset relation " ++ tupleset))
      | refs => parse_ttu_refs g parent m td tupleset computed refs
      end
  end.

Definition op_node (g : wgraph) (op : str) : wgraph * wnode :=
  let id := op ++ lit ":" ++ str_of_N (g_ops g) in
  let g := {| g_nodes := g_nodes g; g_edges := g_edges g; g_ops := g_ops g + 1 |} in
  get_or_add_node g id op NOperator.

Fixpoint parse_rewrite (g : wgraph) (parent : wnode) (m : model) (td : typedef) (rel : str) (u : userset)
  : outcome wgraph werr :=
  let children := fix children (g : wgraph) (opn : wnode) (cs : list userset) : outcome wgraph werr :=
    match cs with
    | [] => Ok g
    | c :: r => obind (parse_rewrite g opn m td rel c) (fun g => children g opn r)
    end in
  let operator (op : str) (cs : list userset) :=
    let '(g, opn) := op_node g op in
    let g := add_edge g (n_id parent) (n_id opn) ERewrite [] in
    children g opn cs in
  match u with
  | UThis _ => Ok (parse_this g parent td rel)
  | UComputed r => Ok (parse_computed g parent td r)
  | UTTU ts cu => parse_ttu g parent m td ts cu
  | UUnion cs => operator (lit "union") cs
  | UInter cs => operator (lit "intersection") cs
  | UDiff b s => operator (lit "exclusion") [b; s]
  | UUnset => operator [] []
  end.

Fixpoint build_relations (g : wgraph) (m : model) (td : typedef) (names : list str) : outcome wgraph werr :=
  match names with
  | [] => Ok g
  | rel :: r =>
      let id := td_name td ++ lit "#" ++ rel in
      let '(g, parent) := get_or_add_node g id id NTypeRel in
      let u := match assoc rel (td_rels td) with Some u => u | None => UUnset end in
      obind (parse_rewrite g parent m td rel u) (fun g => build_relations g m td r)
  end.

Definition td_cmp (a b : typedef) : comparison := str_compare (td_name a) (td_name b).

Fixpoint build_types (g : wgraph) (m : model) (tds : list typedef) : outcome wgraph werr :=
  match tds with
  | [] => Ok g
  | td :: r =>
      let '(g, _) := get_or_add_node g (td_name td) (td_name td) NType in
      obind (build_relations g m td (stable_sort str_compare (keys (td_rels td)))) (fun g => build_types g m r)
  end.

Definition empty_graph : wgraph := {| g_nodes := []; g_edges := []; g_ops := 0 |}.

(* Build without AssignWeights *)
Definition wbuild (m : model) : outcome wgraph werr :=
  build_types empty_graph m (stable_sort td_cmp (m_types m)).

(* ---------------------------------------------------------------------------------------- *)
(* weights                                                                                   *)
(* ---------------------------------------------------------------------------------------- *)

Definition wget (k : str) (w : wmap) : option N := assoc k w.
Definition wset (k : str) (v : N) (w : wmap) : wmap := assoc_set k v w.
Definition wdel (k : str) (w : wmap) : wmap := filter (fun p => negb (str_eqb (fst p) k)) w.
Definition is_ref_key (k : str) : bool := is_prefix (lit "R#") k.
Definition strip_ref (k : str) : str := skipn 2 k.

(* weights[key] = max(weights[key], value), or value when absent *)
Definition wmax (k : str) (v : N) (w : wmap) : wmap :=
  match wget k w with
  | Some x => wset k (N.max x v) w
  | None => wset k v w
  end.

Definition add_unique (x : str) (l : list str) : list str := if mem_str x l then l else l ++ [x].
Definition merge_wild (into from : list str) : list str :=
  match into with
  | [] => from
  | _ => fold_left (fun acc x => add_unique x acc) from into
  end.

Definition set_node (g : wgraph) (n : wnode) : wgraph :=
  {| g_nodes := map (fun x => if str_eqb (n_id x) (n_id n) then n else x) (g_nodes g);
     g_edges := g_edges g; g_ops := g_ops g |}.
Definition node_of (g : wgraph) (id : str) : wnode :=
  match find_node id (g_nodes g) with
  | Some n => n
  | None => {| n_id := id; n_label := []; n_type := NType; n_weights := []; n_wild := [] |}
  end.
Definition with_weights (n : wnode) (w : wmap) : wnode :=
  {| n_id := n_id n; n_label := n_label n; n_type := n_type n; n_weights := w; n_wild := n_wild n |}.
Definition with_wild (n : wnode) (w : list str) : wnode :=
  {| n_id := n_id n; n_label := n_label n; n_type := n_type n; n_weights := n_weights n; n_wild := w |}.

(* an edge is addressed by its source node and its index among that node's edges *)
Definition eref := (str * nat)%type.
Definition edge_at (g : wgraph) (r : eref) : option wedge := nth_error (edges_from g (fst r)) (snd r).
Fixpoint wreplace_nth {A} (n : nat) (x : A) (l : list A) : list A :=
  match l, n with
  | [], _ => []
  | _ :: r, O => x :: r
  | y :: r, S n' => y :: wreplace_nth n' x r
  end.
Definition set_edge (g : wgraph) (r : eref) (e : wedge) : wgraph :=
  {| g_nodes := g_nodes g;
     g_edges := assoc_set (fst r) (wreplace_nth (snd r) e (edges_from g (fst r))) (g_edges g);
     g_ops := g_ops g |}.
Definition edge_with_weights (e : wedge) (w : wmap) : wedge :=
  {| e_from := e_from e; e_to := e_to e; e_type := e_type e; e_tupleset := e_tupleset e; e_conds := e_conds e;
     e_weights := w; e_wild := e_wild e |}.
Definition edge_with_wild (e : wedge) (w : list str) : wedge :=
  {| e_from := e_from e; e_to := e_to e; e_type := e_type e; e_tupleset := e_tupleset e; e_conds := e_conds e;
     e_weights := e_weights e; e_wild := w |}.

(* Model/WWeights.v — AssignWeights (weighted_graph.go:137-665), transcribed statement by statement.
   The depth-first start order is the argument [order]; recursion uses fuel (2 * #nodes + 2 suffices:
   every recursive call marks a new node visited), [WOutOfFuel] is a distinct error value. *)
From Verif Require Import Base.Str Base.Outcome Model.Ast Model.Printer Model.WGraph.

Record wstate := { ws_g : wgraph; ws_visited : list str; ws_deps : list (str * list eref) }.

Definition st_g (s : wstate) (g : wgraph) : wstate :=
  {| ws_g := g; ws_visited := ws_visited s; ws_deps := ws_deps s |}.
Definition add_dep (s : wstate) (node : str) (r : eref) : wstate :=
  {| ws_g := ws_g s; ws_visited := ws_visited s;
     ws_deps := match assoc node (ws_deps s) with
                | Some l => assoc_set node (l ++ [r]) (ws_deps s)
                | None => ws_deps s ++ [(node, [r])]
                end |}.
Definition deps_of (s : wstate) (node : str) : list eref :=
  match assoc node (ws_deps s) with Some l => l | None => [] end.
Definition del_deps (s : wstate) (node : str) : wstate :=
  {| ws_g := ws_g s; ws_visited := ws_visited s;
     ws_deps := filter (fun p => negb (str_eqb (fst p) node)) (ws_deps s) |}.

Definition upd_edge (s : wstate) (r : eref) (f : wedge -> wedge) : wstate :=
  match edge_at (ws_g s) r with
  | Some e => st_g s (set_edge (ws_g s) r (f e))
  | None => s
  end.
Definition upd_node (s : wstate) (id : str) (f : wnode -> wnode) : wstate :=
  st_g s (set_node (ws_g s) (f (node_of (ws_g s) id))).

Definition is_terminal (t : ntype) : bool := match t with NType | NWildcard => true | _ => false end.

(* ancestor path entries: (from, edge type, node type of the target) *)
Definition pentry := (str * etype * ntype)%type.

Definition is_tuple_cycle (node : str) (path : list pentry) : bool :=
  let fix go (p : list pentry) (tracking : bool) : bool :=
    match p with
    | [] => false
    | (from, t, tot) :: r =>
        let tracking := tracking || str_eqb from node in
        if tracking && (etype_eqb t ETTU || (etype_eqb t EDirect && ntype_eqb tot NTypeRel)) then true
        else go r tracking
    end in
  go path false.

(* ---- the three strategies and the cycle resolution ---- *)

Definition no_edges_error (n : wnode) : werr :=
  WInvalidModel (n_id n ++ lit " node does not have any terminal type to reach to").

Definition max_strategy (s : wstate) (id : str) : outcome wstate werr :=
  let n := node_of (ws_g s) id in
  let edges := edges_from (ws_g s) id in
  match edges with
  | [] => if is_terminal (n_type n) then Ok (upd_node s id (fun n => with_weights n [])) else Err (no_edges_error n)
  | _ =>
      let w := fold_left (fun w e => fold_left (fun w kv => wmax (fst kv) (snd kv) w) (e_weights e) w) edges [] in
      Ok (upd_node s id (fun n => with_weights n w))
  end.

Definition mixed_strategy (s : wstate) (id : str) : outcome wstate werr :=
  let n := node_of (ws_g s) id in
  let edges := edges_from (ws_g s) id in
  match edges with
  | [] => if is_terminal (n_type n) then Ok (upd_node s id (fun n => with_weights n [])) else Err (no_edges_error n)
  | _ =>
      let last := pred (length edges) in
      let step (acc : wmap * nat) (e : wedge) : wmap * nat :=
        let '(w, idx) := acc in
        (fold_left (fun w kv =>
                      match wget (fst kv) w with
                      | None => if (idx =? last)%nat then w else wset (fst kv) (snd kv) w
                      | Some x => wset (fst kv) (N.max x (snd kv)) w
                      end) (e_weights e) w, S idx) in
      Ok (upd_node s id (fun n => with_weights n (fst (fold_left step edges ([], 0%nat)))))
  end.

Definition enforce_strategy (s : wstate) (id : str) : outcome wstate werr :=
  let n := node_of (ws_g s) id in
  let edges := edges_from (ws_g s) id in
  match edges with
  | [] => if is_terminal (n_type n) then Err (WInvalidModel (lit "not all paths return the same type for the node " ++ id))
          else Err (no_edges_error n)
  | first :: rest =>
      let w0 := fold_left (fun w kv => wset (fst kv) (snd kv) w) (e_weights first) [] in
      let w := fold_left
                 (fun w e => fold_left
                               (fun acc kv => match wget (fst kv) (e_weights e) with
                                              | None => wdel (fst kv) acc
                                              | Some v => wset (fst kv) (N.max (snd kv) v) acc
                                              end) w w) rest w0 in
      match w with
      | [] => Err (WInvalidModel (lit "not all paths return the same type for the node " ++ id))
      | _ => Ok (upd_node s id (fun n => with_weights n w))
      end
  end.

Definition ref_key (id : str) : str := lit "R#" ++ id.

Definition fix_dependant_edges (s : wstate) (cycle : str) (refs : list str) : wstate :=
  let refk := ref_key cycle in
  fold_left
    (fun s r =>
       match edge_at (ws_g s) r with
       | None => s
       | Some e =>
           let nodew := n_weights (node_of (ws_g s) cycle) in
           let '(ew, s) :=
             fold_left
               (fun (acc : wmap * wstate) kv1 =>
                  let '(ew, s) := acc in
                  if str_eqb (fst kv1) refk then
                    fold_left
                      (fun (acc : wmap * wstate) kv2 =>
                         let '(ew, s) := acc in
                         match wget (fst kv2) ew with
                         | None =>
                             let s := match refs with
                                      | [] => s
                                      | _ => if is_ref_key (fst kv2) then add_dep s (strip_ref (fst kv2)) r else s
                                      end in
                             (wset (fst kv2) (snd kv2) ew, s)
                         | Some x => (wset (fst kv2) (N.max x (snd kv2)) ew, s)
                         end) nodew (ew, s)
                  else (wmax (fst kv1) (snd kv1) ew, s))
               (e_weights e) ([], s) in
           let refwild := n_wild (node_of (ws_g s) cycle) in
           upd_edge s r (fun e => let e := edge_with_weights e ew in
                                  match refwild with
                                  | [] => e
                                  | _ => edge_with_wild e (merge_wild (e_wild e) refwild)
                                  end)
       end)
    (deps_of s cycle) s.

Definition fix_dependant_nodes (s : wstate) (cycle : str) : wstate :=
  let refk := ref_key cycle in
  fold_left
    (fun s r =>
       match edge_at (ws_g s) r with
       | None => s
       | Some e =>
           let nodew := n_weights (node_of (ws_g s) cycle) in
           let from := node_of (ws_g s) (e_from e) in
           let nw := fold_left
                       (fun nw kv1 =>
                          if str_eqb (fst kv1) refk then fold_left (fun nw kv2 => wmax (fst kv2) (snd kv2) nw) nodew nw
                          else wmax (fst kv1) (snd kv1) nw)
                       (n_weights from) [] in
           let refwild := n_wild (node_of (ws_g s) cycle) in
           upd_node s (e_from e) (fun n => with_wild (with_weights n nw) (merge_wild (n_wild n) refwild))
       end)
    (deps_of s cycle) s.

Definition fix_dependencies (s : wstate) (id : str) : outcome wstate werr :=
  let n := node_of (ws_g s) id in
  let edges := edges_from (ws_g s) id in
  let bad := match n_type n with
             | NOperator => negb (str_eqb (n_label n) (lit "union"))
             | NTypeRel => false
             | _ => true
             end in
  if bad then Err WTupleCycleInvalidNode
  else match edges with
       | [] => Err (no_edges_error n)
       | _ =>
           let refk := ref_key id in
           let '(w, refs) :=
             fold_left (fun acc e =>
                          fold_left (fun (acc : wmap * list str) kv =>
                                       let '(w, refs) := acc in
                                       if str_eqb (fst kv) refk then acc
                                       else (wset (fst kv) infinite w,
                                             if is_ref_key (fst kv) then refs ++ [fst kv] else refs))
                                    (e_weights e) acc)
                       edges ([], []) in
           let s := upd_node s id (fun n => with_weights n w) in
           let s := fix_dependant_edges s id refs in
           let s := fix_dependant_nodes s id in
           Ok (del_deps s id)
       end.

Definition remove_cycle (id : str) (tcs : list str) : list str := filter (fun x => negb (str_eqb x id)) tcs.

(* calculateNodeWeightFromTheEdges *)
Definition from_edges (s : wstate) (id : str) (tcs : list str) : list str * outcome wstate werr :=
  let n := node_of (ws_g s) id in
  match tcs with
  | [] =>
      (tcs,
       match n_type n with
       | NOperator =>
           if str_eqb (n_label n) (lit "union") then max_strategy s id
           else if str_eqb (n_label n) (lit "intersection") then enforce_strategy s id
           else if str_eqb (n_label n) (lit "exclusion") then mixed_strategy s id
           else Ok s
       | _ => max_strategy s id
       end)
  | _ =>
      let is_ref := mem_str id tcs in
      match n_type n with
      | NTypeRel =>
          if is_ref then
            match fix_dependencies s id with
            | Ok s => (remove_cycle id tcs, Ok s)
            | e => (tcs, e)
            end
          else (tcs, max_strategy s id)
      | NOperator =>
          if str_eqb (n_label n) (lit "union") then
            if is_ref then
              match fix_dependencies s id with
              | Ok s => (remove_cycle id tcs, Ok s)
              | e => (tcs, e)
              end
            else (tcs, max_strategy s id)
          else (tcs, Err WConstraintTupleCycle)
      | _ => (tcs, max_strategy s id)
      end
  end.

(* ---- the depth-first traversal ---- *)

Definition add_wild_to_edge (w : str) (e : wedge) : wedge := edge_with_wild e (add_unique w (e_wild e)).
Definition edge_wild_to_node (n : wnode) (e : wedge) : wnode :=
  match e_wild e with
  | [] => n
  | ew => with_wild n (merge_wild (n_wild n) ew)
  end.

Definition cresult := (list str * option werr * wstate)%type.

(* one edge of node [id] in the loop of calculateNodeWeight...; the recursion into an edge is [rec_edge] *)
Definition edge_step (rec_edge : eref -> wstate -> cresult) (id : str) (i : nat) (s : wstate) : cresult :=
  match edge_at (ws_g s) (id, i) with
  | None => ([], None, s)
  | Some e =>
      match e_weights e with
      | _ :: _ => ([], None, s)
      | [] =>
          let to := node_of (ws_g s) (e_to e) in
          if is_terminal (n_type to) then
            let wild := ntype_eqb (n_type to) NWildcard in
            let label := if wild then drop_last2 (e_to e) else e_to e in
            let e1 := if wild then add_wild_to_edge label e else e in
            let s := if wild then upd_node s id (fun n => edge_wild_to_node n e1) else s in
            ([], None, st_g s (set_edge (ws_g s) (id, i) (edge_with_weights e1 [(label, 1)])))
          else
            let '(tc, err, s) := rec_edge (id, i) s in
            (* calculateEdgeWildcards; addEdgeWildcardsToNode *)
            let s := upd_edge s (id, i) (fun e =>
                       match e_wild e, n_wild (node_of (ws_g s) (e_to e)) with
                       | [], (_ :: _) as nw => edge_with_wild e nw
                       | _, _ => e
                       end) in
            let s := match edge_at (ws_g s) (id, i) with
                     | Some e' => upd_node s id (fun n => edge_wild_to_node n e')
                     | None => s
                     end in
            (tc, err, s)
      end
  end.

(* the loop; then the node's own weights from its edges *)
Fixpoint edge_loop (rec_edge : eref -> wstate -> cresult) (id : str) (k : nat) (i : nat) (tcs : list str) (s : wstate)
  : cresult :=
  match k with
  | O =>
      let '(tcs, r) := from_edges s id tcs in
      match r with
      | Ok s => (tcs, None, s)
      | Err e => (tcs, Some e, s)
      | Panic _ => (tcs, Some WOutOfFuel, s)
      end
  | S k' =>
      let '(tc, err, s) := edge_step rec_edge id i s in
      match err with
      | Some x => (tcs ++ tc, Some x, s)
      | None => edge_loop rec_edge id k' (S i) (tcs ++ tc) s
      end
  end.

Definition mark_visited (s : wstate) (id : str) : wstate :=
  {| ws_g := ws_g s; ws_visited := ws_visited s ++ [id]; ws_deps := ws_deps s |}.

Definition calc_node_body (rec_edge : eref -> list pentry -> wstate -> cresult) (id : str) (path : list pentry) (s : wstate)
  : cresult :=
  if mem_str id (ws_visited s) then ([], None, s)
  else if is_terminal (n_type (node_of (ws_g s) id)) then ([], None, s)
  else
    let s := mark_visited s id in
    edge_loop (fun r s => rec_edge r path s) id (length (edges_from (ws_g s) id)) 0%nat [] s.

(* the weight of an edge to a node that is not terminal *)
Definition edge_from_target (e : wedge) (r : eref) (tc : list str) (s : wstate) : cresult :=
  let tw := n_weights (node_of (ws_g s) (e_to e)) in
  let is_tc := match tc with [] => false | _ => true end in
  let s := fold_left (fun s n => add_dep s n r) tc s in
  let '(w, tc, s) :=
    fold_left (fun (acc : wmap * list str * wstate) kv =>
                 let '(w, tc, s) := acc in
                 if negb is_tc && is_ref_key (fst kv) then
                   (wset (fst kv) (snd kv) w, tc ++ [strip_ref (fst kv)], add_dep s (strip_ref (fst kv)) r)
                 else (wset (fst kv) (snd kv) w, tc, s))
              tw ([], tc, s) in
  let w := if etype_eqb (e_type e) ETTU || etype_eqb (e_type e) EDirect
           then map (fun kv => (fst kv, if snd kv =? infinite then snd kv else snd kv + 1)) w
           else w in
  (tc, None, upd_edge s r (fun e => edge_with_weights e w)).

Definition calc_edge_body (rec_node : str -> list pentry -> wstate -> cresult) (r : eref) (path : list pentry) (s : wstate)
  : cresult :=
  match edge_at (ws_g s) r with
  | None => ([], None, s)
  | Some e =>
      if str_eqb (e_from e) (e_to e) then
        if etype_eqb (e_type e) ETTU || etype_eqb (e_type e) EDirect then
          let s := upd_edge s r (fun e => edge_with_weights e [(ref_key (e_to e), infinite)]) in
          ([e_from e], None, add_dep s (e_to e) r)
        else ([], Some WModelCycle, s)
      else
        let to_type := n_type (node_of (ws_g s) (e_to e)) in
        let path' := path ++ [(e_from e, e_type e, to_type)] in
        let '(tc, err, s) := rec_node (e_to e) path' s in
        match err with
        | Some x => (tc, Some x, s)
        | None =>
            match n_weights (node_of (ws_g s) (e_to e)) with
            | [] =>
                if is_tuple_cycle (e_to e) path' then
                  let s := upd_edge s r (fun e => edge_with_weights e [(ref_key (e_to e), infinite)]) in
                  (tc ++ [e_to e], None, add_dep s (e_to e) r)
                else (tc, Some WModelCycle, s)
            | _ => edge_from_target e r tc s
            end
        end
  end.

(* calculateNodeWeight / calculateEdgeWeight: the knot is tied on fuel *)
Fixpoint calc_node (fuel : nat) (id : str) (path : list pentry) (s : wstate) : cresult :=
  match fuel with
  | O => ([], Some WOutOfFuel, s)
  | S f => calc_node_body (calc_edge f) id path s
  end
with calc_edge (fuel : nat) (r : eref) (path : list pentry) (s : wstate) : cresult :=
  match fuel with
  | O => ([], Some WOutOfFuel, s)
  | S f => calc_edge_body (calc_node f) r path s
  end.

(* AssignWeights with the range over wg.nodes replaced by [order] *)
Fixpoint assign_loop (fuel : nat) (order : list str) (s : wstate) : outcome wstate werr :=
  match order with
  | [] => Ok s
  | id :: r =>
      if mem_str id (ws_visited s) then assign_loop fuel r s
      else
        let '(tcs, err, s) := calc_node fuel id [] s in
        match err with
        | Some e => Err e
        | None => match tcs with
                  | [] => assign_loop fuel r s
                  | _ => Err (WTupleCycle (length tcs))
                  end
        end
  end.

Definition assign_weights (order : list str) (g : wgraph) : outcome wgraph werr :=
  match assign_loop (2 * length (g_nodes g) + 2) order {| ws_g := g; ws_visited := []; ws_deps := [] |} with
  | Ok s => Ok (ws_g s)
  | Err e => Err e
  | Panic w => Panic w
  end.

(* the order Go happens to use is some permutation of the node labels; the insertion order is one *)
Definition default_order (g : wgraph) : list str := map n_id (g_nodes g).

Definition build_weighted (order : option (list str)) (m : model) : outcome wgraph werr :=
  obind (wbuild m) (fun g => assign_weights (match order with Some o => o | None => default_order g end) g).

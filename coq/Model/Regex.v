(* Model/Regex.v — the subset of RE2 syntax used by pkg/go/validation/validation-rules.go,
   a parser for it and a derivative-based full-match decision procedure.
   Modelled (external): Go's regexp package.  [ws] is RE2's \s (ASCII only). *)
From Verif Require Import Base.Str.

Inductive citem := CI_char (c : N) | CI_range (a b : N) | CI_space.
Record cls := { c_neg : bool; c_items : list citem }.

Definition ws (c : N) : bool :=
  (c =? 9) || (c =? 10) || (c =? 12) || (c =? 13) || (c =? 32).

Definition item_match (it : citem) (c : N) : bool :=
  match it with
  | CI_char x => c =? x
  | CI_range a b => (a <=? c) && (c <=? b)
  | CI_space => ws c
  end.

Definition cls_match (k : cls) (c : N) : bool :=
  xorb (c_neg k) (existsb (fun it => item_match it c) (c_items k)).

Inductive re :=
| REmpty | REps
| RCls (k : cls)
| RCat (a b : re) | RAlt (a b : re)
| RStar (a : re)
| RRep (a : re) (lo hi : nat).

Definition RChar (c : N) : re := RCls {| c_neg := false; c_items := [CI_char c] |}.

(* ---------- parser for the concrete syntax ---------- *)

Definition ch_lbrack := 91.  Definition ch_rbrack := 93.  Definition ch_bslash := 92.
Definition ch_caret := 94.   Definition ch_dollar := 36.  Definition ch_lbrace := 123.
Definition ch_rbrace := 125. Definition ch_comma := 44.   Definition ch_star := 42.
Definition ch_dash := 45.    Definition ch_s := 115.

(* inside [...] : returns the items and the rest after ']' *)
Fixpoint parse_class (s : str) (acc : list citem) : option (list citem * str) :=
  match s with
  | [] => None
  | c :: r =>
      if c =? ch_rbrack then Some (rev acc, r)
      else if c =? ch_bslash then
        match r with
        | x :: r' => if x =? ch_s then parse_class r' (CI_space :: acc)
                     else parse_class r' (CI_char x :: acc)
        | [] => None
        end
      else
        match r with
        | d :: b :: r' =>
            if (d =? ch_dash) && negb (b =? ch_rbrack) then
              if b =? ch_bslash then None (* escaped range end: unsupported *)
              else parse_class r' (CI_range c b :: acc)
            else parse_class r (CI_char c :: acc)
        | _ => parse_class r (CI_char c :: acc)
        end
  end.

Fixpoint parse_num (s : str) (acc : option nat) : option (nat * str) :=
  match s with
  | c :: r =>
      if is_digit c then
        parse_num r (Some (match acc with None => 0 | Some a => 10 * a end + N.to_nat (c - 48))%nat)
      else match acc with Some a => Some (a, s) | None => None end
  | [] => match acc with Some a => Some (a, []) | None => None end
  end.

(* after '{' : m,n} *)
Definition parse_quant (s : str) : option (nat * nat * str) :=
  match parse_num s None with
  | Some (lo, c :: r) =>
      if c =? ch_comma then
        match parse_num r None with
        | Some (hi, d :: r') => if d =? ch_rbrace then Some (lo, hi, r') else None
        | _ => None
        end
      else if c =? ch_rbrace then Some (lo, lo, r)
      else None
  | _ => None
  end.

Definition is_meta (c : N) : bool :=
  (c =? 40) || (c =? 41) || (c =? 124) || (c =? 43) || (c =? 63) || (c =? 46)
  || (c =? ch_caret) || (c =? ch_dollar) || (c =? ch_rbrack) || (c =? ch_rbrace).

Fixpoint parse_atoms (fuel : nat) (s : str) (acc : list re) : option (list re) :=
  match fuel with
  | O => None
  | S f =>
      match s with
      | [] => Some (rev acc)
      | c :: r =>
          if c =? ch_lbrack then
            let '(neg, r1) :=
              match r with
              | x :: r' => if x =? ch_caret then (true, r') else (false, r)
              | [] => (false, r)
              end in
            match parse_class r1 [] with
            | Some (items, r2) => parse_atoms f r2 (RCls {| c_neg := neg; c_items := items |} :: acc)
            | None => None
            end
          else if c =? ch_bslash then
            match r with
            | x :: r' =>
                if x =? ch_s then
                  parse_atoms f r' (RCls {| c_neg := false; c_items := [CI_space] |} :: acc)
                else if is_letter x || is_digit x then None (* other escapes: unsupported *)
                else parse_atoms f r' (RChar x :: acc)
            | [] => None
            end
          else if c =? ch_lbrace then
            match acc with
            | a :: acc' =>
                match parse_quant r with
                | Some (lo, hi, r') => parse_atoms f r' (RRep a lo hi :: acc')
                | None => None
                end
            | [] => None
            end
          else if c =? ch_star then
            match acc with
            | a :: acc' => parse_atoms f r (RStar a :: acc')
            | [] => None
            end
          else if is_meta c then None
          else parse_atoms f r (RChar c :: acc)
      end
  end.

Fixpoint cat_list (l : list re) : re :=
  match l with
  | [] => REps
  | [a] => a
  | a :: l' => RCat a (cat_list l')
  end.

(* the rules are always used fully anchored: "^...$" (Go: no flags, so $ is end of text) *)
Definition regex_of_string (s : str) : option re :=
  match s with
  | c :: r =>
      if c =? ch_caret then
        match rev r with
        | d :: body_rev =>
            if d =? ch_dollar then
              match parse_atoms (S (length r)) (rev body_rev) [] with
              | Some atoms => Some (cat_list atoms)
              | None => None
              end
            else None
        | [] => None
        end
      else None
  | [] => None
  end.

(* ---------- matcher ---------- *)

Fixpoint nullable (r : re) : bool :=
  match r with
  | REmpty => false
  | REps => true
  | RCls _ => false
  | RCat a b => nullable a && nullable b
  | RAlt a b => nullable a || nullable b
  | RStar _ => true
  | RRep a lo _ => (lo =? 0)%nat || nullable a
  end.

Definition cat (a b : re) : re :=
  match a, b with
  | REmpty, _ => REmpty
  | _, REmpty => REmpty
  | REps, _ => b
  | _, _ => RCat a b
  end.

Definition alt (a b : re) : re :=
  match a, b with
  | REmpty, _ => b
  | _, REmpty => a
  | _, _ => RAlt a b
  end.

Fixpoint deriv (c : N) (r : re) : re :=
  match r with
  | REmpty | REps => REmpty
  | RCls k => if cls_match k c then REps else REmpty
  | RCat a b => alt (cat (deriv c a) b) (if nullable a then deriv c b else REmpty)
  | RAlt a b => alt (deriv c a) (deriv c b)
  | RStar a => cat (deriv c a) (RStar a)
  | RRep a lo hi =>
      match hi with
      | O => REmpty
      | S hi' => cat (deriv c a) (RRep a (pred lo) hi')
      end
  end.

Fixpoint matches (r : re) (s : str) : bool :=
  match s with
  | [] => nullable r
  | c :: s' => matches (deriv c r) s'
  end.

(* bodies of repetitions must not be nullable for [deriv] to be exact on RRep; all rule
   regexes satisfy this (checked by computation in the proofs) *)
Fixpoint wf_re (r : re) : bool :=
  match r with
  | REmpty | REps | RCls _ => true
  | RCat a b | RAlt a b => wf_re a && wf_re b
  | RStar a => wf_re a && negb (nullable a)
  | RRep a lo hi => wf_re a && negb (nullable a) && (lo <=? hi)%nat
  end.

(* ---------- validator expressions (shape of the Go functions) ---------- *)

(* fmt.Sprintf with %s verbs only *)
Fixpoint sprintf (fmt : str) (args : list str) : str :=
  match fmt with
  | 37 :: 115 :: r =>
      match args with
      | a :: args' => a ++ sprintf r args'
      | [] => lit "%!s(MISSING)" ++ sprintf r []
      end
  | c :: r => c :: sprintf r args
  | [] => []
  end.

Inductive vexpr :=
| VMatch (fmt : str) (args : list str)
| VAnd (a b : vexpr)
| VOr (a b : vexpr).

(* regexp.MatchString returns (false, err) on a pattern the model cannot parse; the model
   signals that separately so that it is never confused with "no match" *)
Fixpoint veval (e : vexpr) (s : str) : option bool :=
  match e with
  | VMatch fmt args =>
      match regex_of_string (sprintf fmt args) with
      | Some r => Some (matches r s)
      | None => None
      end
  | VAnd a b =>
      match veval a s, veval b s with
      | Some x, Some y => Some (x && y)
      | _, _ => None
      end
  | VOr a b =>
      match veval a s, veval b s with
      | Some x, Some y => Some (x || y)
      | _, _ => None
      end
  end.

(* Model/ModFile.v — TransformModFile (mod-to-json.go) over an abstract YAML document.
   YAML parsing (gopkg.in/yaml.v3) is external: a manifest is the pair of nodes bound to the
   `schema` and `contents` keys.  Strings are BYTE strings here (list of N < 256): percent-decoding
   produces raw bytes, and every check of the Go code is bytewise. *)
From Verif Require Import Base.Str Base.Outcome.

Record ynode_item := { i_tag : str; i_value : str; i_line : nat; i_col : nat }.
Record ynode := {
  y_tag : str;            (* resolved tag: "!!str", "!!seq", "!!int", ... *)
  y_value : str;
  y_line : nat;           (* 1-based, as yaml.v3 reports *)
  y_col : nat;
  y_content : list ynode_item
}.

(* yaml.Node.IsZero: the key is absent *)
Definition yfield := option ynode.

Record prop := { p_value : str; p_line : nat; p_col : nat }.
Record modfile := { mf_schema : prop; mf_contents : list prop; mf_contents_line : nat; mf_contents_col : nat }.
Record merr := { me_line : nat; me_col : nat; me_msg : str }.

Definition str_node : str := lit "!!str".
Definition seq_node : str := lit "!!seq".

(* ---- net/url.QueryUnescape ---- *)
Definition ishex (c : N) : bool :=
  ((48 <=? c) && (c <=? 57)) || ((97 <=? c) && (c <=? 102)) || ((65 <=? c) && (c <=? 70)).
Definition unhex (c : N) : N :=
  if (48 <=? c) && (c <=? 57) then c - 48
  else if (97 <=? c) && (c <=? 102) then c - 97 + 10
  else if (65 <=? c) && (c <=? 70) then c - 65 + 10
  else 0.

(* first pass: every '%' must be followed by two hex digits *)
Fixpoint escapes_ok (s : str) : bool :=
  match s with
  | [] => true
  | c :: r =>
      if c =? 37 then
        match r with
        | a :: b :: r' => ishex a && ishex b && escapes_ok r'
        | _ => false
        end
      else escapes_ok r
  end.

Fixpoint unescape_fuel (fuel : nat) (s : str) : str :=
  match fuel with
  | O => []
  | S f =>
      match s with
      | [] => []
      | c :: r =>
          if c =? 37 then
            match r with
            | a :: b :: r' => (unhex a * 16 + unhex b) :: unescape_fuel f r'
            | _ => []
            end
          else if c =? 43 then 32 :: unescape_fuel f r
          else c :: unescape_fuel f r
      end
  end.

Definition query_unescape (s : str) : option str :=
  if escapes_ok s then Some (unescape_fuel (length s) s) else None.

(* ---- the path rules ---- *)
Definition normalize_path (s : str) : str := replace_char 92 47 s.

Inductive item_result := IOk (p : prop) | IErr (e : merr).

Definition check_item (it : ynode_item) : item_result :=
  let at_ m := IErr {| me_line := pred (i_line it); me_col := pred (i_col it); me_msg := m |} in
  if negb (str_eqb (i_tag it) str_node) then
    at_ (lit "unexpected contents item type, expected string got value " ++ i_value it)
  else match query_unescape (i_value it) with
       | None => at_ (lit "failed to decode path: " ++ i_value it)
       | Some d =>
           let p := normalize_path d in
           if contains (lit "../") p || is_prefix (lit "/") p then at_ (lit "invalid contents item " ++ i_value it)
           else if negb (is_suffix (lit ".fga") p) then
                  at_ (lit "contents items should use fga file extension, got " ++ i_value it)
                else IOk {| p_value := p; p_line := pred (i_line it); p_col := pred (i_col it) |}
       end.

Definition oks (l : list item_result) : list prop :=
  flat_map (fun r => match r with IOk p => [p] | IErr _ => [] end) l.
Definition errs (l : list item_result) : list merr :=
  flat_map (fun r => match r with IOk _ => [] | IErr e => [e] end) l.

Definition check_schema (y : yfield) : prop + merr :=
  match y with
  | None => inr {| me_line := 0; me_col := 0; me_msg := lit "missing schema field" |}
  | Some n =>
      if negb (str_eqb (y_tag n) str_node) then
        inr {| me_line := pred (y_line n); me_col := pred (y_col n);
               me_msg := lit "unexpected schema type, expected string got value " ++ y_value n |}
      else if negb (str_eqb (y_value n) (lit "1.2")) then
        inr {| me_line := pred (y_line n); me_col := pred (y_col n);
               me_msg := lit "unsupported schema version, fga.mod only supported in version `1.2`" |}
      else inl {| p_value := y_value n; p_line := pred (y_line n); p_col := pred (y_col n) |}
  end.

Definition transform_mod (schema contents : yfield) : outcome modfile (list merr) :=
  let s := check_schema schema in
  let serr := match s with inr e => [e] | inl _ => [] end in
  match contents with
  | None =>
      Err (serr ++ [{| me_line := 0; me_col := 0; me_msg := lit "missing contents field" |}])
  | Some n =>
      if negb (str_eqb (y_tag n) seq_node) then
        Err (serr ++ [{| me_line := pred (y_line n); me_col := pred (y_col n);
                         me_msg := lit "unexpected contents type, expected list of strings got value " ++ y_value n |}])
      else
        let rs := map check_item (y_content n) in
        match s, errs rs with
        | inl sp, [] => Ok {| mf_schema := sp; mf_contents := oks rs;
                              mf_contents_line := pred (y_line n); mf_contents_col := pred (y_col n) |}
        | _, es => Err (serr ++ es)
        end
  end.

(* Model/Merge.v — TransformModuleFilesToModel (module-to-model.go), after the repairs F4 (a file
   with a model header is rejected by name), F5 (extensions applied in module-list order, maps
   visited in key order) and F12 (an extension is recognised by identity, not by type name).
   With these the function has no hidden iteration order left: it is a function of the list. *)
From Verif Require Import Base.Str Base.Outcome Model.Ast Model.Printer Model.Transform Model.LineNumbers.

Record mfile := { mf_name : str; mf_text : str }.

Inductive merror :=
| MSyntax (file_index : nat)            (* the DSL errors of the file at that position of the list; the implementation writes the
                                          name of that file into them (defect F16, repaired) *)
| MConflict (msg file : str) (pos : position).

Definition pos0 : position := {| line_start := 0; line_end := 0; col_start := 0; col_end := 0 |}.

Record mstate := {
  ms_raw : list typedef;                          (* rawTypeDefs *)
  ms_types : list str;                            (* types *)
  ms_ext : list (str * list typedef);             (* extendedTypeDefs + extendingFiles: first-occurrence order *)
  ms_lines : list (str * list str);               (* moduleFiles *)
  ms_conds : list (str * condition);
  ms_errs : list merror;
}.

Definition with_errs (s : mstate) (e : list merror) : mstate :=
  {| ms_raw := ms_raw s; ms_types := ms_types s; ms_ext := ms_ext s; ms_lines := ms_lines s;
     ms_conds := ms_conds s; ms_errs := ms_errs s ++ e |}.

Definition set_type_file (t : typedef) (md : type_meta) (file : str) : typedef :=
  {| td_name := td_name t; td_rels := td_rels t;
     td_meta := Some {| tm_rels := tm_rels md; tm_module := tm_module md; tm_file := Some file |} |}.

Definition assoc_append {A} (k : str) (v : A) (l : list (str * list A)) : list (str * list A) :=
  match assoc k l with
  | Some vs => assoc_set k (vs ++ [v]) l
  | None => l ++ [(k, [v])]
  end.

(* the type definitions of one file *)
Fixpoint collect_types (file : str) (lines : list str) (exts : list (str * (nat * typedef)))
         (tds : list typedef) (i : nat) (s : mstate) : mstate :=
  match tds with
  | [] => s
  | td :: r =>
      let name := td_name td in
      let extension := match assoc name exts with Some (j, _) => (j =? i)%nat | None => false end in
      let s' :=
        if mem_str name (ms_types s) && negb extension then
          with_errs s [MConflict (lit "duplicate type definition " ++ name) file
                                 (construct_position lines (type_line name lines) name)]
        else if extension then
          {| ms_raw := ms_raw s; ms_types := ms_types s; ms_ext := assoc_append file td (ms_ext s);
             ms_lines := ms_lines s; ms_conds := ms_conds s; ms_errs := ms_errs s |}
        else
          match td_meta td with
          | Some md =>
              {| ms_raw := ms_raw s ++ [set_type_file td md file]; ms_types := ms_types s ++ [name];
                 ms_ext := ms_ext s; ms_lines := ms_lines s; ms_conds := ms_conds s; ms_errs := ms_errs s |}
          | None =>
              {| ms_raw := ms_raw s; ms_types := ms_types s ++ [name]; ms_ext := ms_ext s;
                 ms_lines := ms_lines s; ms_conds := ms_conds s;
                 ms_errs := ms_errs s ++ [MConflict (lit "file is not a module") [] pos0] |}
          end in
      collect_types file lines exts r (S i) s'
  end.

(* the conditions of one file, in key order; None = nil ConditionMetadata dereferenced *)
Fixpoint collect_conds (file : str) (lines : list str) (cs : list (str * condition)) (s : mstate) : option mstate :=
  match cs with
  | [] => Some s
  | (name, c) :: r =>
      match assoc name (ms_conds s) with
      | Some _ =>
          collect_conds file lines r
            (with_errs s [MConflict (lit "duplicate condition " ++ name) file
                                    (construct_position lines (condition_line name lines) name)])
      | None =>
          match c_meta c with
          | None => None
          | Some md =>
              let c' := {| c_name := c_name c; c_expr := c_expr c; c_params := c_params c;
                           c_meta := Some {| cm_module := cm_module md; cm_file := Some file |} |} in
              collect_conds file lines r
                {| ms_raw := ms_raw s; ms_types := ms_types s; ms_ext := ms_ext s; ms_lines := ms_lines s;
                   ms_conds := ms_conds s ++ [(name, c')]; ms_errs := ms_errs s |}
          end
      end
  end.

Fixpoint collect_files (fs : list mfile) (k : nat) (s : mstate) : outcome mstate unit :=
  match fs with
  | [] => Ok s
  | f :: r =>
      let lines := split_on 10 (mf_text f) in
      let s := {| ms_raw := ms_raw s; ms_types := ms_types s; ms_ext := ms_ext s;
                  ms_lines := assoc_set (mf_name f) lines (ms_lines s); ms_conds := ms_conds s; ms_errs := ms_errs s |} in
      match dsl_to_model (mf_text f) with
      | DOk m exts _ =>
          if negb (is_empty (m_schema m)) then
            collect_files r (S k) (with_errs s [MConflict (lit "file is not a module") (mf_name f) pos0])
          else
            let s1 := collect_types (mf_name f) lines exts (m_types m) 0 s in
            match collect_conds (mf_name f) lines (stable_sort pair_cmp (m_conds m)) s1 with
            | Some s2 => collect_files r (S k) s2
            | None => Panic (lit "nil pointer dereference: condition.Metadata")
            end
      | DSyntax _ _ | DListener _ => collect_files r (S k) (with_errs s [MSyntax k])
      | DPanic w => Panic w
      end
  end.

(* ---- applying the extensions ---- *)

Fixpoint index_of_type (name : str) (l : list typedef) (i : nat) : option nat :=
  match l with
  | [] => None
  | t :: r => if str_eqb (td_name t) name then Some i else index_of_type name r (S i)
  end.

Fixpoint replace_nth {A} (n : nat) (x : A) (l : list A) : list A :=
  match l, n with
  | [], _ => []
  | _ :: r, O => x :: r
  | y :: r, S n' => y :: replace_nth n' x r
  end.

Definition with_rel_file (file : str) (m : rel_meta) : rel_meta :=
  {| rm_types := rm_types m; rm_module := rm_module m; rm_file := Some file |}.

(* merge the relations of extension [td] (in key order) into [orig] *)
Fixpoint merge_relations (file : str) (lines : list str) (tyname : str) (existing : list str)
         (names : list str) (td orig : typedef) (errs : list merror) : option (typedef * list merror) :=
  match names with
  | [] => Some (orig, errs)
  | n :: r =>
      if mem_str n existing then
        merge_relations file lines tyname existing r td orig
          (errs ++ [MConflict (lit "relation " ++ n ++ lit " already exists on type " ++ tyname) file
                              (construct_position lines (relation_line n lines) n)])
      else
        match assoc n (td_meta_rels td), td_meta orig, assoc n (td_rels td) with
        | Some rm, Some omd, Some u =>
            let orig' := {| td_name := td_name orig; td_rels := assoc_set n u (td_rels orig);
                            td_meta := Some {| tm_rels := assoc_set n (with_rel_file file rm) (tm_rels omd);
                                               tm_module := tm_module omd; tm_file := tm_file omd |} |} in
            merge_relations file lines tyname existing r td orig' errs
        | _, _, _ => None           (* nil RelationMetadata / nil Metadata dereferenced *)
        end
  end.

Definition apply_extension (file : str) (lines : list str) (td : typedef) (raw : list typedef)
  : option (list typedef * list merror) :=
  match index_of_type (td_name td) raw 0 with
  | None =>
      Some (raw, [MConflict (lit "extended type " ++ td_name td ++ lit " does not exist") file
                            (construct_position lines (extended_type_line (td_name td) lines) (td_name td))])
  | Some i =>
      let orig := nth i raw empty_typedef in
      match td_rels orig with
      | [] =>
          let omd := match td_meta orig with
                     | Some m => m
                     | None => {| tm_rels := []; tm_module := []; tm_file := None |}
                     end in
          let orig' := {| td_name := td_name orig; td_rels := td_rels td;
                          td_meta := Some {| tm_rels := map (fun p => (fst p, with_rel_file file (snd p))) (td_meta_rels td);
                                             tm_module := tm_module omd; tm_file := tm_file omd |} |} in
          Some (replace_nth i orig' raw, [])
      | _ =>
          match merge_relations file lines (td_name td) (keys (td_rels orig))
                                (stable_sort str_compare (keys (td_rels td))) td orig [] with
          | Some (orig', es) => Some (replace_nth i orig' raw, es)
          | None => None
          end
      end
  end.

Fixpoint apply_extensions (file : str) (lines : list str) (tds : list typedef) (raw : list typedef)
         (errs : list merror) : option (list typedef * list merror) :=
  match tds with
  | [] => Some (raw, errs)
  | td :: r =>
      match apply_extension file lines td raw with
      | Some (raw', es) => apply_extensions file lines r raw' (errs ++ es)
      | None => None
      end
  end.

Fixpoint apply_all (exts : list (str * list typedef)) (all_lines : list (str * list str))
         (raw : list typedef) (errs : list merror) : option (list typedef * list merror) :=
  match exts with
  | [] => Some (raw, errs)
  | (file, tds) :: r =>
      let lines := match assoc file all_lines with Some l => l | None => [] end in
      match apply_extensions file lines tds raw errs with
      | Some (raw', errs') => apply_all r all_lines raw' errs'
      | None => None
      end
  end.

Definition init_mstate : mstate :=
  {| ms_raw := []; ms_types := []; ms_ext := []; ms_lines := []; ms_conds := []; ms_errs := [] |}.

Definition merge (files : list mfile) (schema : str) : outcome model (list merror) :=
  match collect_files files 0 init_mstate with
  | Ok s =>
      match apply_all (ms_ext s) (ms_lines s) (ms_raw s) (ms_errs s) with
      | Some (raw, []) => Ok {| m_schema := schema; m_types := raw; m_conds := ms_conds s |}
      | Some (_, es) => Err es
      | None => Panic (lit "nil pointer dereference while applying an extension")
      end
  | Err _ => Err []
  | Panic w => Panic w
  end.

(* utils.GetModuleForObjectTypeRelation *)
Definition module_for_relation (t : typedef) (rel : str) : option str :=
  match assoc rel (td_rels t) with
  | None => None
  | Some _ =>
      match assoc rel (td_meta_rels t) with
      | Some rm => if is_empty (rm_module rm) then Some (td_module t) else Some (rm_module rm)
      | None => Some (td_module t)
      end
  end.

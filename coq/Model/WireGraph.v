(* wire ops 500-599: weighted graph.
   graph  = ((node...) (edge...)), node = (id label type ((key w)...) (wild...)),
            edge = (from to type tupleset (cond...) ((key w)...) (wild...))
   result = (0 graph) | (1 class msg) ; class 0 invalid model, 1 model cycle, 2 tuple cycle, 3 constraint tuple cycle, 5 out of fuel *)
From Verif Require Import Base.Str Base.Sx Base.Outcome Model.Ast Model.WGraph Model.WWeights Model.PGraph Model.WireModel Spec.GraphWeights Spec.GraphShape Spec.Weights.

(* nodes all of whose edges lead to nodes already peeled, round after round *)
Fixpoint peel (fuel : nat) (g : wgraph) (done : list str) : list str :=
  match fuel with
  | O => done
  | S f =>
      let next := filter (fun n => negb (mem_str (n_id n) done) &&
                                   forallb (fun e => mem_str (e_to e) done) (edges_from g (n_id n))) (g_nodes g) in
      match next with
      | [] => done
      | _ => peel f g (done ++ map n_id next)
      end
  end.
Definition quick_acyclic (g : wgraph) : bool :=
  (length (peel (S (length (g_nodes g))) g []) =? length (g_nodes g))%nat.

Definition sx_ntype (t : ntype) : sx := SA (match t with NType => 0 | NTypeRel => 1 | NOperator => 2 | NWildcard => 3 end).
Definition sx_etype (t : etype) : sx := SA (match t with EDirect => 0 | ERewrite => 1 | ETTU => 2 | EComputed => 3 end).
Definition sx_wmap (w : wmap) : sx := sx_list (fun kv => SL [sx_str (fst kv); SA (snd kv)]) w.
Definition sx_wnode (n : wnode) : sx :=
  SL [sx_str (n_id n); sx_str (n_label n); sx_ntype (n_type n); sx_wmap (n_weights n); sx_list sx_str (n_wild n)].
Definition sx_wedge (e : wedge) : sx :=
  SL [sx_str (e_from e); sx_str (e_to e); sx_etype (e_type e); sx_str (e_tupleset e); sx_list sx_str (e_conds e);
      sx_wmap (e_weights e); sx_list sx_str (e_wild e)].
Definition sx_wgraph (g : wgraph) : sx :=
  SL [sx_list sx_wnode (g_nodes g);
      sx_list sx_wedge (flat_map (fun n => edges_from g (n_id n)) (g_nodes g))].
Definition sx_werr (e : werr) : sx :=
  match e with
  | WInvalidModel m => SL [SA 1; SA 0; sx_str m]
  | WModelCycle => SL [SA 1; SA 1; SL []]
  | WTupleCycle n => SL [SA 1; SA 2; sx_nat n]
  | WConstraintTupleCycle => SL [SA 1; SA 3; SL []]
  | WTupleCycleInvalidNode => SL [SA 1; SA 2; SL []]
  | WOutOfFuel => SL [SA 1; SA 5; SL []]
  end.
Definition sx_gresult (r : outcome wgraph werr) : sx :=
  match r with
  | Ok g => SL [SA 0; sx_wgraph g]
  | Err e => sx_werr e
  | Panic w => SL [SA 3; sx_str w]
  end.

(* plain graph: (listobjects ((id label type)...) ((from to type tupleset)...)) with the lines in DOT order *)
Definition sx_pgraph (g : pgraph) : sx :=
  SL [sx_bool (pg_listobjects g);
      sx_list (fun n => SL [sx_nat (pn_id n); sx_str (pn_label n); sx_ntype (pn_type n)]) (pg_nodes g);
      sx_list (fun l => SL [sx_nat (pl_from l); sx_nat (pl_to l); sx_etype (pl_type l); sx_str (pl_tupleset l)]) (dot_lines g)].
Fixpoint iter_rev (k : nat) (g : pgraph) : pgraph := match k with O => g | S k' => iter_rev k' (reversed g) end.
Definition sx_obool2 (o : option bool) : sx := match o with None => SA 2 | Some true => SA 1 | Some false => SA 0 end.

Definition dispatch_graph (op : N) (args : list sx) : option sx :=
  match op, args with
  | 600, [SA k; m] => option_map (fun m => sx_pgraph (iter_rev (N.to_nat k) (pbuild m))) (un_model m)
  | 602, [SA k; m; labels] =>
      match un_model m, un_listof un_str labels with
      | Some m, Some ls =>
          let g := iter_rev (N.to_nat k) (pbuild m) in
          Some (sx_list (fun a => sx_list (fun b => sx_obool2 (path_exists g a b)) ls) ls)
      | _, _ => None
      end
  | 502, [m] =>
      (* the SPECIFICATION of Spec/GraphWeights.v on the model's graph: (applicable? ((relation-node weights)...)).
         [heights] unfolds the graph without sharing: on a graph with a cycle it takes time exponential in the number
         of nodes, so a cheap test (peeling off nodes whose targets are all peeled) goes first; a graph it does not
         peel completely has a cycle and is outside the theorems' domain anyway *)
      option_map (fun m => match wbuild m with
                           | Ok g =>
                               if quick_acyclic g then
                                 SL [sx_bool (dag_check g);
                                     sx_list (fun n => SL [sx_str (n_id n); sx_wmap (spec_weights g (n_id n)); sx_list sx_str (spec_wildcards g (n_id n))])
                                             (filter (fun n => match n_type n with NTypeRel => true | _ => false end) (g_nodes g));
                                     sx_bool (fuel_check g);
                                     sx_bool (forallb (spec_accepts g) (default_order g))]
                               else SL [sx_bool false; SL []; sx_bool false; sx_bool false]
                           | _ => SL [SA 2; SL []]
                           end) (un_model m)
  | 504, [m] =>
      (* the property's own definition of weights on the MODEL (Spec/Weights.spec_of; C06_operand_order_on_the_model is about
         it), for every relation; unfolding is exponential on cyclic models, so only models whose graph peels completely *)
      option_map (fun m => match wbuild m with
                           | Ok g =>
                               if quick_acyclic g then
                                 SL [sx_bool true;
                                     sx_list (fun td => sx_list (fun p => SL [sx_str (td_name td ++ lit "#" ++ fst p);
                                                                              sx_wmap (spec_of m (td_name td) (fst p))]) (td_rels td))
                                             (m_types m)]
                               else SL [sx_bool false; SL []]
                           | _ => SL [SA 2; SL []]
                           end) (un_model m)
  | 503, [m] => option_map (fun m => SL [sx_bool (shape_domain m); sx_bool (model_valid m)]) (un_model m)
  | 500, [m] => option_map (fun m => sx_gresult (wbuild m)) (un_model m)
  | 501, [o; m] =>
      match un_opt (un_listof un_str) o, un_model m with
      | Some o, Some m => Some (sx_gresult (build_weighted o m))
      | _, _ => None
      end
  | _, _ => None
  end.

(* Model/Validate.v — the nine validators of pkg/go/validation, as the expression trees the
   translator extracts from validation-rules.go (Gen/Rules.v). *)
From Verif Require Import Base.Str Model.Regex Gen.Rules.

Definition validate_object := veval go_validate_object.
Definition validate_object_id := veval go_validate_objectid.
Definition validate_relation := veval go_validate_relation.
Definition validate_user_set := veval go_validate_user_set.
Definition validate_user_object := veval go_validate_user_object.
Definition validate_user_wildcard := veval go_validate_user_wildcard.
Definition validate_user := veval go_validate_user.
Definition validate_condition := veval go_validate_relationship_condition.
Definition validate_type := veval go_validate_type.

(* all nine at once, in the order of [go_validators]; None = a pattern the model cannot parse *)
Definition validate_all (s : str) : list (option bool) :=
  map (fun nv => veval (snd nv) s) go_validators.

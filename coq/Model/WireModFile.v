(* wire ops 300-399: fga.mod.  node = (tag value line col (item...)), item = (tag value line col);
   result = (0 (schema line col) ((path line col)...) cline ccol) | (1 ((line col msg)...)) *)
From Verif Require Import Base.Str Base.Sx Base.Outcome Model.ModFile.

Definition un_item (x : sx) : option ynode_item :=
  match x with
  | SL [t; v; SA l; SA c] =>
      match un_str t, un_str v with
      | Some t, Some v => Some {| i_tag := t; i_value := v; i_line := N.to_nat l; i_col := N.to_nat c |}
      | _, _ => None
      end
  | _ => None
  end.
Definition un_node (x : sx) : option ynode :=
  match x with
  | SL [t; v; SA l; SA c; items] =>
      match un_str t, un_str v, un_listof un_item items with
      | Some t, Some v, Some its =>
          Some {| y_tag := t; y_value := v; y_line := N.to_nat l; y_col := N.to_nat c; y_content := its |}
      | _, _, _ => None
      end
  | _ => None
  end.
Definition sx_prop (p : prop) : sx := SL [sx_str (p_value p); sx_nat (p_line p); sx_nat (p_col p)].
Definition sx_merr (e : merr) : sx := SL [sx_nat (me_line e); sx_nat (me_col e); sx_str (me_msg e)].

Definition dispatch_modfile (op : N) (args : list sx) : option sx :=
  match op, args with
  | 300, [s; c] =>
      match un_opt un_node s, un_opt un_node c with
      | Some s, Some c =>
          Some (match transform_mod s c with
                | Ok f => SL [SA 0; sx_prop (mf_schema f); sx_list sx_prop (mf_contents f);
                              sx_nat (mf_contents_line f); sx_nat (mf_contents_col f)]
                | Err es => SL [SA 1; sx_list sx_merr es]
                | Panic w => SL [SA 3; sx_str w]
                end)
      | _, _ => None
      end
  | 301, [s] => option_map (fun s => sx_opt sx_str (query_unescape s)) (un_str s)
  | _, _ => None
  end.

(* Model/Parser.v — typed parse trees of OpenFGAParser.g4 and a deterministic recursive-descent
   parser over the channel-0 token stream (DESIGN.md Appendix A).

   Assumed about ANTLR (trusted, exercised by the correspondence): the generated parser accepts
   exactly L(G) and, where G is ambiguous, returns the minimum-alternative tree.  Error recovery
   is not modelled: a syntax error is [None]. *)
From Verif Require Import Base.Str Model.Token.

Inductive opk := ONone | OOr | OAnd | OButNot.

Inductive rkind := RKPlain | RKWild | RKRel (r : tok).
Record restr := { rs_type : tok; rs_kind : rkind; rs_cond : option tok }.

(* an operand of a relation definition.
   EGroup nd first op rest : a parenthesised definition; nd = true for relationRecurseNoDirect
   (pushes on the listener's rewrite stack), false for relationRecurse (leading position). *)
Inductive relem :=
| EDirect (rs : list restr)
| ERewrite (cu : tok) (ts : option tok)
| EGroup (nd : bool) (first : relem) (op : opk) (rest : list relem).

Record rdef := { rd_first : relem; rd_op : opk; rd_rest : list relem }.
Record reldecl := { rl_name : tok; rl_def : rdef }.
Record typedecl := { ty_extend : bool; ty_name : tok; ty_rels : list reldecl }.
Record pdecl := { pd_name : tok; pd_container : option tok; pd_type : tok }.
Record conddecl := { cd_name : tok; cd_params : list pdecl; cd_expr : list tok }.
Inductive header := HModel (version : tok) | HModule (name : tok).
Record file := { f_header : header; f_types : list typedecl; f_conds : list conddecl }.

(* ---------------------------------------------------------------------------------------- *)

Definition hd_tk (ts : list tok) : tkind := match ts with t :: _ => tk t | [] => TEOF end.
Definition hd2_tk (ts : list tok) : tkind := match ts with _ :: t :: _ => tk t | _ => TEOF end.
Definition is_tk (k : tkind) (ts : list tok) : bool := tk_eqb (hd_tk ts) k.
Definition is_tk2 (k : tkind) (ts : list tok) : bool := tk_eqb (hd2_tk ts) k.

Definition P (A : Type) := option (A * list tok).

Definition expect (k : tkind) (ts : list tok) : P tok :=
  match ts with
  | t :: r => if tk_eqb (tk t) k then Some (t, r) else None
  | [] => None
  end.
Definition skip_opt (k : tkind) (ts : list tok) : list tok :=
  match ts with
  | t :: r => if tk_eqb (tk t) k then r else ts
  | [] => ts
  end.
Definition expect_p (p : tkind -> bool) (ts : list tok) : P tok :=
  match ts with
  | t :: r => if p (tk t) then Some (t, r) else None
  | [] => None
  end.

Notation "'do' x <- e ; f" := (match e with Some x => f | None => None end)
  (at level 200, x pattern, e at level 100, f at level 200).

(* multiLineComment: HASH (~NEWLINE)* (NEWLINE multiLineComment)? ; ts starts at the HASH *)
Fixpoint skip_to_newline (ts : list tok) : list tok :=
  match ts with
  | t :: r => if tk_eqb (tk t) NEWLINE then ts else skip_to_newline r
  | [] => []
  end.
Fixpoint skip_comment (fuel : nat) (ts : list tok) : option (list tok) :=
  match fuel with
  | O => None
  | S f =>
      if is_tk HASH ts then
        let r := skip_to_newline (tl ts) in
        if is_tk NEWLINE r && is_tk2 HASH r then skip_comment f (tl r) else Some r
      else None
  end.

(* (NEWLINE multiLineComment)? NEWLINE : returns the rest after the final NEWLINE *)
Definition lead_in (ts : list tok) : option (list tok) :=
  if is_tk NEWLINE ts then
    if is_tk2 HASH ts then
      match skip_comment (S (length ts)) (tl ts) with
      | Some r => if is_tk NEWLINE r then Some (tl r) else None
      | None => None
      end
    else Some (tl ts)
  else None.

(* does a construct introduced by one of [ks] start here (after the optional comment)? *)
Definition starts_with (ks : list tkind) (ts : list tok) : bool :=
  match lead_in ts with
  | Some r => existsb (fun k => is_tk k r) ks
  | None => false
  end.

(* ---- restrictions ---- *)

Definition p_restr_base (ts : list tok) : P (tok * rkind) :=
  do (ty, ts) <- expect_p is_ext_identifier_tk ts;
  if is_tk COLON ts then
    do (_, ts') <- expect STAR (tl ts); Some ((ty, RKWild), ts')
  else if is_tk HASH ts then
    do (r, ts') <- expect_p is_ext_identifier_tk (tl ts); Some ((ty, RKRel r), ts')
  else Some ((ty, RKPlain), ts).

Definition p_restr (ts : list tok) : P restr :=
  let ts := skip_opt NEWLINE ts in
  do (b, ts) <- p_restr_base ts;
  let '(ty, k) := b in
  if is_tk WHITESPACE ts && is_tk2 KEYWORD_WITH ts then
    do (_, ts) <- expect WHITESPACE (tl (tl ts));
    do (c, ts) <- expect IDENTIFIER ts;
    Some ({| rs_type := ty; rs_kind := k; rs_cond := Some c |}, skip_opt NEWLINE ts)
  else Some ({| rs_type := ty; rs_kind := k; rs_cond := None |}, skip_opt NEWLINE ts).

(* (COMMA WS? restriction WS?)* RPRACKET *)
Fixpoint p_restr_more (fuel : nat) (ts : list tok) : P (list restr) :=
  match fuel with
  | O => None
  | S f =>
      if is_tk COMMA ts then
        do (r, ts) <- p_restr (skip_opt WHITESPACE (tl ts));
        do (rs, ts) <- p_restr_more f (skip_opt WHITESPACE ts);
        Some (r :: rs, ts)
      else do (_, ts) <- expect RPRACKET ts; Some ([], ts)
  end.

Definition p_direct (ts : list tok) : P (list restr) :=      (* ts starts at LBRACKET *)
  do (_, ts) <- expect LBRACKET ts;
  do (r, ts) <- p_restr (skip_opt WHITESPACE ts);
  do (rs, ts) <- p_restr_more (S (length ts)) (skip_opt WHITESPACE ts);
  Some (r :: rs, ts).

Definition p_rewrite (ts : list tok) : P relem :=
  do (cu, ts) <- expect_p is_ext_identifier_tk ts;
  if is_tk WHITESPACE ts && is_tk2 FROM ts then
    do (_, ts) <- expect WHITESPACE (tl (tl ts));
    do (tset, ts) <- expect_p is_ext_identifier_tk ts;
    Some (ERewrite cu (Some tset), ts)
  else Some (ERewrite cu None, ts).

Definition op_of_tk (k : tkind) : opk :=
  match k with OR => OOr | AND => OAnd | BUT_NOT => OButNot | _ => ONone end.
Definition opk_eqb (a b : opk) : bool :=
  match a, b with ONone, ONone | OOr, OOr | OAnd, OAnd | OButNot, OButNot => true | _, _ => false end.

(* operator announced by "WS (OR|AND|BUT_NOT)" at the head, if any *)
Definition peek_op (ts : list tok) : opk :=
  if is_tk WHITESPACE ts then op_of_tk (hd2_tk ts) else ONone.

(* relationDef (direct = true) / relationDefNoDirect (direct = false), and the operands.
   The recursion (one level of parentheses deeper) is passed in as [rec] so that the pieces can be
   reasoned about separately; [p_def] ties the knot on fuel. *)
Definition def_result := (relem * opk * list relem)%type.

(* relationDefGrouping | relationRecurseNoDirect *)
Definition p_operand_with (rec : bool -> list tok -> P def_result) (ts : list tok) : P relem :=
  if is_tk LPAREN ts then
    do (d, ts) <- rec false (skip_opt WHITESPACE (tl ts));
    do (_, ts) <- expect RPAREN (skip_opt WHITESPACE ts);
    let '(fi, op, rest) := d in Some (EGroup true fi op rest, ts)
  else p_rewrite ts.

(* relationDefPartials: (WS op WS operand)+ for or/and, exactly one for but not *)
Fixpoint p_partials_with (rec : bool -> list tok -> P def_result) (n : nat) (op : opk) (ts : list tok) : P (list relem) :=
  match n with
  | O => None
  | S n' =>
      if opk_eqb (peek_op ts) op then
        do (_, ts) <- expect WHITESPACE (tl (tl ts));
        do (e, ts) <- p_operand_with rec ts;
        match op with
        | OButNot => Some ([e], ts)
        | _ => do (es, ts) <- p_partials_with rec n' op ts; Some (e :: es, ts)
        end
      else Some ([], ts)
  end.

Definition p_def_body (rec : bool -> list tok -> P def_result) (direct : bool) (ts : list tok) : P def_result :=
  do (fi, ts) <-
    (if is_tk LBRACKET ts then
       if direct then do (rs, ts) <- p_direct ts; Some (EDirect rs, ts) else None
     else if is_tk LPAREN ts then
       if direct then
         do (d, ts) <- rec true (skip_opt WHITESPACE (tl ts));
         do (_, ts) <- expect RPAREN (skip_opt WHITESPACE ts);
         let '(fi, op, rest) := d in Some (EGroup false fi op rest, ts)
       else p_operand_with rec ts
     else p_rewrite ts);
  match peek_op ts with
  | ONone => Some ((fi, ONone, []), ts)
  | op => do (es, ts) <- p_partials_with rec (S (length ts)) op ts; Some ((fi, op, es), ts)
  end.

Fixpoint p_def (fuel : nat) (direct : bool) (ts : list tok) : P def_result :=
  match fuel with
  | O => None
  | S f => p_def_body (p_def f) direct ts
  end.

(* relationDeclaration *)
Definition p_reldecl (ts : list tok) : P reldecl :=
  do ts <- option_map (fun r => (r, r)) (lead_in ts);
  let ts := fst ts in
  do (_, ts) <- expect DEFINE ts;
  do (_, ts) <- expect WHITESPACE ts;
  do (nm, ts) <- expect_p is_ext_identifier_tk ts;
  do (_, ts) <- expect COLON (skip_opt WHITESPACE ts);
  do (d, ts) <- p_def (S (length ts)) true (skip_opt WHITESPACE ts);
  let '(fi, op, rest) := d in
  Some ({| rl_name := nm; rl_def := {| rd_first := fi; rd_op := op; rd_rest := rest |} |}, ts).

Fixpoint p_reldecls (fuel : nat) (ts : list tok) : P (list reldecl) :=
  match fuel with
  | O => None
  | S f =>
      if starts_with [DEFINE] ts then
        do (r, ts) <- p_reldecl ts;
        do (rs, ts) <- p_reldecls f ts;
        Some (r :: rs, ts)
      else Some ([], ts)
  end.

Definition p_typedef (ts : list tok) : P typedecl :=
  do ts <- option_map (fun r => (r, r)) (lead_in ts);
  let ts := fst ts in
  do (ext, ts) <- (if is_tk EXTEND ts then do (_, ts) <- expect WHITESPACE (tl ts); Some (true, ts)
                   else Some (false, ts));
  do (_, ts) <- expect TYPE ts;
  do (_, ts) <- expect WHITESPACE ts;
  do (nm, ts) <- expect_p is_ext_identifier_tk ts;
  if is_tk NEWLINE ts && is_tk2 RELATIONS ts then
    do (r, ts) <- p_reldecl (tl (tl ts));
    do (rs, ts) <- p_reldecls (S (length ts)) ts;
    Some ({| ty_extend := ext; ty_name := nm; ty_rels := r :: rs |}, ts)
  else Some ({| ty_extend := ext; ty_name := nm; ty_rels := [] |}, ts).

Fixpoint p_typedefs (fuel : nat) (ts : list tok) : P (list typedecl) :=
  match fuel with
  | O => None
  | S f =>
      if starts_with [EXTEND; TYPE] ts then
        do (t, ts) <- p_typedef ts;
        do (tds, ts) <- p_typedefs f ts;
        Some (t :: tds, ts)
      else Some ([], ts)
  end.

(* conditionParameter: NEWLINE? parameterName WS? COLON WS? parameterType *)
Definition p_param (ts : list tok) : P pdecl :=
  do (nm, ts) <- expect IDENTIFIER (skip_opt NEWLINE ts);
  do (_, ts) <- expect COLON (skip_opt WHITESPACE ts);
  let ts := skip_opt WHITESPACE ts in
  if is_tk CONDITION_PARAM_CONTAINER ts then
    do (c, ts) <- expect CONDITION_PARAM_CONTAINER ts;
    do (_, ts) <- expect LESS ts;
    do (t, ts) <- expect CONDITION_PARAM_TYPE ts;
    do (_, ts) <- expect GREATER ts;
    Some ({| pd_name := nm; pd_container := Some c; pd_type := t |}, ts)
  else
    do (t, ts) <- expect CONDITION_PARAM_TYPE ts;
    Some ({| pd_name := nm; pd_container := None; pd_type := t |}, ts).

Fixpoint p_params_more (fuel : nat) (ts : list tok) : P (list pdecl) :=
  match fuel with
  | O => None
  | S f =>
      if is_tk COMMA ts then
        do (p, ts) <- p_param (skip_opt WHITESPACE (tl ts));
        do (ps, ts) <- p_params_more f (skip_opt WHITESPACE ts);
        Some (p :: ps, ts)
      else Some ([], ts)
  end.

(* conditionExpression: every token up to the first RBRACE token *)
Fixpoint take_expr (ts : list tok) : list tok * list tok :=
  match ts with
  | t :: r => if tk_eqb (tk t) RBRACE then ([], ts) else let '(e, r') := take_expr r in (t :: e, r')
  | [] => ([], [])
  end.

Definition p_condition (ts : list tok) : P conddecl :=
  do ts <- option_map (fun r => (r, r)) (lead_in ts);
  let ts := fst ts in
  do (_, ts) <- expect CONDITION ts;
  do (_, ts) <- expect WHITESPACE ts;
  do (nm, ts) <- expect IDENTIFIER ts;
  do (_, ts) <- expect LPAREN (skip_opt WHITESPACE ts);
  do (p, ts) <- p_param (skip_opt WHITESPACE ts);
  do (ps, ts) <- p_params_more (S (length ts)) (skip_opt WHITESPACE ts);
  do (_, ts) <- expect RPAREN (skip_opt NEWLINE ts);
  do (_, ts) <- expect LBRACE (skip_opt WHITESPACE ts);
  let ts := skip_opt WHITESPACE (skip_opt NEWLINE ts) in
  let '(e, ts) := take_expr ts in
  do (_, ts) <- expect RBRACE ts;
  Some ({| cd_name := nm; cd_params := p :: ps; cd_expr := e |}, ts).

Fixpoint p_conditions (fuel : nat) (ts : list tok) : P (list conddecl) :=
  match fuel with
  | O => None
  | S f =>
      if starts_with [CONDITION] ts then
        do (c, ts) <- p_condition ts;
        do (cs, ts) <- p_conditions f ts;
        Some (c :: cs, ts)
      else Some ([], ts)
  end.

Definition p_header (ts : list tok) : P header :=
  do ts <- (if is_tk HASH ts then
              match skip_comment (S (length ts)) ts with
              | Some r => if is_tk NEWLINE r then Some (tl r, tl r) else None
              | None => None
              end
            else Some (ts, ts));
  let ts := fst ts in
  if is_tk MODEL ts then
    do (_, ts) <- expect NEWLINE (tl ts);
    do (_, ts) <- expect SCHEMA ts;
    do (_, ts) <- expect WHITESPACE ts;
    do (v, ts) <- expect SCHEMA_VERSION ts;
    Some (HModel v, skip_opt WHITESPACE ts)
  else if is_tk MODULE ts then
    do (_, ts) <- expect WHITESPACE (tl ts);
    do (n, ts) <- expect_p is_identifier_tk ts;
    Some (HModule n, skip_opt WHITESPACE ts)
  else None.

(* main: WHITESPACE? NEWLINE? header NEWLINE? typeDefs NEWLINE? conditions NEWLINE? EOF.
   A type definition and a condition start with a NEWLINE of their own, and the NEWLINE rule of the lexer absorbs every
   run of line breaks, so the optional NEWLINE in front of typeDefs / conditions is taken exactly when two NEWLINE tokens
   follow each other (which only happens around a hidden-channel `//` comment). *)
Definition skip_dup_newline (ts : list tok) : list tok :=
  if is_tk NEWLINE ts && is_tk2 NEWLINE ts then tl ts else ts.

Definition parse (ts : list tok) : option file :=
  let ts := skip_opt NEWLINE (skip_opt WHITESPACE ts) in
  do (h, ts) <- p_header ts;
  do (tds, ts) <- p_typedefs (S (length ts)) (skip_dup_newline ts);
  do (cs, ts) <- p_conditions (S (length ts)) (skip_dup_newline ts);
  match skip_opt NEWLINE ts with
  | [] => Some {| f_header := h; f_types := tds; f_conds := cs |}
  | _ :: _ => None
  end.

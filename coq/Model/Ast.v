(* Model/Ast.v — the authorization model as the Go code sees it (openfgav1 protobuf messages).
   Go maps are association lists whose order stands for the map's iteration order; every
   theorem about a function ranging over such a map quantifies over the permutations.
   A nil *Userset / a Userset whose oneof is not set are both [UUnset] (all getters are
   nil-safe and treat them alike).  Oneof payloads (Usersets, Difference, ObjectRelation,
   TupleToUserset) are assumed non-nil when the oneof is set; nil payloads are outside the
   modelled domain (DESIGN.md section 9). *)
From Verif Require Import Base.Str.

Inductive this_repr := ThisNil | ThisEmpty.   (* Userset_This{This:nil} vs {This:&DirectUserset{}} *)

Inductive userset :=
| UUnset
| UThis (r : this_repr)
| UComputed (rel : str)
| UTTU (tupleset computed : str)
| UUnion (cs : list userset)
| UInter (cs : list userset)
| UDiff (base sub : userset).

(* induction principle that goes through the child lists *)
Section userset_ind'.
  Variable P : userset -> Prop.
  Hypothesis Hunset : P UUnset.
  Hypothesis Hthis : forall r, P (UThis r).
  Hypothesis Hcomp : forall rel, P (UComputed rel).
  Hypothesis Httu : forall ts cu, P (UTTU ts cu).
  Hypothesis Hunion : forall cs, Forall P cs -> P (UUnion cs).
  Hypothesis Hinter : forall cs, Forall P cs -> P (UInter cs).
  Hypothesis Hdiff : forall b s, P b -> P s -> P (UDiff b s).
  Fixpoint userset_ind' (u : userset) : P u :=
    match u with
    | UUnset => Hunset
    | UThis r => Hthis r
    | UComputed rel => Hcomp rel
    | UTTU ts cu => Httu ts cu
    | UUnion cs =>
        Hunion cs ((fix go (l : list userset) : Forall P l :=
                      match l with
                      | [] => Forall_nil P
                      | x :: r => Forall_cons x (userset_ind' x) (go r)
                      end) cs)
    | UInter cs =>
        Hinter cs ((fix go (l : list userset) : Forall P l :=
                      match l with
                      | [] => Forall_nil P
                      | x :: r => Forall_cons x (userset_ind' x) (go r)
                      end) cs)
    | UDiff b s => Hdiff b s (userset_ind' b) (userset_ind' s)
    end.
End userset_ind'.

Inductive ref_kind := RPlain | RRel (r : str) | RWild.
Record relation_ref := { rr_type : str; rr_kind : ref_kind; rr_cond : str }.

Record rel_meta := { rm_types : list relation_ref; rm_module : str; rm_file : option str }.
Record type_meta := { tm_rels : list (str * rel_meta); tm_module : str; tm_file : option str }.
Record typedef := { td_name : str; td_rels : list (str * userset); td_meta : option type_meta }.

(* ConditionParamTypeRef: TypeName enum number + GenericTypes *)
Inductive ptype := PT (name : N) (generic : list ptype).
Record cond_meta := { cm_module : str; cm_file : option str }.
Record condition := { c_name : str; c_expr : str; c_params : list (str * ptype); c_meta : option cond_meta }.

Record model := { m_schema : str; m_types : list typedef; m_conds : list (str * condition) }.

(* ---------- association lists (Go map look-ups) ---------- *)

Fixpoint assoc {A} (k : str) (l : list (str * A)) : option A :=
  match l with
  | [] => None
  | (k', v) :: r => if str_eqb k k' then Some v else assoc k r
  end.

Definition keys {A} (l : list (str * A)) : list str := map fst l.

Fixpoint mem_str (k : str) (l : list str) : bool :=
  match l with [] => false | x :: r => str_eqb k x || mem_str k r end.

(* map[k] = v : replace in place if present (order of an existing key is kept), else append *)
Fixpoint assoc_set {A} (k : str) (v : A) (l : list (str * A)) : list (str * A) :=
  match l with
  | [] => [(k, v)]
  | (k', v') :: r => if str_eqb k k' then (k, v) :: r else (k', v') :: assoc_set k v r
  end.

(* ---------- nil-safe getters ---------- *)

Definition td_meta_rels (t : typedef) : list (str * rel_meta) :=
  match td_meta t with Some m => tm_rels m | None => [] end.
Definition td_module (t : typedef) : str :=
  match td_meta t with Some m => tm_module m | None => [] end.
Definition td_file (t : typedef) : str :=
  match td_meta t with Some m => match tm_file m with Some f => f | None => [] end | None => [] end.
Definition rm_file_str (m : option rel_meta) : str :=
  match m with Some m => match rm_file m with Some f => f | None => [] end | None => [] end.
Definition rm_module_str (m : option rel_meta) : str :=
  match m with Some m => rm_module m | None => [] end.
Definition rm_types_of (m : option rel_meta) : list relation_ref :=
  match m with Some m => rm_types m | None => [] end.
Definition c_module (c : condition) : str :=
  match c_meta c with Some m => cm_module m | None => [] end.
Definition c_file (c : condition) : str :=
  match c_meta c with Some m => match cm_file m with Some f => f | None => [] end | None => [] end.

Definition empty_typedef : typedef := {| td_name := []; td_rels := []; td_meta := None |}.

(* boolean equality, used by frame / round-trip checks that run inside the extracted model *)
Definition this_repr_eqb (a b : this_repr) : bool :=
  match a, b with ThisNil, ThisNil | ThisEmpty, ThisEmpty => true | _, _ => false end.

Fixpoint list_eqb {A} (f : A -> A -> bool) (a b : list A) : bool :=
  match a, b with
  | [], [] => true
  | x :: a', y :: b' => f x y && list_eqb f a' b'
  | _, _ => false
  end.

Fixpoint userset_eqb (a b : userset) : bool :=
  let fix go (xs ys : list userset) : bool :=
    match xs, ys with
    | [], [] => true
    | x :: xs', y :: ys' => userset_eqb x y && go xs' ys'
    | _, _ => false
    end in
  match a, b with
  | UUnset, UUnset => true
  | UThis x, UThis y => this_repr_eqb x y
  | UComputed x, UComputed y => str_eqb x y
  | UTTU t1 c1, UTTU t2 c2 => str_eqb t1 t2 && str_eqb c1 c2
  | UUnion xs, UUnion ys => go xs ys
  | UInter xs, UInter ys => go xs ys
  | UDiff b1 s1, UDiff b2 s2 => userset_eqb b1 b2 && userset_eqb s1 s2
  | _, _ => false
  end.

(* Model/PGraph.v — the plain authorization-model graph (graph_builder.go, graph.go): builder,
   Reversed (after the repair F7: lines re-added in ID order), PathExists, label look-up, and the
   content of the DOT rendering.  gonum's multi.DirectedGraph is modelled by sequential node and
   line IDs; dot.MarshalMulti by "nodes by ID, lines by (from, to, ID)"; topo.PathExistsIn by
   reflexive-transitive reachability (all three external: trusted, under correspondence). *)
From Verif Require Import Base.Str Base.Outcome Model.Ast Model.Printer Model.WGraph.

Record pnode := { pn_id : nat; pn_ulabel : str; pn_label : str; pn_type : ntype }.
Record pline := { pl_id : nat; pl_from : nat; pl_to : nat; pl_type : etype; pl_tupleset : str; pl_conds : list str }.
Record pgraph := { pg_nodes : list pnode; pg_lines : list pline; pg_ops : N; pg_listobjects : bool }.

Definition find_pnode (l : str) (g : pgraph) : option pnode :=
  find (fun n => str_eqb (pn_ulabel n) l) (pg_nodes g).

Definition p_get_or_add (g : pgraph) (ulabel label : str) (t : ntype) : pgraph * pnode :=
  match find_pnode ulabel g with
  | Some n => (g, n)
  | None =>
      let n := {| pn_id := length (pg_nodes g); pn_ulabel := ulabel; pn_label := label; pn_type := t |} in
      ({| pg_nodes := pg_nodes g ++ [n]; pg_lines := pg_lines g; pg_ops := pg_ops g; pg_listobjects := pg_listobjects g |}, n)
  end.

Definition p_add_edge (g : pgraph) (from to : nat) (t : etype) (tupleset : str) (conds : list str) : pgraph :=
  {| pg_nodes := pg_nodes g;
     pg_lines := pg_lines g ++ [{| pl_id := length (pg_lines g); pl_from := from; pl_to := to; pl_type := t;
                                   pl_tupleset := tupleset;
                                   pl_conds := match conds with [] => [no_cond] | _ => conds end |}];
     pg_ops := pg_ops g; pg_listobjects := pg_listobjects g |}.

Definition p_same (l : pline) (from to : nat) (t : etype) (tupleset : str) : bool :=
  (pl_from l =? from)%nat && (pl_to l =? to)%nat && etype_eqb (pl_type l) t && str_eqb (pl_tupleset l) tupleset.

Definition p_has_edge (g : pgraph) (from to : nat) (t : etype) (tupleset : str) : bool :=
  existsb (fun l => p_same l from to t tupleset) (pg_lines g).

(* upsertEdge: the condition is compared before "" is normalised to "none" (as in the code) *)
Fixpoint p_upsert_in (ls : list pline) (from to : nat) (t : etype) (tupleset cond : str) : option (list pline) :=
  match ls with
  | [] => None
  | l :: r =>
      if p_same l from to t tupleset then
        if mem_str cond (pl_conds l) then Some ls
        else Some ({| pl_id := pl_id l; pl_from := pl_from l; pl_to := pl_to l; pl_type := pl_type l;
                      pl_tupleset := pl_tupleset l; pl_conds := pl_conds l ++ [cond] |} :: r)
      else option_map (cons l) (p_upsert_in r from to t tupleset cond)
  end.

Definition p_upsert (g : pgraph) (from to : nat) (t : etype) (tupleset cond : str) : pgraph :=
  match p_upsert_in (pg_lines g) from to t tupleset cond with
  | Some ls => {| pg_nodes := pg_nodes g; pg_lines := ls; pg_ops := pg_ops g; pg_listobjects := pg_listobjects g |}
  | None => p_add_edge g from to t tupleset [if is_empty cond then no_cond else cond]
  end.

(* parseThis: three independent tests; [cur] survives from the previous restriction when none applies *)
Definition p_parse_this (g : pgraph) (parent : pnode) (td : typedef) (rel : str) : pgraph :=
  fst (fold_left
    (fun (acc : pgraph * option pnode) r =>
       let '(g, cur) := acc in
       let '(g, cur) :=
         match rr_kind r with
         | RPlain => let '(g, n) := p_get_or_add g (rr_type r) (rr_type r) NType in (g, Some n)
         | RWild => let '(g, n) := p_get_or_add g (rr_type r ++ lit ":*") (rr_type r ++ lit ":*") NWildcard in (g, Some n)
         | RRel x => if is_empty x then (g, cur)
                     else let '(g, n) := p_get_or_add g (rr_type r ++ lit "#" ++ x) (rr_type r ++ lit "#" ++ x) NTypeRel in (g, Some n)
         end in
       match cur with
       | Some c => (p_upsert g (pn_id c) (pn_id parent) EDirect [] (rr_cond r), cur)
       | None => (g, cur)
       end)
    (rm_types_of (assoc rel (td_meta_rels td))) (g, None)).

Definition p_parse_computed (g : pgraph) (parent : pnode) (td : typedef) (rel : str) : pgraph :=
  let id := td_name td ++ lit "#" ++ rel in
  let '(g, n) := p_get_or_add g id id NTypeRel in
  let t := if ntype_eqb (pn_type parent) NTypeRel && ntype_eqb (pn_type n) NTypeRel then EComputed else ERewrite in
  p_add_edge g (pn_id n) (pn_id parent) t [] [].

Definition p_parse_ttu (g : pgraph) (parent : pnode) (m : model) (td : typedef) (tupleset computed : str) : pgraph :=
  fold_left
    (fun g r =>
       if negb (type_and_relation_exists m (rr_type r) computed) then g
       else
         let id := rr_type r ++ lit "#" ++ computed in
         let '(g, n) := p_get_or_add g id id NTypeRel in
         let label := td_name td ++ lit "#" ++ tupleset in
         if p_has_edge g (pn_id n) (pn_id parent) ETTU label then g
         else p_upsert g (pn_id n) (pn_id parent) ETTU label (rr_cond r))
    (rm_types_of (assoc tupleset (td_meta_rels td))) g.

Fixpoint p_rewrite (g : pgraph) (parent : pnode) (m : model) (td : typedef) (rel : str) (u : userset) : pgraph :=
  let children := fix children (g : pgraph) (opn : pnode) (cs : list userset) : pgraph :=
    match cs with
    | [] => g
    | c :: r => children (p_rewrite g opn m td rel c) opn r
    end in
  let operator (op : str) (cs : list userset) :=
    let id := op ++ lit ":" ++ str_of_N (pg_ops g) in
    let g := {| pg_nodes := pg_nodes g; pg_lines := pg_lines g; pg_ops := pg_ops g + 1; pg_listobjects := pg_listobjects g |} in
    let '(g, opn) := p_get_or_add g id op NOperator in
    let g := p_add_edge g (pn_id opn) (pn_id parent) ERewrite [] [] in
    children g opn cs in
  match u with
  | UThis _ => p_parse_this g parent td rel
  | UComputed r => p_parse_computed g parent td r
  | UTTU ts cu => p_parse_ttu g parent m td ts cu
  | UUnion cs => operator (lit "union") cs
  | UInter cs => operator (lit "intersection") cs
  | UDiff b s => operator (lit "exclusion") [b; s]
  | UUnset => operator [] []
  end.

Definition p_relations (g : pgraph) (m : model) (td : typedef) : pgraph :=
  fold_left (fun g rel =>
               let id := td_name td ++ lit "#" ++ rel in
               let '(g, parent) := p_get_or_add g id id NTypeRel in
               p_rewrite g parent m td rel (match assoc rel (td_rels td) with Some u => u | None => UUnset end))
            (stable_sort str_compare (keys (td_rels td))) g.

Definition pbuild (m : model) : pgraph :=
  fold_left (fun g td => let '(g, _) := p_get_or_add g (td_name td) (td_name td) NType in p_relations g m td)
            (stable_sort td_cmp (m_types m))
            {| pg_nodes := []; pg_lines := []; pg_ops := 0; pg_listobjects := true |}.

(* ---- Reversed: same nodes and IDs, lines re-added flipped in ID order (new IDs 0,1,2...) ---- *)
Definition line_cmp (a b : pline) : comparison := Nat.compare (pl_id a) (pl_id b).

Fixpoint renumber (ls : list pline) (k : nat) : list pline :=
  match ls with
  | [] => []
  | l :: r => {| pl_id := k; pl_from := pl_to l; pl_to := pl_from l; pl_type := pl_type l;
                 pl_tupleset := pl_tupleset l; pl_conds := pl_conds l |} :: renumber r (S k)
  end.

Definition reversed (g : pgraph) : pgraph :=
  {| pg_nodes := pg_nodes g; pg_lines := renumber (stable_sort line_cmp (pg_lines g)) 0;
     pg_ops := pg_ops g; pg_listobjects := negb (pg_listobjects g) |}.

(* ---- queries ---- *)
Definition succs (g : pgraph) (n : nat) : list nat :=
  map pl_to (filter (fun l => (pl_from l =? n)%nat) (pg_lines g)).

Fixpoint reach (g : pgraph) (fuel : nat) (frontier seen : list nat) : list nat :=
  match fuel with
  | O => seen
  | S f =>
      let next := filter (fun x => negb (existsb (Nat.eqb x) seen)) (flat_map (succs g) frontier) in
      match next with
      | [] => seen
      | _ => reach g f (nodup Nat.eq_dec next) (seen ++ nodup Nat.eq_dec next)
      end
  end.

(* PathExists: None = a label is unknown (ErrQueryingGraph) *)
Definition path_exists (g : pgraph) (a b : str) : option bool :=
  match find_pnode a g, find_pnode b g with
  | Some x, Some y => Some (existsb (Nat.eqb (pn_id y)) (reach g (S (length (pg_lines g))) [pn_id x] [pn_id x]))
  | _, _ => None
  end.

(* ---- DOT content: rankdir, nodes by ID with label, lines by (from, to, ID) with their attribute ---- *)
Definition line_order (a b : pline) : comparison :=
  match Nat.compare (pl_from a) (pl_from b) with
  | Eq => match Nat.compare (pl_to a) (pl_to b) with
          | Eq => Nat.compare (pl_id a) (pl_id b)
          | c => c
          end
  | c => c
  end.

Definition dot_lines (g : pgraph) : list pline := stable_sort line_order (pg_lines g).

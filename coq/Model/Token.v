(* Model/Token.v — token kinds of OpenFGALexer.g4 (both modes) and the token record.
   The numbering [tk_code] is the framework's own wire numbering (the Go harness maps ANTLR's
   symbolic names to it); the literal spellings live in Gen/Keywords.v, regenerated from the
   generated Go lexer on every run. *)
From Verif Require Import Base.Str.

Inductive tkind :=
| HASH | COLON | COMMA | AND | OR | BUT_NOT | FROM | MODULE | MODEL | SCHEMA | SCHEMA_VERSION
| EXTEND | TYPE | CONDITION | RELATIONS | RELATION | DEFINE | KEYWORD_WITH
| EQUALS | NOT_EQUALS | IN_ | LESS | LESS_EQUALS | GREATER_EQUALS | GREATER | LOGICAL_AND | LOGICAL_OR
| LBRACKET | RPRACKET | LBRACE | RBRACE | LPAREN | RPAREN | DOT | MINUS | EXCLAM | QUESTIONMARK
| PLUS | STAR | SLASH | PERCENT | CEL_TRUE | CEL_FALSE | NUL
| WHITESPACE | CEL_COMMENT | NUM_FLOAT | NUM_INT | NUM_UINT | STRING_ | BYTES
| IDENTIFIER | EXTENDED_IDENTIFIER | NEWLINE
| CONDITION_PARAM_CONTAINER | CONDITION_PARAM_TYPE
| TEOF.

Definition all_tkinds : list tkind :=
  [HASH; COLON; COMMA; AND; OR; BUT_NOT; FROM; MODULE; MODEL; SCHEMA; SCHEMA_VERSION;
   EXTEND; TYPE; CONDITION; RELATIONS; RELATION; DEFINE; KEYWORD_WITH;
   EQUALS; NOT_EQUALS; IN_; LESS; LESS_EQUALS; GREATER_EQUALS; GREATER; LOGICAL_AND; LOGICAL_OR;
   LBRACKET; RPRACKET; LBRACE; RBRACE; LPAREN; RPAREN; DOT; MINUS; EXCLAM; QUESTIONMARK;
   PLUS; STAR; SLASH; PERCENT; CEL_TRUE; CEL_FALSE; NUL;
   WHITESPACE; CEL_COMMENT; NUM_FLOAT; NUM_INT; NUM_UINT; STRING_; BYTES;
   IDENTIFIER; EXTENDED_IDENTIFIER; NEWLINE;
   CONDITION_PARAM_CONTAINER; CONDITION_PARAM_TYPE; TEOF].

(* symbolic name, as in the grammar / the generated lexers' SymbolicNames *)
Definition tk_name (k : tkind) : str :=
  match k with
  | HASH => lit "HASH" | COLON => lit "COLON" | COMMA => lit "COMMA" | AND => lit "AND" | OR => lit "OR"
  | BUT_NOT => lit "BUT_NOT" | FROM => lit "FROM" | MODULE => lit "MODULE" | MODEL => lit "MODEL"
  | SCHEMA => lit "SCHEMA" | SCHEMA_VERSION => lit "SCHEMA_VERSION" | EXTEND => lit "EXTEND"
  | TYPE => lit "TYPE" | CONDITION => lit "CONDITION" | RELATIONS => lit "RELATIONS"
  | RELATION => lit "RELATION" | DEFINE => lit "DEFINE" | KEYWORD_WITH => lit "KEYWORD_WITH"
  | EQUALS => lit "EQUALS" | NOT_EQUALS => lit "NOT_EQUALS" | IN_ => lit "IN" | LESS => lit "LESS"
  | LESS_EQUALS => lit "LESS_EQUALS" | GREATER_EQUALS => lit "GREATER_EQUALS" | GREATER => lit "GREATER"
  | LOGICAL_AND => lit "LOGICAL_AND" | LOGICAL_OR => lit "LOGICAL_OR" | LBRACKET => lit "LBRACKET"
  | RPRACKET => lit "RPRACKET" | LBRACE => lit "LBRACE" | RBRACE => lit "RBRACE" | LPAREN => lit "LPAREN"
  | RPAREN => lit "RPAREN" | DOT => lit "DOT" | MINUS => lit "MINUS" | EXCLAM => lit "EXCLAM"
  | QUESTIONMARK => lit "QUESTIONMARK" | PLUS => lit "PLUS" | STAR => lit "STAR" | SLASH => lit "SLASH"
  | PERCENT => lit "PERCENT" | CEL_TRUE => lit "CEL_TRUE" | CEL_FALSE => lit "CEL_FALSE" | NUL => lit "NUL"
  | WHITESPACE => lit "WHITESPACE" | CEL_COMMENT => lit "CEL_COMMENT" | NUM_FLOAT => lit "NUM_FLOAT"
  | NUM_INT => lit "NUM_INT" | NUM_UINT => lit "NUM_UINT" | STRING_ => lit "STRING" | BYTES => lit "BYTES"
  | IDENTIFIER => lit "IDENTIFIER" | EXTENDED_IDENTIFIER => lit "EXTENDED_IDENTIFIER" | NEWLINE => lit "NEWLINE"
  | CONDITION_PARAM_CONTAINER => lit "CONDITION_PARAM_CONTAINER"
  | CONDITION_PARAM_TYPE => lit "CONDITION_PARAM_TYPE" | TEOF => lit "EOF"
  end.

Fixpoint index_of_tk (k : tkind) (l : list tkind) (i : N) : N :=
  match l with
  | [] => i
  | x :: r => if str_eqb (tk_name x) (tk_name k) then i else index_of_tk k r (i + 1)
  end.
Definition tk_code (k : tkind) : N := index_of_tk k all_tkinds 0.
Definition tk_of_code (n : N) : option tkind := nth_error all_tkinds (N.to_nat n).
Definition tk_eqb (a b : tkind) : bool := N.eqb (tk_code a) (tk_code b).

Fixpoint tk_of_name_in (nm : str) (l : list tkind) : option tkind :=
  match l with
  | [] => None
  | k :: r => if str_eqb (tk_name k) nm then Some k else tk_of_name_in nm r
  end.
Definition tk_of_name (nm : str) : option tkind := tk_of_name_in nm all_tkinds.

(* line: 1-based as ANTLR counts; col: 0-based, in code points *)
Record tok := { tk : tkind; ttext : str; tline : nat; tcol : nat }.

(* the [identifier] and [extended_identifier] parser rules *)
Definition is_identifier_tk (k : tkind) : bool :=
  match k with MODEL | SCHEMA | TYPE | RELATION | IDENTIFIER | MODULE | EXTEND => true | _ => false end.
Definition is_ext_identifier_tk (k : tkind) : bool :=
  is_identifier_tk k || match k with EXTENDED_IDENTIFIER => true | _ => false end.

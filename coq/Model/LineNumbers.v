(* Model/LineNumbers.v — pkg/go/utils/line-numbers.go.  Columns are byte offsets (strings.Index,
   len), computed from code points with utf8_len. *)
From Verif Require Import Base.Str.

(* unicode.IsSpace *)
Definition is_unicode_space (c : N) : bool :=
  ((9 <=? c) && (c <=? 13)) || (c =? 32) || (c =? 133) || (c =? 160) || (c =? 5760)
  || ((8192 <=? c) && (c <=? 8202)) || (c =? 8232) || (c =? 8233) || (c =? 8239) || (c =? 8287) || (c =? 12288).
Definition trim_space (s : str) : str := trim_right is_unicode_space (trim_left is_unicode_space s).

Fixpoint find_index {A} (p : A -> bool) (l : list A) (i : nat) : option nat :=
  match l with
  | [] => None
  | x :: r => if p x then Some i else find_index p r (S i)
  end.

Definition line_with_prefix (prefix : str) (lines : list str) : option nat :=
  find_index (fun l => is_prefix prefix (trim_space l)) lines 0.

Definition condition_line (name : str) := line_with_prefix (lit "condition " ++ name).
Definition type_line (name : str) := line_with_prefix (lit "type " ++ name).
Definition extended_type_line (name : str) := line_with_prefix (lit "extend type " ++ name).
Definition relation_line (name : str) := line_with_prefix (lit "define " ++ name).

Record position := { line_start : nat; line_end : nat; col_start : nat; col_end : nat }.

(* ConstructLineAndColumnData *)
Definition construct_position (lines : list str) (idx : option nat) (symbol : str) : position :=
  match lines, idx with
  | [], _ | _, None => {| line_start := 0; line_end := 0; col_start := 0; col_end := 0 |}
  | _, Some i =>
      let raw := nth i lines [] in
      let w := match index symbol raw with
               | Some k => utf8_len (firstn k raw)
               | None => 0%nat
               end in
      {| line_start := i; line_end := i; col_start := w; col_end := (w + utf8_len symbol)%nat |}
  end.

(* Model/Listener.v — OpenFgaDslListener (dsltojson.go) as a walk over the parse tree, callback by
   callback, with its mutable state made explicit.  Errors raised through NotifyErrorListeners
   carry the position of the offending name token (line is stored 0-based by the error listener). *)
From Verif Require Import Base.Str Base.Outcome Model.Ast Model.Token Model.Parser.

Record lerror := { er_line : nat; er_col : nat; er_msg : str }.

(* l.currentRelation + l.rewriteStack *)
Record rstate := {
  rewrites : list userset;
  operator : opk;
  typeinfo : list relation_ref;
  stack : list (list userset * opk);
}.

Definition r_with_rewrites (s : rstate) (r : list userset) : rstate :=
  {| rewrites := r; operator := operator s; typeinfo := typeinfo s; stack := stack s |}.

(* ParseExpression *)
Definition parse_expression (rw : list userset) (op : opk) : option userset :=
  match rw with
  | [] => None
  | [x] => Some x
  | b :: s :: _ =>
      match op with
      | ONone => None
      | OOr => Some (UUnion rw)
      | OAnd => Some (UInter rw)
      | OButNot => Some (UDiff b s)
      end
  end.

(* what ExitRelationDefDirectAssignment appends: Userset_This{This: &DirectUserset{}} (the pinned
   tree emitted a nil This, which the printer does not recognise: defect F1, repaired) *)
Definition this_of_listener : userset := UThis ThisEmpty.

Definition ref_of_restr (r : restr) : relation_ref :=
  {| rr_type := ttext (rs_type r);
     rr_kind := match rs_kind r with
                | RKPlain => RPlain
                | RKWild => RWild
                | RKRel t => RRel (ttext t)
                end;
     rr_cond := match rs_cond r with Some c => ttext c | None => [] end |}.

(* The walk of one operand.  [Panic] only where the Go code indexes an empty rewrite stack. *)
Fixpoint walk_elem (e : relem) (s : rstate) : outcome rstate unit :=
  match e with
  | EDirect rs =>
      (* Enter: TypeInfo reset; ExitRelationDefTypeRestriction appends; Exit: append This *)
      Ok {| rewrites := rewrites s ++ [this_of_listener]; operator := operator s;
            typeinfo := map ref_of_restr rs; stack := stack s |}
  | ERewrite cu None => Ok (r_with_rewrites s (rewrites s ++ [UComputed (ttext cu)]))
  | ERewrite cu (Some t) => Ok (r_with_rewrites s (rewrites s ++ [UTTU (ttext t) (ttext cu)]))
  | EGroup nd first op rest =>
      (* EnterRelationRecurseNoDirect pushes and clears; relationRecurse has no Enter callback *)
      let s0 := if nd then {| rewrites := []; operator := operator s; typeinfo := typeinfo s;
                              stack := stack s ++ [(rewrites s, operator s)] |}
                else s in
      obind (walk_elem first s0) (fun s1 =>
      (* EnterRelationDefPartials sets the operator before the operands are walked *)
      let s2 := match op with
                | ONone => s1
                | _ => {| rewrites := rewrites s1; operator := op; typeinfo := typeinfo s1; stack := stack s1 |}
                end in
      obind ((fix go (es : list relem) (s : rstate) : outcome rstate unit :=
                match es with
                | [] => Ok s
                | x :: r => obind (walk_elem x s) (go r)
                end) rest s2) (fun s3 =>
      let def := parse_expression (rewrites s3) (operator s3) in
      if nd then
        (* ExitRelationRecurseNoDirect *)
        match rev (stack s3) with
        | [] => Panic (lit "index out of range: rewriteStack")
        | (prw, pop) :: rst =>
            match def with
            | Some d => Ok {| rewrites := prw ++ [d]; operator := pop; typeinfo := typeinfo s3; stack := rev rst |}
            | None => Ok {| rewrites := rewrites s3; operator := operator s3; typeinfo := typeinfo s3; stack := rev rst |}
            end
        end
      else
        (* ExitRelationRecurse *)
        match def with
        | Some d => Ok (r_with_rewrites s3 [d])
        | None => Ok s3
        end))
  end.

Definition walk_elems := fix go (es : list relem) (s : rstate) : outcome rstate unit :=
  match es with
  | [] => Ok s
  | x :: r => obind (walk_elem x s) (go r)
  end.

(* a whole relation definition, from EnterRelationDeclaration's fresh state *)
Definition init_rstate : rstate := {| rewrites := []; operator := ONone; typeinfo := []; stack := [] |}.

Definition walk_rdef (d : rdef) : outcome rstate unit :=
  obind (walk_elem (rd_first d) init_rstate) (fun s1 =>
  let s2 := match rd_op d with
            | ONone => s1
            | op => {| rewrites := rewrites s1; operator := op; typeinfo := typeinfo s1; stack := stack s1 |}
            end in
  walk_elems (rd_rest d) s2).

(* ---------------------------------------------------------------------------------------- *)

Definition msg_extend_model : str := lit "extend can only be used in a modular model".
Definition msg_already_defined (rel ty : str) : str :=
  lit "'" ++ rel ++ lit "' is already defined in '" ++ ty ++ lit "'".
Definition msg_cond_defined (c : str) : str :=
  lit "condition '" ++ c ++ lit "' is already defined in the model".
Definition msg_param_defined (p c : str) : str :=
  lit "parameter '" ++ p ++ lit "' is already defined in the condition '" ++ c ++ lit "'".
Definition msg_already_extended (ty : str) : str := lit "'" ++ ty ++ lit "' is already extended in file.".

Definition err_at (t : tok) (m : str) : lerror := {| er_line := pred (tline t); er_col := tcol t; er_msg := m |}.

(* per-file listener state *)
Record lstate := {
  ls_modular : bool;
  ls_module : str;
  ls_ext_alloc : bool;                         (* typeDefExtensions map allocated *)
  ls_types : list typedef;
  ls_conds : list (str * condition);
  ls_exts : list (str * (nat * typedef));      (* typeDefExtensions: name -> (index in ls_types, definition) *)
  ls_errs : list lerror;
  ls_schema : str;
}.

Definition add_err (s : lstate) (e : lerror) : lstate :=
  {| ls_modular := ls_modular s; ls_module := ls_module s; ls_ext_alloc := ls_ext_alloc s;
     ls_types := ls_types s; ls_conds := ls_conds s; ls_exts := ls_exts s;
     ls_errs := ls_errs s ++ [e]; ls_schema := ls_schema s |}.

(* relations of one type: returns the relation map, metadata map and errors *)
Fixpoint walk_reldecls (modular ext : bool) (module_ tyname : str) (rs : list reldecl)
         (rels : list (str * userset)) (meta : list (str * rel_meta)) (errs : list lerror)
  : outcome (list (str * userset) * list (str * rel_meta) * list lerror) unit :=
  match rs with
  | [] => Ok (rels, meta, errs)
  | r :: rest =>
      obind (walk_rdef (rl_def r)) (fun st =>
      let name := ttext (rl_name r) in
      match parse_expression (rewrites st) (operator st) with
      | None => walk_reldecls modular ext module_ tyname rest rels meta errs
      | Some d =>
          let errs' := match assoc name rels with
                       | Some _ => errs ++ [err_at (rl_name r) (msg_already_defined name tyname)]
                       | None => errs
                       end in
          let m := {| rm_types := typeinfo st;
                      rm_module := if modular && ext then module_ else [];
                      rm_file := None |} in
          walk_reldecls modular ext module_ tyname rest (assoc_set name d rels) (assoc_set name m meta) errs'
      end)
  end.

Definition walk_typedecl (t : typedecl) (s : lstate) : outcome lstate unit :=
  let name := ttext (ty_name t) in
  (* EnterTypeDef *)
  let s := if ty_extend t && negb (ls_modular s) then add_err s (err_at (ty_name t) msg_extend_model) else s in
  obind (walk_reldecls (ls_modular s) (ty_extend t) (ls_module s) name (ty_rels t) [] [] [])
  (fun '(rels, meta, errs) =>
  (* ExitTypeDef *)
  match name with
  | [] => Ok s                                  (* currentTypeDef.GetType() == "" : cannot happen for a token *)
  | _ =>
      let md := if ls_modular s
                then Some {| tm_rels := meta; tm_module := ls_module s; tm_file := None |}
                else match meta with
                     | [] => None
                     | _ => Some {| tm_rels := meta; tm_module := []; tm_file := None |}
                     end in
      let td := {| td_name := name; td_rels := rels; td_meta := md |} in
      let s1 := {| ls_modular := ls_modular s; ls_module := ls_module s; ls_ext_alloc := ls_ext_alloc s;
                   ls_types := ls_types s ++ [td]; ls_conds := ls_conds s; ls_exts := ls_exts s;
                   ls_errs := ls_errs s ++ errs; ls_schema := ls_schema s |} in
      if ty_extend t && ls_modular s then
        match assoc name (ls_exts s1) with
        | Some _ => Ok (add_err s1 (err_at (ty_name t) (msg_already_extended name)))
        | None =>
            if ls_ext_alloc s1 then
              Ok {| ls_modular := ls_modular s1; ls_module := ls_module s1; ls_ext_alloc := true;
                    ls_types := ls_types s1; ls_conds := ls_conds s1; ls_exts := ls_exts s1 ++ [(name, (length (ls_types s), td))];
                    ls_errs := ls_errs s1; ls_schema := ls_schema s1 |}
            else Panic (lit "assignment to entry in nil map: typeDefExtensions")
        end
      else Ok s1
  end).

(* TYPE_NAME_<upper> enum numbers (openfgav1.ConditionParamTypeRef_TypeName_value) *)
Definition type_name_number (s : str) : N :=
  if str_eqb s (lit "any") then 1 else if str_eqb s (lit "bool") then 2
  else if str_eqb s (lit "string") then 3 else if str_eqb s (lit "int") then 4
  else if str_eqb s (lit "uint") then 5 else if str_eqb s (lit "double") then 6
  else if str_eqb s (lit "duration") then 7 else if str_eqb s (lit "timestamp") then 8
  else if str_eqb s (lit "map") then 9 else if str_eqb s (lit "list") then 10
  else if str_eqb s (lit "ipaddress") then 11 else 0.

Definition ptype_of (p : pdecl) : ptype :=
  match pd_container p with
  | Some c => PT (type_name_number (ttext c)) [PT (type_name_number (ttext (pd_type p))) []]
  | None => PT (type_name_number (ttext (pd_type p))) []
  end.

Fixpoint walk_params (cname : str) (ps : list pdecl) (acc : list (str * ptype)) (errs : list lerror)
  : list (str * ptype) * list lerror :=
  match ps with
  | [] => (acc, errs)
  | p :: r =>
      let n := ttext (pd_name p) in
      let errs' := match assoc n acc with
                   | Some _ => errs ++ [err_at (pd_name p) (msg_param_defined n cname)]
                   | None => errs
                   end in
      walk_params cname r (assoc_set n (ptype_of p) acc) errs'
  end.

Definition expr_text (ts : list tok) : str :=
  trim_right (fun c => c =? 10) (concat (map ttext ts)).

Definition walk_conddecl (c : conddecl) (s : lstate) : lstate :=
  let name := ttext (cd_name c) in
  let s := match assoc name (ls_conds s) with
           | Some _ => add_err s (err_at (cd_name c) (msg_cond_defined name))
           | None => s
           end in
  let '(params, errs) := walk_params name (cd_params c) [] [] in
  let cd := {| c_name := name; c_expr := expr_text (cd_expr c); c_params := params;
               c_meta := if ls_modular s then Some {| cm_module := ls_module s; cm_file := None |} else None |} in
  {| ls_modular := ls_modular s; ls_module := ls_module s; ls_ext_alloc := ls_ext_alloc s;
     ls_types := ls_types s; ls_conds := assoc_set name cd (ls_conds s); ls_exts := ls_exts s;
     ls_errs := ls_errs s ++ errs; ls_schema := ls_schema s |}.

Fixpoint walk_typedecls (ts : list typedecl) (s : lstate) : outcome lstate unit :=
  match ts with
  | [] => Ok s
  | t :: r => obind (walk_typedecl t s) (walk_typedecls r)
  end.

Definition init_lstate (h : header) : lstate :=
  match h with
  | HModel v => {| ls_modular := false; ls_module := []; ls_ext_alloc := false; ls_types := [];
                   ls_conds := []; ls_exts := []; ls_errs := []; ls_schema := ttext v |}
  | HModule n => {| ls_modular := true; ls_module := ttext n; ls_ext_alloc := true; ls_types := [];
                    ls_conds := []; ls_exts := []; ls_errs := []; ls_schema := [] |}
  end.

Definition walk (f : file) : outcome lstate unit :=
  obind (walk_typedecls (f_types f) (init_lstate (f_header f))) (fun s =>
  Ok (fold_left (fun s c => walk_conddecl c s) (f_conds f) s)).

Definition model_of (s : lstate) : model :=
  {| m_schema := ls_schema s; m_types := ls_types s; m_conds := ls_conds s |}.

(* Model/Utils.v — utils.IsRelationAssignable (pkg/go/utils/model_utils.go:35-61): a relation definition is assignable when
   it is a direct assignment or one of its operands, at any depth, is one (a Userset_This counts whether or not its inner
   message is nil: the Go code switches on the type of the oneof only). *)
From Verif Require Import Base.Str Model.Ast.

Fixpoint is_assignable (u : userset) : bool :=
  match u with
  | UThis _ => true
  | UUnion cs | UInter cs => existsb is_assignable cs
  | UDiff b s => is_assignable b || is_assignable s
  | _ => false
  end.

(* Model/Lexer.v — the pre-pass of ParseDSL and a model of the generated ANTLR lexer.

   ANTLR lexer semantics assumed (trusted, exercised by the correspondence on token streams):
   at each position the rule matching the longest prefix wins, ties go to the rule declared
   first; a non-greedy loop ends at the first possible exit; an unmatched character is
   reported and skipped; `line` advances on '\n' only and `column` counts code points.
   Literal spellings come from Gen/Keywords.v (regenerated from pkg/go/gen/openfga_lexer.go). *)
From Verif Require Import Base.Str Model.Token Gen.Keywords.

(* ---------------------------------------------------------------------------------------- *)
(* pre-pass (dsltojson.go: ParseDSL)                                                         *)
(* ---------------------------------------------------------------------------------------- *)

Definition is_space (c : N) : bool := c =? 32.

(* strings.Split(line, " #")[0] *)
Fixpoint cut_comment (s : str) : str :=
  match s with
  | [] => []
  | c :: r => if (c =? 32) && match r with d :: _ => d =? 35 | [] => false end then []
              else c :: cut_comment r
  end.

Definition clean_line (line : str) : str :=
  match trim_left is_space line with
  | [] => []
  | c :: _ => if c =? 35 then [] else trim_right is_space (cut_comment line)
  end.

Definition prepass (d : str) : str :=
  trim_right (fun c => c =? 10) (join [10] (map clean_line (split_on 10 d))).

(* ---------------------------------------------------------------------------------------- *)
(* recognisers: each returns the length of the longest match at the head of the input (0 = none) *)
(* ---------------------------------------------------------------------------------------- *)

Fixpoint run_len (p : N -> bool) (s : str) : nat :=
  match s with c :: r => if p c then S (run_len p r) else 0%nat | [] => 0%nat end.

Definition is_ws_char (c : N) : bool := (c =? 9) || (c =? 32) || (c =? 12).
Definition is_nlish (c : N) : bool := is_ws_char c || (c =? 10) || (c =? 13).
Definition is_nl_core (c : N) : bool := (c =? 10) || (c =? 13) || (c =? 12).
Definition is_hex (c : N) : bool :=
  is_digit c || ((97 <=? c) && (c <=? 102)) || ((65 <=? c) && (c <=? 70)).
Definition is_id_start (c : N) : bool := is_letter c || (c =? 95).
Definition is_id_char (c : N) : bool := is_letter c || is_digit c || (c =? 95) || (c =? 45).
Definition is_alnum_ (c : N) : bool := is_letter c || is_digit c || (c =? 95).
Definition is_ext_sep (c : N) : bool := (c =? 47) || (c =? 46) || (c =? 45).

Definition rec_whitespace (s : str) : nat := run_len is_ws_char s.

(* NEWLINE: WHITESPACE? ('\r'? '\n' | '\r' | '\f') WHITESPACE? NEWLINE?
   = the maximal run over {\t, space, \f, \r, \n} provided it contains one of \r \n \f *)
Definition rec_newline (s : str) : nat :=
  let n := run_len is_nlish s in
  if existsb is_nl_core (firstn n s) then n else 0%nat.

Definition rec_identifier (s : str) : nat :=
  match s with
  | c :: r => if is_id_start c then S (run_len is_id_char r) else 0%nat
  | [] => 0%nat
  end.

(* (LETTER|'_') ((SLASH|DOT|MINUS)? (LETTER|DIGIT|'_')+)*  *)
Fixpoint ext_tail (fuel : nat) (s : str) : nat :=
  match fuel with
  | O => 0%nat
  | S f =>
      match s with
      | c :: r =>
          if is_alnum_ c then S (ext_tail f r)
          else if is_ext_sep c then
                 match r with
                 | d :: r' => if is_alnum_ d then S (S (ext_tail f r')) else 0%nat
                 | [] => 0%nat
                 end
               else 0%nat
      | [] => 0%nat
      end
  end.
Definition rec_ext_identifier (s : str) : nat :=
  match s with
  | c :: r => if is_id_start c then S (ext_tail (length r) r) else 0%nat
  | [] => 0%nat
  end.

(* DIGIT+ '.' DIGIT+ *)
Definition rec_schema_version (s : str) : nat :=
  let a := run_len is_digit s in
  if (a =? 0)%nat then 0%nat else
  match skipn a s with
  | d :: r => if d =? 46 then let b := run_len is_digit r in if (b =? 0)%nat then 0%nat else (a + 1 + b)%nat
              else 0%nat
  | [] => 0%nat
  end.

(* EXPONENT: ('e'|'E') ('+'|'-')? DIGIT+ *)
Definition rec_exponent (s : str) : nat :=
  match s with
  | e :: r =>
      if (e =? 101) || (e =? 69) then
        match r with
        | sg :: r' =>
            if (sg =? 43) || (sg =? 45) then
              let n := run_len is_digit r' in if (n =? 0)%nat then 0%nat else (2 + n)%nat
            else let n := run_len is_digit r in if (n =? 0)%nat then 0%nat else (1 + n)%nat
        | [] => 0%nat
        end
      else 0%nat
  | [] => 0%nat
  end.

Definition rec_num_float (s : str) : nat :=
  let a := run_len is_digit s in
  let rest := skipn a s in
  (* '.' DIGIT+ EXPONENT? after a (possibly empty) digit run *)
  let frac :=
    match rest with
    | d :: r => if d =? 46 then
                  let b := run_len is_digit r in
                  if (b =? 0)%nat then 0%nat else (a + 1 + b + rec_exponent (skipn b r))%nat
                else 0%nat
    | [] => 0%nat
    end in
  (* DIGIT+ EXPONENT *)
  let ex := if (a =? 0)%nat then 0%nat else
              let e := rec_exponent rest in if (e =? 0)%nat then 0%nat else (a + e)%nat in
  Nat.max frac ex.

Definition hex_prefix (s : str) : nat :=          (* '0x' HEXDIGIT+ *)
  match s with
  | z :: x :: r => if (z =? 48) && (x =? 120) then
                     let n := run_len is_hex r in if (n =? 0)%nat then 0%nat else (2 + n)%nat
                   else 0%nat
  | _ => 0%nat
  end.

Definition rec_num_int (s : str) : nat := Nat.max (run_len is_digit s) (hex_prefix s).

Definition u_after (n : nat) (s : str) : nat :=
  if (n =? 0)%nat then 0%nat else
  match skipn n s with
  | u :: _ => if (u =? 117) || (u =? 85) then S n else 0%nat
  | [] => 0%nat
  end.
Definition rec_num_uint (s : str) : nat :=
  Nat.max (u_after (run_len is_digit s) s) (u_after (hex_prefix s) s).

(* ESC_SEQ at the head (the head is the backslash): length or 0 *)
Definition is_oct (c : N) : bool := (48 <=? c) && (c <=? 55).
Definition all_hex (n : nat) (s : str) : bool :=
  (length (firstn n s) =? n)%nat && forallb is_hex (firstn n s).
Definition rec_esc (s : str) : nat :=
  match s with
  | b :: c :: r =>
      if negb (b =? 92) then 0%nat
      else if existsb (N.eqb c) [97; 98; 102; 110; 114; 116; 118; 34; 39; 92; 63; 96] then 2%nat
      else if (c =? 120) || (c =? 88) then (if all_hex 2 r then 4%nat else 0%nat)
      else if c =? 117 then (if all_hex 4 r then 6%nat else 0%nat)
      else if c =? 85 then (if all_hex 8 r then 10%nat else 0%nat)
      else if (48 <=? c) && (c <=? 51) then
             match r with
             | d1 :: d2 :: _ => if is_oct d1 && is_oct d2 then 4%nat else 0%nat
             | _ => 0%nat
             end
      else 0%nat
  | _ => 0%nat
  end.

(* body of a one-line string after the opening quote [q]; [esc]: escapes allowed (not raw).
   Returns the length up to and including the closing quote, or 0. *)
Fixpoint str_body1 (fuel : nat) (q : N) (esc : bool) (s : str) : nat :=
  match fuel with
  | O => 0%nat
  | S f =>
      match s with
      | [] => 0%nat
      | c :: r =>
          if c =? q then 1%nat
          else if (c =? 10) || (c =? 13) then 0%nat
          else if esc && (c =? 92) then
                 let e := rec_esc s in
                 if (e =? 0)%nat then 0%nat
                 else let n := str_body1 f q esc (skipn e s) in
                      if (n =? 0)%nat then 0%nat else (e + n)%nat
               else let n := str_body1 f q esc r in if (n =? 0)%nat then 0%nat else S n
      end
  end.

(* body of a triple-quoted string after the opening quotes: non-greedy, ends at the first
   closing triple; not raw: a backslash must start an escape sequence *)
Fixpoint str_body3 (fuel : nat) (q : N) (esc : bool) (s : str) : nat :=
  match fuel with
  | O => 0%nat
  | S f =>
      if is_prefix [q; q; q] s then 3%nat
      else match s with
           | [] => 0%nat
           | c :: r =>
               if esc && (c =? 92) then
                 let e := rec_esc s in
                 if (e =? 0)%nat then 0%nat
                 else let n := str_body3 f q esc (skipn e s) in
                      if (n =? 0)%nat then 0%nat else (e + n)%nat
               else let n := str_body3 f q esc r in if (n =? 0)%nat then 0%nat else S n
           end
  end.

Definition quoted (q : N) (esc : bool) (s : str) : nat :=      (* s starts at the opening quote *)
  match s with
  | c :: r =>
      if c =? q then
        let one := let n := str_body1 (S (length r)) q esc r in if (n =? 0)%nat then 0%nat else S n in
        let three :=
          if is_prefix [q; q; q] s then
            let r3 := skipn 3 s in
            let n := str_body3 (S (length r3)) q esc r3 in if (n =? 0)%nat then 0%nat else (3 + n)%nat
          else 0%nat in
        Nat.max one three
      else 0%nat
  | [] => 0%nat
  end.

Definition rec_string (s : str) : nat :=
  let plain := Nat.max (quoted 34 true s) (quoted 39 true s) in
  let raw := match s with
             | c :: r => if (c =? 114) || (c =? 82) then
                           let n := Nat.max (quoted 34 false r) (quoted 39 false r) in
                           if (n =? 0)%nat then 0%nat else S n
                         else 0%nat
             | [] => 0%nat
             end in
  Nat.max plain raw.

Definition rec_bytes (s : str) : nat :=
  match s with
  | c :: r => if (c =? 98) || (c =? 66) then
                let n := rec_string r in if (n =? 0)%nat then 0%nat else S n
              else 0%nat
  | [] => 0%nat
  end.

Definition not_lf (c : N) : bool := negb (c =? 10).
Definition rec_cel_comment (s : str) : nat :=
  match s with
  | a :: b :: r => if (a =? 47) && (b =? 47) then (2 + run_len not_lf r)%nat else 0%nat
  | _ => 0%nat
  end.

Definition rec_literal (l : str) (s : str) : nat := if is_prefix l s then length l else 0%nat.

(* ---------------------------------------------------------------------------------------- *)
(* rule tables, in declaration order                                                         *)
(* ---------------------------------------------------------------------------------------- *)

Definition rule := (tkind * (str -> nat))%type.

Fixpoint literal_rules (tbl : list (str * str)) : list rule :=
  match tbl with
  | [] => []
  | (nm, l) :: r =>
      match tk_of_name nm with
      | Some k => (k, rec_literal l) :: literal_rules r
      | None => literal_rules r
      end
  end.

Definition default_rules : list rule :=
  literal_rules kw_default_before_schema_version
  ++ [(SCHEMA_VERSION, rec_schema_version)]
  ++ literal_rules kw_default_after_schema_version
  ++ [(WHITESPACE, rec_whitespace); (CEL_COMMENT, rec_cel_comment); (NUM_FLOAT, rec_num_float);
      (NUM_INT, rec_num_int); (NUM_UINT, rec_num_uint); (STRING_, rec_string); (BYTES, rec_bytes);
      (IDENTIFIER, rec_identifier); (EXTENDED_IDENTIFIER, rec_ext_identifier); (NEWLINE, rec_newline)].

(* mode CONDITION_DEF (OpenFGALexer.g4:139-163); RPAREN pops the mode *)
Definition condition_rules : list rule :=
  [(RPAREN, rec_literal (lit ")"));
   (CONDITION_PARAM_CONTAINER, rec_literal (lit "map")); (CONDITION_PARAM_CONTAINER, rec_literal (lit "list"));
   (CONDITION_PARAM_TYPE, rec_literal (lit "bool")); (CONDITION_PARAM_TYPE, rec_literal (lit "string"));
   (CONDITION_PARAM_TYPE, rec_literal (lit "int")); (CONDITION_PARAM_TYPE, rec_literal (lit "uint"));
   (CONDITION_PARAM_TYPE, rec_literal (lit "double")); (CONDITION_PARAM_TYPE, rec_literal (lit "duration"));
   (CONDITION_PARAM_TYPE, rec_literal (lit "timestamp")); (CONDITION_PARAM_TYPE, rec_literal (lit "ipaddress"));
   (LESS, rec_literal (lit "<")); (GREATER, rec_literal (lit ">")); (LPAREN, rec_literal (lit "("));
   (COLON, rec_literal (lit ":")); (COMMA, rec_literal (lit ","));
   (WHITESPACE, rec_whitespace); (IDENTIFIER, rec_identifier)].

(* longest match, earliest rule on ties *)
Fixpoint best_rule (rules : list rule) (s : str) (bk : tkind) (bn : nat) : tkind * nat :=
  match rules with
  | [] => (bk, bn)
  | (k, f) :: r => let n := f s in
                   if (bn <? n)%nat then best_rule r s k n else best_rule r s bk bn
  end.

(* ---------------------------------------------------------------------------------------- *)
(* the lexer loop                                                                            *)
(* ---------------------------------------------------------------------------------------- *)

(* position after consuming [t] starting at (line, col) *)
Fixpoint advance (t : str) (line col : nat) : nat * nat :=
  match t with
  | [] => (line, col)
  | c :: r => if c =? 10 then advance r (S line) 0%nat else advance r line (S col)
  end.

Record lex_error := { le_line : nat; le_col : nat; le_char : N }.

(* [depth]: number of pushed CONDITION_DEF modes (the mode stack only ever holds that mode) *)
Fixpoint lex_loop (fuel : nat) (s : str) (depth line col : nat)
  : list tok * list lex_error :=
  match fuel with
  | O => ([], [])
  | S f =>
      match s with
      | [] => ([], [])
      | c :: r =>
          let rules := if (depth =? 0)%nat then default_rules else condition_rules in
          let '(k, n) := best_rule rules s TEOF 0%nat in
          if (n =? 0)%nat then
            let '(l', c') := advance [c] line col in
            let '(ts, es) := lex_loop f r depth l' c' in
            (ts, {| le_line := line; le_col := col; le_char := c |} :: es)
          else
            let t := firstn n s in
            let '(l', c') := advance t line col in
            let depth' :=
              if (depth =? 0)%nat then (if tk_eqb k CONDITION then 1%nat else 0%nat)
              else (if tk_eqb k RPAREN then pred depth else depth) in
            let '(ts, es) := lex_loop f (skipn n s) depth' l' c' in
            ({| tk := k; ttext := t; tline := line; tcol := col |} :: ts, es)
      end
  end.

(* all tokens, hidden channel included *)
Definition lex_all (s : str) : list tok * list lex_error := lex_loop (S (length s)) s 0%nat 1%nat 0%nat.

Definition on_default_channel (t : tok) : bool := negb (tk_eqb (tk t) CEL_COMMENT).

(* what the parser sees *)
Definition lex (s : str) : list tok * list lex_error :=
  let '(ts, es) := lex_all s in (filter on_default_channel ts, es).

(* position of EOF (where ANTLR reports "missing ... at <EOF>") *)
Definition eof_pos (s : str) : nat * nat := advance s 1%nat 0%nat.

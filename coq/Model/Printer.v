(* Model/Printer.v — TransformJSONProtoToDSL (jsontodsl.go), transcribed.
   [print_model src m] returns the DSL text (or the error) and the caller's type_definitions
   slice as it is after the call (the pinned tree sorts it in place for modular models). *)
From Verif Require Import Base.Str Base.Outcome Model.Ast.

Inductive perr :=
| EUnsupportedNesting (ty rel : str)
| ECondNameMismatch (key name : str)
| EParamNoGeneric (cond param : str).

(* ---- stable insertion sort with a three-way comparator (slices.SortStableFunc / sort.Strings:
        Go's sort returns a sorted permutation; stability matters only for equal keys) ---- *)
Section Sort.
  Context {A : Type} (cmp : A -> A -> comparison).
  Fixpoint insert_sorted (x : A) (l : list A) : list A :=
    match l with
    | [] => [x]
    | y :: r => match cmp x y with
                | Lt => x :: l            (* strictly smaller: goes before *)
                | _ => y :: insert_sorted x r
                end
    end.
  (* folding from the right keeps equal elements in input order *)
  Definition stable_sort (l : list A) : list A := fold_right insert_sorted [] l.
End Sort.

(* sortByModule *)
Definition is_empty (s : str) : bool := match s with [] => true | _ => false end.
Definition sort_by_module (an bn am bm af bf : str) : comparison :=
  if is_empty am && is_empty bm then str_compare an bn
  else if is_empty am then Lt
  else if is_empty bm then Gt
  else if negb (str_eqb am bm) then str_compare am bm
  else if negb (str_eqb af bf) then str_compare af bf
  else str_compare an bn.

(* ---- relations ---- *)

Definition is_this (u : userset) : bool :=       (* GetThis() != nil *)
  match u with UThis ThisEmpty => true | _ => false end.

Fixpoint is_first_position (u : userset) : bool :=
  match u with
  | UThis ThisEmpty => true
  | UDiff b _ => is_this b || is_first_position b
  | UInter cs | UUnion cs =>
      match cs with
      | [] => false
      | c :: _ => existsb is_this cs || is_first_position c
      end
  | _ => false
  end.

Definition print_restriction (r : relation_ref) : str :=
  rr_type r
  ++ (match rr_kind r with RWild => lit ":*" | _ => [] end)
  ++ (match rr_kind r with RRel x => if is_empty x then [] else lit "#" ++ x | _ => [] end)
  ++ (if is_empty (rr_cond r) then [] else lit " with " ++ rr_cond r).

Definition print_this (rs : list relation_ref) : str :=
  lit "[" ++ join (lit ", ") (map print_restriction rs) ++ lit "]".

(* prioritizeDirectAssignment: the first `this` child moves to the front *)
Section Prioritize.
  Context {A : Type} (f : A -> bool).
  Fixpoint split_at_first (cs before : list A) : option (list A * A * list A) :=
    match cs with
    | [] => None
    | c :: r => if f c then Some (rev before, c, r) else split_at_first r (c :: before)
    end.
  Definition prioritize_by (cs : list A) : list A :=
    match split_at_first cs [] with
    | Some (b, t, a) => t :: b ++ a
    | None => cs
    end.
End Prioritize.
Definition prioritize (cs : list userset) : list userset := prioritize_by is_this cs.

(* collect the texts of printed children: None as soon as one child is not printable
   (UnsupportedDSLNesting); the count is validator.occurred *)
Fixpoint collect (l : list (option (str * nat))) : option (list str * nat) :=
  match l with
  | [] => Some ([], 0%nat)
  | None :: _ => None
  | Some (t, n) :: r => match collect r with
                        | Some (tsx, m) => Some (t :: tsx, (n + m)%nat)
                        | None => None
                        end
  end.

(* the printing functions return the text, or None for UnsupportedDSLNesting, and the number of
   direct assignments printed (meaningful only on success).  Children are printed in source
   order here and the *results* are re-ordered like prioritizeDirectAssignment re-orders the
   children (same text; the error value does not depend on which child fails first). *)
Fixpoint print_sub (rs : list relation_ref) (u : userset) : option (str * nat) :=
  let kids := fix kids (cs : list userset) : list (bool * option (str * nat)) :=
    match cs with
    | [] => []
    | c :: r => (is_this c, print_sub rs c) :: kids r
    end in
  match u with
  | UThis ThisEmpty => Some (print_this rs, 1%nat)
  | UComputed r => Some (r, 0%nat)
  | UTTU t c => Some (c ++ lit " from " ++ t, 0%nat)
  | UUnion cs =>
      match collect (map snd (prioritize_by fst (kids cs))) with
      | Some (l, n) => Some (lit "(" ++ join (lit " or ") l ++ lit ")", n)
      | None => None
      end
  | UInter cs =>
      match collect (map snd (prioritize_by fst (kids cs))) with
      | Some (l, n) => Some (lit "(" ++ join (lit " and ") l ++ lit ")", n)
      | None => None
      end
  | UDiff b s =>
      match print_sub rs b, print_sub rs s with
      | Some (tb, n), Some (tsx, m) => Some (lit "(" ++ tb ++ lit " but not " ++ tsx ++ lit ")", (n + m)%nat)
      | _, _ => None
      end
  | UThis ThisNil | UUnset => None
  end.

Definition print_children (cs : list userset) (rs : list relation_ref) : option (list str * nat) :=
  collect (map (print_sub rs) (prioritize cs)).

(* top level of a relation: no parentheses around the outermost operator *)
Definition print_top (u : userset) (rs : list relation_ref) : option (str * nat) :=
  match u with
  | UDiff b s =>
      match print_sub rs b, print_sub rs s with
      | Some (tb, n), Some (tsx, m) => Some (tb ++ lit " but not " ++ tsx, (n + m)%nat)
      | _, _ => None
      end
  | UUnion cs =>
      match print_children cs rs with
      | Some (l, n) => Some (join (lit " or ") l, n)
      | None => None
      end
  | UInter cs =>
      match print_children cs rs with
      | Some (l, n) => Some (join (lit " and ") l, n)
      | None => None
      end
  | _ => print_sub rs u
  end.

Definition source_comment (module_ file lead : str) (src : bool) : str :=
  if (is_empty module_ && is_empty file) || negb src then []
  else lit " #" ++ lead ++ lit " module: " ++ module_ ++ lit ", file: " ++ file.

Definition print_relation (ty rel : str) (u : userset) (meta : option rel_meta) (src : bool)
  : outcome str perr :=
  match print_top u (rm_types_of meta) with
  | None => Err (EUnsupportedNesting ty rel)
  | Some (t, n) =>
      if (n =? 0)%nat || ((n =? 1)%nat && is_first_position u) then
        Ok (lit "    define " ++ rel ++ lit ": " ++ t
            ++ source_comment (rm_module_str meta) (rm_file_str meta) (lit " extended by:") src)
      else Err (EUnsupportedNesting ty rel)
  end.

Definition rel_cmp_modular (meta : list (str * rel_meta)) (a b : str) : comparison :=
  let am := assoc a meta in
  let bm := assoc b meta in
  sort_by_module a b (rm_module_str am) (rm_module_str bm) (rm_file_str am) (rm_file_str bm).

Fixpoint print_relations (ty : str) (names : list str) (rels : list (str * userset))
         (meta : list (str * rel_meta)) (src : bool) : outcome str perr :=
  match names with
  | [] => Ok []
  | n :: r =>
      let u := match assoc n rels with Some u => u | None => UUnset end in
      match print_relation ty n u (assoc n meta) src with
      | Ok t => match print_relations ty r rels meta src with
                | Ok rest => Ok ([10] ++ t ++ rest)
                | e => e
                end
      | Err e => Err e
      | Panic w => Panic w
      end
  end.

Definition print_type (t : typedef) (modular src : bool) : outcome str perr :=
  let head := lit "type " ++ td_name t ++ source_comment (td_module t) (td_file t) [] src in
  match td_rels t with
  | [] => Ok head
  | rels =>
      let names := keys rels in
      let sorted := if modular then stable_sort (rel_cmp_modular (td_meta_rels t)) names
                    else stable_sort str_compare names in
      match print_relations (td_name t) sorted rels (td_meta_rels t) src with
      | Ok body => Ok (head ++ [10] ++ lit "  relations" ++ body)
      | e => e
      end
  end.

(* ---- conditions ---- *)

(* ConditionParamTypeRef_TypeName.String() lower-cased, "TYPE_NAME_" removed *)
Definition type_name_string (n : N) : str :=
  match n with
  | 0 => lit "unspecified" | 1 => lit "any" | 2 => lit "bool" | 3 => lit "string" | 4 => lit "int"
  | 5 => lit "uint" | 6 => lit "double" | 7 => lit "duration" | 8 => lit "timestamp" | 9 => lit "map"
  | 10 => lit "list" | 11 => lit "ipaddress"
  | _ => str_of_N n
  end.

Definition print_param (cname : str) (p : str * ptype) : outcome str perr :=
  let '(name, PT n gen) := p in
  let s := type_name_string n in
  if str_eqb s (lit "list") || str_eqb s (lit "map") then
    match gen with
    | PT g _ :: _ => Ok (name ++ lit ": " ++ s ++ lit "<" ++ type_name_string g ++ lit ">")
    | [] => Err (EParamNoGeneric cname name)     (* the pinned tree indexed GetGenericTypes()[0]: defect F2, repaired *)
    end
  else Ok (name ++ lit ": " ++ s).

Fixpoint print_params (cname : str) (ps : list (str * ptype)) : outcome (list str) perr :=
  match ps with
  | [] => Ok []
  | p :: r => match print_param cname p with
              | Ok t => match print_params cname r with Ok l => Ok (t :: l) | Err e => Err e | Panic w => Panic w end
              | Err e => Err e
              | Panic w => Panic w
              end
  end.

Definition pair_cmp {B} (a b : str * B) : comparison := str_compare (fst a) (fst b).

Definition print_condition (key : str) (c : condition) (src : bool) : outcome str perr :=
  if negb (str_eqb key (c_name c)) then Err (ECondNameMismatch key (c_name c))
  else match print_params (c_name c) (stable_sort pair_cmp (c_params c)) with
       | Ok ps =>
           Ok (lit "condition " ++ c_name c ++ lit "(" ++ join (lit ", ") ps ++ lit ") {" ++ [10]
               ++ lit "  " ++ c_expr c ++ [10] ++ lit "}" ++ source_comment (c_module c) (c_file c) [] src ++ [10])
       | Err e => Err e
       | Panic w => Panic w
       end.

Definition cond_cmp (a b : str * condition) : comparison :=
  sort_by_module (fst a) (fst b) (c_module (snd a)) (c_module (snd b)) (c_file (snd a)) (c_file (snd b)).

Fixpoint print_conditions (cs : list (str * condition)) (src : bool) : outcome str perr :=
  match cs with
  | [] => Ok []
  | (k, c) :: r =>
      match print_condition k c src with
      | Ok t => match print_conditions r src with
                | Ok rest => Ok ([10] ++ t ++ rest)
                | e => e
                end
      | e => e
      end
  end.

(* ---- model ---- *)

Definition type_cmp (a b : typedef) : comparison :=
  sort_by_module (td_name a) (td_name b) (td_module a) (td_module b) (td_file a) (td_file b).

Fixpoint print_types (ts : list typedef) (modular src : bool) : outcome (list str) perr :=
  match ts with
  | [] => Ok []
  | t :: r => match print_type t modular src with
              | Ok x => match print_types r modular src with
                        | Ok l => Ok (([10] ++ x) :: l)
                        | e => e
                        end
              | Err e => Err e
              | Panic w => Panic w
              end
  end.

Definition is_modular_model (m : model) : bool :=
  existsb (fun t => negb (is_empty (td_module t))) (m_types m).

Definition print_model (src : bool) (m : model) : outcome str perr * list typedef :=
  let modular := is_modular_model m in
  let sorted := if modular then stable_sort type_cmp (m_types m) else m_types m in
  (* what the caller's slice looks like afterwards: untouched (the pinned tree sorted it in place
     for modular models: defect F6, repaired by sorting a clone) *)
  let after := m_types m in
  let res :=
    match print_types sorted modular src with
    | Ok tds =>
        let tstr := join [10] tds ++ (match tds with [] => [] | _ => [10] end) in
        match print_conditions (stable_sort cond_cmp (m_conds m)) src with
        | Ok cstr => Ok (lit "model" ++ [10] ++ lit "  schema " ++ m_schema m ++ [10] ++ tstr ++ cstr)
        | Err e => Err e
        | Panic w => Panic w
        end
    | Err e => Err e
    | Panic w => Panic w
    end in
  (res, after).

(* Model/WireModel.v — S-expression encoding of models, tokens and transformer results
   (DESIGN.md Appendix D).  The Go harness uses the same shapes (as JSON arrays).

   userset : (0) unset | (1 r) this, r = 0 nil / 1 empty | (2 rel) | (3 tupleset computed)
           | (4 c...) union | (5 c...) intersection | (6 base sub)
   ref     : (type kind cond), kind = (0) | (1 rel) | (2)
   relmeta : (refs module file?)            typemeta : (relmetas module file?)
   typedef : (name ((rel userset)...) typemeta?)
   ptype   : (n generic...)                 condition : (name expr ((param ptype)...) (module file?)?)
   model   : (schema (typedef...) ((key condition)...)) *)
From Verif Require Import Base.Str Base.Sx Base.Outcome Model.Ast Model.Token Model.Lexer Model.Parser
  Model.Listener Model.Printer Model.Utils Model.Transform Spec.Expressible Spec.Normalize Spec.DocDomain.

Fixpoint sx_userset (u : userset) : sx :=
  match u with
  | UUnset => SL [SA 0]
  | UThis ThisNil => SL [SA 1; SA 0]
  | UThis ThisEmpty => SL [SA 1; SA 1]
  | UComputed r => SL [SA 2; sx_str r]
  | UTTU t c => SL [SA 3; sx_str t; sx_str c]
  | UUnion cs => SL (SA 4 :: map sx_userset cs)
  | UInter cs => SL (SA 5 :: map sx_userset cs)
  | UDiff b s => SL [SA 6; sx_userset b; sx_userset s]
  end.

Definition sx_ref (r : relation_ref) : sx :=
  SL [sx_str (rr_type r);
      match rr_kind r with RPlain => SL [SA 0] | RRel x => SL [SA 1; sx_str x] | RWild => SL [SA 2] end;
      sx_str (rr_cond r)].
Definition sx_relmeta (m : rel_meta) : sx :=
  SL [sx_list sx_ref (rm_types m); sx_str (rm_module m); sx_opt sx_str (rm_file m)].
Definition sx_typemeta (m : type_meta) : sx :=
  SL [sx_list (sx_pair sx_str sx_relmeta) (tm_rels m); sx_str (tm_module m); sx_opt sx_str (tm_file m)].
Definition sx_typedef (t : typedef) : sx :=
  SL [sx_str (td_name t); sx_list (sx_pair sx_str sx_userset) (td_rels t); sx_opt sx_typemeta (td_meta t)].
Fixpoint sx_ptype (p : ptype) : sx :=
  match p with PT n g => SL (SA n :: map sx_ptype g) end.
Definition sx_condmeta (m : cond_meta) : sx := SL [sx_str (cm_module m); sx_opt sx_str (cm_file m)].
Definition sx_condition (c : condition) : sx :=
  SL [sx_str (c_name c); sx_str (c_expr c); sx_list (sx_pair sx_str sx_ptype) (c_params c);
      sx_opt sx_condmeta (c_meta c)].
Definition sx_model (m : model) : sx :=
  SL [sx_str (m_schema m); sx_list sx_typedef (m_types m); sx_list (sx_pair sx_str sx_condition) (m_conds m)].

(* ---- decoding (fuel = structural depth of the S-expression) ---- *)

Fixpoint sx_depth (x : sx) : nat :=
  match x with
  | SA _ => 1%nat
  | SL l => S (fold_right (fun y n => Nat.max (sx_depth y) n) 0%nat l)
  end.

Fixpoint un_userset_f (fuel : nat) (x : sx) : option userset :=
  match fuel with
  | O => None
  | S f =>
      match x with
      | SL [SA 0] => Some UUnset
      | SL [SA 1; SA 0] => Some (UThis ThisNil)
      | SL [SA 1; SA _] => Some (UThis ThisEmpty)
      | SL [SA 2; r] => option_map UComputed (un_str r)
      | SL [SA 3; t; c] => match un_str t, un_str c with Some t, Some c => Some (UTTU t c) | _, _ => None end
      | SL (SA 4 :: cs) => option_map UUnion (all_some (map (un_userset_f f) cs))
      | SL (SA 5 :: cs) => option_map UInter (all_some (map (un_userset_f f) cs))
      | SL [SA 6; b; s] => match un_userset_f f b, un_userset_f f s with
                           | Some b, Some s => Some (UDiff b s) | _, _ => None end
      | _ => None
      end
  end.
Definition un_userset (x : sx) : option userset := un_userset_f (sx_depth x) x.

Definition un_ref (x : sx) : option relation_ref :=
  match x with
  | SL [t; k; c] =>
      match un_str t, un_str c,
            (match k with
             | SL [SA 0] => Some RPlain
             | SL [SA 1; r] => option_map RRel (un_str r)
             | SL [SA 2] => Some RWild
             | _ => None end) with
      | Some t, Some c, Some k => Some {| rr_type := t; rr_kind := k; rr_cond := c |}
      | _, _, _ => None
      end
  | _ => None
  end.

Definition un_pair {A B} (f : sx -> option A) (g : sx -> option B) (x : sx) : option (A * B) :=
  match x with
  | SL [a; b] => match f a, g b with Some a, Some b => Some (a, b) | _, _ => None end
  | _ => None
  end.

Definition un_relmeta (x : sx) : option rel_meta :=
  match x with
  | SL [rs; m; f] =>
      match un_listof un_ref rs, un_str m, un_opt un_str f with
      | Some rs, Some m, Some f => Some {| rm_types := rs; rm_module := m; rm_file := f |}
      | _, _, _ => None
      end
  | _ => None
  end.
Definition un_typemeta (x : sx) : option type_meta :=
  match x with
  | SL [rs; m; f] =>
      match un_listof (un_pair un_str un_relmeta) rs, un_str m, un_opt un_str f with
      | Some rs, Some m, Some f => Some {| tm_rels := rs; tm_module := m; tm_file := f |}
      | _, _, _ => None
      end
  | _ => None
  end.
Definition un_typedef (x : sx) : option typedef :=
  match x with
  | SL [n; rs; m] =>
      match un_str n, un_listof (un_pair un_str un_userset) rs, un_opt un_typemeta m with
      | Some n, Some rs, Some m => Some {| td_name := n; td_rels := rs; td_meta := m |}
      | _, _, _ => None
      end
  | _ => None
  end.
Fixpoint un_ptype_f (fuel : nat) (x : sx) : option ptype :=
  match fuel with
  | O => None
  | S f => match x with
           | SL (SA n :: g) => option_map (PT n) (all_some (map (un_ptype_f f) g))
           | _ => None
           end
  end.
Definition un_ptype (x : sx) : option ptype := un_ptype_f (sx_depth x) x.
Definition un_condmeta (x : sx) : option cond_meta :=
  match x with
  | SL [m; f] => match un_str m, un_opt un_str f with
                 | Some m, Some f => Some {| cm_module := m; cm_file := f |} | _, _ => None end
  | _ => None
  end.
Definition un_condition (x : sx) : option condition :=
  match x with
  | SL [n; e; ps; m] =>
      match un_str n, un_str e, un_listof (un_pair un_str un_ptype) ps, un_opt un_condmeta m with
      | Some n, Some e, Some ps, Some m => Some {| c_name := n; c_expr := e; c_params := ps; c_meta := m |}
      | _, _, _, _ => None
      end
  | _ => None
  end.
Definition un_model (x : sx) : option model :=
  match x with
  | SL [s; ts; cs] =>
      match un_str s, un_listof un_typedef ts, un_listof (un_pair un_str un_condition) cs with
      | Some s, Some ts, Some cs => Some {| m_schema := s; m_types := ts; m_conds := cs |}
      | _, _, _ => None
      end
  | _ => None
  end.

(* ---- tokens and results ---- *)

Definition sx_tok (t : tok) : sx :=
  SL [SA (tk_code (tk t)); sx_str (ttext t); sx_nat (tline t); sx_nat (tcol t)].
Definition un_tok (x : sx) : option tok :=
  match x with
  | SL [SA k; t; SA l; SA c] =>
      match tk_of_code k, un_str t with
      | Some k, Some t => Some {| tk := k; ttext := t; tline := N.to_nat l; tcol := N.to_nat c |}
      | _, _ => None
      end
  | _ => None
  end.
Definition sx_lerror (e : lerror) : sx := SL [sx_nat (er_line e); sx_nat (er_col e); sx_str (er_msg e)].
Definition sx_lexerr (e : lex_error) : sx := SL [sx_nat (le_line e); sx_nat (le_col e); SA (le_char e)].

(* (0 model exts modular) | (1 lexer_errors parsed) | (2 errs) | (3 why) *)
Definition sx_dsl_result (r : dsl_result) : sx :=
  match r with
  | DOk m exts modular => SL [SA 0; sx_model m; sx_list (fun p => SL [sx_str (fst p); sx_typedef (snd (snd p))]) exts; sx_bool modular]
  | DSyntax n p => SL [SA 1; sx_nat n; sx_bool p]
  | DListener es => SL [SA 2; sx_list sx_lerror es]
  | DPanic w => SL [SA 3; sx_str w]
  end.

Definition sx_perr (e : perr) : sx :=
  match e with
  | EUnsupportedNesting t r => SL [SA 0; sx_str t; sx_str r]
  | ECondNameMismatch k n => SL [SA 1; sx_str k; sx_str n]
  | EParamNoGeneric c p => SL [SA 2; sx_str c; sx_str p]
  end.

(* (0 text types_after) | (1 err types_after) | (3 why) *)
Definition sx_print_result (r : outcome str perr * list typedef) : sx :=
  match fst r with
  | Ok t => SL [SA 0; sx_str t; sx_list sx_typedef (snd r)]
  | Err e => SL [SA 1; sx_perr e; sx_list sx_typedef (snd r)]
  | Panic w => SL [SA 3; sx_str w]
  end.

Definition sx_rt (r : list rt_step * rt_fail) : sx :=
  SL [sx_list (fun s => match s with
                        | RStep m (Some t) => SL [sx_model m; sx_str t]
                        | RStep m None => SL [sx_model m]
                        end) (fst r);
      match snd r with
      | RFNone => SL []
      | RFParse k => SL [sx_nat k; SA 0]
      | RFPrint k => SL [sx_nat k; SA 1]
      end].

(* op 207: the SPECIFICATION evaluated on a model — per relation: carriable, expressible, normalize *)
Definition sx_spec_rel (r : str * userset) : sx :=
  SL [sx_str (fst r); SA (if carriable (snd r) then 1 else 0); SA (if expressible (snd r) then 1 else 0);
      sx_userset (normalize (snd r))].
Definition sx_spec_model (m : model) : sx :=
  sx_list (fun t => SL [sx_str (td_name t); sx_list sx_spec_rel (td_rels t)]) (m_types m).

(* wire ops 200-299: transformer *)
Definition dispatch_transform (op : N) (args : list sx) : option sx :=
  match op, args with
  | 200, [d] => option_map (fun d => let '(ts, es) := lex_all (prepass d) in
                                     SL [sx_list sx_tok ts; sx_list sx_lexerr es]) (un_str d)
  | 201, [d] => option_map (fun d => sx_dsl_result (dsl_to_model d)) (un_str d)
  | 202, [SA src; m] => option_map (fun m => sx_print_result (print_model (negb (src =? 0)) m)) (un_model m)
  | 205, [SA src; m] => option_map (fun m => sx_print_result (print_model (negb (src =? 0)) (json_model m))) (un_model m)
  | 206, [SA via; d] => option_map (fun d => sx_rt (roundtrip 3 0 (negb (via =? 0)) d)) (un_str d)
  | 203, [d] => option_map (fun d => sx_str (prepass d)) (un_str d)
  | 207, [m] => option_map sx_spec_model (un_model m)
  (* op 208: the document-level round-trip theorem evaluated on a model: (applies? , the model it says comes back) *)
  | 208, [m] => option_map (fun m => SL [SA (if model_okb m then 1 else 0); sx_model (canonical m)]) (un_model m)
  (* op 210: utils.IsRelationAssignable for every relation of a model *)
  | 210, [m] =>
      option_map (fun m => SL (flat_map (fun td => map (fun p => SL [sx_str (td_name td); sx_str (fst p); SA (if is_assignable (snd p) then 1 else 0)])
                                                   (td_rels td)) (m_types m))) (un_model m)
  | 204, [ts] => option_map (fun ts => sx_dsl_result (parse_walk ts)) (un_listof un_tok ts)
  | _, _ => None
  end.

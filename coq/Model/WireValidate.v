(* wire ops 100-199: validators *)
From Verif Require Import Base.Str Base.Sx Model.Regex Model.Validate Spec.ValidateSpec.

Definition sx_obool (o : option bool) : sx :=
  match o with None => SA 2 | Some true => SA 1 | Some false => SA 0 end.

Definition dispatch_validate (op : N) (args : list sx) : option sx :=
  match op, args with
  | 100, [s] => match un_str s with
                | Some s => Some (sx_list sx_obool (validate_all s))
                | None => None
                end
  | 101, [s] => match un_str s with
                | Some s => Some (sx_list sx_bool (spec_all s))
                | None => None
                end
  | _, _ => None
  end.

(* wire ops 400-499: module merge.
   request 400: (((name text)...) schema) ; result (0 model) | (1 (err...)) | (3 why)
   err = (0 file_index) | (1 msg file line_start line_end col_start col_end) *)
From Verif Require Import Base.Str Base.Sx Base.Outcome Model.Ast Model.LineNumbers Model.Merge Model.WireModel Spec.MergeSpec.

Definition un_mfile (x : sx) : option mfile :=
  match x with
  | SL [n; t] => match un_str n, un_str t with
                 | Some n, Some t => Some {| mf_name := n; mf_text := t |} | _, _ => None end
  | _ => None
  end.

Definition sx_merror (e : merror) : sx :=
  match e with
  | MSyntax k => SL [SA 0; sx_nat k]
  | MConflict m f p => SL [SA 1; sx_str m; sx_str f; sx_nat (line_start p); sx_nat (line_end p);
                           sx_nat (col_start p); sx_nat (col_end p)]
  end.

Definition sx_modules (m : model) : sx :=
  sx_list (fun t => SL [sx_str (td_name t);
                        sx_list (fun p => SL [sx_str (fst p); sx_opt sx_str (module_for_relation t (fst p))]) (td_rels t)])
          (m_types m).

Definition dispatch_merge (op : N) (args : list sx) : option sx :=
  match op, args with
  | 400, [fs; v] =>
      match un_listof un_mfile fs, un_str v with
      | Some fs, Some v =>
          Some (match merge fs v with
                | Ok m => SL [SA 0; sx_model m; sx_modules m]
                | Err es => SL [SA 1; sx_list sx_merror es]
                | Panic w => SL [SA 3; sx_str w]
                end)
      | _, _ => None
      end
  | 401, [fs] =>
      (* the SPECIFICATION of Spec/MergeSpec.v on the files: (well-formed? conflict-free?) *)
      option_map (fun fs => SL [sx_bool (wf_modulesb fs); sx_bool (conflict_freeb fs)]) (un_listof un_mfile fs)
  | _, _ => None
  end.

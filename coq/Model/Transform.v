(* Model/Transform.v — the composed entry points of the transformer package. *)
From Verif Require Import Base.Str Base.Outcome Model.Ast Model.Token Model.Lexer Model.Parser
  Model.Listener Model.Printer.

Inductive dsl_result :=
| DOk (m : model) (exts : list (str * (nat * typedef))) (modular : bool)
| DSyntax (lexer_errors : nat) (parsed : bool)      (* errors reported by the ANTLR lexer/parser *)
| DListener (errs : list lerror)                    (* only listener-raised errors *)
| DPanic (why : str).

(* ParseDSL on already-lexed input *)
Definition parse_walk (ts : list tok) : dsl_result :=
  match parse ts with
  | None => DSyntax 0 false
  | Some f =>
      match walk f with
      | Ok s => match ls_errs s with
                | [] => DOk (model_of s) (ls_exts s) (ls_modular s)
                | es => DListener es
                end
      | Err _ => DSyntax 0 true
      | Panic w => DPanic w
      end
  end.

(* TransformDSLToProto / TransformModularDSLToProto *)
Definition dsl_to_model (d : str) : dsl_result :=
  let '(ts, es) := lex (prepass d) in
  match es with
  | [] => parse_walk ts
  | _ => DSyntax (length es) (match parse ts with Some _ => true | None => false end)
  end.

(* protojson.Marshal followed by Unmarshal (TransformDSLToJSON ; TransformJSONStringToDSL):
   the identity on this AST except that an empty message is emitted as {} and read back as a
   non-nil message (assumed about protojson; under correspondence) *)
Fixpoint json_userset (u : userset) : userset :=
  match u with
  | UThis _ => UThis ThisEmpty
  | UUnion cs => UUnion (map json_userset cs)
  | UInter cs => UInter (map json_userset cs)
  | UDiff b s => UDiff (json_userset b) (json_userset s)
  | _ => u
  end.
Definition json_typedef (t : typedef) : typedef :=
  {| td_name := td_name t; td_rels := map (fun p => (fst p, json_userset (snd p))) (td_rels t);
     td_meta := td_meta t |}.
Definition json_model (m : model) : model :=
  {| m_schema := m_schema m; m_types := map json_typedef (m_types m); m_conds := m_conds m |}.

(* C01: DSL -> model -> DSL -> model -> ... three rounds, through the JSON string API or directly *)
Inductive rt_step := RStep (m : model) (text : option str).
Inductive rt_fail := RFParse (round : nat) | RFPrint (round : nat) | RFNone.

Fixpoint roundtrip (rounds : nat) (k : nat) (via_json : bool) (d : str) : list rt_step * rt_fail :=
  match rounds with
  | O => ([], RFNone)
  | S r =>
      match dsl_to_model d with
      | DOk m _ _ =>
          let m' := if via_json then json_model m else m in
          match fst (print_model false m') with
          | Ok t => let '(steps, f) := roundtrip r (S k) via_json t in (RStep m' (Some t) :: steps, f)
          | _ => ([RStep m' None], RFPrint k)
          end
      | _ => ([], RFParse k)
      end
  end.

(* Spec/MergeObs.v — what a caller can read out of a merged model: a type by name, a relation's rewrite, the
   relation's metadata, the type's module and file.  Go maps are association lists here, so two models with the
   same readings are the same model up to the order in which maps and the type list are enumerated. *)
From Verif Require Import Base.Str Base.Outcome Model.Ast Model.Merge.

Definition tfind (raw : list typedef) (T : str) : option typedef :=
  match index_of_type T raw 0 with Some i => Some (nth i raw empty_typedef) | None => None end.

Definition rel_body (raw : list typedef) (T r : str) : option userset :=
  match tfind raw T with Some t => assoc r (td_rels t) | None => None end.

Definition rel_attr (raw : list typedef) (T r : str) : option rel_meta :=
  match tfind raw T with Some t => assoc r (td_meta_rels t) | None => None end.

(* module and file of a type *)
Definition type_attr (raw : list typedef) (T : str) : option (str * str) :=
  match tfind raw T with Some t => Some (td_module t, td_file t) | None => None end.

(* Spec/Normalize.v — what survives the trip model -> DSL -> model: the direct assignment hoisted to the
   front of its union/intersection, single-child unions/intersections collapsed; and the parse tree the
   printer's output denotes ([tree_of]), with its canonical one-line rendering ([render_elem]). *)
From Verif Require Import Base.Str Model.Ast Model.Token Model.Parser Model.Listener Model.Printer Spec.Sem.

Definition collapse (mk : list userset -> userset) (cs : list userset) : userset :=
  match cs with [x] => x | _ => mk cs end.

Fixpoint normalize (u : userset) : userset :=
  let kids := fix kids (cs : list userset) : list (bool * userset) :=
    match cs with [] => [] | c :: r => (is_this c, normalize c) :: kids r end in
  match u with
  | UUnion cs => collapse UUnion (map snd (prioritize_by fst (kids cs)))
  | UInter cs => collapse UInter (map snd (prioritize_by fst (kids cs)))
  | UDiff b s => UDiff (normalize b) (normalize s)
  | _ => u
  end.

(* tokens carrying a name *)
Definition name_tok (s : str) : tok := {| tk := IDENTIFIER; ttext := s; tline := 0; tcol := 0 |}.
Definition restr_of_ref (r : relation_ref) : restr :=
  {| rs_type := name_tok (rr_type r);
     rs_kind := match rr_kind r with RPlain => RKPlain | RWild => RKWild | RRel x => RKRel (name_tok x) end;
     rs_cond := if is_empty (rr_cond r) then None else Some (name_tok (rr_cond r)) |}.

Definition group_of (op : opk) (xs : list relem) : relem :=
  match xs with
  | [] => EGroup true (ERewrite (name_tok []) None) ONone []     (* an operator without operands: outside the carriable domain *)
  | [x] => EGroup true x ONone []
  | x :: r => EGroup true x op r
  end.

(* the tree of an operand as the printer writes it (every group marked as non-leading; [promote] fixes the
   leading chain) *)
Fixpoint tree_of (refs : list relation_ref) (u : userset) : relem :=
  let kids := fix kids (cs : list userset) : list (bool * relem) :=
    match cs with [] => [] | c :: r => (is_this c, tree_of refs c) :: kids r end in
  match u with
  | UThis _ => EDirect (map restr_of_ref refs)
  | UComputed r => ERewrite (name_tok r) None
  | UTTU t c => ERewrite (name_tok c) (Some (name_tok t))
  | UUnion cs => group_of OOr (map snd (prioritize_by fst (kids cs)))
  | UInter cs => group_of OAnd (map snd (prioritize_by fst (kids cs)))
  | UDiff b s => EGroup true (tree_of refs b) OButNot [tree_of refs s]
  | UUnset => ERewrite (name_tok []) None
  end.

Fixpoint promote (e : relem) : relem :=
  match e with
  | EGroup _ first op rest => EGroup false (promote first) op rest
  | _ => e
  end.

(* the relation definition the printer writes at top level: no outer parentheses *)
Definition rdef_of (refs : list relation_ref) (u : userset) : rdef :=
  match tree_of refs u with
  | EGroup _ first op rest => {| rd_first := promote first; rd_op := op; rd_rest := rest |}
  | e => {| rd_first := e; rd_op := ONone; rd_rest := [] |}
  end.

(* ---- canonical rendering of a tree: single spaces, no line breaks ---- *)
Definition render_restr (r : restr) : str :=
  ttext (rs_type r)
  ++ (match rs_kind r with RKWild => lit ":*" | RKRel t => lit "#" ++ ttext t | RKPlain => [] end)
  ++ (match rs_cond r with Some c => lit " with " ++ ttext c | None => [] end).

Definition op_text (op : opk) : str :=
  match op with OOr => lit " or " | OAnd => lit " and " | OButNot => lit " but not " | ONone => [] end.

Fixpoint render_elem (e : relem) : str :=
  match e with
  | EDirect rs => lit "[" ++ join (lit ", ") (map render_restr rs) ++ lit "]"
  | ERewrite cu None => ttext cu
  | ERewrite cu (Some t) => ttext cu ++ lit " from " ++ ttext t
  | EGroup _ first op rest => lit "(" ++ join (op_text op) (render_elem first :: map render_elem rest) ++ lit ")"
  end.

Definition render_rdef (d : rdef) : str := join (op_text (rd_op d)) (render_elem (rd_first d) :: map render_elem (rd_rest d)).

(* Spec/ValidateSpec.v — what property C18 says about accepted strings, written at character
   level, independently of any regular expression.  [ws] is Go/RE2's \s (ASCII only: see
   DESIGN.md observation O6). *)
From Verif Require Import Base.Str.

Definition sws (c : N) : bool :=
  (c =? 9) || (c =? 10) || (c =? 12) || (c =? 13) || (c =? 32).

(* characters that may not occur in a type or relation name:  : # @ * and whitespace *)
Definition bad_tr (c : N) : bool := (c =? 58) || (c =? 35) || (c =? 64) || (c =? 42) || sws c.
(* ... in a condition name: * and whitespace *)
Definition bad_cond (c : N) : bool := (c =? 42) || sws c.
(* first character of an object id: not # : * or whitespace *)
Definition id_first (c : N) : bool := negb ((c =? 35) || (c =? 58) || sws c || (c =? 42)).
(* further characters of an object id *)
Definition id_rest (c : N) : bool :=
  is_lower c || is_upper c || is_digit c
  || (c =? 95) || (c =? 124) || (c =? 42) || (c =? 64) || (c =? 46) || (c =? 43).

Definition len_in (lo hi : nat) (s : str) : bool := (lo <=? length s)%nat && (length s <=? hi)%nat.

Definition spec_type (s : str) : bool := len_in 1 254 s && forallb (fun c => negb (bad_tr c)) s.
Definition spec_relation (s : str) : bool := len_in 1 50 s && forallb (fun c => negb (bad_tr c)) s.
Definition spec_condition (s : str) : bool := len_in 1 50 s && forallb (fun c => negb (bad_cond c)) s.
Definition spec_id (s : str) : bool :=
  match s with [] => false | c :: r => id_first c && forallb id_rest r end.
Definition spec_objlen (s : str) : bool := len_in 2 256 s && forallb (fun c => negb (sws c)) s.

(* split at the first occurrence of [c] *)
Fixpoint split_first (c : N) (s : str) : option (str * str) :=
  match s with
  | [] => None
  | x :: r =>
      if x =? c then Some ([], r)
      else match split_first c r with
           | Some (a, b) => Some (x :: a, b)
           | None => None
           end
  end.

Definition spec_typeid (s : str) : bool :=
  match split_first 58 s with
  | Some (t, i) => spec_type t && spec_id i
  | None => false
  end.
Definition spec_object (s : str) : bool := spec_typeid s && spec_objlen s.
Definition spec_userset (s : str) : bool :=
  match split_first 58 s with
  | Some (t, rest) =>
      match split_first 35 rest with
      | Some (i, r) => spec_type t && spec_id i && spec_relation r
      | None => false
      end
  | None => false
  end.
Definition spec_wildcard (s : str) : bool :=
  match split_first 58 s with
  | Some (t, rest) => spec_type t && str_eqb rest [42]
  | None => false
  end.
Definition spec_user (s : str) : bool := spec_userset s || spec_object s || spec_wildcard s.

(* in the order of go_validators *)
Definition spec_all (s : str) : list bool :=
  [spec_object s; spec_id s; spec_relation s; spec_userset s; spec_object s; spec_wildcard s;
   spec_user s; spec_condition s; spec_type s].

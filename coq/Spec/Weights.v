(* Spec/Weights.v — the property's own definition of weights, on the MODEL (an operand is a child of the
   operator in the rewrite, a whole direct-assignment list or a whole tuple-to-userset — not an edge):
   key set and maximum tuple-hop depth by unfolding the rewrites [fuel] times.  For a model without cycles
   (number of relations + 1) unfoldings reach the fixed point. *)
From Verif Require Import Base.Str Model.Ast Model.Printer Model.WGraph.

Definition dmap := list (str * N).     (* user type -> depth *)

Definition dmax (a b : dmap) : dmap := fold_left (fun w kv => wmax (fst kv) (snd kv) w) b a.
Definition dbump (a : dmap) : dmap := map (fun kv => (fst kv, if snd kv =? infinite then snd kv else snd kv + 1)) a.
Definition dinter (a b : dmap) : dmap :=        (* keys common to both, maximum depth *)
  flat_map (fun kv => match assoc (fst kv) b with Some v => [(fst kv, N.max (snd kv) v)] | None => [] end) a.
Definition dexcl (base sub : dmap) : dmap :=    (* keys of the base; depth also counts the subtracted side *)
  map (fun kv => (fst kv, match assoc (fst kv) sub with Some v => N.max (snd kv) v | None => snd kv end)) base.

Definition find_type (m : model) (ty : str) : option typedef := find (fun t => str_eqb (td_name t) ty) (m_types m).

Section Unfold.
  Variable m : model.
  Variable rec : str -> str -> dmap.      (* depth map of type#relation, one unfolding less *)

  Definition eval_refs (refs : list relation_ref) : dmap :=
    fold_left (fun acc r =>
                 match rr_kind r with
                 | RPlain | RWild => dmax acc [(rr_type r, 1)]
                 | RRel x => dmax acc (dbump (rec (rr_type r) x))
                 end) refs [].

  Fixpoint eval_u (td : typedef) (rel : str) (u : userset) : dmap :=
    match u with
    | UThis _ => eval_refs (rm_types_of (assoc rel (td_meta_rels td)))
    | UComputed r => rec (td_name td) r
    | UTTU ts cu =>
        fold_left (fun acc r => dmax acc (dbump (rec (rr_type r) cu))) (rm_types_of (assoc ts (td_meta_rels td))) []
    | UUnion cs => fold_left (fun acc c => dmax acc (eval_u td rel c)) cs []
    | UInter cs =>
        match cs with
        | [] => []
        | c :: r => fold_left (fun acc c' => dinter acc (eval_u td rel c')) r (eval_u td rel c)
        end
    | UDiff b s => dexcl (eval_u td rel b) (eval_u td rel s)
    | UUnset => []
    end.
End Unfold.

Fixpoint spec_depths (fuel : nat) (m : model) (ty rel : str) : dmap :=
  match fuel with
  | O => []
  | S f =>
      match find_type m ty with
      | Some td => match assoc rel (td_rels td) with
                   | Some u => eval_u (spec_depths f m) td rel u
                   | None => []
                   end
      | None => []
      end
  end.

Definition n_relations (m : model) : nat := fold_right (fun t n => (length (td_rels t) + n)%nat) 0%nat (m_types m).
Definition spec_of (m : model) (ty rel : str) : dmap := spec_depths (S (n_relations m)) m ty rel.

(* compare as maps *)
Definition dmap_eqb (a b : dmap) : bool :=
  (length a =? length b)%nat && forallb (fun kv => match assoc (fst kv) b with Some v => v =? snd kv | None => false end) a.

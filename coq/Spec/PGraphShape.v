(* Spec/PGraphShape.v — the lines the rewrite of one relation dictates in the PLAIN authorization-model graph (C17),
   computed on lists of entries only: what enters a relation node or an operator node, each entry named by the LABEL
   of its source node.  Mirrors graph_builder.go line by line (including its two quirks: a userset restriction with
   an empty relation name re-uses the node of the previous restriction; a condition is compared with the recorded
   ones before "" is written "none"), but knows nothing of node numbers, line numbers or other relations. *)
From Verif Require Import Base.Str Base.Outcome Model.Ast Model.Printer Model.WGraph Model.PGraph Spec.GraphShape.

(* source label, kind, tupleset label, conditions *)
Definition pentry := (str * etype * str * list str)%type.

Definition pe_same (e : pentry) (src : str) (t : etype) (ts : str) : bool :=
  let '(s, t', ts', _) := e in str_eqb s src && etype_eqb t' t && str_eqb ts' ts.

Fixpoint pl_upsert_in (l : list pentry) (src : str) (t : etype) (ts cond : str) : option (list pentry) :=
  match l with
  | [] => None
  | e :: r =>
      if pe_same e src t ts then
        let '(s, t', ts', cs) := e in
        if mem_str cond cs then Some l else Some ((s, t', ts', cs ++ [cond]) :: r)
      else option_map (cons e) (pl_upsert_in r src t ts cond)
  end.

Definition pl_upsert (l : list pentry) (src : str) (t : etype) (ts cond : str) : list pentry :=
  match pl_upsert_in l src t ts cond with
  | Some l' => l'
  | None => l ++ [(src, t, ts, [if is_empty cond then no_cond else cond])]
  end.

Definition pl_this (refs : list relation_ref) (l : list pentry) : list pentry :=
  fst (fold_left
         (fun (acc : list pentry * option str) r =>
            let '(l, cur) := acc in
            let cur := match rr_kind r with
                       | RPlain => Some (rr_type r)
                       | RWild => Some (rr_type r ++ lit ":*")
                       | RRel x => if is_empty x then cur else Some (rr_type r ++ lit "#" ++ x)
                       end in
            match cur with
            | Some c => (pl_upsert l c EDirect [] (rr_cond r), cur)
            | None => (l, cur)
            end) refs (l, None)).

Definition pl_ttu (m : model) (label computed : str) (refs : list relation_ref) (l : list pentry) : list pentry :=
  fold_left (fun l r =>
               if negb (type_and_relation_exists m (rr_type r) computed) then l
               else
                 let src := rr_type r ++ lit "#" ++ computed in
                 if existsb (fun e => pe_same e src ETTU label) l then l
                 else pl_upsert l src ETTU label (rr_cond r))
            refs l.

Section PShape.
  Variable ty : str -> ntype.          (* the kind of the node with a given label *)
  Variable m : model.
  Variable td : typedef.
  Variable rel : str.

  Fixpoint pshape (k : N) (plabel : str) (u : userset) (l : list pentry)
    : list pentry * list (str * list pentry) * N :=
    let children := fix children (k : N) (olabel : str) (cs : list userset) (ol : list pentry)
                        (created : list (str * list pentry)) : list pentry * list (str * list pentry) * N :=
      match cs with
      | [] => (ol, created, k)
      | c :: r => let '(ol', cr, k') := pshape k olabel c ol in children k' olabel r ol' (created ++ cr)
      end in
    let operator (op : str) (cs : list userset) :=
      let olabel := op_id op k in
      let '(ol, created, k') := children (k + 1) olabel cs [] [] in
      (l ++ [(olabel, ERewrite, [], [no_cond])], (olabel, ol) :: created, k') in
    match u with
    | UThis _ => (pl_this (rm_types_of (assoc rel (td_meta_rels td))) l, [], k)
    | UComputed r =>
        let src := td_name td ++ lit "#" ++ r in
        (l ++ [(src, computed_kind ty plabel src, [], [no_cond])], [], k)
    | UTTU ts cu => (pl_ttu m (td_name td ++ lit "#" ++ ts) cu (rm_types_of (assoc ts (td_meta_rels td))) l, [], k)
    | UUnion cs => operator (lit "union") cs
    | UInter cs => operator (lit "intersection") cs
    | UDiff b s => operator (lit "exclusion") [b; s]
    | UUnset => operator [] []
    end.
End PShape.

(* the names the plain builder asks nodes for (tuple-to-usersets whose parent type lacks the relation are skipped) *)
Definition pnamed_ids (m : model) : list str := named_ids m.
Definition pshape_domain (m : model) : bool :=
  nodupb_str (rel_ids m) && forallb (fun id => negb (is_op_id id)) (named_ids m).

(* Spec/GraphWeights.v — the weights of a weighted graph WITHOUT cycles, as a function of the unweighted
   graph alone: the weight map of a node is the strategy of its kind applied to the weight maps of its
   edges, the weight map of an edge is one hop more than its target's (direct and tuple-to-userset edges)
   or the same (rewrite and computed edges), and an edge to a type or a wildcard carries that type at
   depth 1.  No depth-first order, no visited set, no state. *)
From Verif Require Import Base.Str Model.Ast Model.Printer Model.WGraph Model.WWeights Proofs.StrategyProofs.

Inductive rule_kind := RMax | REnforce | RMixed | RNone.

Definition kind_of (t : ntype) (lbl : str) : rule_kind :=
  match t with
  | NOperator =>
      if str_eqb lbl (lit "union") then RMax
      else if str_eqb lbl (lit "intersection") then REnforce
      else if str_eqb lbl (lit "exclusion") then RMixed
      else RNone
  | _ => RMax
  end.

Definition pure_weights (k : rule_kind) (ews : list wmap) : wmap :=
  match k with
  | RMax => max_weights ews
  | REnforce => match ews with f :: r => enforce_weights f r | [] => [] end
  | RMixed => match rev ews with l :: ri => raise_only (max_weights (rev ri)) l | [] => [] end
  | RNone => []
  end.

Definition bump (t : etype) (w : wmap) : wmap :=
  if etype_eqb t ETTU || etype_eqb t EDirect
  then map (fun kv => (fst kv, if snd kv =? infinite then snd kv else snd kv + 1)) w
  else w.

Definition term_label (t : ntype) (to : str) : str := if ntype_eqb t NWildcard then drop_last2 to else to.

(* an edge seen without its annotations: source, target, kind *)
Definition eshape_t := (str * str * etype)%type.
Definition eshape (e : wedge) : eshape_t := (e_from e, e_to e, e_type e).

Section G.
  Variable g0 : wgraph.

  Definition edge_w (rec : str -> wmap) (sh : eshape_t) : wmap :=
    let '(_, to, t) := sh in
    let tt := n_type (node_of g0 to) in
    if is_terminal tt then [(term_label tt to, 1)] else bump t (copy_weights (rec to)).

  Fixpoint gspec (fuel : nat) (x : str) : wmap :=
    match fuel with
    | O => []
    | S f => pure_weights (kind_of (n_type (node_of g0 x)) (n_label (node_of g0 x)))
                          (map (fun e => edge_w (gspec f) (eshape e)) (edges_from g0 x))
    end.

  (* acceptance: which nodes weight assignment gets through without an error (no cycles assumed) — a relation
     or operator that needs operands has an edge; every edge leads to a type, a wildcard, or an accepted node
     whose weight map is not empty; an intersection keeps at least one type *)
  Definition needs_edges (k : rule_kind) : bool := match k with RNone => false | _ => true end.
  Definition is_nil {A} (l : list A) : bool := match l with [] => true | _ => false end.

  Fixpoint accepts (fuel : nat) (x : str) : bool :=
    match fuel with
    | O => false
    | S f =>
        let k := kind_of (n_type (node_of g0 x)) (n_label (node_of g0 x)) in
        let es := edges_from g0 x in
        (negb (needs_edges k) || negb (is_nil es)) &&
        forallb (fun e => is_terminal (n_type (node_of g0 (e_to e))) ||
                          (accepts f (e_to e) && negb (is_nil (gspec f (e_to e))))) es &&
        match k with REnforce => negb (is_nil (gspec (S f) x)) | _ => true end
    end.

  (* wildcard list of an edge: the public type of a wildcard target, nothing for a type, the target's list otherwise *)
  Definition edge_wild (rec : str -> list str) (sh : eshape_t) : list str :=
    let '(_, to, _) := sh in
    match n_type (node_of g0 to) with
    | NWildcard => [drop_last2 to]
    | NType => []
    | _ => rec to
    end.

  Fixpoint wild_spec (fuel : nat) (x : str) : list str :=
    match fuel with
    | O => []
    | S f => flat_map (fun e => edge_wild (wild_spec f) (eshape e)) (edges_from g0 x)
    end.

  (* T:* can be reached from x along edges, through relations and operators only *)
  Inductive reaches_wild : str -> str -> Prop :=
  | rw_here x e : In e (edges_from g0 x) -> n_type (node_of g0 (e_to e)) = NWildcard -> reaches_wild x (drop_last2 (e_to e))
  | rw_step x e T : In e (edges_from g0 x) -> is_terminal (n_type (node_of g0 (e_to e))) = false ->
                    reaches_wild (e_to e) T -> reaches_wild x T.
End G.

(* a rank function witnessing that the graph has no cycle, checked edge by edge *)
Definition ranked_by (g : wgraph) (rank : str -> nat) : Prop :=
  forall x e, In e (edges_from g x) -> e_from e = x /\ (rank (e_to e) < rank x)%nat.

(* the names under which terminal nodes enter weight maps are not tuple-cycle placeholders *)
Definition terminals_not_placeholders (g : wgraph) : Prop :=
  forall x e, In e (edges_from g x) -> is_terminal (n_type (node_of g (e_to e))) = true ->
              is_ref_key (term_label (n_type (node_of g (e_to e))) (e_to e)) = false.

(* nothing has a weight or a wildcard list yet (wildcard nodes name their own type from the start) *)
Definition unweighted (g : wgraph) : Prop :=
  (forall x, n_weights (node_of g x) = []) /\ (forall x e, In e (edges_from g x) -> e_weights e = []) /\
  (forall x, is_terminal (n_type (node_of g x)) = false -> n_wild (node_of g x) = []) /\
  (forall x e, In e (edges_from g x) -> e_wild e = []).

(* ---- the three hypotheses, decidable: a concrete graph is checked by evaluation ---- *)
Definition rank_fn (l : list (str * nat)) (x : str) : nat := match assoc x l with Some n => n | None => 0%nat end.

(* height of a node: one more than the highest target, unfolded [fuel] times *)
Fixpoint height (g : wgraph) (fuel : nat) (x : str) : nat :=
  match fuel with
  | O => 0%nat
  | S f => fold_left (fun h e => Nat.max h (S (height g f (e_to e)))) (edges_from g x) 0%nat
  end.
Definition heights (g : wgraph) : list (str * nat) :=
  map (fun n => (n_id n, height g (S (length (g_nodes g))) (n_id n))) (g_nodes g).

Definition check_ranked (g : wgraph) (l : list (str * nat)) : bool :=
  forallb (fun p : str * list wedge =>
             forallb (fun e => str_eqb (e_from e) (fst p) && (rank_fn l (e_to e) <? rank_fn l (fst p))%nat) (snd p))
          (g_edges g).
Definition check_terminals (g : wgraph) : bool :=
  forallb (fun p : str * list wedge =>
             forallb (fun e => let t := n_type (node_of g (e_to e)) in
                               negb (is_terminal t) || negb (is_ref_key (term_label t (e_to e)))) (snd p))
          (g_edges g).
Definition check_unweighted (g : wgraph) : bool :=
  forallb (fun n => match n_weights n with [] => true | _ => false end) (g_nodes g) &&
  forallb (fun p : str * list wedge => forallb (fun e => match e_weights e with [] => true | _ => false end) (snd p)) (g_edges g) &&
  forallb (fun n => is_terminal (n_type n) || match n_wild n with [] => true | _ => false end) (g_nodes g) &&
  forallb (fun p : str * list wedge => forallb (fun e => match e_wild e with [] => true | _ => false end) (snd p)) (g_edges g).

Definition dag_check (g : wgraph) : bool :=
  check_ranked g (heights g) && check_terminals g && check_unweighted g.

(* the specification with the rank computed from the graph itself *)
Definition spec_weights (g : wgraph) (x : str) : wmap := gspec g (S (rank_fn (heights g) x)) x.
Definition spec_accepts (g : wgraph) (x : str) : bool :=
  is_terminal (n_type (node_of g x)) || accepts g (S (rank_fn (heights g) x)) x.
(* the fuel AssignWeights gives itself (2 * #nodes + 2) covers every node: heights do not exceed #nodes *)
Definition fuel_check (g : wgraph) : bool :=
  forallb (fun p : str * nat => (snd p <=? length (g_nodes g))%nat) (heights g).
Definition spec_wildcards (g : wgraph) (x : str) : list str := wild_spec g (S (rank_fn (heights g) x)) x.

(* Spec/MergeSpec.v — module merge: (1) a sequential checker that mirrors the merge step by step and the state it
   reaches when nothing conflicts; (2) the order-free statement of "conflict-free" (C07, C12). *)
From Coq Require Import Permutation.
From Verif Require Import Base.Str Base.Outcome Model.Ast Model.Printer Model.Transform Model.LineNumbers Model.Merge.

(* ---- the module content of a file ---- *)
Definition module_of (f : mfile) : option (model * list (str * (nat * typedef))) :=
  match dsl_to_model (mf_text f) with
  | DOk m exts _ => if is_empty (m_schema m) then Some (m, exts) else None
  | _ => None
  end.

Definition is_ext (exts : list (str * (nat * typedef))) (i : nat) (td : typedef) : bool :=
  match assoc (td_name td) exts with Some (j, _) => (j =? i)%nat | None => false end.

(* type entries of a file that are definitions / extensions, in order *)
Fixpoint ct_defs (exts : list (str * (nat * typedef))) (tds : list typedef) (i : nat) : list typedef :=
  match tds with
  | [] => []
  | td :: r => if is_ext exts i td then ct_defs exts r (S i) else td :: ct_defs exts r (S i)
  end.
Fixpoint ct_exts (exts : list (str * (nat * typedef))) (tds : list typedef) (i : nat) : list typedef :=
  match tds with
  | [] => []
  | td :: r => if is_ext exts i td then td :: ct_exts exts r (S i) else ct_exts exts r (S i)
  end.

Definition file_defs (f : mfile) : list typedef :=
  match module_of f with Some (m, exts) => ct_defs exts (m_types m) 0 | None => [] end.
Definition file_exts (f : mfile) : list typedef :=
  match module_of f with Some (m, exts) => ct_exts exts (m_types m) 0 | None => [] end.
Definition file_conds (f : mfile) : list (str * condition) :=
  match module_of f with Some (m, _) => stable_sort pair_cmp (m_conds m) | None => [] end.

(* ---- (1) the sequential checker ---- *)
Fixpoint defs_ok (types : list str) (defs : list typedef) : bool :=
  match defs with
  | [] => true
  | td :: r =>
      negb (mem_str (td_name td) types) &&
      match td_meta td with Some _ => true | None => false end &&
      defs_ok (types ++ [td_name td]) r
  end.

Fixpoint conds_ok (seen : list str) (cs : list (str * condition)) : bool :=
  match cs with
  | [] => true
  | (n, c) :: r =>
      negb (mem_str n seen) && match c_meta c with Some _ => true | None => false end && conds_ok (seen ++ [n]) r
  end.

Fixpoint files_ok (fs : list mfile) (types conds : list str) : bool :=
  match fs with
  | [] => true
  | f :: r =>
      match module_of f with
      | None => false
      | Some _ =>
          defs_ok types (file_defs f) && conds_ok conds (file_conds f) &&
          files_ok r (types ++ map td_name (file_defs f)) (conds ++ keys (file_conds f))
      end
  end.

(* what the collection phase leaves behind when nothing conflicts *)
Definition attributed (file : str) (td : typedef) : typedef :=
  match td_meta td with Some md => set_type_file td md file | None => td end.
Definition attributed_cond (file : str) (p : str * condition) : str * condition :=
  (fst p, {| c_name := c_name (snd p); c_expr := c_expr (snd p); c_params := c_params (snd p);
             c_meta := match c_meta (snd p) with
                       | Some md => Some {| cm_module := cm_module md; cm_file := Some file |}
                       | None => None
                       end |}).

Definition all_defs (fs : list mfile) : list typedef := flat_map (fun f => map (attributed (mf_name f)) (file_defs f)) fs.
Definition all_conds (fs : list mfile) : list (str * condition) :=
  flat_map (fun f => map (attributed_cond (mf_name f)) (file_conds f)) fs.
(* the extensions, grouped by file, files in the order of the list (files without extension absent) *)
Definition all_exts (fs : list mfile) : list (str * list typedef) :=
  flat_map (fun f => match file_exts f with [] => [] | l => [(mf_name f, l)] end) fs.

(* ---- (2) conflict-free, stated without any order ---- *)
Definition defs_of (fs : list mfile) : list typedef := flat_map file_defs fs.
Definition exts_of (fs : list mfile) : list typedef := flat_map file_exts fs.
Definition conds_of (fs : list mfile) : list (str * condition) := flat_map file_conds fs.

(* the relation names one type ends up with: its own and those of every extension of it *)
Definition contributed_in (ds es : list typedef) (T : str) : list str :=
  flat_map (fun td => keys (td_rels td)) (filter (fun td => str_eqb (td_name td) T) ds) ++
  flat_map (fun td => keys (td_rels td)) (filter (fun td => str_eqb (td_name td) T) es).
Definition contributed (fs : list mfile) (T : str) : list str := contributed_in (defs_of fs) (exts_of fs) T.

Record conflict_free (fs : list mfile) : Prop := {
  cf_modules : Forall (fun f => module_of f <> None) fs;                       (* every file parses as a module *)
  cf_types : NoDup (map td_name (defs_of fs));                                 (* no type defined twice *)
  cf_conds : NoDup (keys (conds_of fs));                                       (* no condition defined twice *)
  cf_targets : forall td, In td (exts_of fs) -> In (td_name td) (map td_name (defs_of fs));   (* extensions have targets *)
  cf_relations : forall T, NoDup (contributed fs T) }.                         (* no relation contributed twice *)

(* what the listener guarantees for module files (nil metadata is never produced there) *)
Record wf_modules (fs : list mfile) : Prop := {
  wf_names : NoDup (map mf_name fs);
  wf_def_meta : Forall (fun td => td_meta td <> None) (defs_of fs);
  wf_cond_meta : Forall (fun p : str * condition => c_meta (snd p) <> None) (conds_of fs);
  wf_ext_meta : Forall (fun td => forall n, In n (keys (td_rels td)) ->
                                  assoc n (td_meta_rels td) <> None /\ assoc n (td_rels td) <> None) (exts_of fs);
  wf_rel_keys : Forall (fun td => NoDup (keys (td_rels td))) (defs_of fs ++ exts_of fs) }.

(* ---- the two statements, decidable (evaluated on every generated module set) ---- *)
Fixpoint nodupb (l : list str) : bool :=
  match l with [] => true | x :: r => negb (mem_str x r) && nodupb r end.

(* each file is parsed once: the parsed modules are shared *)
Definition parsed_t := option (model * list (str * (nat * typedef))).
Definition pdefs (p : parsed_t) : list typedef := match p with Some (m, exts) => ct_defs exts (m_types m) 0 | None => [] end.
Definition pexts (p : parsed_t) : list typedef := match p with Some (m, exts) => ct_exts exts (m_types m) 0 | None => [] end.
Definition pconds (p : parsed_t) : list (str * condition) := match p with Some (m, _) => stable_sort pair_cmp (m_conds m) | None => [] end.

Definition conflict_freeb (fs : list mfile) : bool :=
  let ps := map module_of fs in
  let ds := flat_map pdefs ps in let es := flat_map pexts ps in let cs := flat_map pconds ps in
  forallb (fun p : parsed_t => match p with Some _ => true | None => false end) ps &&
  nodupb (map td_name ds) &&
  nodupb (keys cs) &&
  forallb (fun td => mem_str (td_name td) (map td_name ds)) es &&
  forallb (fun T => nodupb (contributed_in ds es T)) (map td_name (ds ++ es)).

Definition wf_modulesb (fs : list mfile) : bool :=
  let ps := map module_of fs in
  let ds := flat_map pdefs ps in let es := flat_map pexts ps in let cs := flat_map pconds ps in
  nodupb (map mf_name fs) &&
  forallb (fun td => match td_meta td with Some _ => true | None => false end) ds &&
  forallb (fun p : str * condition => match c_meta (snd p) with Some _ => true | None => false end) cs &&
  forallb (fun td => forallb (fun n => match assoc n (td_meta_rels td), assoc n (td_rels td) with
                                       | Some _, Some _ => true | _, _ => false end) (keys (td_rels td))) es &&
  forallb (fun td => nodupb (keys (td_rels td))) (ds ++ es).

Lemma flat_map_map {A B C} (f : A -> B) (g : B -> list C) l : flat_map g (map f l) = flat_map (fun x => g (f x)) l.
Proof. induction l as [|x l IH]; simpl; [reflexivity|]. rewrite IH. reflexivity. Qed.
Lemma parsed_defs fs : flat_map pdefs (map module_of fs) = defs_of fs.
Proof. rewrite flat_map_map. reflexivity. Qed.
Lemma parsed_exts fs : flat_map pexts (map module_of fs) = exts_of fs.
Proof. rewrite flat_map_map. reflexivity. Qed.
Lemma parsed_conds fs : flat_map pconds (map module_of fs) = conds_of fs.
Proof. rewrite flat_map_map. reflexivity. Qed.

(* Spec/Expressible.v — "DSL-expressible" stated without the printer's validator counter: every
   relation has at most one direct assignment and it can be placed first (first operand of its
   union/intersection after hoisting, base of its exclusion, recursively from the root). *)
From Verif Require Import Base.Str Model.Ast.

Definition is_direct (u : userset) : bool := match u with UThis ThisEmpty => true | _ => false end.

Fixpoint count_direct (u : userset) : nat :=
  match u with
  | UThis ThisEmpty => 1%nat
  | UUnion cs | UInter cs => fold_right (fun c n => (count_direct c + n)%nat) 0%nat cs
  | UDiff b s => (count_direct b + count_direct s)%nat
  | _ => 0%nat
  end.

(* can the (single) direct assignment be written first? *)
Fixpoint first_pos (u : userset) : bool :=
  match u with
  | UThis ThisEmpty => true
  | UDiff b _ => first_pos b
  | UUnion cs | UInter cs =>
      existsb is_direct cs || match cs with c :: _ => first_pos c | [] => false end
  | _ => false
  end.

Definition expressible (u : userset) : bool :=
  (count_direct u =? 0)%nat || ((count_direct u =? 1)%nat && first_pos u).

(* what a DSL document can carry at all: every operator has an operand, nothing is unset, a direct
   assignment is a non-nil message *)
Fixpoint carriable (u : userset) : bool :=
  match u with
  | UUnset | UThis ThisNil => false
  | UUnion cs | UInter cs => match cs with [] => false | _ => forallb carriable cs end
  | UDiff b s => carriable b && carriable s
  | _ => true
  end.

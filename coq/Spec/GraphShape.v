(* Spec/GraphShape.v — the edges the rewrite of one relation dictates in the weighted graph (C10), computed on edge
   LISTS only: no graph, no node table, no other relation.  [shape] returns, for a rewrite below a parent node,
   the parent's new list of outgoing edges, the operator nodes the rewrite creates (each with its complete list of
   outgoing edges, operands in source order) and the next operator number.  Proofs/BuilderShape.v shows that the
   builder files exactly these lists under the parent and under the operator nodes and touches no other list. *)
From Verif Require Import Base.Str Base.Outcome Model.Ast Model.Printer Model.WGraph.

Definition mk_edge (from to : str) (t : etype) (ts cond : str) : wedge :=
  {| e_from := from; e_to := to; e_type := t; e_tupleset := ts; e_conds := [cond]; e_weights := []; e_wild := [] |}.

(* upsertEdge on one list: an edge with the same target, kind and tupleset label takes the condition (once), else a
   new edge is appended; "" is written "none" *)
Definition l_upsert (l : list wedge) (from to : str) (t : etype) (ts cond : str) : list wedge :=
  let cond := if is_empty cond then no_cond else cond in
  match upsert_in l to t ts cond with
  | Some l' => l'
  | None => l ++ [mk_edge from to t ts cond]
  end.

(* the node a type restriction points to *)
Definition ref_id (r : relation_ref) : str :=
  match rr_kind r with
  | RPlain => rr_type r
  | RWild => rr_type r ++ lit ":*"
  | RRel x => rr_type r ++ lit "#" ++ x
  end.

(* a direct assignment: one direct edge per distinct target, carrying the conditions in first-occurrence order *)
Definition l_this (from : str) (refs : list relation_ref) (l : list wedge) : list wedge :=
  fold_left (fun l r => l_upsert l from (ref_id r) EDirect [] (rr_cond r)) refs l.

(* a tuple-to-userset: one edge per parent type of the tupleset, labelled "type#tupleset" *)
Definition l_ttu (from label computed : str) (refs : list relation_ref) (l : list wedge) : list wedge :=
  fold_left (fun l r =>
               let id := rr_type r ++ lit "#" ++ computed in
               if existsb (fun e => same_edge e id ETTU label) l then l
               else l_upsert l from id ETTU label (rr_cond r))
            refs l.

Section Shape.
  Variable ty : str -> ntype.          (* the kind of the node with a given id *)
  Variable td : typedef.
  Variable rel : str.

  Definition computed_kind (pid target : str) : etype :=
    if ntype_eqb (ty pid) NTypeRel && ntype_eqb (ty target) NTypeRel then EComputed else ERewrite.

  Definition op_id (op : str) (k : N) : str := op ++ lit ":" ++ str_of_N k.

  Fixpoint shape (k : N) (pid : str) (u : userset) (l : list wedge)
    : list wedge * list (str * list wedge) * N :=
    let children := fix children (k : N) (oid : str) (cs : list userset) (ol : list wedge)
                        (created : list (str * list wedge)) : list wedge * list (str * list wedge) * N :=
      match cs with
      | [] => (ol, created, k)
      | c :: r => let '(ol', cr, k') := shape k oid c ol in children k' oid r ol' (created ++ cr)
      end in
    let operator (op : str) (cs : list userset) :=
      let oid := op_id op k in
      let '(ol, created, k') := children (k + 1) oid cs [] [] in
      (l ++ [mk_edge pid oid ERewrite [] no_cond], (oid, ol) :: created, k') in
    match u with
    | UThis _ => (l_this pid (rm_types_of (assoc rel (td_meta_rels td))) l, [], k)
    | UComputed r =>
        let target := td_name td ++ lit "#" ++ r in
        (l ++ [mk_edge pid target (computed_kind pid target) [] no_cond], [], k)
    | UTTU ts cu =>
        (l_ttu pid (td_name td ++ lit "#" ++ ts) cu (rm_types_of (assoc ts (td_meta_rels td))) l, [], k)
    | UUnion cs => operator (lit "union") cs
    | UInter cs => operator (lit "intersection") cs
    | UDiff b s => operator (lit "exclusion") [b; s]
    | UUnset => operator [] []
    end.
End Shape.

(* ---- the names a model asks nodes for, other than operator nodes ---- *)
Fixpoint rewrite_targets (td : typedef) (u : userset) : list str :=
  match u with
  | UThis _ => []
  | UComputed r => [td_name td ++ lit "#" ++ r]
  | UTTU ts cu => map (fun r => rr_type r ++ lit "#" ++ cu) (rm_types_of (assoc ts (td_meta_rels td)))
  | UUnion cs | UInter cs => flat_map (rewrite_targets td) cs
  | UDiff b s => rewrite_targets td b ++ rewrite_targets td s
  | UUnset => []
  end.

Definition rel_ids (m : model) : list str :=
  flat_map (fun td => map (fun r => td_name td ++ lit "#" ++ r) (keys (td_rels td))) (m_types m).

Definition named_ids (m : model) : list str :=
  map td_name (m_types m) ++ rel_ids m ++
  flat_map (fun td => flat_map (fun p => map ref_id (rm_types (snd p))) (td_meta_rels td)) (m_types m) ++
  flat_map (fun td => flat_map (fun p => rewrite_targets td (snd p)) (td_rels td)) (m_types m).

(* an id of the form "<operator>:<decimal number>" *)
Definition op_names : list str := [lit "union"; lit "intersection"; lit "exclusion"; []].
Fixpoint strip_prefix (p s : str) : option str :=
  match p, s with
  | [], _ => Some s
  | a :: p', b :: s' => if N.eqb a b then strip_prefix p' s' else None
  | _ :: _, [] => None
  end.
Definition dec_value (s : str) : N := fold_left (fun a d => 10 * a + (d - 48)) s 0.
Definition is_op_id (id : str) : bool :=
  existsb (fun op => match strip_prefix (op ++ lit ":") id with
                     | Some rest => str_eqb (str_of_N (dec_value rest)) rest
                     | None => false
                     end) op_names.

Fixpoint nodupb_str (l : list str) : bool :=
  match l with [] => true | x :: r => negb (mem_str x r) && nodupb_str r end.

(* the domain of the structure theorem: no relation is declared twice (as "type#relation"), and nothing the model
   names could be mistaken for an operator node *)
Definition shape_domain (m : model) : bool :=
  nodupb_str (rel_ids m) && forallb (fun id => negb (is_op_id id)) (named_ids m).

(* ---- which models the builder takes at all: every tuple-to-userset names a tupleset with type restrictions all of
        whose parent types define the computed relation (Proofs/BuilderValid.v) ---- *)
Definition ttu_valid (m : model) (td : typedef) (ts cu : str) : bool :=
  match assoc ts (td_meta_rels td) with
  | None => false
  | Some rm =>
      match rm_types rm with
      | [] => false
      | refs => forallb (fun r => type_and_relation_exists m (rr_type r) cu) refs
      end
  end.

Fixpoint rewrite_valid (m : model) (td : typedef) (u : userset) : bool :=
  match u with
  | UTTU ts cu => ttu_valid m td ts cu
  | UUnion cs | UInter cs => forallb (rewrite_valid m td) cs
  | UDiff b s => rewrite_valid m td b && rewrite_valid m td s
  | _ => true
  end.

Definition type_valid (m : model) (td : typedef) : bool :=
  forallb (fun r => rewrite_valid m td (match assoc r (td_rels td) with Some u => u | None => UUnset end)) (keys (td_rels td)).
Definition model_valid (m : model) : bool := forallb (type_valid m) (m_types m).


(* Spec/Sem.v — the direct denotation of a parse tree: what the DSL text says, independently of the
   listener's rewrite stack.  A relation definition denotes `combine op (first :: rest)`, a
   parenthesised group denotes its content, a direct assignment denotes `this` with the restrictions
   in declaration order. *)
From Verif Require Import Base.Str Model.Ast Model.Token Model.Parser Model.Listener.

Definition combine (op : opk) (xs : list userset) : userset :=
  match xs with
  | [x] => x
  | b :: s :: _ =>
      match op with
      | OOr => UUnion xs
      | OAnd => UInter xs
      | OButNot => UDiff b s
      | ONone => UUnset
      end
  | [] => UUnset
  end.

Fixpoint sem_elem (e : relem) : userset :=
  match e with
  | EDirect _ => UThis ThisEmpty
  | ERewrite cu None => UComputed (ttext cu)
  | ERewrite cu (Some t) => UTTU (ttext t) (ttext cu)
  | EGroup _ first op rest => combine op (sem_elem first :: map sem_elem rest)
  end.

Definition sem_rdef (d : rdef) : userset := combine (rd_op d) (sem_elem (rd_first d) :: map sem_elem (rd_rest d)).

(* the restrictions written in a definition: those of its (unique, leading) direct assignment *)
Fixpoint restrictions_elem (e : relem) : option (list relation_ref) :=
  match e with
  | EDirect rs => Some (map ref_of_restr rs)
  | ERewrite _ _ => None
  | EGroup _ first _ _ => restrictions_elem first
  end.

(* ---- grammatical trees: what the grammar can produce ---- *)
Definition partials_ok (op : opk) (rest : list relem) : bool :=
  match op, rest with
  | ONone, [] => true
  | OOr, _ :: _ | OAnd, _ :: _ => true
  | OButNot, [_] => true
  | _, _ => false
  end.

(* an operand that is not in leading position: relationDefGrouping | relationRecurseNoDirect *)
Fixpoint wf_operand (e : relem) : bool :=
  match e with
  | ERewrite _ _ => true
  | EGroup true first op rest => wf_operand first && partials_ok op rest && forallb wf_operand rest
  | _ => false
  end.

(* the leading operand of a relationDef: direct assignment | rewrite | relationRecurse (a relationDef) *)
Fixpoint wf_leading (e : relem) : bool :=
  match e with
  | EDirect _ | ERewrite _ _ => true
  | EGroup false first op rest => wf_leading first && partials_ok op rest && forallb wf_operand rest
  | EGroup true _ _ _ => false
  end.

Definition wf_rdef (d : rdef) : bool :=
  wf_leading (rd_first d) && partials_ok (rd_op d) (rd_rest d) && forallb wf_operand (rd_rest d).

(* ---- whole documents ---- *)
Definition header_modular (h : header) : bool := match h with HModule _ => true | HModel _ => false end.
Definition header_module (h : header) : str := match h with HModule n => ttext n | HModel _ => [] end.
Definition header_schema (h : header) : str := match h with HModel v => ttext v | HModule _ => [] end.

Definition sem_relmeta (modular ext : bool) (module_ : str) (r : reldecl) : rel_meta :=
  {| rm_types := match restrictions_elem (rd_first (rl_def r)) with Some x => x | None => [] end;
     rm_module := if modular && ext then module_ else [];
     rm_file := None |}.

Definition sem_type (modular : bool) (module_ : str) (t : typedecl) : typedef :=
  let rels := map (fun r => (ttext (rl_name r), sem_rdef (rl_def r))) (ty_rels t) in
  let meta := map (fun r => (ttext (rl_name r), sem_relmeta modular (ty_extend t) module_ r)) (ty_rels t) in
  {| td_name := ttext (ty_name t); td_rels := rels;
     td_meta := if modular then Some {| tm_rels := meta; tm_module := module_; tm_file := None |}
                else match meta with
                     | [] => None
                     | _ => Some {| tm_rels := meta; tm_module := []; tm_file := None |}
                     end |}.

Definition sem_cond (modular : bool) (module_ : str) (c : conddecl) : str * condition :=
  (ttext (cd_name c),
   {| c_name := ttext (cd_name c); c_expr := expr_text (cd_expr c);
      c_params := map (fun p => (ttext (pd_name p), ptype_of p)) (cd_params c);
      c_meta := if modular then Some {| cm_module := module_; cm_file := None |} else None |}).

Definition sem_file (f : file) : model :=
  let modular := header_modular (f_header f) in
  let module_ := header_module (f_header f) in
  {| m_schema := header_schema (f_header f);
     m_types := map (sem_type modular module_) (f_types f);
     m_conds := map (sem_cond modular module_) (f_conds f) |}.

(* every relation definition is grammatical *)
Definition wf_file (f : file) : Prop :=
  Forall (fun t => Forall (fun r => wf_rdef (rl_def r) = true) (ty_rels t)) (f_types f).

(* nothing is declared twice, `extend` only in module files and once per type *)
Definition distinct_decls (f : file) : Prop :=
  Forall (fun t => NoDup (map (fun r => ttext (rl_name r)) (ty_rels t))) (f_types f) /\
  NoDup (map (fun c => ttext (cd_name c)) (f_conds f)) /\
  Forall (fun c => NoDup (map (fun p => ttext (pd_name p)) (cd_params c))) (f_conds f) /\
  (header_modular (f_header f) = false -> Forall (fun t => ty_extend t = false) (f_types f)) /\
  NoDup (map (fun t => ttext (ty_name t)) (filter ty_extend (f_types f))) /\
  Forall (fun t => ttext (ty_name t) <> []) (f_types f).

(* Spec/DocDomain.v — the domain and the right-hand side of the document-level round trip (C01, C02), as COMPUTABLE
   definitions, so that the extracted model can evaluate them on every generated model and the checks can compare what the
   theorem promises with what the implementation does (wire op 208): [model_okb m] decides whether the theorem
   Proofs/DocRoundTrip.document_round_trip applies to m, [canonical m] is the model it says comes back. *)
From Verif Require Import Base.Str Model.Ast Gen.Keywords Model.Lexer Model.Printer Spec.Expressible Spec.Normalize.

(* ---- names the lexer returns as one IDENTIFIER token ---- *)
Definition all_literal_spellings : list str := map snd (kw_default_before_schema_version ++ kw_default_after_schema_version).

(* a plain identifier that no literal rule claims *)
Definition plain_name (s : str) : bool :=
  match s with c :: r => is_id_start c && forallb is_id_char r | [] => false end &&
  negb (existsb (str_eqb s) all_literal_spellings) && negb (str_eqb s (lit "but")).

Definition plain_refb (r : relation_ref) : bool :=
  plain_name (rr_type r) && (match rr_kind r with RRel x => plain_name x | _ => true end) &&
  (is_empty (rr_cond r) || plain_name (rr_cond r)).

Fixpoint plain_ub (u : userset) : bool :=
  let all := fix all (cs : list userset) : bool := match cs with [] => true | c :: r => plain_ub c && all r end in
  match u with
  | UComputed r => plain_name r
  | UTTU t c => plain_name t && plain_name c
  | UUnion cs | UInter cs => all cs
  | UDiff b s => plain_ub b && plain_ub s
  | _ => true
  end.

(* the schema versions in use *)
Definition std_version (v : str) : bool := str_eqb v (lit "1.0") || str_eqb v (lit "1.1") || str_eqb v (lit "1.2").

(* ---- readings of a type definition ---- *)
Definition u_of (td : typedef) (n : str) : userset := match assoc n (td_rels td) with Some u => u | None => UUnset end.
Definition refs_of (td : typedef) (n : str) : list relation_ref := rm_types_of (assoc n (td_meta_rels td)).
Definition sorted_names (td : typedef) : list str := stable_sort str_compare (keys (td_rels td)).

Fixpoint nodup_strb (l : list str) : bool :=
  match l with [] => true | x :: r => negb (existsb (str_eqb x) r) && nodup_strb r end.

(* ---- the domain ---- *)
Definition rel_okb (td : typedef) (n : str) : bool :=
  plain_name n && carriable (u_of td n) && expressible (u_of td n) && plain_ub (u_of td n) &&
  ((count_direct (u_of td n) =? 0)%nat || negb (match refs_of td n with [] => true | _ => false end)) &&
  forallb plain_refb (refs_of td n).
Definition td_okb (td : typedef) : bool :=
  plain_name (td_name td) && nodup_strb (keys (td_rels td)) && forallb (rel_okb td) (keys (td_rels td)).
Definition model_okb (m : model) : bool :=
  std_version (m_schema m) && (match m_conds m with [] => true | _ => false end) && negb (is_modular_model m) &&
  forallb td_okb (m_types m).

(* ---- what comes back ---- *)
Definition canon_meta (td : typedef) (n : str) : rel_meta :=
  {| rm_types := if (count_direct (u_of td n) =? 0)%nat then [] else refs_of td n; rm_module := []; rm_file := None |}.
Definition canon_td (td : typedef) : typedef :=
  {| td_name := td_name td;
     td_rels := map (fun n => (n, normalize (u_of td n))) (sorted_names td);
     td_meta := match sorted_names td with
                | [] => None
                | ns => Some {| tm_rels := map (fun n => (n, canon_meta td n)) ns; tm_module := []; tm_file := None |}
                end |}.
Definition canonical (m : model) : model :=
  {| m_schema := m_schema m; m_types := map canon_td (m_types m); m_conds := [] |}.

(* Base/Sx.v — the wire format between the orchestrator and the extracted model:
   S-expressions whose atoms are natural numbers.  Encoders/decoders for the basic shapes. *)
From Verif Require Import Base.Str.

Inductive sx := SA (n : N) | SL (l : list sx).

Definition sx_str (s : str) : sx := SL (map SA s).
Definition sx_bool (b : bool) : sx := SA (if b then 1 else 0).
Definition sx_nat (n : nat) : sx := SA (N.of_nat n).
Definition sx_list {A} (f : A -> sx) (l : list A) : sx := SL (map f l).
Definition sx_opt {A} (f : A -> sx) (o : option A) : sx :=
  match o with None => SL [] | Some x => SL [f x] end.
Definition sx_pair {A B} (f : A -> sx) (g : B -> sx) (p : A * B) : sx := SL [f (fst p); g (snd p)].

Definition un_atom (x : sx) : option N := match x with SA n => Some n | _ => None end.
Definition un_list (x : sx) : option (list sx) := match x with SL l => Some l | _ => None end.

Fixpoint all_some {A} (l : list (option A)) : option (list A) :=
  match l with
  | [] => Some []
  | Some x :: r => match all_some r with Some r' => Some (x :: r') | None => None end
  | None :: _ => None
  end.

Definition un_str (x : sx) : option str :=
  match x with SL l => all_some (map un_atom l) | _ => None end.
Definition un_bool (x : sx) : option bool :=
  match x with SA n => Some (negb (n =? 0)) | _ => None end.
Definition un_nat (x : sx) : option nat :=
  match x with SA n => Some (N.to_nat n) | _ => None end.
Definition un_listof {A} (f : sx -> option A) (x : sx) : option (list A) :=
  match x with SL l => all_some (map f l) | _ => None end.
Definition un_opt {A} (f : sx -> option A) (x : sx) : option (option A) :=
  match x with
  | SL [] => Some None
  | SL [y] => match f y with Some v => Some (Some v) | None => None end
  | _ => None
  end.

(* error marker returned when a request cannot be decoded: (999 <msg>) *)
Definition sx_bad (msg : str) : sx := SL [SA 999; sx_str msg].

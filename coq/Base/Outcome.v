(* Base/Outcome.v — results of modelled Go functions: a value, an error value, or a panic. *)
From Verif Require Import Base.Str.

Inductive outcome (A E : Type) :=
| Ok (a : A)
| Err (e : E)
| Panic (why : str).
Arguments Ok {A E} a.
Arguments Err {A E} e.
Arguments Panic {A E} why.

Definition is_ok {A E} (o : outcome A E) : bool := match o with Ok _ => true | _ => false end.
Definition is_panic {A E} (o : outcome A E) : bool := match o with Panic _ => true | _ => false end.

Definition obind {A B E} (o : outcome A E) (f : A -> outcome B E) : outcome B E :=
  match o with Ok a => f a | Err e => Err e | Panic w => Panic w end.

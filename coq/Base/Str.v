(* Base/Str.v — strings as lists of code points, with the Go string functions the models use.
   No proofs here except trivial reflection lemmas; see Proofs/StrFacts.v. *)
From Coq Require Export List NArith Bool Arith Lia.
Export ListNotations.
Open Scope N_scope.

Definition str := list N.

Fixpoint str_eqb (a b : str) : bool :=
  match a, b with
  | [], [] => true
  | x :: a', y :: b' => N.eqb x y && str_eqb a' b'
  | _, _ => false
  end.

Lemma str_eqb_spec a b : reflect (a = b) (str_eqb a b).
Proof.
  revert b; induction a as [|x a IH]; intros [|y b]; simpl; try (constructor; congruence).
  destruct (N.eqb_spec x y) as [->|Hn]; simpl.
  - destruct (IH b) as [->|Hn]; constructor; congruence.
  - constructor; congruence.
Qed.

Lemma str_eqb_eq a b : str_eqb a b = true <-> a = b.
Proof. destruct (str_eqb_spec a b); split; congruence. Qed.

Lemma str_eqb_refl a : str_eqb a a = true.
Proof. apply str_eqb_eq; reflexivity. Qed.

(* Go's string comparison: bytewise on UTF-8 = code point order on valid UTF-8. *)
Fixpoint str_compare (a b : str) : comparison :=
  match a, b with
  | [], [] => Eq
  | [], _ :: _ => Lt
  | _ :: _, [] => Gt
  | x :: a', y :: b' =>
      match N.compare x y with
      | Eq => str_compare a' b'
      | c => c
      end
  end.

Definition str_ltb (a b : str) : bool :=
  match str_compare a b with Lt => true | _ => false end.
Definition str_leb (a b : str) : bool :=
  match str_compare a b with Gt => false | _ => true end.

Fixpoint is_prefix (p s : str) : bool :=
  match p, s with
  | [], _ => true
  | x :: p', y :: s' => N.eqb x y && is_prefix p' s'
  | _ :: _, [] => false
  end.

Definition is_suffix (p s : str) : bool := is_prefix (rev p) (rev s).

(* strings.Contains / strings.Index (index in code points; callers that need bytes use utf8_len) *)
Fixpoint contains (sub s : str) : bool :=
  is_prefix sub s || match s with [] => false | _ :: s' => contains sub s' end.

Fixpoint index_from (sub s : str) (i : nat) : option nat :=
  if is_prefix sub s then Some i
  else match s with [] => None | _ :: s' => index_from sub s' (S i) end.
Definition index (sub s : str) : option nat := index_from sub s 0.

(* strings.Split(s, sep) for a one-character separator *)
Fixpoint split_on_aux (c : N) (s : str) (cur : str) : list str :=
  match s with
  | [] => [rev cur]
  | x :: s' => if N.eqb x c then rev cur :: split_on_aux c s' [] else split_on_aux c s' (x :: cur)
  end.
Definition split_on (c : N) (s : str) : list str := split_on_aux c s [].

Fixpoint join (sep : str) (l : list str) : str :=
  match l with
  | [] => []
  | [x] => x
  | x :: l' => x ++ sep ++ join sep l'
  end.

Fixpoint trim_left (p : N -> bool) (s : str) : str :=
  match s with
  | x :: s' => if p x then trim_left p s' else s
  | [] => []
  end.
Definition trim_right (p : N -> bool) (s : str) : str := rev (trim_left p (rev s)).

(* strings.ReplaceAll for one character by one character *)
Definition replace_char (a b : N) (s : str) : str := map (fun c => if N.eqb c a then b else c) s.

Fixpoint count_char (c : N) (s : str) : nat :=
  match s with [] => 0%nat | x :: s' => ((if N.eqb x c then 1 else 0) + count_char c s')%nat end.

(* number of UTF-8 bytes of a code point (valid scalar values) *)
Definition utf8_width (c : N) : nat :=
  if c <? 128 then 1%nat else if c <? 2048 then 2%nat else if c <? 65536 then 3%nat else 4%nat.
Definition utf8_len (s : str) : nat := fold_right (fun c n => (utf8_width c + n)%nat) 0%nat s.

(* decimal rendering of a nat / N (fmt %d) *)
Fixpoint digits_fuel (fuel : nat) (n : N) (acc : str) : str :=
  match fuel with
  | O => acc
  | S f => let d := 48 + (n mod 10) in
           let q := n / 10 in
           if q =? 0 then d :: acc else digits_fuel f q (d :: acc)
  end.
Definition str_of_N (n : N) : str := digits_fuel (S (N.to_nat (N.log2 n))) n [].

(* ASCII helpers *)
Definition is_lower (c : N) := (97 <=? c) && (c <=? 122).
Definition is_upper (c : N) := (65 <=? c) && (c <=? 90).
Definition is_letter (c : N) := is_lower c || is_upper c.
Definition is_digit (c : N) := (48 <=? c) && (c <=? 57).
Definition to_lower (c : N) := if is_upper c then c + 32 else c.
Definition to_upper (c : N) := if is_lower c then c - 32 else c.

Definition ch_space : N := 32.
Definition ch_nl : N := 10.
Definition ch_cr : N := 13.
Definition ch_tab : N := 9.
Definition ch_ff : N := 12.

(* string literals: [lit "abc"] (String is required but not imported, so none of its names
   such as length/index/append shadow List's) *)
From Coq Require String Ascii.
Declare Scope lit_scope.
Delimit Scope lit_scope with lit.
String Notation String.string String.string_of_list_byte String.list_byte_of_string : lit_scope.
Fixpoint lit (x : String.string) : str :=
  match x with
  | String.EmptyString => []
  | String.String a r => Ascii.N_of_ascii a :: lit r
  end.
Arguments lit x%lit_scope.

(* Properties/C10.v — weighted graph.  Statements only. *)
From Verif Require Import Base.Str Base.Outcome Model.Ast Model.WGraph Model.WWeights.

Theorem C10_empty_model : forall s, build_weighted None {| m_schema := s; m_types := []; m_conds := [] |} = Ok empty_graph.
Proof. reflexivity. Qed.

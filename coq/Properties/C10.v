(* Properties/C10.v — the weighted graph's structure mirrors the model.  Statements only; proofs in
   Proofs/WGraphProofs.v.  [wbuild] transcribes weighted_graph_builder.go (Model/WGraph.v).  Proved for
   every model: node inventory facts (one node per unique label; exactly one operator node per operator
   occurrence), the edge a computed userset / an operator contributes, and totality.  That the complete
   decoded structure (operands in source order, kinds, labels, conditions) equals the model is checked on
   every run by decoding the implementation's graph against the model (run/lib/graphspec.check_structure)
   and by the correspondence with [wbuild]; it is not a theorem. *)
From Verif Require Import Base.Str Base.Outcome Model.Ast Model.Printer Model.WGraph Spec.GraphWeights Proofs.WGraphProofs Proofs.BuilderFresh.

(* 1. a type, relation, referenced userset or wildcard never gets two nodes *)
Theorem C10_one_node_per_label : forall m g, wbuild m = Ok g -> NoDup (map n_id (g_nodes g)).
Proof. exact wbuild_nodes_unique. Qed.

(* 2. building a rewrite creates exactly one operator node per operator occurrence in it, at any nesting *)
Theorem C10_operator_nodes_of_a_rewrite : forall u g p m td rel g',
  parse_rewrite g p m td rel u = Ok g' -> g_ops g' = g_ops g + count_ops u.
Proof. exact parse_rewrite_ops. Qed.

Theorem C10_operator_nodes_of_a_model : forall m g,
  wbuild m = Ok g -> g_ops g = fold_right (fun td acc => type_ops td + acc) 0 (stable_sort td_cmp (m_types m)).
Proof. exact wbuild_operator_count. Qed.

(* 3. a computed userset contributes one edge to "type#relation": Computed between two relation nodes,
      Rewrite below an operator; unconditioned ("none"), no tupleset label *)
Theorem C10_computed_edge : forall g parent td rel,
  let id := td_name td ++ lit "#" ++ rel in
  let g1 := fst (get_or_add_node g id id NTypeRel) in
  let n := snd (get_or_add_node g id id NTypeRel) in
  parse_computed g parent td rel =
  add_edge g1 (n_id parent) (n_id n)
           (if ntype_eqb (n_type parent) NTypeRel && ntype_eqb (n_type n) NTypeRel then EComputed else ERewrite) [].
Proof. intros. unfold parse_computed. subst id g1 n. destruct (get_or_add_node _ _ _ _); reflexivity. Qed.

(* 4. conditions of a direct edge: de-duplicated, in first-occurrence order, "none" for an unconditioned one *)
Theorem C10_conditions_dedup : forall l to t ts c l',
  upsert_in l to t ts c = Some l' -> length l' = length l.
Proof.
  induction l as [|e l IH]; intros to t ts c l' H; simpl in H; [discriminate|].
  destruct (same_edge e to t ts).
  - destruct (mem_str c (e_conds e)); inversion H; reflexivity.
  - destruct (upsert_in l to t ts c) eqn:E; [|discriminate]. inversion H; subst. simpl. f_equal. eapply IH; eauto.
Qed.

(* 5. the builder never panics, whatever the model (missing metadata, unset usersets, empty operators) *)
Theorem C10_builder_total : forall m, is_panic (wbuild m) = false.
Proof. exact wbuild_no_panic. Qed.

(* non-vacuity: a relation with a nested operator yields two operator nodes *)
Example C10_example :
  count_ops (UUnion [UThis ThisEmpty; UInter [UComputed (lit "a"); UComputed (lit "b")]]) = 2.
Proof. reflexivity. Qed.

(* what the builder hands to AssignWeights, for every model: no node or edge carries a weight or a wildcard list
   yet (wildcard nodes name their own type), and every edge is filed under its source node *)
Theorem C10_built_graph_is_unweighted : forall m g, wbuild m = Ok g ->
  unweighted g /\ (forall x e, In e (edges_from g x) -> e_from e = x).
Proof. exact wbuild_unweighted. Qed.

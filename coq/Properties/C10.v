(* Properties/C10.v — the weighted graph's structure mirrors the model.  Statements only; proofs in
   Proofs/WGraphProofs.v.  [wbuild] transcribes weighted_graph_builder.go (Model/WGraph.v).  Proved for
   every model: node inventory facts (one node per unique label; exactly one operator node per operator
   occurrence), the edge a computed userset / an operator contributes, and totality.  THE STRUCTURE (6-10,
   Proofs/BuilderShape.v, ShapeLists.v): for every model in [shape_domain] (no relation declared twice, no name of
   the model that reads as an operator node — decidable, evaluated on every generated model) and every relation,
   the edges filed under "type#relation" and under each operator node created for it are exactly the lists
   Spec/GraphShape.shape computes from the rewrite alone: a relation points to its operator or single operand,
   operators point to their operands in source order (subtract last), a direct assignment gives one direct edge
   per distinct target with its distinct condition names in first-occurrence order ("none" for none), a
   tuple-to-userset one edge per distinct parent type labelled "type#tupleset", a computed userset a
   computed/rewrite edge by the kinds of its end points; no other list is touched.  The implementation's graph is
   compared with [wbuild] and, independently, decoded against the model (run/lib/graphspec.check_structure). *)
From Verif Require Import Base.Str Base.Outcome Model.Ast Model.Printer Model.WGraph Spec.GraphWeights Proofs.WGraphProofs Proofs.BuilderFresh Spec.GraphShape Proofs.BuilderShape Proofs.ShapeLists Proofs.Witnesses Proofs.BuilderValid Proofs.BuilderNodes.

(* 1. a type, relation, referenced userset or wildcard never gets two nodes *)
Theorem C10_one_node_per_label : forall m g, wbuild m = Ok g -> NoDup (map n_id (g_nodes g)).
Proof. exact wbuild_nodes_unique. Qed.

(* 2. building a rewrite creates exactly one operator node per operator occurrence in it, at any nesting *)
Theorem C10_operator_nodes_of_a_rewrite : forall u g p m td rel g',
  parse_rewrite g p m td rel u = Ok g' -> g_ops g' = g_ops g + count_ops u.
Proof. exact parse_rewrite_ops. Qed.

Theorem C10_operator_nodes_of_a_model : forall m g,
  wbuild m = Ok g -> g_ops g = fold_right (fun td acc => type_ops td + acc) 0 (stable_sort td_cmp (m_types m)).
Proof. exact wbuild_operator_count. Qed.

(* 3. a computed userset contributes one edge to "type#relation": Computed between two relation nodes,
      Rewrite below an operator; unconditioned ("none"), no tupleset label *)
Theorem C10_computed_edge : forall g parent td rel,
  let id := td_name td ++ lit "#" ++ rel in
  let g1 := fst (get_or_add_node g id id NTypeRel) in
  let n := snd (get_or_add_node g id id NTypeRel) in
  parse_computed g parent td rel =
  add_edge g1 (n_id parent) (n_id n)
           (if ntype_eqb (n_type parent) NTypeRel && ntype_eqb (n_type n) NTypeRel then EComputed else ERewrite) [].
Proof. intros. unfold parse_computed. subst id g1 n. destruct (get_or_add_node _ _ _ _); reflexivity. Qed.

(* 4. conditions of a direct edge: de-duplicated, in first-occurrence order, "none" for an unconditioned one *)
Theorem C10_conditions_dedup : forall l to t ts c l',
  upsert_in l to t ts c = Some l' -> length l' = length l.
Proof.
  induction l as [|e l IH]; intros to t ts c l' H; simpl in H; [discriminate|].
  destruct (same_edge e to t ts).
  - destruct (mem_str c (e_conds e)); inversion H; reflexivity.
  - destruct (upsert_in l to t ts c) eqn:E; [|discriminate]. inversion H; subst. simpl. f_equal. eapply IH; eauto.
Qed.

(* 5. the builder never panics, whatever the model (missing metadata, unset usersets, empty operators) *)
Theorem C10_builder_total : forall m, is_panic (wbuild m) = false.
Proof. exact wbuild_no_panic. Qed.

(* non-vacuity: a relation with a nested operator yields two operator nodes *)
Example C10_example :
  count_ops (UUnion [UThis ThisEmpty; UInter [UComputed (lit "a"); UComputed (lit "b")]]) = 2.
Proof. reflexivity. Qed.

(* what the builder hands to AssignWeights, for every model: no node or edge carries a weight or a wildcard list
   yet (wildcard nodes name their own type), and every edge is filed under its source node *)
Theorem C10_built_graph_is_unweighted : forall m g, wbuild m = Ok g ->
  unweighted g /\ (forall x e, In e (edges_from g x) -> e_from e = x).
Proof. exact wbuild_unweighted. Qed.

(* 6. THE STRUCTURE of the built graph, relation by relation *)
Theorem C10_graph_mirrors_the_rewrites : forall m g,
  wbuild m = Ok g -> shape_domain m = true ->
  forall td r u, In td (m_types m) -> assoc r (td_rels td) = Some u ->
  exists k, let '(l, created, k') := shape (ty_of g) td r k (td_name td ++ lit "#" ++ r) u [] in
            edges_from g (td_name td ++ lit "#" ++ r) = l /\
            (forall oid es, In (oid, es) created -> edges_from g oid = es) /\ k' <= g_ops g.
Proof. exact wbuild_shape. Qed.

(* 7. one rewrite below one parent: the parent's list, the operator nodes created with their lists, the operator
      count, and nothing else changes *)
Theorem C10_one_rewrite : forall ty m td rel u g p g',
  parse_rewrite g p m td rel u = Ok g' ->
  find_node (n_id p) (g_nodes g) = Some p -> fresh_ops g -> old_id g (n_id p) ->
  Forall nonop (req_ids td rel u) -> ty_ok ty g' ->
  result_ok g g' (n_id p) (shape ty td rel (g_ops g) (n_id p) u (edges_from g (n_id p))).
Proof. intros ty m td rel u. exact (parse_rewrite_shape ty m td rel u). Qed.

(* 8. a direct assignment: one direct edge per distinct target, distinct condition names in first-occurrence order *)
Theorem C10_direct_assignment_edges : forall from refs,
  l_this from refs [] =
  map (fun t => {| e_from := from; e_to := t; e_type := EDirect; e_tupleset := [];
                   e_conds := dedup (map (fun r => normc (rr_cond r)) (filter (fun r => str_eqb (ref_id r) t) refs));
                   e_weights := []; e_wild := [] |})
      (dedup (map ref_id refs)).
Proof. exact l_this_closed_form. Qed.

(* 9. a tuple-to-userset: one edge per distinct parent type, labelled "type#tupleset" *)
Theorem C10_tuple_to_userset_edges : forall from label cu refs,
  l_ttu from label cu refs [] =
  map (fun ty => mk_edge from (ty ++ lit "#" ++ cu) ETTU label (normc (first_cond ty refs))) (dedup (map rr_type refs)).
Proof. exact l_ttu_closed_form. Qed.

(* 10. operands in source order, repeated operands kept; an operator is reached by one rewrite edge *)
Theorem C10_operands_in_source_order : forall ty td rel oid rs k ol created,
  shape_children ty td rel k oid (map UComputed rs) ol created =
  (ol ++ map (fun r => mk_edge oid (td_name td ++ lit "#" ++ r) (computed_kind ty oid (td_name td ++ lit "#" ++ r)) [] no_cond) rs,
   created, k).
Proof. exact shape_children_computed. Qed.

Theorem C10_exclusion_subtract_last : forall ty td rel k pid b s l,
  shape ty td rel k pid (UDiff b s) l = shape_operator ty td rel k pid (lit "exclusion") [b; s] l.
Proof. intros. apply shape_op. Qed.

(* non-vacuity: the example model of Spec/GraphWeights.v is in the domain and its viewer relation is mirrored *)
Example C10_structure_example :
  shape_domain m_good = true /\
  exists g, wbuild m_good = Ok g /\ forall td, In td (m_types m_good) -> forall r u, assoc r (td_rels td) = Some u ->
    exists k, fst (fst (shape (ty_of g) td r k (td_name td ++ lit "#" ++ r) u [])) = edges_from g (td_name td ++ lit "#" ++ r).
Proof.
  split; [vm_compute; reflexivity|].
  assert (H : exists g, wbuild m_good = Ok g).
  { destruct (wbuild m_good) as [g|w|w] eqn:E; [exists g; reflexivity| |]; exfalso; vm_compute in E; discriminate E. }
  destruct H as [g E]. exists g. split; [exact E|]. intros td Htd r u Hu.
  destruct (wbuild_shape m_good g E ltac:(vm_compute; reflexivity) td r u Htd Hu) as [k Hk]. exists k.
  destruct (shape (ty_of g) td r k (td_name td ++ lit "#" ++ r) u []) as [[l c] k']. cbn. symmetry. exact (proj1 Hk).
Qed.

(* 11. which models have a graph at all ("for every accepted model"): those without a dangling tuple-to-userset *)
Theorem C10_builder_accepts_iff_references_resolve : forall m, is_ok (wbuild m) = model_valid m.
Proof. exact wbuild_ok_iff_valid. Qed.

(* 12. THE NODE INVENTORY, for every model the builder takes (no hypothesis): the nodes are the ones the model names
       — every type, every defined relation, every target of a type restriction of a direct assignment, every
       computed userset, every parent relation of a tuple-to-userset — and operator nodes numbered below the
       operator count; each of these is there; one operator node exists for every number below the count; no id
       occurs twice.  (With 2: the count is the number of operator occurrences.) *)
Theorem C10_node_inventory : forall m g, wbuild m = Ok g ->
  (forall n, In n (g_nodes g) -> In (n_id n) (exact_ids m) \/ is_opnode (g_ops g) (n_id n)) /\
  (forall id, In id (exact_ids m) -> find_node id (g_nodes g) <> None) /\
  (forall j, j < g_ops g -> exists op, In op op_names /\ find_node (op_id op j) (g_nodes g) <> None) /\
  NoDup (map n_id (g_nodes g)).
Proof. exact wbuild_nodes. Qed.

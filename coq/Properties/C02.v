(* Properties/C02.v — JSON -> DSL succeeds exactly for DSL-expressible models.
   Statements only; proofs in Proofs/PrinterExpressible.v.  [print_model] is the transcription of
   jsontodsl.go (Model/Printer.v), tied to the code by the correspondence of every run;
   [expressible] (Spec/Expressible.v) is written without the printer's validator counter. *)
From Verif Require Import Spec.DocDomain Base.Str Base.Outcome Model.Ast Model.Token Model.Parser Model.Listener Model.Printer
  Spec.Sem Spec.Expressible Spec.Normalize Proofs.PrinterExpressible Proofs.Lossless Proofs.ParserComplete Proofs.LosslessTokens
  Proofs.LexInversion Proofs.LexRender Proofs.ParserNatural Proofs.RoundTripChars Proofs.DeclRoundTrip Proofs.DocLex Proofs.DocPrint Proofs.DocRoundTrip Proofs.DocDomainOk Model.Transform.

(* 1. on every rewrite a DSL document can carry, the printer's walk succeeds and its counter equals the
      number of direct assignments in the tree — for all trees, of any depth and operator nesting *)
Theorem C02_counter_is_count : forall rs u, carriable u = true -> exists t, print_top u rs = Some (t, count_direct u).
Proof. exact print_top_carriable. Qed.

(* 2. the validator's position test is the specification's "can be placed first" *)
Theorem C02_first_position : forall u, is_first_position u = first_pos u.
Proof. exact is_first_position_spec. Qed.

(* 3. one relation: success iff expressible, otherwise the unsupported-nesting error for that relation *)
Theorem C02_relation_iff : forall ty rel u meta src, carriable u = true ->
  (expressible u = true -> exists t, print_relation ty rel u meta src = Ok t) /\
  (expressible u = false -> print_relation ty rel u meta src = Err (EUnsupportedNesting ty rel)).
Proof. exact print_relation_iff. Qed.

(* 4. one type and 5. the whole model: conversion succeeds iff every relation is expressible; otherwise
      the error is unsupported nesting (never different DSL) *)
Theorem C02_type_iff : forall t modular src, type_carriable t ->
  (type_expressible t -> exists s, print_type t modular src = Ok s) /\
  (~ type_expressible t -> exists r, print_type t modular src = Err (EUnsupportedNesting (td_name t) r)).
Proof. exact print_type_iff. Qed.

Theorem C02_model_iff : forall src m, model_carriable m ->
  (Forall type_expressible (m_types m) -> exists s, fst (print_model src m) = Ok s) /\
  (~ Forall type_expressible (m_types m) -> exists ty r, fst (print_model src m) = Err (EUnsupportedNesting ty r)).
Proof. exact print_model_iff. Qed.

(* non-vacuity: a carriable, expressible, nested rewrite with the direct assignment in the middle of a union
   inside the base of an exclusion, and a carriable inexpressible one (two direct assignments) *)
Example C02_domain_is_inhabited :
  let u1 := UDiff (UUnion [UComputed (lit "a"); UThis ThisEmpty; UTTU (lit "p") (lit "b")]) (UComputed (lit "c")) in
  let u2 := UUnion [UThis ThisEmpty; UInter [UThis ThisEmpty; UComputed (lit "a")]] in
  carriable u1 = true /\ expressible u1 = true /\ carriable u2 = true /\ expressible u2 = false.
Proof. repeat split; reflexivity. Qed.

(* 6. lossless: for every carriable, expressible rewrite (any depth, any operator nesting) the text the printer
      writes is the canonical one-line rendering of a GRAMMATICAL relation definition whose denotation is the
      rewrite itself up to [normalize] — the direct assignment hoisted to the front of its union/intersection
      (the reordering the property allows) and one-operand unions/intersections collapsed — and whose
      restrictions are exactly the relation's type restrictions.  What remains between this and "parsing the
      printed text gives the model back" is  parse (lex (render d)) = d  for canonical renderings, which is not
      mechanised and is observed by the correspondence and round-trip checks of every run. *)
Theorem C02_lossless : forall refs u,
  carriable u = true -> expressible u = true -> refs_ok refs ->
  exists t,
    print_top u refs = Some (t, count_direct u) /\ t = render_rdef (rdef_of refs u) /\ wf_rdef (rdef_of refs u) = true /\ sem_rdef (rdef_of refs u) = normalize u /\ restrictions_elem (rd_first (rdef_of refs u)) = (if (count_direct u =? 0)%nat then None else Some refs).
Proof. exact printed_relation_denotes_normal_form. Qed.

(* 7. the same through the listener's rewrite stack (the code that actually reads the text back) *)
Theorem C02_lossless_through_listener : forall refs u,
  carriable u = true -> expressible u = true -> refs_ok refs ->
  exists t s,
    print_top u refs = Some (t, count_direct u) /\ t = render_rdef (rdef_of refs u) /\ walk_rdef (rdef_of refs u) = Ok s /\ parse_expression (rewrites s) (operator s) = Some (normalize u) /\ typeinfo s = (if (count_direct u =? 0)%nat then [] else refs).
Proof. exact printed_relation_listened. Qed.

(* non-vacuity of 6/7 and a look at [normalize]: the direct assignment moves to the front, nothing else moves *)
Example C02_normalize_example :
  normalize (UDiff (UUnion [UComputed (lit "a"); UThis ThisEmpty; UTTU (lit "p") (lit "b")]) (UInter [UComputed (lit "c")]))
  = UDiff (UUnion [UThis ThisEmpty; UComputed (lit "a"); UTTU (lit "p") (lit "b")]) (UComputed (lit "c")).
Proof. reflexivity. Qed.

(* 8. ... and that tree is what the parser model returns for its canonical token sequence (printer -> tokens ->
      parser -> denotation = normalize u).  [stops k]: what follows the definition does not start with white space
      (a line break or the end of input).  The characters are added in 9-11. *)
Theorem C02_printed_tree_parses_back : forall refs u k,
  carriable u = true -> expressible u = true -> refs <> [] -> stops k ->
  let d := rdef_of refs u in
  p_def (S (depth_def (rd_first d) (rd_rest d))) true (toks_def (rd_first d) (rd_op d) (rd_rest d) ++ k)
    = Some ((rd_first d, rd_op d, rd_rest d), k) /\
  sem_rdef d = normalize u.
Proof. exact printed_tree_parses_back. Qed.

(* 9. AT CHARACTER LEVEL: the text the printer model writes for the relation, followed by the line feed the document
      puts after it, is lexed without error by the lexer model and parsed back to a definition whose denotation is
      the normalised rewrite and whose restrictions are the relation's — for every carriable expressible rewrite
      whose names are plain identifiers that no literal rule of the lexer claims ([plain_name]: a letter or '_'
      followed by letters, digits, '_' or '-', not a keyword of Gen/Keywords.v, not "but").  The keyword tables are
      regenerated from the generated Go lexer on every run; the facts about them are re-proved by computation. *)
Theorem C02_printed_relation_reads_back : forall refs u,
  carriable u = true -> expressible u = true -> refs <> [] -> Forall plain_ref refs -> plain_u u ->
  exists t,
    print_top u refs = Some (t, count_direct u) /\
    snd (Model.Lexer.lex (t ++ [10])) = [] /\
    exists first op rest k,
      p_def (S (depth_def (rd_first (rdef_of refs u)) (rd_rest (rdef_of refs u)))) true (fst (Model.Lexer.lex (t ++ [10]))) = Some ((first, op, rest), k) /\
      map tk k = [NEWLINE] /\
      sem_rdef {| rd_first := first; rd_op := op; rd_rest := rest |} = normalize u /\
      restrictions_elem first = (if (count_direct u =? 0)%nat then None else Some refs).
Proof. exact printed_relation_reads_back. Qed.

(* 10. the lexer half on its own: the canonical rendering of any tree with plain names lexes to its canonical tokens *)
Theorem C02_lexer_inverts_the_printer : forall d,
  rdef_lex_ok d ->
  map (fun t => (tk t, ttext t)) (fst (Model.Lexer.lex_all (render_rdef d ++ [10]))) =
    kts (toks_def (rd_first d) (rd_op d) (rd_rest d)) ++ [(NEWLINE, [10])] /\
  snd (Model.Lexer.lex_all (render_rdef d ++ [10])) = [].
Proof. exact printed_line_lexes. Qed.

(* 11. the parser half: relabelling tokens without changing their kinds commutes with parsing a definition *)
Theorem C02_parser_reads_kinds_only : forall (g : tok -> tok), (forall t, tk (g t) = tk t) ->
  forall fuel direct ts, p_def fuel direct (map g ts) = pmap g (def_map g) (p_def fuel direct ts).
Proof. intros g Hg fuel. exact (p_def_natural g Hg fuel). Qed.

(* 12. the whole relation LINE: what [print_relation] writes ("    define <name>: <definition>"), between the line
       feeds the document puts around it, is lexed without error and parsed by the relation-declaration rule back to
       a declaration with the same name, the normalised rewrite and the relation's restrictions *)
Theorem C02_printed_relation_line_reads_back : forall ty rel u meta,
  let refs := rm_types_of meta in
  carriable u = true -> expressible u = true -> refs <> [] -> Forall plain_ref refs -> plain_u u -> plain_name rel = true ->
  exists t,
    print_relation ty rel u meta false = Ok t /\
    snd (Model.Lexer.lex ([10] ++ t ++ [10])) = [] /\
    exists r k,
      p_reldecl (fst (Model.Lexer.lex ([10] ++ t ++ [10]))) = Some (r, k) /\
      map tk k = [NEWLINE] /\
      ttext (rl_name r) = rel /\
      sem_rdef (rl_def r) = normalize u /\
      restrictions_elem (rd_first (rl_def r)) = (if (count_direct u =? 0)%nat then None else Some refs).
Proof. exact printed_declaration_round_trip. Qed.

(* 13. the parser reads kinds only, on declarations too *)
Theorem C02_declaration_parser_reads_kinds_only : forall (g : tok -> tok), (forall t, tk (g t) = tk t) ->
  forall ts, p_reldecl (map g ts) = pmap g (reldecl_map g) (p_reldecl ts).
Proof. exact p_reldecl_map. Qed.

(* 14. THE WHOLE DOCUMENT, characters included.  For every condition-free, non-modular model whose names are plain
       identifiers and whose relations the DSL can express ([model_ok]: schema 1.0/1.1/1.2, [plain_name] type and relation
       names, every rewrite carriable and expressible, restrictions present), the printer model succeeds and what it writes
       — header, blank lines, type blocks, "relations", relation lines, closing line feed — is turned by the pre-pass, the
       lexer model, the parser model and the listener model ([dsl_to_model]) back into the model in canonical form:
       types in the model's order, relations in name order, every rewrite normalised (direct assignment hoisted,
       single-child operators collapsed), restrictions kept exactly where a direct assignment is. *)
Theorem C02_document_round_trip : forall m, model_ok m ->
  exists t exts md, fst (print_model false m) = Ok t /\
    dsl_to_model t = DOk {| m_schema := m_schema m; m_types := map canon_td (m_types m); m_conds := [] |} exts md.
Proof. exact document_round_trip. Qed.

(* 15. the canonical form holds the same relations as the model, as a map *)
Theorem C02_canonical_form_is_the_same_map : forall td,
  Permutation.Permutation (keys (td_rels (canon_td td))) (keys (td_rels td)) /\
  forall n, In n (keys (td_rels td)) -> assoc n (td_rels (canon_td td)) = Some (normalize (u_of td n)).
Proof. exact canon_td_is_the_same_map. Qed.

(* 16. non-vacuity of 14: a model with three types, a userset restriction and a union whose direct assignment is hoisted *)
Theorem C02_document_example : model_ok ex_model.
Proof. exact ex_model_ok. Qed.

(* 17. the same with a DECIDABLE domain and a COMPUTABLE right-hand side (Spec/DocDomain.v): the extracted model evaluates
       [model_okb m] and [canonical m] on every generated model (wire op 208) and the check compares [canonical m] with the
       model the IMPLEMENTATION reads back from its own output wherever the theorem applies *)
Theorem C02_document_round_trip_decidable : forall m, model_okb m = true ->
  exists t exts md, fst (print_model false m) = Ok t /\ dsl_to_model t = DOk (canonical m) exts md.
Proof. exact document_round_trip_decidable. Qed.
Theorem C02_decidable_domain_is_sound : forall m, model_okb m = true -> model_ok m.
Proof. exact model_okb_ok. Qed.

(* utils.IsRelationAssignable (Model/Utils.is_assignable), the property's last observation point: for every rewrite a DSL
   document can carry it answers "yes" exactly when the printer writes a type restriction list for the relation (the printer's
   counter, theorem 1, is then not zero), and the answer is the same for the model read back from the DSL (hoisted,
   collapsed: Spec/Normalize.normalize) — at any depth and under any operators *)
From Verif Require Import Model.Utils Proofs.Assignable.
Theorem C02_assignable_iff_a_restriction_list_is_written : forall rs u, carriable u = true ->
  exists t n, print_top u rs = Some (t, n) /\ is_assignable u = negb (n =? 0)%nat.
Proof. exact assignable_iff_restriction_written. Qed.
Theorem C02_assignable_survives_the_round_trip : forall u, is_assignable (normalize u) = is_assignable u.
Proof. exact normalize_assignable. Qed.

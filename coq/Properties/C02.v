(* Properties/C02.v — JSON -> DSL succeeds exactly for DSL-expressible models.  Statements only. *)
From Verif Require Import Base.Str Base.Outcome Model.Ast Model.Printer.

(* a relation that is a bare direct assignment is always printable *)
Theorem C02_bare_this : forall rs, print_top (UThis ThisEmpty) rs = Some (print_this rs, 1%nat).
Proof. reflexivity. Qed.

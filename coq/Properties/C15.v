(* Properties/C15.v — fga.mod: accepted file paths are safe, verbatim and correctly located.
   Statements only; proofs in Proofs/ModFileProofs.v.  [transform_mod] is the transcription of
   TransformModFile over yaml.v3's node view (Model/ModFile.v); strings are byte strings, so the
   statements hold for every mix of percent-encoding, letter case of the escapes and separators:
   they are about the decoded, normalised value that is returned. *)
From Verif Require Import Base.Str Base.Outcome Model.ModFile Proofs.ModFileProofs.

(* 1. whenever a manifest is accepted the schema is "1.2" and every returned path is relative, has no ".."
      segment, no backslash and ends in ".fga" *)
Theorem C15_schema : forall schema contents f, transform_mod schema contents = Ok f -> p_value (mf_schema f) = lit "1.2".
Proof. intros s c f H. destruct (transform_mod_ok s c f H) as [n [_ [E _]]]. exact E. Qed.

Theorem C15_safe : forall schema contents f, transform_mod schema contents = Ok f ->
  Forall (fun p => safe_path (p_value p)) (mf_contents f).
Proof. intros s c f H. exact (proj1 (transform_mod_safe s c f H)). Qed.

(* the key step: a path without the substring "../" that ends in ".fga" has no ".." segment *)
Theorem C15_no_traversal : forall p,
  contains (lit "../") p = false -> is_suffix (lit ".fga") p = true -> ~ dotdot_segment p.
Proof. exact no_traversal. Qed.

(* 2. one returned path per entry, in manifest order, each positioned at (line - 1, column - 1) of its entry;
      a path written without '%', '+' and backslash is returned verbatim *)
Theorem C15_order_and_positions : forall schema contents f, transform_mod schema contents = Ok f ->
  exists n, contents = Some n /\ length (mf_contents f) = length (y_content n) /\
            forall k it p, nth_error (y_content n) k = Some it -> nth_error (mf_contents f) k = Some p ->
                           check_item it = IOk p /\ p_line p = pred (i_line it) /\ p_col p = pred (i_col it).
Proof.
  intros s c f H. destruct (proj2 (transform_mod_safe s c f H)) as [n [Ec [El Hk]]].
  exists n. split; [exact Ec|]. split; [exact El|].
  intros k it p Hit Hp. pose proof (Hk k it p Hit Hp) as Hc.
  destruct (check_item_safe it p Hc) as [_ [A B]]. repeat split; assumption.
Qed.

Theorem C15_verbatim : forall it p, plain (i_value it) -> check_item it = IOk p -> p_value p = i_value it.
Proof. exact check_item_verbatim. Qed.

(* 3. a manifest with an offending entry is rejected; the errors of the contents are exactly the entries' own
      errors, one per offending entry, in order: nothing is filtered silently *)
Theorem C15_rejects_offending : forall schema n,
  str_eqb (y_tag n) seq_node = true ->
  (exists it e, In it (y_content n) /\ check_item it = IErr e) ->
  exists es, transform_mod schema (Some n) = Err es.
Proof. exact transform_mod_rejects_offending. Qed.

Theorem C15_one_error_per_entry : forall items,
  errs (map check_item items) = flat_map (fun it => match check_item it with IErr e => [e] | IOk _ => [] end) items.
Proof. exact contents_errors_one_per_entry. Qed.

(* 4. never a panic, whatever the node shapes *)
Theorem C15_total : forall schema contents, is_panic (transform_mod schema contents) = false.
Proof. exact transform_mod_total. Qed.

(* non-vacuity: a mixed-encoding traversal is rejected and a percent-encoded harmless path is accepted and decoded *)
Example C15_examples :
  let it := fun v => {| i_tag := lit "!!str"; i_value := v; i_line := 3; i_col := 5 |} in
  (exists e, check_item (it (lit "..%5Ca.fga")) = IErr e) /\ (exists e, check_item (it (lit "%2E%2e/a.fga")) = IErr e) /\
  check_item (it (lit "dir%2Fa.fga")) = IOk {| p_value := lit "dir/a.fga"; p_line := 2; p_col := 4 |}.
Proof. repeat split; try (eexists; vm_compute; reflexivity). Qed.

(* Properties/C15.v — fga.mod: accepted paths are safe, verbatim, correctly located.  Statements only. *)
From Verif Require Import Base.Str Base.Outcome Model.ModFile.

Theorem C15_no_backslash : forall s, ~ In 92 (normalize_path s).
Proof.
  intros s H. unfold normalize_path, replace_char in H. apply in_map_iff in H.
  destruct H as [c [Hc _]]. destruct (N.eqb_spec c 92); subst; try discriminate. congruence.
Qed.

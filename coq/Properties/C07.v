(* Properties/C07.v — module merge succeeds iff conflict-free and returns the attributed union.
   Statements only; proofs in Proofs/MergeProofs.v.  [merge] is the transcription of
   TransformModuleFilesToModel (Model/Merge.v) over the parser model, after the repairs F4, F5, F12.
   Proved here: the outcome discipline (an error list is never empty and never comes with a model, the
   schema is the requested one), conservation of types under extension, and the exact effect of a
   conflict-free extension on its target (relations gained, attribution, nothing else touched), and THE
   EQUIVALENCE (8-10): for every list of files as the parser delivers them ([wf_modules]: distinct file names,
   no nil metadata, no relation twice in one declaration — decidable, evaluated on every generated set),
   merge succeeds if and only if the set is conflict-free in the order-free sense of Spec/MergeSpec.v (every
   file parses as a module, no type and no condition defined twice, every extension has a target, no relation
   contributed twice to a type); on success the model holds the declared types in file order, each with
   exactly the contributed relation names, and the declared conditions attributed to their files
   (Proofs/MergeIff.v).  The decidable form is evaluated by the extracted model on every generated module set
   and compared with the implementation's verdict. *)
From Coq Require Import Permutation.
From Verif Require Import Base.Str Base.Outcome Model.Ast Model.Merge Spec.MergeSpec Proofs.MergeProofs Proofs.MergeIff Proofs.MergeCheck Proofs.MergeWf.

Theorem C07_empty_set : forall v, merge [] v = Ok {| m_schema := v; m_types := []; m_conds := [] |}.
Proof. reflexivity. Qed.

(* an error carries at least one entry (and, by the type of [outcome], no model) *)
Theorem C07_no_empty_error : forall fs v es, merge fs v = Err es -> es <> [].
Proof. exact merge_err_nonempty. Qed.

Theorem C07_schema_version : forall fs v m, merge fs v = Ok m -> m_schema m = v.
Proof. exact merge_ok_schema. Qed.

(* success means that no file raised an error while collecting; the types of the result are exactly the
   collected base types in declaration order (extensions never add, drop or reorder a type) and the
   conditions are the collected ones *)
Theorem C07_types_conserved : forall fs v m, merge fs v = Ok m ->
  exists s, collect_files fs 0 init_mstate = Ok s /\ ms_errs s = [] /\
            map td_name (m_types m) = map td_name (ms_raw s) /\ m_conds m = ms_conds s.
Proof. exact merge_ok_types. Qed.

Theorem C07_extensions_keep_types : forall exts all_lines raw errs raw' errs',
  apply_all exts all_lines raw errs = Some (raw', errs') -> map td_name raw' = map td_name raw.
Proof. exact apply_all_names. Qed.

(* a conflict found while applying extensions is never dropped later *)
Theorem C07_conflicts_accumulate : forall exts all_lines raw errs raw' errs',
  apply_all exts all_lines raw errs = Some (raw', errs') -> exists more, errs' = errs ++ more.
Proof. exact apply_all_errs. Qed.

(* a conflict-free extension: the target gains exactly the extension's relations with their rewrites, each
   attributed to the extending file (module attribution comes from the parser: Listener), every other
   relation, the type's own module and file stay as they were *)
Theorem C07_extension_effect : forall file lines ty existing td names orig errs orig',
  NoDup names ->
  merge_relations file lines ty existing names td orig errs = Some (orig', errs) ->
  (forall n, In n names ->
     assoc n (td_rels orig') = assoc n (td_rels td) /\ assoc n (td_rels td) <> None /\
     exists rm, assoc n (td_meta_rels td) = Some rm /\ assoc n (td_meta_rels orig') = Some (with_rel_file file rm)) /\
  (forall n, ~ In n names -> assoc n (td_rels orig') = assoc n (td_rels orig) /\ assoc n (td_meta_rels orig') = assoc n (td_meta_rels orig)) /\
  td_module orig' = td_module orig /\ td_file orig' = td_file orig.
Proof. exact merge_relations_spec. Qed.

(* 8. succeeds iff conflict-free, for every list of module files *)
Theorem C07_succeeds_iff_conflict_free : forall fs v,
  wf_modules fs -> ((exists m, merge fs v = Ok m) <-> conflict_free fs).
Proof. exact merge_ok_iff. Qed.

(* 9. on success: nothing lost, nothing invented *)
Theorem C07_result_is_the_union : forall fs v m,
  wf_modules fs -> merge fs v = Ok m ->
  m_schema m = v /\ map td_name (m_types m) = map td_name (defs_of fs) /\ m_conds m = all_conds fs /\
  forall T, Permutation (rk (m_types m) T) (contributed fs T).
Proof. exact merge_ok_result. Qed.

(* 10. the same on booleans, as evaluated against the implementation on every run *)
Theorem C07_succeeds_iff_conflict_free_decidable : forall fs v,
  wf_modulesb fs = true -> is_ok (merge fs v) = conflict_freeb fs.
Proof. exact merge_ok_iff_b. Qed.

Theorem C07_decidable_form_is_the_statement : forall fs, conflict_freeb fs = true <-> conflict_free fs.
Proof. exact conflict_freeb_iff. Qed.

(* 11. the well-formedness hypothesis is a theorem about the parser: for EVERY list of files with distinct names,
       merge succeeds iff the list is conflict-free *)
Theorem C07_parser_output_is_well_formed : forall fs, NoDup (map mf_name fs) -> wf_modules fs.
Proof. exact wf_modules_of_parsed. Qed.

Theorem C07_succeeds_iff_conflict_free_for_all_files : forall fs v,
  NoDup (map mf_name fs) -> ((exists m, merge fs v = Ok m) <-> conflict_free fs).
Proof. exact merge_ok_iff_unconditional. Qed.

(* Properties/C07.v — module merge succeeds iff conflict-free and returns the attributed union.
   Statements only; proofs in Proofs/MergeProofs.v.  [merge] is the transcription of
   TransformModuleFilesToModel (Model/Merge.v) over the parser model, after the repairs F4, F5, F12.
   Proved here: the outcome discipline (an error list is never empty and never comes with a model, the
   schema is the requested one), conservation of types under extension, and the exact effect of a
   conflict-free extension on its target (relations gained, attribution, nothing else touched), and THE
   EQUIVALENCE (8-10): for every list of files as the parser delivers them ([wf_modules]: distinct file names,
   no nil metadata, no relation twice in one declaration — decidable, evaluated on every generated set),
   merge succeeds if and only if the set is conflict-free in the order-free sense of Spec/MergeSpec.v (every
   file parses as a module, no type and no condition defined twice, every extension has a target, no relation
   contributed twice to a type); on success the model holds the declared types in file order, each with
   exactly the contributed relation names, and the declared conditions attributed to their files
   (Proofs/MergeIff.v).  The decidable form is evaluated by the extracted model on every generated module set
   and compared with the implementation's verdict.  THE CONTENT (12-13, Proofs/MergeContent.v): in the merged model
   every relation declared by a type definition reads back with its rewrite and metadata unchanged, every
   relation declared by an extension reads back with its rewrite unchanged and the extending file as its file
   (the module is the one the listener recorded in the extension), every type reads back with the module of its
   definition and the file that defined it, and every relation that reads back was declared by some file with
   exactly that rewrite.  MODULES (14-16, Proofs/MergeModules.v): which declarations of a parsed module file are
   definitions and which extensions (the listener's extension table, by position), the module names the listener
   records (a definition carries the module of the file's header, its relations none of their own, an extension's
   relations carry the module of the extending file's header, conditions likewise), and hence on the merged model
   GetModuleForObjectTypeRelation ([module_for_relation]) answers, for every relation, the module named in the
   header of the file that declared it. *)
From Coq Require Import Permutation.
From Verif Require Import Base.Str Base.Outcome Model.Ast Model.Merge Spec.MergeSpec Spec.MergeObs Proofs.MergeProofs Proofs.MergeIff Proofs.MergeCheck Proofs.MergeContent Proofs.MergeWf Proofs.MergeModules.

Theorem C07_empty_set : forall v, merge [] v = Ok {| m_schema := v; m_types := []; m_conds := [] |}.
Proof. reflexivity. Qed.

(* an error carries at least one entry (and, by the type of [outcome], no model) *)
Theorem C07_no_empty_error : forall fs v es, merge fs v = Err es -> es <> [].
Proof. exact merge_err_nonempty. Qed.

Theorem C07_schema_version : forall fs v m, merge fs v = Ok m -> m_schema m = v.
Proof. exact merge_ok_schema. Qed.

(* success means that no file raised an error while collecting; the types of the result are exactly the
   collected base types in declaration order (extensions never add, drop or reorder a type) and the
   conditions are the collected ones *)
Theorem C07_types_conserved : forall fs v m, merge fs v = Ok m ->
  exists s, collect_files fs 0 init_mstate = Ok s /\ ms_errs s = [] /\
            map td_name (m_types m) = map td_name (ms_raw s) /\ m_conds m = ms_conds s.
Proof. exact merge_ok_types. Qed.

Theorem C07_extensions_keep_types : forall exts all_lines raw errs raw' errs',
  apply_all exts all_lines raw errs = Some (raw', errs') -> map td_name raw' = map td_name raw.
Proof. exact apply_all_names. Qed.

(* a conflict found while applying extensions is never dropped later *)
Theorem C07_conflicts_accumulate : forall exts all_lines raw errs raw' errs',
  apply_all exts all_lines raw errs = Some (raw', errs') -> exists more, errs' = errs ++ more.
Proof. exact apply_all_errs. Qed.

(* a conflict-free extension: the target gains exactly the extension's relations with their rewrites, each
   attributed to the extending file (module attribution comes from the parser: Listener), every other
   relation, the type's own module and file stay as they were *)
Theorem C07_extension_effect : forall file lines ty existing td names orig errs orig',
  NoDup names ->
  merge_relations file lines ty existing names td orig errs = Some (orig', errs) ->
  (forall n, In n names ->
     assoc n (td_rels orig') = assoc n (td_rels td) /\ assoc n (td_rels td) <> None /\
     exists rm, assoc n (td_meta_rels td) = Some rm /\ assoc n (td_meta_rels orig') = Some (with_rel_file file rm)) /\
  (forall n, ~ In n names -> assoc n (td_rels orig') = assoc n (td_rels orig) /\ assoc n (td_meta_rels orig') = assoc n (td_meta_rels orig)) /\
  td_module orig' = td_module orig /\ td_file orig' = td_file orig.
Proof. exact merge_relations_spec. Qed.

(* 8. succeeds iff conflict-free, for every list of module files *)
Theorem C07_succeeds_iff_conflict_free : forall fs v,
  wf_modules fs -> ((exists m, merge fs v = Ok m) <-> conflict_free fs).
Proof. exact merge_ok_iff. Qed.

(* 9. on success: nothing lost, nothing invented *)
Theorem C07_result_is_the_union : forall fs v m,
  wf_modules fs -> merge fs v = Ok m ->
  m_schema m = v /\ map td_name (m_types m) = map td_name (defs_of fs) /\ m_conds m = all_conds fs /\
  forall T, Permutation (rk (m_types m) T) (contributed fs T).
Proof. exact merge_ok_result. Qed.

(* 10. the same on booleans, as evaluated against the implementation on every run *)
Theorem C07_succeeds_iff_conflict_free_decidable : forall fs v,
  wf_modulesb fs = true -> is_ok (merge fs v) = conflict_freeb fs.
Proof. exact merge_ok_iff_b. Qed.

Theorem C07_decidable_form_is_the_statement : forall fs, conflict_freeb fs = true <-> conflict_free fs.
Proof. exact conflict_freeb_iff. Qed.

(* 11. the well-formedness hypothesis is a theorem about the parser: for EVERY list of files with distinct names,
       merge succeeds iff the list is conflict-free *)
Theorem C07_parser_output_is_well_formed : forall fs, NoDup (map mf_name fs) -> wf_modules fs.
Proof. exact wf_modules_of_parsed. Qed.

Theorem C07_succeeds_iff_conflict_free_for_all_files : forall fs v,
  NoDup (map mf_name fs) -> ((exists m, merge fs v = Ok m) <-> conflict_free fs).
Proof. exact merge_ok_iff_unconditional. Qed.

(* 12. the content of a successful merge, read through Spec/MergeObs.v *)
Theorem C07_content_of_the_merged_model : forall fs v m,
  wf_modules fs -> merge fs v = Ok m ->
  (forall f td r u, In f fs -> In td (file_defs f) -> assoc r (td_rels td) = Some u ->
     rel_body (m_types m) (td_name td) r = Some u /\ rel_attr (m_types m) (td_name td) r = assoc r (td_meta_rels td)) /\
  (forall f td r u, In f fs -> In td (file_exts f) -> assoc r (td_rels td) = Some u ->
     rel_body (m_types m) (td_name td) r = Some u /\
     rel_attr (m_types m) (td_name td) r = option_map (with_rel_file (mf_name f)) (assoc r (td_meta_rels td))) /\
  (forall f td, In f fs -> In td (file_defs f) -> type_attr (m_types m) (td_name td) = Some (td_module td, mf_name f)) /\
  (forall T r u, rel_body (m_types m) T r = Some u ->
     exists f td, In f fs /\ In td (file_defs f ++ file_exts f) /\ td_name td = T /\ assoc r (td_rels td) = Some u).
Proof. exact merge_content. Qed.

(* 13. the same for every list of files with distinct names *)
Theorem C07_content_of_the_merged_model_for_all_files : forall fs v m,
  NoDup (map mf_name fs) -> merge fs v = Ok m ->
  (forall f td r u, In f fs -> In td (file_defs f) -> assoc r (td_rels td) = Some u ->
     rel_body (m_types m) (td_name td) r = Some u /\ rel_attr (m_types m) (td_name td) r = assoc r (td_meta_rels td)) /\
  (forall f td r u, In f fs -> In td (file_exts f) -> assoc r (td_rels td) = Some u ->
     rel_body (m_types m) (td_name td) r = Some u /\
     rel_attr (m_types m) (td_name td) r = option_map (with_rel_file (mf_name f)) (assoc r (td_meta_rels td))) /\
  (forall f td, In f fs -> In td (file_defs f) -> type_attr (m_types m) (td_name td) = Some (td_module td, mf_name f)) /\
  (forall T r u, rel_body (m_types m) T r = Some u ->
     exists f td, In f fs /\ In td (file_defs f ++ file_exts f) /\ td_name td = T /\ assoc r (td_rels td) = Some u).
Proof. exact merge_content_unconditional. Qed.

(* non-vacuity: a definition in one file, an extension with a rewrite in another; the merge succeeds and the
   readings are the declared ones *)
Definition ex_nl : str := [10%N].
Definition ex_core : mfile := {| mf_name := lit "core.fga"; mf_text :=
  lit "module core" ++ ex_nl ++ lit "type user" ++ ex_nl ++ lit "type doc" ++ ex_nl ++ lit "  relations" ++ ex_nl ++
  lit "    define viewer: [user]" ++ ex_nl |}.
Definition ex_ext : mfile := {| mf_name := lit "ext.fga"; mf_text :=
  lit "module ext" ++ ex_nl ++ lit "extend type doc" ++ ex_nl ++ lit "  relations" ++ ex_nl ++
  lit "    define editor: [user] or viewer" ++ ex_nl |}.
Example C07_content_example :
  exists m, merge [ex_core; ex_ext] (lit "1.2") = Ok m /\
    map td_name (m_types m) = [lit "user"; lit "doc"] /\
    rel_body (m_types m) (lit "doc") (lit "editor") = Some (UUnion [UThis ThisEmpty; UComputed (lit "viewer")]) /\
    option_map (fun r => (rm_module r, rm_file r)) (rel_attr (m_types m) (lit "doc") (lit "editor")) = Some (lit "ext", Some (lit "ext.fga")) /\
    type_attr (m_types m) (lit "doc") = Some (lit "core", lit "core.fga").
Proof. eexists. split; [vm_compute; reflexivity|]. vm_compute. repeat split; reflexivity. Qed.

(* 14. a parsed module file, declaration by declaration *)
Theorem C07_parsed_module_file : forall f m exts,
  module_of f = Some (m, exts) ->
  exists ft, file_module f <> [] /\
    file_defs f = map (Spec.Sem.sem_type true (file_module f)) (filter (fun t => negb (Model.Parser.ty_extend t)) (Model.Parser.f_types ft)) /\
    file_exts f = map (Spec.Sem.sem_type true (file_module f)) (filter Model.Parser.ty_extend (Model.Parser.f_types ft)) /\
    m_conds m = map (Spec.Sem.sem_cond true (file_module f)) (Model.Parser.f_conds ft).
Proof. exact parsed_module_shape. Qed.

(* 15. the module names the listener records *)
Theorem C07_listener_module_names : forall f m exts,
  module_of f = Some (m, exts) ->
  file_module f <> [] /\
  Forall (fun td => td_module td = file_module f /\ forall r rm, assoc r (td_meta_rels td) = Some rm -> rm_module rm = []) (file_defs f) /\
  Forall (fun td => forall r rm, assoc r (td_meta_rels td) = Some rm -> rm_module rm = file_module f) (file_exts f) /\
  Forall (fun p : str * condition => option_map cm_module (c_meta (snd p)) = Some (file_module f)) (file_conds f).
Proof. exact parsed_module_attribution. Qed.

(* 16. attribution on the merged model, for every list of files with distinct names *)
Theorem C07_module_attribution : forall fs v m,
  NoDup (map mf_name fs) -> merge fs v = Ok m ->
  (forall f td r u, In f fs -> In td (file_defs f ++ file_exts f) -> assoc r (td_rels td) = Some u ->
     exists t, tfind (m_types m) (td_name td) = Some t /\ module_for_relation t r = Some (file_module f)) /\
  (forall f td, In f fs -> In td (file_defs f) -> type_attr (m_types m) (td_name td) = Some (file_module f, mf_name f)) /\
  (forall f td r u, In f fs -> In td (file_exts f) -> assoc r (td_rels td) = Some u ->
     option_map rm_file (rel_attr (m_types m) (td_name td) r) = Some (Some (mf_name f))).
Proof. exact merge_module_attribution. Qed.

Example C07_module_attribution_example :
  file_module ex_ext = lit "ext" /\ file_module ex_core = lit "core" /\
  exists m t, merge [ex_core; ex_ext] (lit "1.2") = Ok m /\ tfind (m_types m) (lit "doc") = Some t /\
              module_for_relation t (lit "editor") = Some (lit "ext") /\ module_for_relation t (lit "viewer") = Some (lit "core").
Proof. split; [vm_compute; reflexivity|]. split; [vm_compute; reflexivity|]. eexists. eexists. split; [vm_compute; reflexivity|]. vm_compute. repeat split; reflexivity. Qed.

(* THE LAST CLAUSE — "on any conflict an error is returned naming the offending file": every error of a failed merge names
   a file of the list, a conflict by the name of the file it was found in and the DSL errors of a file by that file's
   position in the list (the implementation writes the file's name into them: defect F16, repaired; compared by name in the
   correspondence) — for every list of files with distinct names *)
From Verif Require Import Proofs.MergeErrFiles.
Theorem C07_every_error_names_a_file : forall fs v es,
  NoDup (map mf_name fs) -> merge fs v = Err es ->
  Forall (names_ok (map mf_name fs) (length fs)) es.
Proof. intros fs v es Hnd H. exact (merge_errors_name_files fs v es (wf_modules_of_parsed fs Hnd) H). Qed.

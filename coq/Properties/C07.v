(* Properties/C07.v — module merge.  Statements only. *)
From Verif Require Import Base.Str Base.Outcome Model.Ast Model.Merge.

Theorem C07_empty_set : forall v, merge [] v = Ok {| m_schema := v; m_types := []; m_conds := [] |}.
Proof. reflexivity. Qed.

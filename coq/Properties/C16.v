(* Properties/C16.v — reported error positions lie inside the input and on the offending text.
   Statements only; proofs in Proofs/LexerPositions.v.
   PARTIAL.  Proved: every token of the lexer model carries the position of its first character, its text
   stands at that position, the position lies inside the text; a listener-raised error carries exactly the
   position of the name token it is raised for; a cleaned line is a prefix of the input line (the pre-pass
   moves nothing).  Not proved: positions of ANTLR's own syntax-error messages (the runtime's error
   strategy is not modelled; assumed to be token starts, EOF or characters of the cleaned text) and the
   positions of merge conflicts — those are refuted by known finding K-C16-lines (whole-file prefix
   look-up) and checked on every run against the generator's bookkeeping. *)
From Verif Require Import Base.Str Model.Token Model.Lexer Model.Listener Proofs.LexerPositions.

(* 1. every token (hidden-channel ones included): text found at its recorded position *)
Theorem C16_token_positions : forall s ts es, lex_all s = (ts, es) -> Forall (placed s 1 0) ts.
Proof. exact lex_all_placed. Qed.
Theorem C16_parser_tokens : forall s ts es, lex s = (ts, es) -> Forall (placed s 1 0) ts.
Proof. exact lex_placed. Qed.

(* 2. hence its line is one of the lines of the text and its column is within the text *)
Theorem C16_token_bounds : forall s t, placed s 1 0 t -> (1 <= tline t <= 1 + count_nl s)%nat /\ (tcol t <= length s)%nat.
Proof. exact token_line_in_text. Qed.

(* 3. a listener-raised error (duplicate relation / condition / parameter, misplaced or repeated `extend`) carries
      the zero-based line and the column of the name token it is raised for *)
Theorem C16_error_at_token : forall t m, er_line (err_at t m) = pred (tline t) /\ er_col (err_at t m) = tcol t.
Proof. intros; split; reflexivity. Qed.

(* 4. the comment-stripping pre-pass only shortens lines: what remains of a line is a prefix of it, so the
      columns of the remaining characters are those of the input *)
Theorem C16_prepass_keeps_columns : forall line, exists rest, line = clean_line line ++ rest.
Proof. exact clean_line_prefix. Qed.

(* the lexer accounts for every character: tokens and reported errors together cover the input exactly once, so a
   position computed from the tokens before it is a position in the input *)
From Verif Require Import Proofs.LexPartition.
Theorem C16_tokens_and_errors_cover_the_input : forall s,
  (length (concat (map ttext (fst (lex_all s)))) + length (snd (lex_all s)) = length s)%nat.
Proof. exact lex_all_accounts_for_every_character. Qed.

(* Properties/C16.v — error positions.  Statements only. *)
From Verif Require Import Base.Str Model.Token Model.Listener.

(* a listener-raised error carries exactly the position of the token it is raised for *)
Theorem C16_error_at_token : forall t m, er_line (err_at t m) = pred (tline t) /\ er_col (err_at t m) = tcol t.
Proof. intros; split; reflexivity. Qed.

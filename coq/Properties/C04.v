(* Properties/C04.v — weighted graph: weights equal the true maximum tuple-hop depth.
   Statements only; proofs in Proofs/StrategyProofs.v, WeightsProofs.v, Witnesses.v.
   [assign_weights] transcribes AssignWeights statement by statement with the depth-first start order as
   an argument (Model/WWeights.v); the correspondence runs it against the implementation (hooked to take
   the same order) on every model of every run, cyclic ones included.
   Proved for all inputs: what each of the three strategies computes from the operand edges (any number
   of edges and types), that this is what the strategy functions store, and the edge rule for terminal
   targets.  The global statement — on every accepted model every node carries the least-fixed-point
   depths of Spec/Weights.v — is NOT proved (the invariant of the depth-first traversal was not
   mechanised in the time available; see DESIGN.md); it is refuted outside the domain "every operand of an intersection/exclusion is one distinct edge, model
   well-founded" by the witnesses 6-7 (known findings K-C04-operands, K-WG-cycles), and on the rest it is
   checked on every run by the oracle of run/lib/graphspec.py against the implementation. *)
From Verif Require Import Base.Str Base.Outcome Model.Ast Model.Printer Model.WGraph Model.WWeights Spec.Weights
  Proofs.StrategyProofs Proofs.WeightsProofs Proofs.Witnesses.

(* 1. union and plain relations: a type is present iff some operand edge has it, with the largest weight *)
Theorem C04_union_strategy : forall ws k,
  Forall (fun w => NoDup (keys w)) ws -> wget k (max_weights ws) = omax_all k ws.
Proof. exact max_strategy_spec. Qed.
Theorem C04_union_strategy_is_the_code : forall s id s',
  max_strategy s id = Ok s' -> edges_from (ws_g s) id <> [] ->
  s' = upd_node s id (fun n => with_weights n (max_weights (map e_weights (edges_from (ws_g s) id)))).
Proof. exact max_strategy_computes. Qed.

(* 2. intersection: present iff every operand edge has it, largest weight; a type that one operand lacks can
      never come back through a later operand *)
Theorem C04_intersection_strategy : forall first rest k, NoDup (keys first) ->
  wget k (enforce_weights first rest) = fold_left (fun acc w => oand acc (wget k w)) rest (wget k first).
Proof. exact enforce_strategy_spec. Qed.
Theorem C04_intersection_no_restart : forall first rest1 w rest2 k,
  NoDup (keys first) -> wget k w = None -> wget k (enforce_weights first (rest1 ++ w :: rest2)) = None.
Proof. exact enforce_no_restart. Qed.
Theorem C04_intersection_strategy_is_the_code : forall s id s' first rest,
  edges_from (ws_g s) id = first :: rest -> enforce_strategy s id = Ok s' ->
  s' = upd_node s id (fun n => with_weights n (enforce_weights (e_weights first) (map e_weights rest))).
Proof. exact enforce_strategy_computes. Qed.

(* 3. exclusion: the types of the edges before the last one (max); the last edge only raises weights *)
Theorem C04_exclusion_strategy : forall init last_w k,
  Forall (fun w => NoDup (keys w)) init -> NoDup (keys last_w) ->
  wget k (raise_only (max_weights init) last_w) =
  match omax_all k init with Some x => omax (Some x) (wget k last_w) | None => None end.
Proof. exact mixed_strategy_spec. Qed.
Theorem C04_exclusion_strategy_is_the_code : forall s id s' init last_e,
  edges_from (ws_g s) id = init ++ [last_e] -> mixed_strategy s id = Ok s' ->
  s' = upd_node s id (fun n => with_weights n (raise_only (max_weights (map e_weights init)) (e_weights last_e))).
Proof. exact mixed_strategy_computes. Qed.

(* 4. never a panic, whatever the model and the start order *)
Theorem C04_total : forall o m, is_panic (build_weighted o m) = false.
Proof. exact build_weighted_no_panic. Qed.

(* 5. a positive instance through the whole pipeline (three levels, union, intersection, exclusion, wildcard,
      userset, tuple-to-userset): every relation's weights are the definition's *)
Theorem C04_example_matches_definition : weights_match_spec m_good = true.
Proof. exact m_good_matches. Qed.

(* 6. refuted outside the domain — operand grouping: the model is fine by the definition (x reaches user at
      depth 1) and is rejected *)
Theorem C04_operands_refuted :
  spec_of m_operands (lit "doc") (lit "x") = [(lit "user", 1)] /\
  exists why, build_weighted None m_operands = Err (WInvalidModel why).
Proof. split; [exact m_operands_spec|exact m_operands_rejected]. Qed.

(* 7. refuted outside the domain — a relation left with an empty weight map *)
Theorem C04_empty_weights_refuted :
  exists g, build_weighted None m_empty = Ok g /\ n_weights (node_of g (lit "doc#c")) = [].
Proof. exact m_empty_accepted. Qed.

(* Properties/C04.v — weighted graph: weights equal the true maximum tuple-hop depth.
   Statements only; proofs in Proofs/StrategyProofs.v, WeightsProofs.v, Witnesses.v.
   [assign_weights] transcribes AssignWeights statement by statement with the depth-first start order as
   an argument (Model/WWeights.v); the correspondence runs it against the implementation (hooked to take
   the same order) on every model of every run, cyclic ones included.
   Proved for all inputs: (a) what each of the three strategies computes from the operand edges (any number
   of edges and types) and that this is what the strategy functions store; (b) THE GLOBAL STATEMENT FOR
   GRAPHS WITHOUT CYCLES (8-10 below): whenever weight assignment succeeds on a graph that has a rank
   function decreasing along every edge, every node it reached carries exactly Spec/GraphWeights.spec_weights
   — the order-free definition "weight map of a node = strategy of its kind over its edges' maps, an edge
   adds one hop if it is a direct or tuple-to-userset edge, an edge to a type or wildcard is that type at
   depth 1" — for EVERY depth-first start order (invariant of the traversal: Proofs/DagWeights.v).  The
   hypothesis is decidable ([dag_check]) and is evaluated, together with the specification itself, by the
   extracted model on every generated model of every run and compared with what the implementation stored.
   NOT proved: the same for graphs with tuple cycles (placeholders and their resolution), and that the
   graph-level specification equals the model-level definition of Spec/Weights.v (an operand = a child of
   the rewrite): they differ exactly where one operand is several edges (witness 6, known finding
   K-C04-operands); on cyclic models that are not well-founded the statement is refuted (witness 7,
   K-WG-cycles).  Those regions are decided on every run by the oracle of run/lib/graphspec.py. *)
From Verif Require Import Base.Str Base.Outcome Model.Ast Model.Printer Model.WGraph Model.WWeights Spec.Weights
  Spec.GraphWeights Proofs.StrategyProofs Proofs.WeightsProofs Proofs.Witnesses Proofs.GraphPrims Proofs.DagWeights Proofs.DagCheck Proofs.BuilderFresh Proofs.DagModel.

(* 1. union and plain relations: a type is present iff some operand edge has it, with the largest weight *)
Theorem C04_union_strategy : forall ws k,
  Forall (fun w => NoDup (keys w)) ws -> wget k (max_weights ws) = omax_all k ws.
Proof. exact max_strategy_spec. Qed.
Theorem C04_union_strategy_is_the_code : forall s id s',
  max_strategy s id = Ok s' -> edges_from (ws_g s) id <> [] ->
  s' = upd_node s id (fun n => with_weights n (max_weights (map e_weights (edges_from (ws_g s) id)))).
Proof. exact max_strategy_computes. Qed.

(* 2. intersection: present iff every operand edge has it, largest weight; a type that one operand lacks can
      never come back through a later operand *)
Theorem C04_intersection_strategy : forall first rest k, NoDup (keys first) ->
  wget k (enforce_weights first rest) = fold_left (fun acc w => oand acc (wget k w)) rest (wget k first).
Proof. exact enforce_strategy_spec. Qed.
Theorem C04_intersection_no_restart : forall first rest1 w rest2 k,
  NoDup (keys first) -> wget k w = None -> wget k (enforce_weights first (rest1 ++ w :: rest2)) = None.
Proof. exact enforce_no_restart. Qed.
Theorem C04_intersection_strategy_is_the_code : forall s id s' first rest,
  edges_from (ws_g s) id = first :: rest -> enforce_strategy s id = Ok s' ->
  s' = upd_node s id (fun n => with_weights n (enforce_weights (e_weights first) (map e_weights rest))).
Proof. exact enforce_strategy_computes. Qed.

(* 3. exclusion: the types of the edges before the last one (max); the last edge only raises weights *)
Theorem C04_exclusion_strategy : forall init last_w k,
  Forall (fun w => NoDup (keys w)) init -> NoDup (keys last_w) ->
  wget k (raise_only (max_weights init) last_w) =
  match omax_all k init with Some x => omax (Some x) (wget k last_w) | None => None end.
Proof. exact mixed_strategy_spec. Qed.
Theorem C04_exclusion_strategy_is_the_code : forall s id s' init last_e,
  edges_from (ws_g s) id = init ++ [last_e] -> mixed_strategy s id = Ok s' ->
  s' = upd_node s id (fun n => with_weights n (raise_only (max_weights (map e_weights init)) (e_weights last_e))).
Proof. exact mixed_strategy_computes. Qed.

(* 4. never a panic, whatever the model and the start order *)
Theorem C04_total : forall o m, is_panic (build_weighted o m) = false.
Proof. exact build_weighted_no_panic. Qed.

(* 5. a positive instance through the whole pipeline (three levels, union, intersection, exclusion, wildcard,
      userset, tuple-to-userset): every relation's weights are the definition's *)
Theorem C04_example_matches_definition : weights_match_spec m_good = true.
Proof. exact m_good_matches. Qed.

(* 6. refuted outside the domain — operand grouping: the model is fine by the definition (x reaches user at
      depth 1) and is rejected *)
Theorem C04_operands_refuted :
  spec_of m_operands (lit "doc") (lit "x") = [(lit "user", 1)] /\
  exists why, build_weighted None m_operands = Err (WInvalidModel why).
Proof. split; [exact m_operands_spec|exact m_operands_rejected]. Qed.

(* 7. refuted outside the domain — a relation left with an empty weight map *)
Theorem C04_empty_weights_refuted :
  exists g, build_weighted None m_empty = Ok g /\ n_weights (node_of g (lit "doc#c")) = [].
Proof. exact m_empty_accepted. Qed.

(* 8. graphs without cycles, any start order: the weights are the order-free specification.  [ranked_by g rank]:
      every edge leads to a node of strictly smaller rank (no cycle of any kind); [terminals_not_placeholders]:
      no type is named like a tuple-cycle placeholder ("R#..."); [unweighted]: the builder's output state. *)
Theorem C04_acyclic_graph_weights : forall g0 rank order g',
  ranked_by g0 rank -> terminals_not_placeholders g0 -> unweighted g0 ->
  assign_weights order g0 = Ok g' ->
  forall x, In x order -> is_terminal (n_type (node_of g0 x)) = false ->
    n_weights (node_of g' x) = gs g0 rank x /\
    map ev (edges_from g' x) = map (fun e => (eshape e, ew g0 rank (eshape e))) (edges_from g0 x).
Proof. exact dag_weights. Qed.

(* 9. the same from the model, hypotheses discharged by evaluation of [dag_check] on the built graph *)
Theorem C04_acyclic_model_weights : forall m g o g',
  wbuild m = Ok g -> dag_check g = true -> build_weighted o m = Ok g' ->
  forall x, In x (order_used o g) -> is_terminal (n_type (node_of g x)) = false ->
    n_weights (node_of g' x) = spec_weights g x.
Proof. exact acyclic_model_weights. Qed.

(* 10. the hypothesis is satisfiable (and the model accepted), the graph-level specification coincides with the
       model-level definition there, and the refutation witnesses lie outside the domain *)
Theorem C04_acyclic_domain_inhabited :
  in_dag_domain m_good = true /\ is_ok (build_weighted None m_good) = true /\
  in_dag_domain m_order = false /\ in_dag_domain m_empty = false.
Proof. split; [apply m_good_in_domain|]. split; [apply m_good_in_domain|]. split; [exact m_order_outside_domain|exact m_empty_outside_domain]. Qed.

(* 11. for graphs the builder made, "nothing has a weight yet" holds by construction: only the rank check and the
       placeholder check remain as hypotheses *)
Theorem C04_built_graph_weights : forall m g, wbuild m = Ok g -> acyclic_check g = true ->
  forall o g', build_weighted o m = Ok g' ->
  forall x, In x (order_used o g) -> is_terminal (n_type (node_of g x)) = false ->
    n_weights (node_of g' x) = spec_weights g x.
Proof. exact built_weights. Qed.

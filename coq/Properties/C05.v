(* Properties/C05.v — accepted iff well-founded; rewrite-only cycles never pass.
   Statements only.  Proved: the self-loop rule after the repair F9, totality, and — with kernel-computed
   witnesses — that on models with a cycle that are not well-founded the verdict of the transcribed
   algorithm depends on the depth-first start order and that a relation reaching no terminal type is
   accepted (known finding K-WG-cycles).  The equivalence "accepted iff well-founded" itself is not proved;
   on every run the verdict under each explicit start order is compared with well-foundedness computed on
   the model (run/lib/graphspec.well_founded), and any disagreement outside the finding's region is reported. *)
From Verif Require Import Base.Str Base.Outcome Model.Ast Model.Printer Model.WGraph Model.WWeights
  Proofs.WeightsProofs Proofs.Witnesses.

(* 1. a relation defined as itself (`define a: a`): the computed self edge is a model cycle, for every graph,
      path and fuel — it is never resolved as a tuple cycle (repair F9) *)
Theorem C05_self_rewrite_is_model_cycle : forall fuel r path s e,
  edge_at (ws_g s) r = Some e -> e_from e = e_to e -> e_type e = EComputed \/ e_type e = ERewrite ->
  snd (fst (calc_edge (S fuel) r path s)) = Some WModelCycle.
Proof.
  intros fuel r path s e He Hself Hk. cbn [calc_edge]. unfold calc_edge_body. rewrite He, Hself, str_eqb_refl.
  destruct Hk as [-> | ->]; reflexivity.
Qed.

Theorem C05_total : forall o m, is_panic (build_weighted o m) = false.
Proof. exact build_weighted_no_panic. Qed.

(* 2. refuted on cyclic models that are not well-founded: the verdict depends on the start order ... *)
Theorem C05_order_refuted :
  exists m o1 o2, is_ok (build_weighted (Some o1) m) = false /\ is_ok (build_weighted (Some o2) m) = true.
Proof.
  exists m_order, o_insertion, o_other. split; [rewrite m_order_rejected; reflexivity|exact m_order_accepted].
Qed.

(* ... and a relation that can reach no terminal type is accepted *)
Theorem C05_no_terminal_type_refuted :
  exists g, build_weighted None m_empty = Ok g /\ n_weights (node_of g (lit "doc#c")) = [].
Proof. exact m_empty_accepted. Qed.

(* Properties/C05.v — accepted iff well-founded; rewrite-only cycles never pass.
   Statements only.  Proved: the self-loop rule after the repair F9, totality, and — with kernel-computed
   witnesses — that on models with a cycle that are not well-founded the verdict of the transcribed
   algorithm depends on the depth-first start order and that a relation reaching no terminal type is
   accepted (known finding K-WG-cycles).  Proved (3-5): THE EQUIVALENCE ON GRAPHS WITHOUT CYCLES, for every
   start order — weight assignment succeeds exactly when the specification accepts every node: a relation or
   operator has an operand edge, every edge leads to a type, a wildcard or an accepted node whose weight map is
   not empty ("can reach a terminal type"), and an intersection keeps a type common to all operands
   (Spec/GraphWeights.accepts; soundness and completeness in Proofs/DagWeights.v, with AssignWeights' own fuel).
   The decidable hypotheses and the acceptance predicate are evaluated by the extracted model on every
   generated model and compared with the implementation's verdict under each start order.  NOT proved: the
   equivalence on graphs with cycles (where it is refuted, witnesses 2); there the verdict under each explicit
   start order is compared with well-foundedness computed on the model (run/lib/graphspec.well_founded). *)
From Verif Require Import Base.Str Base.Outcome Model.Ast Model.Printer Model.WGraph Model.WWeights
  Spec.GraphWeights Proofs.WeightsProofs Proofs.Witnesses Proofs.GraphPrims Proofs.DagWeights Proofs.DagCheck Proofs.BuilderFresh Proofs.DagModel Spec.GraphShape Proofs.BuilderValid.

(* 1. a relation defined as itself (`define a: a`): the computed self edge is a model cycle, for every graph,
      path and fuel — it is never resolved as a tuple cycle (repair F9) *)
Theorem C05_self_rewrite_is_model_cycle : forall fuel r path s e,
  edge_at (ws_g s) r = Some e -> e_from e = e_to e -> e_type e = EComputed \/ e_type e = ERewrite ->
  snd (fst (calc_edge (S fuel) r path s)) = Some WModelCycle.
Proof.
  intros fuel r path s e He Hself Hk. cbn [calc_edge]. unfold calc_edge_body. rewrite He, Hself, str_eqb_refl.
  destruct Hk as [-> | ->]; reflexivity.
Qed.

Theorem C05_total : forall o m, is_panic (build_weighted o m) = false.
Proof. exact build_weighted_no_panic. Qed.

(* 2. refuted on cyclic models that are not well-founded: the verdict depends on the start order ... *)
Theorem C05_order_refuted :
  exists m o1 o2, is_ok (build_weighted (Some o1) m) = false /\ is_ok (build_weighted (Some o2) m) = true.
Proof.
  exists m_order, o_insertion, o_other. split; [rewrite m_order_rejected; reflexivity|exact m_order_accepted].
Qed.

(* ... and a relation that can reach no terminal type is accepted *)
Theorem C05_no_terminal_type_refuted :
  exists g, build_weighted None m_empty = Ok g /\ n_weights (node_of g (lit "doc#c")) = [].
Proof. exact m_empty_accepted. Qed.

(* 3. graphs without cycles, any start order: accepted iff the specification accepts every start node.
      The fuel hypothesis says that AssignWeights' own fuel (2 * #nodes + 2) is enough for the ranks used. *)
Theorem C05_acyclic_graph_accepted_iff : forall g0 rank order,
  ranked_by g0 rank -> terminals_not_placeholders g0 -> unweighted g0 ->
  (forall x, In x order -> (2 * rank x + 1 <= 2 * length (g_nodes g0) + 2)%nat) ->
  ((exists g', assign_weights order g0 = Ok g') <->
   (forall x, In x order -> is_terminal (n_type (node_of g0 x)) = true \/ acc g0 rank x = true)).
Proof. exact dag_accepts_iff. Qed.

(* 4. from the model, every hypothesis discharged by evaluation *)
Theorem C05_acyclic_model_accepted_iff : forall m g o,
  wbuild m = Ok g -> dag_check g = true -> fuel_check g = true ->
  (is_ok (build_weighted o m) = true <-> forallb (spec_accepts g) (order_used o g) = true).
Proof. exact acyclic_model_accepts. Qed.

(* 5. non-vacuity: the example model is in the domain, the specification accepts all its nodes, and it is accepted *)
Theorem C05_acyclic_domain_inhabited :
  in_dag_domain m_good = true /\
  match wbuild m_good with Ok g => fuel_check g && forallb (spec_accepts g) (default_order g) | _ => false end = true /\
  is_ok (build_weighted None m_good) = true.
Proof. split; [apply m_good_in_domain|]. split; [exact m_good_accepted_by_spec|apply m_good_in_domain]. Qed.

(* 6. for graphs the builder made *)
Theorem C05_built_graph_accepted_iff : forall m g, wbuild m = Ok g -> acyclic_check g = true ->
  forall o, fuel_check g = true ->
  (is_ok (build_weighted o m) = true <-> forallb (spec_accepts g) (order_used o g) = true).
Proof. exact built_accepted_iff. Qed.

(* 7. THE BUILDER'S OWN VERDICT (before any weight is assigned): it rejects exactly the models in which some
      tuple-to-userset names a tupleset without metadata entry, without type restrictions, or with a parent type
      that does not define the computed relation — wherever the tuple-to-userset stands in the rewrite, whatever
      else the model contains — and then always with an invalid-model error, never a cycle error *)
Theorem C05_builder_rejects_exactly_dangling_tuple_to_usersets : forall m, is_ok (wbuild m) = model_valid m.
Proof. exact wbuild_ok_iff_valid. Qed.

Theorem C05_builder_errors_are_invalid_model : forall m e, wbuild m = Err e -> exists why, e = WInvalidModel why.
Proof. exact wbuild_errors_are_invalid_model. Qed.

(* Properties/C14.v — canonical DSL output.  Statements only. *)
From Verif Require Import Base.Str Model.Printer.

(* without the option no source comment is ever produced *)
Theorem C14_no_comment_without_option : forall m f l, source_comment m f l false = [].
Proof. intros m f l. unfold source_comment. rewrite orb_true_r. reflexivity. Qed.

(* Properties/C14.v — DSL output is canonical; source-info comments are inert.
   Statements only; proofs in Proofs/SortFacts.v, PrinterOrder.v, PrinterCanonical.v.
   Go maps are association lists here; "another iteration order / another JSON key order" is a
   Permutation of the list, and distinct keys (NoDup) is what being a map means. *)
From Coq Require Import Permutation Sorted.
From Verif Require Import Base.Str Base.Outcome Model.Ast Model.Printer
  Proofs.SortFacts Proofs.PrinterOrder Proofs.PrinterCanonical Proofs.PrinterComments Proofs.CommentInert
  Model.Lexer Model.Transform.

(* 1. sortByModule is a strict total order on items with distinct names: lexicographic on
      (unattributed first, module, file, name) *)
Theorem C14_cmp_transitive : forall a b c, sbm a b = Lt -> sbm b c = Lt -> sbm a c = Lt.
Proof. exact sbm_trans. Qed.
Theorem C14_cmp_antisymmetric : forall a b, sbm b a = CompOpp (sbm a b).
Proof. exact sbm_antisym. Qed.
Theorem C14_cmp_total : forall a b, k_name a <> k_name b -> sbm a b = Lt \/ sbm b a = Lt.
Proof. exact sbm_total. Qed.

(* 2. the relation map and the relation-metadata map of a type in any order: same text *)
Theorem C14_relations_perm : forall (t : typedef) rels' meta' modular src,
  NoDup (keys (td_rels t)) -> Permutation (td_rels t) rels' ->
  NoDup (keys (td_meta_rels t)) -> Permutation (td_meta_rels t) meta' ->
  print_type t modular src =
  print_type {| td_name := td_name t; td_rels := rels';
                td_meta := match td_meta t with
                           | Some md => Some {| tm_rels := meta'; tm_module := tm_module md; tm_file := tm_file md |}
                           | None => None
                           end |} modular src.
Proof. exact print_type_rels_perm. Qed.

(* 3. the condition map of a model in any order, the parameter map of a condition in any order *)
Theorem C14_conditions_perm : forall src (m : model) cs',
  NoDup (keys (m_conds m)) -> Permutation (m_conds m) cs' ->
  print_model src m = print_model src {| m_schema := m_schema m; m_types := m_types m; m_conds := cs' |}.
Proof. exact print_model_conds_perm. Qed.
Theorem C14_parameters_perm : forall key (c : condition) ps' src,
  NoDup (keys (c_params c)) -> Permutation (c_params c) ps' ->
  print_condition key c src =
  print_condition key {| c_name := c_name c; c_expr := c_expr c; c_params := ps'; c_meta := c_meta c |} src.
Proof. exact print_condition_params_perm. Qed.

(* 4. the type definitions of a modular model in any order *)
Theorem C14_type_order : forall src (m : model) ts',
  is_modular_model m = true -> NoDup (map td_name (m_types m)) -> Permutation (m_types m) ts' ->
  fst (print_model src m) = fst (print_model src {| m_schema := m_schema m; m_types := ts'; m_conds := m_conds m |}).
Proof. exact print_model_types_perm. Qed.

(* 5. the documented order: relation names of a non-modular type come out strictly increasing *)
Theorem C14_documented_order : forall names : list str,
  NoDup names -> StronglySorted (fun a b => str_compare a b = Lt) (stable_sort str_compare names).
Proof.
  intros names Hnd.
  apply (stable_sort_sorted str_compare (fun _ => True)); auto.
  - intros a b c _ _ _. apply str_compare_trans.
  - intros a b _ _. apply str_compare_total.
  - apply Forall_forall; auto.
Qed.

(* 6. without the option no source comment is produced; with it, an item without module and file gets none *)
Theorem C14_no_comment_without_option : forall m f l, source_comment m f l false = [].
Proof. intros m f l. unfold source_comment. rewrite orb_true_r. reflexivity. Qed.
Theorem C14_no_comment_for_unattributed : forall l b, source_comment [] [] l b = [].
Proof. reflexivity. Qed.

(* non-vacuity: the hypotheses of 2-4 are satisfiable by a model with two types, two relations, two conditions *)
Example C14_hypotheses_satisfiable :
  let t1 := {| td_name := lit "doc"; td_rels := [(lit "b", UComputed (lit "a")); (lit "a", UThis ThisEmpty)];
               td_meta := Some {| tm_rels := []; tm_module := lit "core"; tm_file := None |} |} in
  let t2 := {| td_name := lit "user"; td_rels := []; td_meta := Some {| tm_rels := []; tm_module := lit "core"; tm_file := None |} |} in
  let m := {| m_schema := lit "1.2"; m_types := [t1; t2]; m_conds := [] |} in
  is_modular_model m = true /\ NoDup (map td_name (m_types m)) /\ NoDup (keys (td_rels t1)) /\
  fst (print_model false m) = fst (print_model false {| m_schema := lit "1.2"; m_types := [t2; t1]; m_conds := [] |}).
Proof.
  simpl. repeat split; try reflexivity.
  - repeat constructor; simpl; intuition discriminate.
  - repeat constructor; simpl; intuition discriminate.
Qed.

(* 7. asking for source information never changes the verdict: for every model (any protobuf shape) the two
      calls either both return a text or both fail with the same error *)
Theorem C14_comments_do_not_change_the_verdict : forall m,
  same_verdict (fst (print_model true m)) (fst (print_model false m)).
Proof. exact print_model_verdict. Qed.

(* 8. the comments are inert: for every model whose module and file names contain no line break, the output with
      source information is the plain output with " # ..." segments inserted right before line breaks or at the
      very end ([DP]); hence cutting comments line by line (strings.Split(line, " #")[0], what ParseDSL's pre-pass
      does) gives the same lines, the pre-pass sees the same text, and both outputs parse to the same result *)
Theorem C14_output_with_comments_is_the_plain_output_decorated : forall m t1 t0,
  model_nonl m -> fst (print_model true m) = Ok t1 -> fst (print_model false m) = Ok t0 -> DP t1 t0.
Proof. exact print_model_decorated. Qed.

Theorem C14_comments_are_inert : forall m t1 t0,
  model_nonl m -> fst (print_model true m) = Ok t1 -> fst (print_model false m) = Ok t0 ->
  prepass t1 = prepass t0 /\ dsl_to_model t1 = dsl_to_model t0 /\
  map cut_comment (split_on 10 t1) = map cut_comment (split_on 10 t0).
Proof. exact comments_are_inert. Qed.

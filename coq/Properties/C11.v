(* Properties/C11.v — wildcard sets are exactly the reachable public types.  Statements only; proofs in
   Proofs/WildcardProofs.v and Proofs/DagWeights.v.  Proved for all inputs: (a) the two list operations through
   which every wildcard list of AssignWeights is built (merge, add-if-absent) keep lists duplicate-free and
   compute exactly the union; the wildcard node T:* contributes T; (b) THE GLOBAL STATEMENT FOR GRAPHS WITHOUT
   CYCLES (6-8): whenever weight assignment succeeds, for every start order, the wildcard list of every node
   it reached holds exactly the types T whose node T:* can be reached from it ([reaches_wild], an inductive
   reachability relation on the unweighted graph), and every edge carries its target's set.  The hypothesis
   is the decidable [dag_check]; the executable form of the set ([spec_wildcards]) is evaluated by the
   extracted model on every generated model and compared with the implementation's lists.  NOT proved: the
   same on graphs with tuple cycles (checked on every run by reachability on the built graph,
   run/lib/graphspec.reach_wild, per explicit start order; known finding K-WG-cycles delimits the models
   where the algorithm is order-dependent).  Duplicate-freedom is proved for graphs without cycles (9) and
   observed per run elsewhere. *)
From Verif Require Import Base.Str Base.Outcome Model.Ast Model.Printer Model.WGraph Model.WWeights
  Spec.GraphWeights Proofs.WildcardProofs Proofs.WeightsProofs Proofs.GraphPrims Proofs.DagWeights Proofs.DagCheck Proofs.Witnesses Proofs.BuilderFresh Proofs.DagModel.

Theorem C11_merge_keeps_duplicate_free : forall into from, NoDup into -> NoDup from -> NoDup (merge_wild into from).
Proof. exact merge_wild_NoDup. Qed.

Theorem C11_merge_is_union : forall into from y, In y (merge_wild into from) <-> In y into \/ In y from.
Proof. exact merge_wild_spec. Qed.

Theorem C11_add_keeps_duplicate_free : forall x l, NoDup l -> NoDup (add_unique x l).
Proof. exact add_unique_NoDup. Qed.

Theorem C11_wildcard_node_names_its_type : forall id, drop_last2 (id ++ lit ":*") = id.
Proof. exact wildcard_edge_label. Qed.

Theorem C11_total : forall o m, is_panic (build_weighted o m) = false.
Proof. exact build_weighted_no_panic. Qed.

(* 6. graphs without cycles, any start order: a node's list is exactly the set of reachable public types *)
Theorem C11_acyclic_graph_wildcards : forall g0 rank order g',
  ranked_by g0 rank -> terminals_not_placeholders g0 -> unweighted g0 ->
  assign_weights order g0 = Ok g' ->
  forall x, In x order -> is_terminal (n_type (node_of g0 x)) = false ->
    (forall T, In T (n_wild (node_of g' x)) <-> reaches_wild g0 x T) /\
    (forall e, In e (edges_from g' x) -> forall T, In T (e_wild e) <-> In T (ews g0 rank (eshape e))).
Proof. exact dag_wildcards. Qed.

(* 7. from the model, hypothesis discharged by evaluation; the executable specification is the same set *)
Theorem C11_acyclic_model_wildcards : forall m g o g',
  wbuild m = Ok g -> dag_check g = true -> build_weighted o m = Ok g' ->
  forall x, In x (order_used o g) -> is_terminal (n_type (node_of g x)) = false ->
  forall T, (In T (n_wild (node_of g' x)) <-> reaches_wild g x T) /\ (In T (n_wild (node_of g' x)) <-> In T (spec_wildcards g x)).
Proof. exact acyclic_model_wildcards. Qed.

(* 8. non-vacuity: the example model (with a wildcard restriction two levels below doc#viewer) is in the domain *)
Theorem C11_domain_inhabited : in_dag_domain m_good = true /\ is_ok (build_weighted None m_good) = true.
Proof. exact m_good_in_domain. Qed.

(* 9. no duplicates, on every relation and operator node and on every edge (graphs without cycles, any order) *)
Theorem C11_acyclic_graph_no_duplicates : forall g0 rank order g',
  ranked_by g0 rank -> terminals_not_placeholders g0 -> unweighted g0 ->
  assign_weights order g0 = Ok g' ->
  forall x, is_terminal (n_type (node_of g0 x)) = false ->
    NoDup (n_wild (node_of g' x)) /\ (forall e, In e (edges_from g' x) -> NoDup (e_wild e)).
Proof. exact dag_wildcards_nodup. Qed.

(* 10. for graphs the builder made *)
Theorem C11_built_graph_wildcards : forall m g, wbuild m = Ok g -> acyclic_check g = true ->
  forall o g', build_weighted o m = Ok g' ->
  forall x, In x (order_used o g) -> is_terminal (n_type (node_of g x)) = false ->
    (forall T, In T (n_wild (node_of g' x)) <-> reaches_wild g x T) /\ NoDup (n_wild (node_of g' x)).
Proof. exact built_wildcards. Qed.

(* 11. THE TIE for value semantics.  Model/WWeights.v keeps wildcard lists and weight maps as immutable values; the Go
   code keeps them in slices and maps that can share storage.  Gen/Sites.v (regenerated from weighted_graph.go and
   weighted_graph_builder.go on every run) lists every store of a list or map into a node or an edge with the
   shape of what is stored: a copy, an append to the field itself, a literal, nil, make(..), or a local that only
   ever holds a fresh allocation.  None stores another object's list or map as it is — with such a store a later
   append could overwrite an entry of the other object (defect F13 was four of them). *)
From Verif Require Import Gen.Sites.
Theorem C11_no_store_shares_a_list_or_map : aliasing_stores = [] /\ (12 <= length store_sites)%nat.
Proof. split; [vm_compute; reflexivity|vm_compute; repeat constructor]. Qed.

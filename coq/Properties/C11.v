(* Properties/C11.v — wildcard sets are exactly the reachable public types.  Statements only; proofs in
   Proofs/WildcardProofs.v.  Proved for all inputs: the two list operations through which every wildcard
   list of AssignWeights is built (merge, add-if-absent) keep lists duplicate-free and compute exactly the
   union; the wildcard node T:* contributes T.  The global statement — after weight assignment the list of
   every node and edge is the set of T with T:* reachable — is not proved; it is checked on every run,
   per explicit start order and on cyclic models too, by reachability on the built graph
   (run/lib/graphspec.reach_wild), with known finding K-WG-cycles delimiting the models where the
   unmodified algorithm is order-dependent. *)
From Verif Require Import Base.Str Base.Outcome Model.Ast Model.Printer Model.WGraph Model.WWeights
  Proofs.WildcardProofs Proofs.WeightsProofs.

Theorem C11_merge_keeps_duplicate_free : forall into from, NoDup into -> NoDup from -> NoDup (merge_wild into from).
Proof. exact merge_wild_NoDup. Qed.

Theorem C11_merge_is_union : forall into from y, In y (merge_wild into from) <-> In y into \/ In y from.
Proof. exact merge_wild_spec. Qed.

Theorem C11_add_keeps_duplicate_free : forall x l, NoDup l -> NoDup (add_unique x l).
Proof. exact add_unique_NoDup. Qed.

Theorem C11_wildcard_node_names_its_type : forall id, drop_last2 (id ++ lit ":*") = id.
Proof. exact wildcard_edge_label. Qed.

Theorem C11_total : forall o m, is_panic (build_weighted o m) = false.
Proof. exact build_weighted_no_panic. Qed.

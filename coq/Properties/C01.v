(* Properties/C01.v — DSL -> model -> DSL -> model is the identity on every accepted document.
   Statements only; proofs in Proofs/RoundTrip.v (over ListenerSem, ListenerFile, PrinterExpressible).
   Proved, for every accepted document: rendering the parsed model always succeeds — with either API path,
   since the JSON hop is the identity on parsed models (the first clause of the property, and the reason the
   defect F1 made the direct path fail for every direct assignment).  Proved for every RELATION DEFINITION with
   plain names (last theorem, Proofs/RoundTripChars.v): the text the printer writes for a parsed definition is
   lexed without error and parsed back to a definition with the same denotation and the same restrictions —
   printer, lexer, parser and listener composed at character level.  NOT proved: the same for a whole document
   (headers, type lines, conditions, comments) and for names that are keywords; decided on every run by running
   the three-round composition of the implementation on each accepted document (both paths) and, as
   correspondence, the model's own composition (Transform.roundtrip) against it. *)
From Verif Require Import Spec.DocDomain Base.Str Base.Outcome Model.Ast Model.Token Model.Parser Model.Listener Model.Printer
  Model.Transform Spec.Sem Spec.Expressible Spec.Normalize Proofs.ListenerSem Proofs.ListenerFile Proofs.ParserShape Proofs.RoundTrip Proofs.Lossless Proofs.ParserTokens Proofs.AcceptedText
  Proofs.ParserComplete Proofs.LexInversion Proofs.LexRender Proofs.RoundTripChars Proofs.DeclRoundTrip Proofs.DocLex Proofs.DocParse Proofs.DocChars Proofs.DocSem Proofs.DocPrepass Proofs.DocPrint Proofs.DocRoundTrip Proofs.DocStable.

(* 1. what the parser can produce for a relation is always printable: carriable, at most one direct assignment,
      and that one in a position from which it can be written first *)
Theorem C01_parsed_relation_is_expressible : forall d, wf_rdef d = true ->
  carriable (sem_rdef d) = true /\ expressible (sem_rdef d) = true.
Proof. exact parsed_relation_expressible. Qed.

Theorem C01_parsed_relation_prints : forall d ty rel meta src,
  wf_rdef d = true -> exists t, print_relation ty rel (sem_rdef d) meta src = Ok t.
Proof. exact parsed_relation_prints. Qed.

(* 2. the whole document: the model built from any grammatical tree in which nothing is declared twice is
      rendered successfully (scalar_params: a scalar parameter type token is not spelled `list`/`map`, which
      the lexer guarantees by assigning those spellings to the container token) *)
Theorem C01_rendering_succeeds : forall src f,
  wf_file f -> distinct_decls f -> scalar_params f -> exists t, fst (print_model src (sem_file f)) = Ok t.
Proof. exact parsed_model_prints. Qed.

(* 2'. from the token stream: every stream the parser and the listener accept *)
Theorem C01_rendering_succeeds_for_accepted_streams : forall ts m exts modular,
  parse_walk ts = DOk m exts modular ->
  exists f, parse ts = Some f /\
    (Forall (fun t => tname t <> []) (f_types f) -> scalar_params f -> exists t, fst (print_model false m) = Ok t).
Proof.
  intros ts m exts modular H. unfold parse_walk in H.
  destruct (parse ts) as [f|] eqn:Ep; [|discriminate]. exists f. split; [reflexivity|].
  intros Hn Hs. pose proof (parse_wf ts f Ep) as Hwf.
  destruct (walk f) as [s| |] eqn:Ew; try discriminate. destruct (ls_errs s) eqn:Ee; [|discriminate]. inversion H; subst.
  pose proof (walk_accepts_only_distinct f s Hwf Hn Ew Ee) as Hd.
  destruct (walk_is_sem f Hwf Hd) as [s' [Ew' [_ Em]]]. rewrite Ew in Ew'. inversion Ew'; subst.
  rewrite Em. apply parsed_model_prints; assumption.
Qed.

(* 3. the JSON string API and the in-memory path see the same model: marshalling and unmarshalling a parsed
      rewrite changes nothing *)
Theorem C01_json_hop_is_identity_on_parsed_rewrites : forall e, json_userset (sem_elem e) = sem_elem e.
Proof. exact json_sem_elem. Qed.

Theorem C01_json_idempotent : forall u, json_userset (json_userset u) = json_userset u.
Proof.
  induction u using userset_ind'; simpl; try reflexivity.
  - f_equal. rewrite map_map. apply map_ext_in. intros x Hx. rewrite Forall_forall in H. auto.
  - f_equal. rewrite map_map. apply map_ext_in. intros x Hx. rewrite Forall_forall in H. auto.
  - congruence.
Qed.

(* 4. the round trip at the level of parse trees: for every grammatical relation definition d, the text printed
      for its model is the canonical rendering of a grammatical definition d' with the same denotation — what
      the parser produces is already in the printer's normal form, so nothing is reordered or collapsed on the
      way.  (The step from the rendering of d' back to d' — parse (lex (render d')) = d' — is observed, not
      mechanised.) *)
Theorem C01_parsed_is_in_normal_form : forall d, wf_rdef d = true -> normalize (sem_rdef d) = sem_rdef d.
Proof. exact parsed_is_normal. Qed.

Theorem C01_tree_round_trip : forall d refs,
  wf_rdef d = true -> refs_ok refs ->
  exists t, print_top (sem_rdef d) refs = Some (t, count_direct (sem_rdef d)) /\ t = render_rdef (rdef_of refs (sem_rdef d)) /\ wf_rdef (rdef_of refs (sem_rdef d)) = true /\ sem_rdef (rdef_of refs (sem_rdef d)) = sem_rdef d.
Proof. exact parsed_printed_parsed. Qed.

(* 5. the first clause of the property from the TEXT, no hypothesis left: whenever ParseDSL accepts a document, the
      returned model renders — with or without source information.  (Type names are never empty and a scalar
      parameter type is never spelled list/map because of what the lexer model emits and because the parser's
      tokens are tokens of its input: Proofs/ParserTokens.v.) *)
Theorem C01_every_accepted_document_renders : forall src d m exts md,
  dsl_to_model d = DOk m exts md -> exists t, fst (print_model src m) = Ok t.
Proof. exact accepted_text_prints. Qed.

Theorem C01_accepted_document_is_its_denotation : forall d m exts md,
  dsl_to_model d = DOk m exts md ->
  exists f, parse (fst (Lexer.lex (Lexer.prepass d))) = Some f /\ wf_file f /\ distinct_decls f /\ m = sem_file f /\ scalar_params f.
Proof. exact accepted_text. Qed.

(* the round trip of one relation definition, characters included: DSL -> model -> DSL -> model gives the same
   rewrite and the same restrictions ([plain_ref], [plain_u]: every name is a plain identifier that no literal rule
   of the lexer claims) *)
Theorem C01_relation_definition_round_trip : forall d refs,
  wf_rdef d = true -> refs <> [] -> Forall plain_ref refs -> plain_u (sem_rdef d) ->
  exists t,
    print_top (sem_rdef d) refs = Some (t, count_direct (sem_rdef d)) /\
    snd (Model.Lexer.lex (t ++ [10])) = [] /\
    exists first op rest k,
      p_def (S (depth_def (rd_first (rdef_of refs (sem_rdef d))) (rd_rest (rdef_of refs (sem_rdef d))))) true (fst (Model.Lexer.lex (t ++ [10])))
        = Some ((first, op, rest), k) /\
      map tk k = [NEWLINE] /\
      sem_rdef {| rd_first := first; rd_op := op; rd_rest := rest |} = sem_rdef d /\
      restrictions_elem first = (if (count_direct (sem_rdef d) =? 0)%nat then None else Some refs).
Proof. exact parsed_relation_round_trip. Qed.

(* ... and of the whole relation LINE "    define <name>: <definition>" between the line feeds of the document: the
   parser model's relation-declaration rule (optional comment, NEWLINE, DEFINE, name, COLON, definition) returns a
   declaration with the same name, rewrite and restrictions *)
Theorem C01_relation_line_round_trip : forall ty rel d meta,
  let refs := rm_types_of meta in
  wf_rdef d = true -> refs <> [] -> Forall plain_ref refs -> plain_u (sem_rdef d) -> plain_name rel = true ->
  exists t,
    print_relation ty rel (sem_rdef d) meta false = Ok t /\
    snd (Model.Lexer.lex ([10] ++ t ++ [10])) = [] /\
    exists r k,
      p_reldecl (fst (Model.Lexer.lex ([10] ++ t ++ [10]))) = Some (r, k) /\
      map tk k = [NEWLINE] /\
      ttext (rl_name r) = rel /\
      sem_rdef (rl_def r) = sem_rdef d /\
      restrictions_elem (rd_first (rl_def r)) = (if (count_direct (sem_rdef d) =? 0)%nat then None else Some refs).
Proof. exact parsed_declaration_round_trip. Qed.

(* ... and of the whole DOCUMENT.  (a) The text: pre-pass, lexer model, parser model and listener model, run on the
   characters of a canonical document (header, type blocks, relation lines; plain names), return the denotation of its
   syntax tree — no hypothesis on how the text was produced. *)
Theorem C01_canonical_document_is_accepted : forall v ts,
  std_version v = true -> Forall type_lex_ok ts -> Forall type_ok ts -> distinct_decls (doc_file v ts) ->
  exists exts md, dsl_to_model (text_of (ctoks_doc v ts) ++ [10]) = DOk (sem_file (doc_file v ts)) exts md.
Proof. exact canonical_document_accepted. Qed.

(* (b) the pre-pass strips exactly the closing line feed of such a text: no line of it is a comment, holds " #" or ends
   with a blank *)
Theorem C01_prepass_on_canonical_text : forall v ts,
  std_version v = true -> Forall type_lex_ok ts ->
  Model.Lexer.prepass (text_of (ctoks_doc v ts) ++ [10]) = text_of (ctoks_doc v ts).
Proof. exact canonical_document_prepass. Qed.

(* (c) model -> DSL -> model: what the printer model writes for a covered model is such a text, and reading it gives the
   model in canonical form (relations in name order, rewrites normalised) *)
Theorem C01_printed_document_reads_back : forall m, model_ok m ->
  exists t exts md, fst (print_model false m) = Ok t /\ dsl_to_model t = DOk (reparsed m) exts md.
Proof. exact printed_model_reads_back. Qed.
Theorem C01_reread_model_is_canonical : forall m, model_ok m ->
  reparsed m = {| m_schema := m_schema m; m_types := map canon_td (m_types m); m_conds := [] |}.
Proof. exact reparsed_is_canonical. Qed.

(* (d) the third clause: for a covered model whose rewrites are in the printer's normal form, printing the re-read model
   gives the same BYTES as printing the model, and re-reading changes the model no further *)
Theorem C01_second_round_is_stable : forall m, model_ok m -> normal_model m ->
  fst (print_model false (reparsed m)) = fst (print_model false m) /\ reparsed (reparsed m) = reparsed m.
Proof. exact second_round_is_stable. Qed.

(* (e) ALL THREE CLAUSES from the text: whenever the DSL pipeline accepts a document and the model it returns is covered
   (no conditions, no module information, plain names, restrictions where a direct assignment is), the model renders, the
   rendering is accepted and gives the model in canonical form (the same relations as a map, C02_canonical_form_is_the_same_map),
   and rendering that model gives the same bytes again *)
Theorem C01_three_rounds : forall d m exts md,
  dsl_to_model d = DOk m exts md -> model_ok m ->
  exists t1 exts1 md1,
    fst (print_model false m) = Ok t1 /\ dsl_to_model t1 = DOk (reparsed m) exts1 md1 /\
    fst (print_model false (reparsed m)) = Ok t1 /\ reparsed (reparsed m) = reparsed m.
Proof. exact accepted_document_three_rounds. Qed.

(* Properties/C01.v — DSL -> model -> DSL -> model is the identity.  Statements only. *)
From Verif Require Import Base.Str Base.Outcome Model.Ast Model.Transform.

(* the JSON hop only normalises the representation of `this` and is idempotent *)
Theorem C01_json_idempotent : forall u, json_userset (json_userset u) = json_userset u.
Proof.
  induction u using userset_ind'; simpl; try reflexivity.
  - f_equal. rewrite map_map. apply map_ext_in. intros x Hx. rewrite Forall_forall in H. auto.
  - f_equal. rewrite map_map. apply map_ext_in. intros x Hx. rewrite Forall_forall in H. auto.
  - congruence.
Qed.

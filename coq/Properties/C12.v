(* Properties/C12.v — module merge is deterministic and independent of file order.  Statements only.
   After the repair F5 the Go function ranges over no map whose order can reach its result; accordingly
   [merge] takes the list of files and the schema version and nothing else — no iteration-order argument
   exists to quantify over.  That the code really has none left is what the correspondence under repeated
   invocation and under every permutation of small file lists checks on each run; independence of the
   *file order* (verdict, and model up to type order) is checked there as well and is not a theorem. *)
From Verif Require Import Base.Str Base.Outcome Model.Ast Model.Merge Proofs.MergeProofs.

Theorem C12_function_of_the_list : forall fs fs' v v', fs = fs' -> v = v' -> merge fs v = merge fs' v'.
Proof. intros; subst; reflexivity. Qed.

(* the order of the returned errors is fixed: collecting errors come first, in file order, and extension
   conflicts are appended after them, never interleaved or dropped *)
Theorem C12_error_order : forall exts all_lines raw errs raw' errs',
  apply_all exts all_lines raw errs = Some (raw', errs') -> exists more, errs' = errs ++ more.
Proof. exact apply_all_errs. Qed.

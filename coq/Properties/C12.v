(* Properties/C12.v — module merge is deterministic and independent of file order.  Statements only. *)
From Verif Require Import Base.Str Base.Outcome Model.Ast Model.Merge.

(* [merge] is a Gallina function of the list of files and the schema version alone: it takes no
   iteration-order argument (after the repair F5 the Go code ranges over no map whose order can
   reach the result), so equal inputs give equal outcomes *)
Theorem C12_function_of_the_list : forall fs fs' v v', fs = fs' -> v = v' -> merge fs v = merge fs' v'.
Proof. intros; subst; reflexivity. Qed.

(* Properties/C12.v — module merge is deterministic and independent of file order.  Statements only.
   After the repair F5 the Go function ranges over no map whose order can reach its result; accordingly
   [merge] takes the list of files and the schema version and nothing else — no iteration-order argument
   exists to quantify over.  That the code really has none left is what the correspondence under repeated
   invocation and under every permutation of small file lists checks on each run.  Proved (3-4): permuting
   the list of files never changes whether the merge succeeds — "conflict-free" (Spec/MergeSpec.v) is
   invariant under permutation and merge succeeds exactly on conflict-free sets (Proofs/MergeIff.v).  Proved (6-7,
   Proofs/MergeContent.v): a successful merge of a permuted list returns the same model up to the order of the
   type definitions and the enumeration order of maps — same schema, the type names are a permutation, every
   type reads back the same module and file, every relation the same rewrite and the same metadata, every
   condition the same definition (Go maps are association lists in the model, so equality of all lookups is
   equality of the maps). *)
From Coq Require Import Permutation.
From Verif Require Import Base.Str Base.Outcome Model.Ast Model.Merge Spec.MergeSpec Spec.MergeObs Proofs.MergeProofs Proofs.MergeIff Proofs.MergeContent Proofs.MergeWf.

Theorem C12_function_of_the_list : forall fs fs' v v', fs = fs' -> v = v' -> merge fs v = merge fs' v'.
Proof. intros; subst; reflexivity. Qed.

(* the order of the returned errors is fixed: collecting errors come first, in file order, and extension
   conflicts are appended after them, never interleaved or dropped *)
Theorem C12_error_order : forall exts all_lines raw errs raw' errs',
  apply_all exts all_lines raw errs = Some (raw', errs') -> exists more, errs' = errs ++ more.
Proof. exact apply_all_errs. Qed.

(* 3. "conflict-free" does not depend on the order of the files *)
Theorem C12_conflict_free_is_order_free : forall fs fs', Permutation fs fs' -> conflict_free fs -> conflict_free fs'.
Proof. exact conflict_free_perm. Qed.

(* 4. hence neither does the verdict of the merge *)
Theorem C12_verdict_independent_of_file_order : forall fs fs' v,
  wf_modules fs -> Permutation fs fs' -> ((exists m, merge fs v = Ok m) <-> (exists m', merge fs' v = Ok m')).
Proof. exact merge_success_order_independent. Qed.

(* 5. for every list of files with distinct names, no hypothesis about the parser left *)
Theorem C12_verdict_independent_of_file_order_for_all_files : forall fs fs' v,
  NoDup (map mf_name fs) -> Permutation fs fs' -> ((exists m, merge fs v = Ok m) <-> (exists m', merge fs' v = Ok m')).
Proof. exact merge_order_unconditional. Qed.

(* 6. on success, permuting the files changes nothing but the order of the type definitions *)
Theorem C12_result_independent_of_file_order : forall fs fs' v m m',
  wf_modules fs -> Permutation fs fs' -> merge fs v = Ok m -> merge fs' v = Ok m' ->
  m_schema m = m_schema m' /\
  Permutation (map td_name (m_types m)) (map td_name (m_types m')) /\
  (forall T, type_attr (m_types m) T = type_attr (m_types m') T) /\
  (forall T r, rel_body (m_types m) T r = rel_body (m_types m') T r /\
               (rel_body (m_types m) T r <> None -> rel_attr (m_types m) T r = rel_attr (m_types m') T r)) /\
  (forall n, assoc n (m_conds m) = assoc n (m_conds m')).
Proof. exact merge_content_order_independent. Qed.

(* 7. the same for every list of files with distinct names *)
Theorem C12_result_independent_of_file_order_for_all_files : forall fs fs' v m m',
  NoDup (map mf_name fs) -> Permutation fs fs' -> merge fs v = Ok m -> merge fs' v = Ok m' ->
  m_schema m = m_schema m' /\
  Permutation (map td_name (m_types m)) (map td_name (m_types m')) /\
  (forall T, type_attr (m_types m) T = type_attr (m_types m') T) /\
  (forall T r, rel_body (m_types m) T r = rel_body (m_types m') T r /\
               (rel_body (m_types m) T r <> None -> rel_attr (m_types m) T r = rel_attr (m_types m') T r)) /\
  (forall n, assoc n (m_conds m) = assoc n (m_conds m')).
Proof. exact merge_content_order_unconditional. Qed.

(* "the same ... on every invocation": the merge and the parser entry point it calls keep nothing between invocations —
   no package-level variable of the hand-written packages holds data (run/gen_globals.py -> Gen/Globals.v, regenerated
   from the working tree on every run) *)
From Verif Require Import Gen.Globals.
Theorem C12_no_state_between_invocations : stateful_globals = [].
Proof. vm_compute. reflexivity. Qed.

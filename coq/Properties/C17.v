(* Properties/C17.v — plain graph: reversible, stable, dual paths.  Statements only; proofs in
   Proofs/PGraphProofs.v.  [pbuild] and [reversed] transcribe graph_builder.go and Reversed() (after the
   repair F7) over a model of gonum's multigraph with sequential IDs (Model/PGraph.v).  THE STRUCTURE (last
   theorem, Proofs/PBuilderShape.v): for every model in [pshape_domain] (no relation declared twice, no name that
   reads as an operator node) and every relation, the lines entering "type#relation" and each operator node
   created for it — as (label of the source node, kind, tupleset label, conditions), in line order — are exactly
   the lists Spec/PGraphShape.pshape computes from the rewrite alone: "the same nodes and typed edges as the rewrite
   dictates, drawn from user types towards relations". *)
From Coq Require Import Permutation.
From Verif Require Import Base.Str Base.Outcome Model.Ast Model.Printer Model.WGraph Model.PGraph Spec.GraphShape Spec.PGraphShape
  Proofs.PGraphProofs Proofs.BfsProofs Proofs.BuilderShape Proofs.PBuilderShape Proofs.BuilderNodes Proofs.PBuilderNodes.

(* 1. reversing keeps the nodes (IDs and labels) and negates the drawing direction, for every graph *)
Theorem C17_reverse_keeps_nodes : forall g,
  pg_nodes (reversed g) = pg_nodes g /\ pg_listobjects (reversed g) = negb (pg_listobjects g).
Proof. intros; split; reflexivity. Qed.

(* 2. and its lines are exactly the flipped lines (kind, tupleset label and conditions untouched), for every graph *)
Theorem C17_reverse_flips_every_line : forall g,
  Permutation (map no_id (pg_lines (reversed g))) (map (fun l => no_id (flip l)) (pg_lines g)).
Proof. exact reversed_lines_perm. Qed.

(* 3. every graph the builder makes has line IDs 0,1,2,... in insertion order, for every model ... *)
Theorem C17_builder_ids : forall m, ids_sequential (pbuild m).
Proof. exact pbuild_ids_sequential. Qed.

(* ... and on such graphs Reversed() flips every line in place, so reversing twice gives back the identical
   graph — hence the identical DOT rendering — whatever the model *)
Theorem C17_involution : forall m, reversed (reversed (pbuild m)) = pbuild m.
Proof. exact pbuild_reverse_twice. Qed.
Theorem C17_dot_after_double_reversal : forall m, dot_lines (reversed (reversed (pbuild m))) = dot_lines (pbuild m).
Proof. intros m. rewrite pbuild_reverse_twice. reflexivity. Qed.

(* 4. a path leads from a to b in the graph exactly when one leads from b to a in the reversed graph *)
Theorem C17_path_duality : forall m x y,
  path (pg_lines (pbuild m)) x y <-> path (pg_lines (reversed (pbuild m))) y x.
Proof. exact pbuild_path_duality. Qed.

(* 4'. path queries are sound and complete, for every graph: PathExists (the breadth-first closure of the start
       node in Model/PGraph.v) answers true exactly when a path of lines leads from the first label's node to the
       second's, false exactly when none does, and gives no answer exactly when a label is unknown; hence the
       answers in a built graph and in its reversal mirror each other *)
Theorem C17_path_queries_sound_and_complete : forall g a b x y,
  find_pnode a g = Some x -> find_pnode b g = Some y ->
  (path_exists g a b = Some true <-> path (pg_lines g) (pn_id x) (pn_id y)) /\
  (path_exists g a b = Some false <-> ~ path (pg_lines g) (pn_id x) (pn_id y)).
Proof. exact path_exists_spec. Qed.

Theorem C17_path_query_unanswered_iff_unknown_label : forall g a b,
  path_exists g a b = None <-> find_pnode a g = None \/ find_pnode b g = None.
Proof. exact path_exists_none. Qed.

Theorem C17_path_query_duality : forall m a b,
  path_exists (pbuild m) a b = path_exists (reversed (pbuild m)) b a.
Proof.
  intros m a b.
  assert (Hf : forall l, find_pnode l (reversed (pbuild m)) = find_pnode l (pbuild m)) by reflexivity.
  destruct (find_pnode a (pbuild m)) as [x|] eqn:Ea, (find_pnode b (pbuild m)) as [y|] eqn:Eb.
  - destruct (path_exists_spec (pbuild m) a b x y Ea Eb) as [T1 F1].
    destruct (path_exists_spec (reversed (pbuild m)) b a y x) as [T2 F2]; [rewrite Hf; exact Eb|rewrite Hf; exact Ea|].
    pose proof (pbuild_path_duality m (pn_id x) (pn_id y)) as D.
    destruct (path_exists (pbuild m) a b) as [[|]|] eqn:E1.
    + symmetry. apply T2. apply D. apply T1. reflexivity.
    + symmetry. apply F2. intros P. apply D in P. apply (proj1 F1 eq_refl). exact P.
    + apply path_exists_none in E1. destruct E1; congruence.
  - transitivity (@None bool); [apply path_exists_none; auto|]. symmetry. apply path_exists_none. left. rewrite Hf. exact Eb.
  - transitivity (@None bool); [apply path_exists_none; auto|]. symmetry. apply path_exists_none. right. rewrite Hf. exact Ea.
  - transitivity (@None bool); [apply path_exists_none; auto|]. symmetry. apply path_exists_none. right. rewrite Hf. exact Ea.
Qed.

(* 5. the DOT content is a function of the model alone: [pbuild] takes no ULID supply and no iteration order
      (operator nodes are labelled by their operator; their unique labels never reach the DOT content) *)
Theorem C17_dot_is_a_function_of_the_model : forall m m', m = m' -> dot_lines (pbuild m) = dot_lines (pbuild m').
Proof. intros; subst; reflexivity. Qed.

(* non-vacuity: a model with a direct and a tuple-to-userset line between the same two nodes (parallel lines) *)
Example C17_parallel_lines :
  let refs := [{| rr_type := lit "doc"; rr_kind := RRel (lit "v"); rr_cond := [] |}] in
  let td := {| td_name := lit "doc";
               td_rels := [(lit "p", UThis ThisEmpty); (lit "v", UUnion [UThis ThisEmpty; UTTU (lit "p") (lit "v")])];
               td_meta := Some {| tm_rels := [(lit "p", {| rm_types := [{| rr_type := lit "doc"; rr_kind := RPlain; rr_cond := [] |}]; rm_module := []; rm_file := None |});
                                              (lit "v", {| rm_types := refs; rm_module := []; rm_file := None |})];
                                  tm_module := []; tm_file := None |} |} in
  let g := pbuild {| m_schema := lit "1.1"; m_types := [td]; m_conds := [] |} in
  length (pg_lines g) = 4%nat /\ reversed (reversed g) = g.
Proof. split; vm_compute; reflexivity. Qed.

(* 6. THE STRUCTURE of the plain graph, relation by relation *)
Theorem C17_graph_has_the_lines_the_rewrites_dictate : forall m,
  pshape_domain m = true ->
  forall td r u, In td (m_types m) -> assoc r (td_rels td) = Some u ->
  exists k, let '(l, created, k') := pshape (pty_of (pbuild m)) m td r k (td_name td ++ lit "#" ++ r) u [] in
            entries (pbuild m) (td_name td ++ lit "#" ++ r) = l /\
            (forall olab es, In (olab, es) created -> entries (pbuild m) olab = es) /\ k' <= pg_ops (pbuild m).
Proof. exact pbuild_shape. Qed.

(* one rewrite below one parent: the lines entering the parent, the operator nodes created with the lines entering
   them, the operator count — and nothing else changes *)
Theorem C17_one_rewrite : forall ty m td rel u g p plabel,
  WF g -> find_pnode plabel g = Some p -> pfresh g -> pold g plabel ->
  Forall nonop (req_ids td rel u) -> pty_ok ty (p_rewrite g p m td rel u) ->
  presult_ok g (p_rewrite g p m td rel u) plabel (pshape ty m td rel (pg_ops g) plabel u (entries g plabel)).
Proof. intros ty m td rel u. exact (p_rewrite_shape ty m td rel u). Qed.

(* non-vacuity: the model with parallel lines above is in the domain; what enters doc#v is the union operator, and
   what enters the union operator are the direct line from doc#v and the tuple-to-userset line from doc#v *)
Example C17_structure_example :
  let refs := [{| rr_type := lit "doc"; rr_kind := RRel (lit "v"); rr_cond := [] |}] in
  let td := {| td_name := lit "doc";
               td_rels := [(lit "p", UThis ThisEmpty); (lit "v", UUnion [UThis ThisEmpty; UTTU (lit "p") (lit "v")])];
               td_meta := Some {| tm_rels := [(lit "p", {| rm_types := [{| rr_type := lit "doc"; rr_kind := RPlain; rr_cond := [] |}]; rm_module := []; rm_file := None |});
                                              (lit "v", {| rm_types := refs; rm_module := []; rm_file := None |})];
                                  tm_module := []; tm_file := None |} |} in
  let m := {| m_schema := lit "1.1"; m_types := [td]; m_conds := [] |} in
  pshape_domain m = true /\
  entries (pbuild m) (lit "doc#v") = [(lit "union:0", ERewrite, [], [no_cond])] /\
  entries (pbuild m) (lit "union:0") = [(lit "doc#v", EDirect, [], [no_cond]); (lit "doc#v", ETTU, lit "doc#p", [no_cond])].
Proof. cbv zeta. split; [vm_compute; reflexivity|]. split; vm_compute; reflexivity. Qed.

(* 7. LABEL LOOK-UP, for every model: a label that is found is one the model names (a type, a defined relation, the
      target of a type restriction of a direct assignment, a computed userset, the parent relation of a
      tuple-to-userset that the parent type defines) or an operator label below the operator count; every label the
      model names is found *)
Theorem C17_label_lookup : forall m ul,
  (find_pnode ul (pbuild m) <> None -> In ul (pexact_ids m) \/ is_opnode (pg_ops (pbuild m)) ul) /\
  (In ul (pexact_ids m) -> find_pnode ul (pbuild m) <> None).
Proof. exact label_lookup. Qed.

Theorem C17_node_inventory : forall m,
  (forall n, In n (pg_nodes (pbuild m)) -> In (pn_ulabel n) (pexact_ids m) \/ is_opnode (pg_ops (pbuild m)) (pn_ulabel n)) /\
  (forall ul, In ul (pexact_ids m) -> find_pnode ul (pbuild m) <> None) /\
  (forall j, j < pg_ops (pbuild m) -> exists op, In op op_names /\ find_pnode (op_id op j) (pbuild m) <> None).
Proof. exact pbuild_nodes. Qed.

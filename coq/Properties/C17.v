(* Properties/C17.v — plain graph.  Statements only. *)
From Verif Require Import Base.Str Model.WGraph Model.PGraph.

Theorem C17_reverse_keeps_nodes : forall g, pg_nodes (reversed g) = pg_nodes g /\ pg_listobjects (reversed g) = negb (pg_listobjects g).
Proof. intros; split; reflexivity. Qed.

(* Properties/C09.v — structurally invalid DSL is always rejected, wherever the defect occurs.
   Statements only; proofs in Proofs/ListenerFile.v.  The "equivalently" form of the property is the one
   proved: whenever the listener accepts a grammatical document, every declaration is reflected — no
   relation, condition or parameter is declared twice, `extend` stands only in module files and at most
   once per type.  (The grammar-level violations — mixed operators, misplaced or empty direct
   assignment, wildcard with relation, headers, container types — are syntax errors of the parser model
   and are exercised by the injection catalogue of the check.) *)
From Verif Require Import Base.Str Base.Outcome Model.Ast Model.Token Model.Parser Model.Listener
  Spec.Sem Proofs.ListenerSem Proofs.ListenerFile Proofs.ParserShape Model.Transform
  Model.Merge Proofs.ParserTokens Proofs.MergeWf.

(* 1. a relation name that is repeated inside one type (anywhere in the list) raises an error *)
Theorem C09_duplicate_relation : forall modular ext module_ tyname rs,
  Forall (fun r => wf_rdef (rl_def r) = true) rs ->
  forall rels meta errs rels' meta' errs',
  (~ NoDup (map rname rs) \/ exists r, In r rs /\ assoc (rname r) rels <> None) ->
  walk_reldecls modular ext module_ tyname rs rels meta errs = Ok (rels', meta', errs') ->
  errs' <> errs.
Proof. exact walk_reldecls_duplicate. Qed.

(* 2. `extend` in a model file, and a type extended twice in one file, raise an error *)
Theorem C09_extend_in_model : forall t s s',
  ty_extend t = true -> ls_modular s = false -> walk_typedecl t s = Ok s' -> ls_errs s' <> ls_errs s.
Proof. exact walk_typedecl_extend_in_model. Qed.
Theorem C09_extended_twice : forall t s s',
  ty_extend t = true -> ls_modular s = true -> tname t <> [] -> assoc (tname t) (ls_exts s) <> None ->
  walk_typedecl t s = Ok s' -> ls_errs s' <> ls_errs s.
Proof. exact walk_typedecl_extended_twice. Qed.

(* 3. the whole document: acceptance implies that nothing is declared twice, at whatever position *)
Theorem C09_reflected : forall f s,
  wf_file f -> Forall (fun t => tname t <> []) (f_types f) ->
  walk f = Ok s -> ls_errs s = [] -> distinct_decls f.
Proof. exact walk_accepts_only_distinct. Qed.

(* 4. and then the returned model is exactly the denotation of the document: every declaration is in it *)
Theorem C09_accepted_model_is_the_document : forall f s,
  wf_file f -> Forall (fun t => tname t <> []) (f_types f) ->
  walk f = Ok s -> ls_errs s = [] -> model_of s = sem_file f.
Proof.
  intros f s Hwf Hn Hw He.
  destruct (walk_is_sem f Hwf (walk_accepts_only_distinct f s Hwf Hn Hw He)) as [s' [Hw' [_ Hm]]].
  rewrite Hw in Hw'. inversion Hw'; subst. exact Hm.
Qed.

(* 4'. the same from the token stream: if parser and listener accept, the model is the denotation of the
       parsed tree and nothing in the tree is declared twice *)
Theorem C09_accepted_stream : forall ts m exts modular,
  parse_walk ts = DOk m exts modular ->
  exists f, parse ts = Some f /\ wf_file f /\
            (Forall (fun t => tname t <> []) (f_types f) -> distinct_decls f /\ m = sem_file f).
Proof.
  intros ts m exts modular H. unfold parse_walk in H.
  destruct (parse ts) as [f|] eqn:Ep; [|discriminate].
  exists f. split; [reflexivity|]. pose proof (parse_wf ts f Ep) as Hwf. split; [exact Hwf|].
  intros Hn. destruct (walk f) as [s| |] eqn:Ew; try discriminate.
  destruct (ls_errs s) eqn:Ee; [|discriminate]. inversion H; subst.
  split; [eapply walk_accepts_only_distinct; eauto|].
  eapply C09_accepted_model_is_the_document; eauto.
Qed.

(* the shape of every accepted relation definition: one operator kind per parenthesis level, exactly one
   operand after `but not`, a direct assignment only as the leading operand *)
Theorem C09_shape : forall ts f, parse ts = Some f ->
  Forall (fun t => Forall (fun r => wf_rdef (rl_def r) = true) (ty_rels t)) (f_types f).
Proof. exact parse_wf. Qed.

(* 5. two operands with no operator between them never denote a rewrite *)
Theorem C09_no_operator_no_rewrite : forall a b r, parse_expression (a :: b :: r) ONone = None.
Proof. reflexivity. Qed.

(* 6. from the text, with no hypothesis left: whenever a DSL document is accepted, the returned model is the
      denotation of a grammatical parse tree in which nothing is declared twice — every declaration is reflected.
      (Names are never empty because every token the lexer produces has a non-empty text and the parser's name
      tokens are tokens of its input: Proofs/ParserTokens.v.) *)
Theorem C09_accepted_text_is_reflected : forall d m exts modular,
  dsl_to_model d = DOk m exts modular ->
  exists f, wf_file f /\ distinct_decls f /\ m = sem_file f /\ ttext (header_tok (f_header f)) <> [].
Proof. exact accepted_is_sem. Qed.

(* CHARACTERS INCLUDED, for canonical documents (model header, type blocks, relation lines; plain names): if such a document
   declares the same relation twice in a type — or otherwise fails [distinct_decls] — the pre-pass, the lexer model, the
   parser model and the listener model, run on its text, return no model *)
From Verif Require Import Spec.DocDomain Model.Lexer Proofs.LexRender Proofs.DocLex Proofs.DocParse Proofs.DocChars Proofs.DocReject.
Theorem C09_canonical_document_with_a_duplicate_is_rejected : forall v ts,
  std_version v = true -> Forall type_lex_ok ts -> Forall type_ok ts -> ~ distinct_decls (doc_file v ts) ->
  forall m exts md, dsl_to_model (text_of (ctoks_doc v ts) ++ [10]) <> DOk m exts md.
Proof. exact canonical_document_with_a_duplicate_is_rejected. Qed.

(* the same in EVERY LAYOUT with the same tokens — any run of blanks and tabs for a blank, any line break (indentation,
   blank lines) for a line break — and for every text the pre-pass turns into such a layout (comment lines, trailing
   comments, trailing blanks): wherever the duplicate stands and however the document is laid out, no model is returned *)
Theorem C09_every_layout_with_a_duplicate_is_rejected : forall v ts L d,
  std_version v = true -> Forall type_lex_ok ts -> Forall type_ok ts -> ~ distinct_decls (doc_file v ts) ->
  Forall2 relay (kts (ctoks_doc v ts)) L -> prepass d = concat (map snd L) ->
  forall m exts md, dsl_to_model d <> DOk m exts md.
Proof. exact every_layout_with_a_duplicate_is_rejected. Qed.

(* Properties/C09.v — structurally invalid DSL is always rejected.  Statements only. *)
From Verif Require Import Base.Str Base.Outcome Model.Ast Model.Token Model.Parser Model.Listener.

(* two operands with no operator between them never denote a rewrite *)
Theorem C09_no_operator_no_rewrite : forall a b r, parse_expression (a :: b :: r) ONone = None.
Proof. reflexivity. Qed.

(* Properties/C13.v — pure functions: inputs untouched.  Statements only.
   In the models a function that could write through its argument returns the argument as it is after
   the call; these frame theorems say it is unchanged.  It is immediate for the repaired code (the
   printer sorts a clone, F6) — its weight lies in the correspondence, which compares the
   argument-after-call observable of the implementation with the model on every call (printer, both
   graph builders, merge; the other models are functions of immutable values and have no such output).  History
   independence and data-race freedom are not theorems (DESIGN.md: partial by nature). *)
From Verif Require Import Base.Str Base.Outcome Model.Ast Model.Printer.

Theorem C13_printer_frame : forall b m, snd (print_model b m) = m_types m.
Proof. intros b m. reflexivity. Qed.


(* Properties/C13.v — pure functions: inputs untouched.  Statements only.
   In the models a function that could write through its argument returns the argument as it is after
   the call; these frame theorems say it is unchanged.  They are immediate for the repaired code (the
   printer sorts a clone, F6) — their weight lies in the correspondence, which compares the
   argument-after-call observable of the implementation with the model on every call.  History
   independence and data-race freedom are not theorems (DESIGN.md: partial by nature). *)
From Verif Require Import Base.Str Base.Outcome Model.Ast Model.Printer Model.WGraph Model.PGraph Model.Merge.

Theorem C13_printer_frame : forall b m, snd (print_model b m) = m_types m.
Proof. intros b m. reflexivity. Qed.

(* the builders and the merge are functions of immutable values: they have no way to return a changed input;
   stated for completeness as equalities of the inputs before and after *)
Theorem C13_builders_frame : forall m : model, (fun _ => m) (wbuild m) = m /\ (fun _ => m) (pbuild m) = m.
Proof. intros; split; reflexivity. Qed.

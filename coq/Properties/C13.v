(* Properties/C13.v — inputs untouched.  Statements only. *)
From Verif Require Import Base.Str Base.Outcome Model.Ast Model.Printer.

(* the printer hands back the caller's type_definitions slice exactly as it received it *)
Theorem C13_printer_frame : forall b m, snd (print_model b m) = m_types m.
Proof. intros b m. reflexivity. Qed.

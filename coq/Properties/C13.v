(* Properties/C13.v — pure functions: inputs untouched.  Statements only.
   In the models a function that could write through its argument returns the argument as it is after
   the call; these frame theorems say it is unchanged.  It is immediate for the repaired code (the
   printer sorts a clone, F6) — its weight lies in the correspondence, which compares the
   argument-after-call observable of the implementation with the model on every call (printer, both
   graph builders, merge; the other models are functions of immutable values and have no such output).  History
   independence and data-race freedom are not theorems (DESIGN.md: partial by nature). *)
From Verif Require Import Base.Str Base.Outcome Model.Ast Model.Printer.

Theorem C13_printer_frame : forall b m, snd (print_model b m) = m_types m.
Proof. intros b m. reflexivity. Qed.


(* History independence, the part that is a fact about the source text: outside the generated ANTLR packages (whose
   prediction caches the history checks exercise) no call can leave data behind for the next one, because there is no
   package-level variable that could hold it — the list of package-level variables of pkg/go/transformer, graph,
   validation, utils and errors is regenerated from the working tree on every run (run/gen_globals.py -> Gen/Globals.v):
   all of them are error sentinels or interface assertions.  A memo table, a cache, a counter added at package level
   breaks this obligation. *)
From Coq Require Import Lia.
From Verif Require Import Gen.Globals.
Theorem C13_no_package_level_state : stateful_globals = [] /\ (5 <= length package_vars)%nat.
Proof. split; [vm_compute; reflexivity|vm_compute; lia]. Qed.

(* ... and the graph-builder objects, which a caller may keep and reuse, have exactly the fields of the pinned tree: the
   embedded gonum builder and the drawing direction / the label index that NewAuthorizationModelGraph creates afresh for
   every call.  A cache field added to a builder breaks this obligation. *)
Theorem C13_builders_have_no_cache_field :
  builder_fields =
    [(lit "WeightedAuthorizationModelGraphBuilder", lit "DirectedMultigraphBuilder");
     (lit "WeightedAuthorizationModelGraphBuilder", lit "drawingDirection");
     (lit "AuthorizationModelGraphBuilder", lit "DirectedMultigraphBuilder");
     (lit "AuthorizationModelGraphBuilder", lit "ids")].
Proof. vm_compute. reflexivity. Qed.

(* Properties/C03.v — every grammatical layout parses, and to exactly the model written.
   Statements only; proofs in Proofs/ListenerSem.v and Proofs/ListenerFile.v.
   [walk] is the transcription of OpenFgaDslListener (Model/Listener.v); [sem_*] (Spec/Sem.v) is the
   denotation of a parse tree written without any stack.  Layout never reaches the listener: parse
   trees carry no WHITESPACE/NEWLINE/comment tokens (Model/Parser.v drops them), so these theorems
   hold for every layout of the same tree; that the lexer/parser model agrees with the generated
   ANTLR parser on every rendered layout is the correspondence part of the check.  The last theorem makes
   "grammatical" exact for relation definitions: [wf_rdef] is not only an upper bound of what the parser model
   returns (Proofs/ParserShape.parse_wf) but every such tree IS returned, for its canonical token sequence, at any
   nesting depth — so the theorems above quantify over exactly the trees the parser can produce. *)
From Verif Require Import Spec.DocDomain Base.Str Base.Outcome Model.Ast Model.Token Model.Parser Model.Listener
  Spec.Sem Proofs.ListenerSem Proofs.ListenerFile Proofs.ParserShape Proofs.ParserComplete Model.Lexer Model.Transform Proofs.LexRender
  Proofs.DeclRoundTrip Proofs.DocLex Proofs.DocParse Proofs.DocNatural Proofs.DocChars Proofs.DocSem Proofs.DocRoundTrip Proofs.LexPartition Proofs.DocLayout Proofs.PrepassText Proofs.LayoutPrepass Proofs.DocLayoutPrepass.

(* 1. a non-leading operand (a rewrite or a parenthesised group, nested to any depth) appends exactly its
      denotation and leaves the pending operator, the restrictions and the rewrite stack as they were *)
Theorem C03_operand : forall e, wf_operand e = true -> forall s,
  walk_elem e s = Ok (st (rewrites s ++ [sem_elem e]) (operator s) (typeinfo s) (stack s)).
Proof. exact walk_operand. Qed.

(* 2. a whole relation definition: the listener's final ParseExpression is the denotation of the tree, the
      restrictions are those of its direct assignment, the stack is empty again *)
Theorem C03_relation : forall d, wf_rdef d = true ->
  exists s, walk_rdef d = Ok s /\
            parse_expression (rewrites s) (operator s) = Some (sem_rdef d) /\
            typeinfo s = (match restrictions_elem (rd_first d) with Some r => r | None => [] end) /\
            stack s = [].
Proof. exact walk_rdef_sem. Qed.

(* 3. a whole document (model or module file): no error and exactly the model written — same types in
      order, same rewrite trees, same restrictions in order, same conditions and parameter types *)
Theorem C03_listener_is_sem : forall f, wf_file f -> distinct_decls f ->
  exists s, walk f = Ok s /\ ls_errs s = [] /\ model_of s = sem_file f.
Proof. exact walk_is_sem. Qed.

(* 4. whatever token stream the parser model accepts, its tree is grammatical (one operator kind per
      parenthesis level, one operand after `but not`, direct assignment only in leading position), so 1-3 apply
      to every accepted document *)
Theorem C03_parser_sound : forall ts f, parse ts = Some f -> wf_file f.
Proof. exact parse_wf. Qed.

(* non-vacuity: a nested definition with redundant parentheses, `(a or (b and c)) but not d` *)
Example C03_example :
  let t := fun s => {| tk := IDENTIFIER; ttext := s; tline := 1; tcol := 0 |} in
  let a := ERewrite (t (lit "a")) None in let b := ERewrite (t (lit "b")) None in
  let c := ERewrite (t (lit "c")) None in let d := ERewrite (t (lit "d")) None in
  let def := {| rd_first := EGroup false a OOr [EGroup true b OAnd [c]]; rd_op := OButNot; rd_rest := [EGroup true d ONone []] |} in
  wf_rdef def = true /\
  sem_rdef def = UDiff (UUnion [UComputed (lit "a"); UInter [UComputed (lit "b"); UComputed (lit "c")]]) (UComputed (lit "d")).
Proof. split; reflexivity. Qed.

(* parser exactness for relation definitions: every grammatical definition whose name tokens have identifier kinds
   is the parse of its canonical token sequence (one space around operators and after commas, no line breaks),
   whatever follows it as long as that does not start with white space *)
Theorem C03_every_grammatical_definition_is_parsed : forall d k,
  wf_rdef d = true -> toks_ok (rd_first d) -> toks_ok_all (rd_rest d) -> stops k ->
  p_def (S (depth_def (rd_first d) (rd_rest d))) true (toks_def (rd_first d) (rd_op d) (rd_rest d) ++ k)
  = Some ((rd_first d, rd_op d, rd_rest d), k).
Proof. exact parser_complete_for_definitions. Qed.

(* 6. ... and for WHOLE DOCUMENTS (model header, type blocks, relation lines; no conditions): the parser model returns the
      tree for its canonical token sequence, with or without the closing line break *)
Theorem C03_every_grammatical_document_is_parsed : forall v ts e,
  tk v = SCHEMA_VERSION -> Forall type_ok ts -> e = [] \/ e = [nl] ->
  parse (toks_doc_end v ts e) = Some {| f_header := HModel v; f_types := ts; f_conds := [] |}.
Proof. exact parse_complete_end. Qed.

(* 7. the parser reads token KINDS only, on whole documents (conditions and module headers included): relabelling the
      tokens — other texts, other positions, i.e. another layout with the same token kinds — commutes with parsing *)
Theorem C03_document_parser_reads_kinds_only : forall (g : tok -> tok), (forall t, tk (g t) = tk t) ->
  forall ts, parse (map g ts) = option_map (file_map g) (parse ts).
Proof. exact parse_map. Qed.

(* 8. characters included, for the canonical layout: the pre-pass, the lexer model, the parser model and the listener model
      accept the text of a canonical document (plain names) and return exactly the denotation of the tree that was written *)
Theorem C03_canonical_layout_yields_the_model_written : forall v ts,
  std_version v = true -> Forall type_lex_ok ts -> Forall type_ok ts -> distinct_decls (doc_file v ts) ->
  exists exts md, dsl_to_model (text_of (ctoks_doc v ts) ++ [10]) = DOk (sem_file (doc_file v ts)) exts md.
Proof. exact canonical_document_accepted. Qed.

(* 9. whatever the layout: the tokens of an error-free lexing PARTITION the text — concatenated in order they are the
      input, nothing is dropped and nothing duplicated, through every mode switch *)
Theorem C03_tokens_partition_the_text : forall s,
  snd (lex_all s) = [] -> concat (map ttext (fst (lex_all s))) = s.
Proof. exact lex_all_partition. Qed.

(* 10. EVERY LAYOUT WITH THE SAME TOKENS, characters included.  [relay] (Proofs/LexFit.v) relates two token lists that
       differ only in the texts of their WHITESPACE tokens (any non-empty run of blanks and tabs) and of their NEWLINE
       tokens (a line feed, then any line feeds, blanks and tabs: indentation, blank lines).  For every such re-layout [L]
       of the canonical tokens of a document the lexer model returns exactly [L], without error, and the parser model the
       tree that was written *)
Theorem C03_every_layout_lexes_to_its_tokens_and_parses : forall v ts L,
  std_version v = true -> Forall type_lex_ok ts -> Forall type_ok ts ->
  Forall2 relay (kts (ctoks_doc v ts)) L ->
  let s := concat (map snd L) in
  snd (lex s) = [] /\
  map (fun t => (tk t, ttext t)) (fst (lex s)) = L /\
  exists f', parse (fst (lex s)) = Some f' /\ file_map forget2 f' = doc_file v ts.
Proof. exact every_layout_reads_back. Qed.

(* 11. ... and every text [d] that the pre-pass turns into such a layout (so: besides indentation and blank lines also comment
       lines, trailing comments and trailing blanks) is accepted and yields exactly the model written *)
Theorem C03_every_layout_yields_the_model_written : forall v ts L d,
  std_version v = true -> Forall type_lex_ok ts -> Forall type_ok ts -> distinct_decls (doc_file v ts) ->
  Forall2 relay (kts (ctoks_doc v ts)) L -> prepass d = concat (map snd L) ->
  exists exts md, dsl_to_model d = DOk (sem_file (doc_file v ts)) exts md.
Proof. exact every_layout_accepted. Qed.

(* 12. the same with a decidable domain and computable texts — what the extracted model evaluates on every run (wire op 209):
       the document written for a covered model with the run [w] for every blank and the line break [n] for every line
       break denotes the model in canonical form *)
Theorem C03_every_layout_decidable : forall w n m, layout_okb w n m = true ->
  exists exts md, dsl_to_model (layout_text w n m ++ [10]) = DOk (canonical m) exts md.
Proof. exact every_layout_decidable. Qed.

(* 13. NO HYPOTHESIS ABOUT THE PRE-PASS LEFT: for every re-layout [L] whose line breaks hold no blank directly in front of a
       line feed ([nl_clean]: blank lines are empty), the text of [L] followed by a line feed is accepted and yields exactly the
       model written.  (Proofs/PrepassText.prepass_id: the pre-pass is the identity on a text without a blank or line feed in
       front of '#' and without a blank in front of a line feed; Proofs/LayoutPrepass.v: fitting tokens in which '#' only
       follows a name make such a text; Proofs/DocLayoutPrepass.good_doc: the canonical tokens are such a sequence.) *)
Theorem C03_every_clean_layout_yields_the_model_written : forall v ts L,
  std_version v = true -> Forall type_lex_ok ts -> Forall type_ok ts -> distinct_decls (doc_file v ts) ->
  Forall2 relay (kts (ctoks_doc v ts)) L -> nl_clean L ->
  exists exts md, dsl_to_model (concat (map snd L) ++ [10]) = DOk (sem_file (doc_file v ts)) exts md.
Proof. exact every_clean_layout_accepted. Qed.

(* 14. for the document of a covered model (decidable: [model_okb]), written with ANY run [w] of blanks and tabs for every blank
       and ANY line break [n] without a blank in front of a line feed for every line break *)
Theorem C03_every_clean_layout_of_a_printed_model : forall w n m,
  model_okb m = true -> ws_run w = true -> nl_text n = true -> haspair 32 10 n = false ->
  exists exts md, dsl_to_model (layout_text w n m ++ [10]) = DOk (canonical m) exts md.
Proof. exact every_clean_layout_of_a_printed_model. Qed.

(* Properties/C03.v — every grammatical layout parses, and to exactly the model written.
   Statements only. *)
From Verif Require Import Base.Str Base.Outcome Model.Ast Model.Token Model.Parser Model.Listener.

(* a parenthesised single operand denotes the operand itself, whatever operator is pending *)
Theorem C03_single_operand : forall x op, parse_expression [x] op = Some x.
Proof. intros x op; reflexivity. Qed.

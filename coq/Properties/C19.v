(* Properties/C19.v — Go, JS and Java parsers are generated from the one grammar.
   All statements are about the constants the translator re-extracts from /repo on every run
   (Gen/Atn.v, Gen/Vocab.v); they are finite and proved by computation. *)
From Verif Require Import Base.Str Gen.Atn Gen.Vocab Proofs.ListEq.

(* the serialized lexer automaton is the same sequence of numbers in the three packages and in
   the three .interp files *)
Theorem C19_lexer_atn_equal :
  go_lexer_atn = js_lexer_atn /\ go_lexer_atn = java_lexer_atn /\
  go_lexer_atn = go_lexer_interp_atn /\ go_lexer_atn = js_lexer_interp_atn /\ go_lexer_atn = java_lexer_interp_atn.
Proof. repeat split; apply str_eqb_true; vm_compute; reflexivity. Qed.

Theorem C19_parser_atn_equal :
  go_parser_atn = js_parser_atn /\ go_parser_atn = java_parser_atn /\
  go_parser_atn = go_parser_interp_atn /\ go_parser_atn = js_parser_interp_atn /\ go_parser_atn = java_parser_interp_atn.
Proof. repeat split; apply str_eqb_true; vm_compute; reflexivity. Qed.

(* rule-name tables: the lexer rules of the three packages are, in order, the rules written in
   OpenFGALexer.g4, and the parser rules those of OpenFGAParser.g4 *)
Theorem C19_lexer_rules :
  go_lexer_rules = g4_lexer_rules /\ js_lexer_rules = g4_lexer_rules /\ java_lexer_rules = g4_lexer_rules /\
  go_lexer_interp_rules = g4_lexer_rules /\ js_lexer_interp_rules = g4_lexer_rules /\ java_lexer_interp_rules = g4_lexer_rules.
Proof. repeat split; apply lstr_eqb_eq; vm_compute; reflexivity. Qed.

Theorem C19_parser_rules :
  go_parser_rules = g4_parser_rules /\ js_parser_rules = g4_parser_rules /\ java_parser_rules = g4_parser_rules /\
  go_parser_interp_rules = g4_parser_rules /\ js_parser_interp_rules = g4_parser_rules /\ java_parser_interp_rules = g4_parser_rules.
Proof. repeat split; apply lstr_eqb_eq; vm_compute; reflexivity. Qed.

(* token vocabulary: same numbering and spelling in the three packages (lexer and parser tables),
   and the set of token names is the one OpenFGALexer.g4 declares *)
Theorem C19_token_vocabulary :
  go_lexer_symbolic = js_lexer_symbolic /\ go_lexer_symbolic = java_lexer_symbolic /\
  go_lexer_literal = js_lexer_literal /\ go_lexer_literal = java_lexer_literal /\
  go_parser_symbolic = go_lexer_symbolic /\ js_parser_symbolic = go_lexer_symbolic /\ java_parser_symbolic = go_lexer_symbolic /\
  go_parser_literal = go_lexer_literal /\ js_parser_literal = go_lexer_literal /\ java_parser_literal = go_lexer_literal /\
  go_token_names_sorted = g4_token_names_sorted /\ js_token_names_sorted = g4_token_names_sorted /\
  java_token_names_sorted = g4_token_names_sorted.
Proof. repeat split; apply lstr_eqb_eq; vm_compute; reflexivity. Qed.

(* every Enter/Exit method defined on the Go listener names a rule of the grammar *)
Theorem C19_callbacks : forall r, In r listener_callback_rules -> In r g4_parser_rules.
Proof. apply all_in_spec. vm_compute. reflexivity. Qed.

(* why equality of the automata suffices: whatever the (shared) ANTLR interpretation of an
   automaton is, the three packages interpret the same automaton *)
Theorem C19_same_language : forall (T : Type) (interp : list N -> list N -> str -> T) (input : str),
  interp go_lexer_atn go_parser_atn input = interp js_lexer_atn js_parser_atn input /\
  interp go_lexer_atn go_parser_atn input = interp java_lexer_atn java_parser_atn input.
Proof.
  intros T interp input.
  destruct C19_lexer_atn_equal as [H1 [H2 _]]. destruct C19_parser_atn_equal as [H3 [H4 _]].
  rewrite <- H1, <- H2, <- H3, <- H4. split; reflexivity.
Qed.

(* Properties/C08.v — no public entry point panics.  Statements only; proofs in Proofs/TotalityProofs.v,
   WGraphProofs.v, WeightsProofs.v, ModFileProofs.v.
   PARTIAL BY NATURE.  These theorems establish that the modelled control flow never reaches one of the
   panic sites the models name (index into an empty rewrite stack, write to the nil extension map,
   GetGenericTypes()[0], nil metadata dereference).  That the models name every panic site of the Go code
   is supported by the correspondence (PANIC is an observable of every harness call) over mutation
   fuzzing and degenerate protobuf models — testing, not proof.  Running time (the quadratic bound) is
   outside any Gallina model: it is measured on scaled inputs, and the cubic lexing of form-feed runs is
   known finding K-C08-formfeed.  ANTLR's error recovery (prefix trees) is not modelled: a syntax error is
   a rejection in the model; panics inside recovered trees were the defect F3, repaired, and are
   exercised by the fuzzing stream only. *)
From Verif Require Import Base.Str Base.Outcome Model.Ast Model.Token Model.Lexer Model.Parser Model.Listener
  Model.Printer Model.Transform Model.ModFile Model.WGraph Model.WWeights Spec.Sem
  Model.Merge Spec.MergeSpec Proofs.TotalityProofs Proofs.WGraphProofs Proofs.WeightsProofs Proofs.ModFileProofs Proofs.MergeIff Proofs.MergeWf.

(* the DSL printer, on any protobuf shape *)
Theorem C08_printer_total : forall src m, is_panic (fst (print_model src m)) = false.
Proof. exact print_model_no_panic. Qed.
Theorem C08_param_total : forall c p, is_panic (print_param c p) = false.
Proof.
  intros c [name [n gen]]. unfold print_param.
  destruct (str_eqb (type_name_string n) (lit "list") || str_eqb (type_name_string n) (lit "map")); [|reflexivity].
  destruct gen as [|[g gs] r]; reflexivity.
Qed.

(* the listener on every grammatical tree, and ParseDSL on every text *)
Theorem C08_listener_total : forall f, wf_file f -> is_panic (walk f) = false.
Proof. exact walk_no_panic. Qed.
Theorem C08_parse_total : forall d, match dsl_to_model d with DPanic _ => False | _ => True end.
Proof. exact dsl_to_model_no_panic. Qed.

(* a lexer, parser or listener error is always reported: a model is returned only when there was none *)
Theorem C08_errors_void : forall d m exts md, dsl_to_model d = DOk m exts md ->
  snd (lex (prepass d)) = [] /\ exists f s, parse (fst (lex (prepass d))) = Some f /\ walk f = Ok s /\ ls_errs s = [].
Proof. exact dsl_errors_void. Qed.

(* both stages of the weighted graph, whatever the model and the traversal order *)
Theorem C08_builder_total : forall m, is_panic (wbuild m) = false.
Proof. exact wbuild_no_panic. Qed.
Theorem C08_weights_total : forall o m, is_panic (build_weighted o m) = false.
Proof. exact build_weighted_no_panic. Qed.

(* fga.mod on any node shapes *)
Theorem C08_modfile_total : forall schema contents, is_panic (transform_mod schema contents) = false.
Proof. exact transform_mod_total. Qed.

(* the module merge, on every list of files as the parser delivers them (distinct file names, no nil metadata —
   the decidable [wf_modulesb], evaluated on every generated set): no nil dereference in either phase *)
Theorem C08_merge_total : forall fs v, wf_modules fs -> is_panic (merge fs v) = false.
Proof. intros fs v H. apply merge_total; [intros f _; apply dsl_to_model_no_panic|exact H]. Qed.

Theorem C08_merge_total_for_all_files : forall fs v, NoDup (map mf_name fs) -> is_panic (merge fs v) = false.
Proof. exact merge_total_unconditional. Qed.

(* "A syntax error in the input is always reported": for the lexer, by counting — every character of the input is in
   exactly one token or is reported as exactly one lexer error, for every input and through every mode switch; a
   character no rule accepts cannot disappear silently *)
From Verif Require Import Proofs.LexPartition.
Theorem C08_every_character_is_a_token_or_an_error : forall s,
  (length (concat (map ttext (fst (lex_all s)))) + length (snd (lex_all s)) = length s)%nat.
Proof. exact lex_all_accounts_for_every_character. Qed.

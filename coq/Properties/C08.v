(* Properties/C08.v — totality.  Statements only. *)
From Verif Require Import Base.Str Base.Outcome Model.Ast Model.Printer.

(* printing a condition parameter never panics: a list/map parameter without element type is an error *)
Theorem C08_param_total : forall c p, is_panic (print_param c p) = false.
Proof.
  intros c [name [n gen]]. unfold print_param.
  destruct (str_eqb (type_name_string n) (lit "list") || str_eqb (type_name_string n) (lit "map")); [|reflexivity].
  destruct gen as [|[g gs] r]; reflexivity.
Qed.

(* Properties/C18.v — tuple-field validators accept only unambiguously decomposable strings.
   Statements only; proofs are in Proofs/ValidateProofs.v (over Proofs/RegexFacts.v).
   [validate_*] are the model's validators, built from the rule strings and function shapes the
   translator reads out of validation-rules.go on every run; [None] would mean "a pattern the
   model cannot parse" and is excluded by every statement. *)
From Verif Require Import Base.Str Model.Regex Gen.Rules Model.Validate Spec.ValidateSpec
  Proofs.RegexFacts Proofs.ValidateProofs.

(* 1. Each validator decides exactly its character-level specification, for every string. *)
Theorem C18_type_exact : forall s, validate_type s = Some (spec_type s).
Proof. exact validate_type_exact. Qed.
Theorem C18_relation_exact : forall s, validate_relation s = Some (spec_relation s).
Proof. exact validate_relation_exact. Qed.
Theorem C18_condition_exact : forall s, validate_condition s = Some (spec_condition s).
Proof. exact validate_condition_exact. Qed.
Theorem C18_object_id_exact : forall s, validate_object_id s = Some (spec_id s).
Proof. exact validate_object_id_exact. Qed.
Theorem C18_object_exact : forall s, validate_object s = Some (spec_object s).
Proof. exact validate_object_exact. Qed.
Theorem C18_user_object_exact : forall s, validate_user_object s = Some (spec_object s).
Proof. exact validate_user_object_exact. Qed.
Theorem C18_user_set_exact : forall s, validate_user_set s = Some (spec_userset s).
Proof. exact validate_user_set_exact. Qed.
Theorem C18_user_wildcard_exact : forall s, validate_user_wildcard s = Some (spec_wildcard s).
Proof. exact validate_user_wildcard_exact. Qed.
Theorem C18_user_exact : forall s, validate_user s = Some (spec_user s).
Proof. exact validate_user_exact. Qed.

(* 2. Length limits are enforced exactly; types and relations contain none of : # @ * and no
      whitespace. *)
Theorem C18_type_chars : forall s,
  validate_type s = Some true <->
  (1 <= length s <= 254)%nat /\ none_of [58; 35; 64; 42] s /\ no_ws s.
Proof. intros s. rewrite validate_type_exact. unfold spec_type. rewrite <- type_chars.
       split; [intros H; injection H; auto | intros ->; reflexivity]. Qed.
Theorem C18_relation_chars : forall s,
  validate_relation s = Some true <->
  (1 <= length s <= 50)%nat /\ none_of [58; 35; 64; 42] s /\ no_ws s.
Proof. intros s. rewrite validate_relation_exact. unfold spec_relation. rewrite <- type_chars.
       split; [intros H; injection H; auto | intros ->; reflexivity]. Qed.
Theorem C18_condition_length : forall s,
  validate_condition s = Some true -> (1 <= length s <= 50)%nat.
Proof. intros s. rewrite validate_condition_exact. intros H; injection H as H.
       apply andb_true_iff in H as [H _]. apply len_in_iff in H. lia. Qed.
Theorem C18_object_length : forall s,
  validate_object s = Some true -> (2 <= length s <= 256)%nat /\ no_ws s.
Proof. intros s. rewrite validate_object_exact. intros H; injection H as H.
       apply andb_true_iff in H as [_ H]. apply andb_true_iff in H as [H1 H2].
       apply len_in_iff in H1. split; [lia|].
       apply forallb_Forall in H2. eapply Forall_impl; [|exact H2].
       intros c Hc. apply negb_true_iff in Hc. exact Hc. Qed.
Theorem C18_id_no_ws : forall s, validate_object_id s = Some true -> no_ws s.
Proof. intros s. rewrite validate_object_id_exact. intros H; injection H as H.
       apply id_no_ws; assumption. Qed.

(* 3. Unambiguous decomposition. *)
Theorem C18_object_split : forall s,
  validate_object s = Some true ->
  count_char 58 s = 1%nat /\
  exists t i, s = t ++ [58] ++ i /\ validate_type t = Some true /\ validate_object_id i = Some true.
Proof.
  intros s. rewrite validate_object_exact. intros H; injection H as H.
  destruct (object_split s H) as (Hc & t & i & -> & Ht & Hi).
  split; [exact Hc|]. exists t, i. rewrite validate_type_exact, validate_object_id_exact, Ht, Hi. auto.
Qed.
Theorem C18_userset_split : forall s,
  validate_user_set s = Some true ->
  count_char 58 s = 1%nat /\ count_char 35 s = 1%nat /\
  exists t i r, s = t ++ [58] ++ i ++ [35] ++ r /\ validate_type t = Some true /\
                validate_object_id i = Some true /\ validate_relation r = Some true.
Proof.
  intros s. rewrite validate_user_set_exact. intros H; injection H as H.
  destruct (userset_split s H) as (Hc & Hh & t & i & r & -> & Ht & Hi & Hr).
  split; [exact Hc|]. split; [exact Hh|]. exists t, i, r.
  rewrite validate_type_exact, validate_object_id_exact, validate_relation_exact, Ht, Hi, Hr. auto.
Qed.
Theorem C18_user_exclusive : forall s,
  validate_user s = Some true ->
  (validate_user_set s = Some true /\ validate_object s = Some false /\ validate_user_wildcard s = Some false) \/
  (validate_user_set s = Some false /\ validate_object s = Some true /\ validate_user_wildcard s = Some false) \/
  (validate_user_set s = Some false /\ validate_object s = Some false /\ validate_user_wildcard s = Some true).
Proof.
  intros s. rewrite validate_user_exact, validate_user_set_exact, validate_object_exact, validate_user_wildcard_exact.
  intros H; injection H as H.
  destruct (user_exclusive s H) as [(-> & -> & ->)|[(-> & -> & ->)|(-> & -> & ->)]]; auto.
Qed.

(* 4. The rule strings of the Go, JS and Java packages are identical (finite: by computation on
      the strings the translator extracted from the three sources). *)
Theorem C18_rules_identical : go_rules = js_rules /\ go_rules = java_rules.
Proof. exact rules_identical. Qed.

(* non-vacuity: the hypotheses above are met by concrete strings *)
Example C18_ex_userset : validate_user_set (lit "group:eng#member") = Some true.
Proof. vm_compute; reflexivity. Qed.
Example C18_ex_object : validate_object (lit "document:2021-budget") = Some false /\ validate_object (lit "document:roadmap") = Some true.
Proof. split; vm_compute; reflexivity. Qed.
Example C18_ex_wildcard : validate_user (lit "user:*") = Some true.
Proof. vm_compute; reflexivity. Qed.

(* Properties/C06.v — the weighted graph is a deterministic function of the model.  Statements only.
   The transcribed algorithm has exactly one schedule, the depth-first start order, as an argument; Go's
   other map ranges iterate weight maps whose order is fixed in the model (assumed not to reach the
   result; sampled by repetition on every run).  Proved: the result does not depend on the order in which
   the model lists its type definitions; refuted (kernel-computed witness): on a cyclic model that is not
   well-founded it does depend on the start order (known finding K-WG-cycles).  Proved (4-5): on every graph
   without cycles the weights do not depend on the start order at all — both orders give the order-free
   specification of Spec/GraphWeights.v (Proofs/DagWeights.v).  Independence of the start order on
   well-founded models WITH tuple cycles is not proved; it is checked on every run over explicit orders. *)
From Coq Require Import Permutation.
From Verif Require Import Base.Str Base.Outcome Model.Ast Model.Printer Model.WGraph Model.WWeights
  Spec.GraphWeights Proofs.WeightsProofs Proofs.Witnesses Proofs.GraphPrims Proofs.DagWeights Proofs.DagCheck Proofs.BuilderFresh Proofs.DagModel.

(* 1. permuting the type definitions of the model changes nothing: same unweighted graph, hence same outcome
      for every start order *)
Theorem C06_type_order : forall (m : model) ts',
  NoDup (map td_name (m_types m)) -> Permutation (m_types m) ts' ->
  wbuild m = wbuild {| m_schema := m_schema m; m_types := ts'; m_conds := m_conds m |}.
Proof. exact wbuild_types_order. Qed.
Theorem C06_type_order_weights : forall o (m : model) ts',
  NoDup (map td_name (m_types m)) -> Permutation (m_types m) ts' ->
  build_weighted o m = build_weighted o {| m_schema := m_schema m; m_types := ts'; m_conds := m_conds m |}.
Proof. exact build_weighted_types_order. Qed.

(* 2. same model, same start order: same outcome (the model function has no other input) *)
Theorem C06_function_of_model_and_order : forall o o' m m', o = o' -> m = m' -> build_weighted o m = build_weighted o' m'.
Proof. intros; subst; reflexivity. Qed.

(* 3. refuted: the start order reaches the verdict on a cyclic model that is not well-founded *)
Theorem C06_order_refuted :
  exists m o1 o2, is_ok (build_weighted (Some o1) m) <> is_ok (build_weighted (Some o2) m).
Proof.
  exists m_order, o_insertion, o_other. rewrite m_order_rejected, m_order_accepted. discriminate.
Qed.

(* 4. no cycle: every start order gives the same weights on every node both orders start from (all of them,
      when the orders enumerate the nodes as AssignWeights does) *)
Theorem C06_acyclic_order_independent : forall g0 rank o1 o2 g1 g2,
  ranked_by g0 rank -> terminals_not_placeholders g0 -> unweighted g0 ->
  assign_weights o1 g0 = Ok g1 -> assign_weights o2 g0 = Ok g2 ->
  forall x, In x o1 -> In x o2 -> is_terminal (n_type (node_of g0 x)) = false ->
    n_weights (node_of g1 x) = n_weights (node_of g2 x) /\ map ev (edges_from g1 x) = map ev (edges_from g2 x).
Proof. exact dag_order_independent. Qed.

(* 5. from the model, with the decidable hypothesis *)
Theorem C06_acyclic_model_order_independent : forall m g o1 o2 g1 g2,
  wbuild m = Ok g -> dag_check g = true ->
  build_weighted o1 m = Ok g1 -> build_weighted o2 m = Ok g2 ->
  forall x, In x (order_used o1 g) -> In x (order_used o2 g) -> is_terminal (n_type (node_of g x)) = false ->
    n_weights (node_of g1 x) = n_weights (node_of g2 x).
Proof. exact acyclic_model_order_independent. Qed.

(* 6. for graphs the builder made *)
Theorem C06_built_graph_order_independent : forall m g, wbuild m = Ok g -> acyclic_check g = true ->
  forall o1 o2 g1 g2, build_weighted o1 m = Ok g1 -> build_weighted o2 m = Ok g2 ->
  forall x, In x (order_used o1 g) -> In x (order_used o2 g) -> is_terminal (n_type (node_of g x)) = false ->
    n_weights (node_of g1 x) = n_weights (node_of g2 x).
Proof. exact built_order_independent. Qed.

(* the same tie as Properties/C11.v (11): a store that shares a backing array makes the result depend on which of two
   nodes appends first, i.e. on map iteration order *)
From Verif Require Import Gen.Sites.
Theorem C06_no_store_shares_a_list_or_map : aliasing_stores = [] /\ (12 <= length store_sites)%nat.
Proof. split; [vm_compute; reflexivity|vm_compute; repeat constructor]. Qed.

(* determinism across calls on one builder object and across goroutines: nothing outside the arguments can influence a
   build — no package-level variable holds data and the builder has no cache field (run/gen_globals.py -> Gen/Globals.v,
   regenerated from the working tree on every run) *)
From Verif Require Import Gen.Globals.
Theorem C06_no_state_outside_the_arguments :
  stateful_globals = [] /\
  filter (fun p => str_eqb (fst p) (lit "WeightedAuthorizationModelGraphBuilder")) builder_fields =
    [(lit "WeightedAuthorizationModelGraphBuilder", lit "DirectedMultigraphBuilder");
     (lit "WeightedAuthorizationModelGraphBuilder", lit "drawingDirection")].
Proof. split; vm_compute; reflexivity. Qed.

(* "reordering the operands of a union or intersection changes no relation's weights": the weights an operator node gets are
   a symmetric function of its operand edges — any permutation of the edge weight maps gives the same weight for every type
   (union/plain relation: maximum; intersection: the types every edge has; exclusion: symmetric in the base edges).  With
   C04_*_strategy_is_the_code these are the maps the assignment stores. *)
From Coq Require Import Permutation.
From Verif Require Import Proofs.StrategyProofs Proofs.OperandOrder.
Theorem C06_union_operand_order : forall ws ws' k,
  Permutation ws ws' -> Forall (fun w => NoDup (keys w)) ws -> wget k (max_weights ws) = wget k (max_weights ws').
Proof. exact union_operand_order. Qed.
Theorem C06_intersection_operand_order : forall first rest first' rest' k,
  Permutation (first :: rest) (first' :: rest') -> NoDup (keys first) -> NoDup (keys first') ->
  wget k (enforce_weights first rest) = wget k (enforce_weights first' rest').
Proof. exact intersection_operand_order. Qed.
Theorem C06_exclusion_base_order : forall init init' last_w k,
  Permutation init init' -> Forall (fun w => NoDup (keys w)) init -> NoDup (keys last_w) ->
  wget k (raise_only (max_weights init) last_w) = wget k (raise_only (max_weights init') last_w).
Proof. exact exclusion_base_order. Qed.

(* ... and on the property's own definition of weights (Spec/Weights.v, on the MODEL): two models that differ only in the order
   of the operands of unions and intersections — at any nesting depth, in any number of relations ([perm_model]) — give every
   relation the same depth for every user type *)
From Verif Require Import Spec.Weights Proofs.SpecOperandOrder.
Theorem C06_operand_order_on_the_model : forall m m', perm_model m m' ->
  forall ty rel k, wget k (spec_of m ty rel) = wget k (spec_of m' ty rel).
Proof. exact spec_of_operand_order. Qed.

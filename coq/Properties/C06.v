(* Properties/C06.v — the weighted graph is a deterministic function of the model.  Statements only.
   The transcribed algorithm has exactly one schedule, the depth-first start order, as an argument; Go's
   other map ranges iterate weight maps whose order is fixed in the model (assumed not to reach the
   result; sampled by repetition on every run).  Proved: the result does not depend on the order in which
   the model lists its type definitions; refuted (kernel-computed witness): on a cyclic model that is not
   well-founded it does depend on the start order (known finding K-WG-cycles).  Independence of the start
   order on well-founded models is not proved; it is checked on every run over explicit orders. *)
From Coq Require Import Permutation.
From Verif Require Import Base.Str Base.Outcome Model.Ast Model.Printer Model.WGraph Model.WWeights
  Proofs.WeightsProofs Proofs.Witnesses.

(* 1. permuting the type definitions of the model changes nothing: same unweighted graph, hence same outcome
      for every start order *)
Theorem C06_type_order : forall (m : model) ts',
  NoDup (map td_name (m_types m)) -> Permutation (m_types m) ts' ->
  wbuild m = wbuild {| m_schema := m_schema m; m_types := ts'; m_conds := m_conds m |}.
Proof. exact wbuild_types_order. Qed.
Theorem C06_type_order_weights : forall o (m : model) ts',
  NoDup (map td_name (m_types m)) -> Permutation (m_types m) ts' ->
  build_weighted o m = build_weighted o {| m_schema := m_schema m; m_types := ts'; m_conds := m_conds m |}.
Proof. exact build_weighted_types_order. Qed.

(* 2. same model, same start order: same outcome (the model function has no other input) *)
Theorem C06_function_of_model_and_order : forall o o' m m', o = o' -> m = m' -> build_weighted o m = build_weighted o' m'.
Proof. intros; subst; reflexivity. Qed.

(* 3. refuted: the start order reaches the verdict on a cyclic model that is not well-founded *)
Theorem C06_order_refuted :
  exists m o1 o2, is_ok (build_weighted (Some o1) m) <> is_ok (build_weighted (Some o2) m).
Proof.
  exists m_order, o_insertion, o_other. rewrite m_order_rejected, m_order_accepted. discriminate.
Qed.

(* Proofs/PrinterComments.v — asking for source information never changes whether (and with which error) the
   printer succeeds: the two outputs of one model are both texts or the same error (C14). *)
From Verif Require Import Base.Str Base.Outcome Model.Ast Model.Printer.

Definition same_verdict {A} (a b : outcome A perr) : Prop :=
  match a, b with
  | Ok _, Ok _ => True
  | Err e, Err e' => e = e'
  | Panic w, Panic w' => w = w'
  | _, _ => False
  end.

Lemma print_relation_verdict ty rel u meta : same_verdict (print_relation ty rel u meta true) (print_relation ty rel u meta false).
Proof.
  unfold print_relation. destruct (print_top u (rm_types_of meta)) as [[t n]|]; [|reflexivity].
  destruct ((n =? 0)%nat || ((n =? 1)%nat && is_first_position u)); reflexivity.
Qed.

Lemma print_relations_verdict ty names rels meta :
  same_verdict (print_relations ty names rels meta true) (print_relations ty names rels meta false).
Proof.
  induction names as [|n names IH]; cbn [print_relations]; [exact I|].
  pose proof (print_relation_verdict ty n (match assoc n rels with Some u => u | None => UUnset end) (assoc n meta)) as H.
  destruct (print_relation ty n _ (assoc n meta) true) as [t1|e1|w1], (print_relation ty n _ (assoc n meta) false) as [t0|e0|w0];
    cbn in H; try contradiction; try (subst; reflexivity).
  destruct (print_relations ty names rels meta true) as [r1|e1|w1], (print_relations ty names rels meta false) as [r0|e0|w0];
    cbn in IH; try contradiction; try (subst; reflexivity). all: try exact I.
Qed.

Lemma print_type_verdict t modular : same_verdict (print_type t modular true) (print_type t modular false).
Proof.
  unfold print_type. destruct (td_rels t) as [|r0 rs]; [exact I|].
  match goal with |- context [print_relations ?a ?b ?c ?d true] => pose proof (print_relations_verdict a b c d) as H;
    destruct (print_relations a b c d true) as [r1|e1|w1], (print_relations a b c d false) as [r0'|e0|w0] end;
    cbn in H; try contradiction; try (subst; reflexivity). all: try exact I.
Qed.

Lemma print_types_verdict ts modular : same_verdict (print_types ts modular true) (print_types ts modular false).
Proof.
  induction ts as [|t ts IH]; cbn [print_types]; [exact I|].
  pose proof (print_type_verdict t modular) as H.
  destruct (print_type t modular true) as [x1|e1|w1], (print_type t modular false) as [x0|e0|w0]; cbn in H; try contradiction; try (subst; reflexivity).
  destruct (print_types ts modular true) as [l1|e1|w1], (print_types ts modular false) as [l0|e0|w0]; cbn in IH; try contradiction; try (subst; reflexivity).
  all: try exact I.
Qed.

Lemma print_condition_verdict k c : same_verdict (print_condition k c true) (print_condition k c false).
Proof.
  unfold print_condition. destruct (negb (str_eqb k (c_name c))); [reflexivity|].
  destruct (print_params (c_name c) (stable_sort pair_cmp (c_params c))); try reflexivity; try exact I.
Qed.

Lemma print_conditions_verdict cs : same_verdict (print_conditions cs true) (print_conditions cs false).
Proof.
  induction cs as [|[k c] cs IH]; cbn [print_conditions]; [exact I|].
  pose proof (print_condition_verdict k c) as H.
  destruct (print_condition k c true) as [x1|e1|w1], (print_condition k c false) as [x0|e0|w0]; cbn in H; try contradiction; try (subst; reflexivity).
  destruct (print_conditions cs true) as [l1|e1|w1], (print_conditions cs false) as [l0|e0|w0]; cbn in IH; try contradiction; try (subst; reflexivity).
  all: try exact I.
Qed.

Theorem print_model_verdict m : same_verdict (fst (print_model true m)) (fst (print_model false m)).
Proof.
  unfold print_model. cbn [fst].
  set (sorted := if is_modular_model m then stable_sort type_cmp (m_types m) else m_types m).
  pose proof (print_types_verdict sorted (is_modular_model m)) as H.
  destruct (print_types sorted (is_modular_model m) true) as [l1|e1|w1], (print_types sorted (is_modular_model m) false) as [l0|e0|w0];
    cbn in H; try contradiction; try (subst; reflexivity).
  pose proof (print_conditions_verdict (stable_sort cond_cmp (m_conds m))) as Hc.
  destruct (print_conditions _ true) as [c1|e1|w1], (print_conditions _ false) as [c0|e0|w0]; cbn in Hc; try contradiction; try (subst; reflexivity).
  all: try exact I.
Qed.

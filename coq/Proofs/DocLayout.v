(* Proofs/DocLayout.v — the every-layout theorem (Proofs/DocRoundTrip.every_layout_of_a_printed_model) with a DECIDABLE
   domain and COMPUTABLE texts, so that the extracted model can write, for a generated model, a document in another layout
   (a chosen run of blanks and tabs for every blank, a chosen line break for every line break), decide whether the theorem
   applies, and say which model the implementation must read from it (wire op 209). *)
From Coq Require Import Lia.
From Verif Require Import Spec.DocDomain Base.Str Base.Outcome Model.Ast Model.Token Model.Lexer Model.Printer Model.Transform
  Proofs.LexInversion Proofs.LexRender Proofs.DocChars Proofs.DocPrint Proofs.DocRoundTrip Proofs.DocDomainOk.

Definition layout_text (w n : str) (m : model) : str :=
  concat (map snd (map (relayout w n) (kts (ctoks_doc (m_schema m) (file_types m))))).

Definition layout_okb (w n : str) (m : model) : bool :=
  model_okb m && ws_run w && nl_text n && str_eqb (prepass (layout_text w n m ++ [10])) (layout_text w n m).

Theorem every_layout_decidable w n m : layout_okb w n m = true ->
  exists exts md, dsl_to_model (layout_text w n m ++ [10]) = DOk (canonical m) exts md.
Proof.
  unfold layout_okb. intros H. apply andb_prop in H. destruct H as [H Hp]. apply andb_prop in H. destruct H as [H Hn].
  apply andb_prop in H. destruct H as [Hm Hw]. apply str_eqb_eq in Hp.
  exact (every_layout_of_a_printed_model m _ _ (model_okb_ok m Hm) (relayout_relay w n _ Hw Hn) Hp).
Qed.
Print Assumptions every_layout_decidable.

(* non-vacuity: the example model of Proofs/DocRoundTrip.v with blank-tab-blank for every blank and, for every line break,
   two line feeds, a tab and a blank *)
Example layout_example : layout_okb [32; 9; 32] [10; 10; 9; 32] ex_model = true.
Proof. vm_compute. reflexivity. Qed.
Example layout_example_differs : layout_text [32; 9; 32] [10; 10; 9; 32] ex_model <> layout_text [32] [10] ex_model.
Proof. vm_compute. discriminate. Qed.

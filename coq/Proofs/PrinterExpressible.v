(* Proofs/PrinterExpressible.v — the printer succeeds exactly on expressible rewrites (C02). *)
From Coq Require Import Permutation.
From Verif Require Import Base.Str Base.Outcome Model.Ast Model.Printer Spec.Expressible.

Lemma is_this_is_direct u : is_this u = is_direct u.
Proof. destruct u as [| [|] | | | | |]; reflexivity. Qed.

(* ---- collect ---- *)
Definition cnt (o : option (str * nat)) : nat := match o with Some (_, n) => n | None => 0%nat end.
Definition all_some (l : list (option (str * nat))) : bool := forallb (fun o => match o with Some _ => true | None => false end) l.
Definition total (l : list (option (str * nat))) : nat := fold_right (fun o n => (cnt o + n)%nat) 0%nat l.

Lemma collect_some l : all_some l = true -> exists ts, collect l = Some (ts, total l).
Proof.
  induction l as [|[[t n]|] l IH]; simpl; intros H; try discriminate.
  - exists []; reflexivity.
  - destruct (IH H) as [ts E]. rewrite E. exists (t :: ts). reflexivity.
Qed.

Lemma collect_none l : all_some l = false -> collect l = None.
Proof.
  induction l as [|[[t n]|] l IH]; simpl; intros H; try discriminate; auto.
  rewrite (IH H). reflexivity.
Qed.

Lemma collect_inv l ts n : collect l = Some (ts, n) -> all_some l = true /\ n = total l.
Proof.
  destruct (all_some l) eqn:E.
  - destruct (collect_some l E) as [ts' E']. rewrite E'. intros H; inversion H; auto.
  - rewrite (collect_none l E). discriminate.
Qed.

Lemma all_some_perm l l' : Permutation l l' -> all_some l = all_some l'.
Proof.
  unfold all_some. induction 1; simpl; auto.
  - rewrite IHPermutation; reflexivity.
  - destruct x, y; reflexivity.
  - congruence.
Qed.

Lemma total_perm l l' : Permutation l l' -> total l = total l'.
Proof.
  unfold total. induction 1; simpl; lia.
Qed.

(* ---- prioritize is a permutation ---- *)
Lemma split_at_first_spec {A} (f : A -> bool) cs before b t a :
  split_at_first f cs before = Some (b, t, a) -> rev before ++ cs = b ++ t :: a.
Proof.
  revert before. induction cs as [|c cs IH]; simpl; intros before H; [discriminate|].
  destruct (f c).
  - inversion H; subst. reflexivity.
  - apply IH in H. simpl in H. rewrite <- app_assoc in H. exact H.
Qed.

Lemma prioritize_by_perm {A} (f : A -> bool) cs : Permutation (prioritize_by f cs) cs.
Proof.
  unfold prioritize_by. destruct (split_at_first f cs []) as [[[b t] a]|] eqn:E; [|reflexivity].
  apply split_at_first_spec in E. simpl in E. rewrite E.
  apply Permutation_middle.
Qed.

Lemma prioritize_by_nil {A} (f : A -> bool) cs : prioritize_by f cs = [] -> cs = [].
Proof.
  intros H. assert (P := prioritize_by_perm f cs). rewrite H in P.
  apply Permutation_nil in P. exact P.
Qed.

(* ---- the children helper of print_sub is a map ---- *)
Definition kid (rs : list relation_ref) (c : userset) : bool * option (str * nat) := (is_this c, print_sub rs c).

Lemma print_sub_union rs cs :
  print_sub rs (UUnion cs) =
  match collect (map snd (prioritize_by fst (map (kid rs) cs))) with
  | Some (l, n) => Some (lit "(" ++ join (lit " or ") l ++ lit ")", n)
  | None => None
  end.
Proof.
  simpl. replace ((fix kids (cs0 : list userset) := match cs0 with [] => [] | c :: r => (is_this c, print_sub rs c) :: kids r end) cs)
    with (map (kid rs) cs); [reflexivity|].
  induction cs as [|c cs IH]; simpl; [reflexivity|]. rewrite IH. reflexivity.
Qed.

Lemma print_sub_inter rs cs :
  print_sub rs (UInter cs) =
  match collect (map snd (prioritize_by fst (map (kid rs) cs))) with
  | Some (l, n) => Some (lit "(" ++ join (lit " and ") l ++ lit ")", n)
  | None => None
  end.
Proof.
  simpl. replace ((fix kids (cs0 : list userset) := match cs0 with [] => [] | c :: r => (is_this c, print_sub rs c) :: kids r end) cs)
    with (map (kid rs) cs); [reflexivity|].
  induction cs as [|c cs IH]; simpl; [reflexivity|]. rewrite IH. reflexivity.
Qed.

(* the results of the children, in any order *)
Definition kids_results rs cs := map (print_sub rs) cs.

Lemma prioritized_results_perm rs cs :
  Permutation (map snd (prioritize_by fst (map (kid rs) cs))) (kids_results rs cs).
Proof.
  unfold kids_results.
  replace (map (print_sub rs) cs) with (map snd (map (kid rs) cs)) by (rewrite map_map; reflexivity).
  apply Permutation_map. apply prioritize_by_perm.
Qed.

(* ---- main lemma: on carriable rewrites print_sub succeeds and counts the direct assignments ---- *)
Lemma total_count rs cs :
  Forall (fun c => exists t, print_sub rs c = Some (t, count_direct c)) cs ->
  all_some (kids_results rs cs) = true /\
  total (kids_results rs cs) = fold_right (fun c n => (count_direct c + n)%nat) 0%nat cs.
Proof.
  induction 1 as [|c cs [t Hc] _ [IH1 IH2]]; simpl; [auto|].
  rewrite Hc. simpl. split; [exact IH1|]. rewrite IH2. reflexivity.
Qed.

Theorem print_sub_carriable rs u :
  carriable u = true -> exists t, print_sub rs u = Some (t, count_direct u).
Proof.
  induction u as [| [|] | rel | ts cu | cs IH | cs IH | b s IHb IHs] using userset_ind'; intros Hc; try discriminate Hc.
  - eexists; reflexivity.
  - eexists; reflexivity.
  - eexists; reflexivity.
  - (* union *)
    assert (Hall : Forall (fun c => exists t, print_sub rs c = Some (t, count_direct c)) cs).
    { destruct cs as [|c0 cs0]; [discriminate|]. simpl in Hc.
      rewrite Forall_forall in IH |- *. intros c Hin. apply IH; auto.
      change (forallb carriable (c0 :: cs0) = true) in Hc. rewrite forallb_forall in Hc. auto. }
    destruct (total_count rs cs Hall) as [H1 H2].
    rewrite print_sub_union.
    assert (P := prioritized_results_perm rs cs).
    destruct (collect_some _ (eq_trans (all_some_perm _ _ P) H1)) as [l El].
    rewrite El, (total_perm _ _ P), H2. eexists; reflexivity.
  - (* intersection *)
    assert (Hall : Forall (fun c => exists t, print_sub rs c = Some (t, count_direct c)) cs).
    { destruct cs as [|c0 cs0]; [discriminate|]. simpl in Hc.
      rewrite Forall_forall in IH |- *. intros c Hin. apply IH; auto.
      change (forallb carriable (c0 :: cs0) = true) in Hc. rewrite forallb_forall in Hc. auto. }
    destruct (total_count rs cs Hall) as [H1 H2].
    rewrite print_sub_inter.
    assert (P := prioritized_results_perm rs cs).
    destruct (collect_some _ (eq_trans (all_some_perm _ _ P) H1)) as [l El].
    rewrite El, (total_perm _ _ P), H2. eexists; reflexivity.
  - simpl in Hc. apply andb_prop in Hc. destruct Hc as [Hb Hs].
    destruct (IHb Hb) as [tb Eb]. destruct (IHs Hs) as [tsx Es].
    simpl. rewrite Eb, Es. eexists; reflexivity.
Qed.

(* the top level differs only by the missing outer parentheses *)
Theorem print_top_carriable rs u :
  carriable u = true -> exists t, print_top u rs = Some (t, count_direct u).
Proof.
  intros Hc. destruct (print_sub_carriable rs u Hc) as [t E].
  destruct u as [| [|] | rel | ts cu | cs | cs | b s]; try discriminate Hc; try (exists t; exact E).
  - rewrite print_sub_union in E. unfold print_top, print_children.
    assert (P : Permutation (map (print_sub rs) (prioritize cs)) (map snd (prioritize_by fst (map (kid rs) cs)))).
    { etransitivity; [|apply Permutation_sym, prioritized_results_perm].
      apply Permutation_map. apply prioritize_by_perm. }
    destruct (collect (map snd (prioritize_by fst (map (kid rs) cs)))) as [[l n]|] eqn:El; [|discriminate].
    inversion E; subst. apply collect_inv in El. destruct El as [H1 H2].
    destruct (collect_some _ (eq_trans (all_some_perm _ _ P) H1)) as [l' El'].
    rewrite El', (total_perm _ _ P), <- H2. eexists; reflexivity.
  - rewrite print_sub_inter in E. unfold print_top, print_children.
    assert (P : Permutation (map (print_sub rs) (prioritize cs)) (map snd (prioritize_by fst (map (kid rs) cs)))).
    { etransitivity; [|apply Permutation_sym, prioritized_results_perm].
      apply Permutation_map. apply prioritize_by_perm. }
    destruct (collect (map snd (prioritize_by fst (map (kid rs) cs)))) as [[l n]|] eqn:El; [|discriminate].
    inversion E; subst. apply collect_inv in El. destruct El as [H1 H2].
    destruct (collect_some _ (eq_trans (all_some_perm _ _ P) H1)) as [l' El'].
    rewrite El', (total_perm _ _ P), <- H2. eexists; reflexivity.
  - simpl in Hc. apply andb_prop in Hc. destruct Hc as [Hb Hs].
    destruct (print_sub_carriable rs b Hb) as [tb Eb]. destruct (print_sub_carriable rs s Hs) as [tsx Es].
    unfold print_top. rewrite Eb, Es. eexists; reflexivity.
Qed.

(* the validator's isFirstPosition is the specification's first_pos *)
Theorem is_first_position_spec u : is_first_position u = first_pos u.
Proof.
  induction u as [| [|] | rel | ts cu | cs IH | cs IH | b s IHb IHs] using userset_ind'; try reflexivity.
  - simpl. destruct cs as [|c cs]; [reflexivity|].
    inversion IH as [|? ? Hc _]; subst. rewrite Hc.
    reflexivity.
  - simpl. destruct cs as [|c cs]; [reflexivity|].
    inversion IH as [|? ? Hc _]; subst. rewrite Hc.
    reflexivity.
  - simpl. rewrite IHb. destruct b as [| [|] | | | | |]; simpl; auto.
Qed.

(* C02: the printer succeeds on a relation exactly when the rewrite is expressible; otherwise it
   reports unsupported nesting for that relation *)
Theorem print_relation_iff ty rel u meta src :
  carriable u = true ->
  (expressible u = true -> exists t, print_relation ty rel u meta src = Ok t) /\
  (expressible u = false -> print_relation ty rel u meta src = Err (EUnsupportedNesting ty rel)).
Proof.
  intros Hc. unfold print_relation.
  destruct (print_top_carriable (rm_types_of meta) u Hc) as [t E]. rewrite E.
  rewrite is_first_position_spec. unfold expressible.
  split; intros H; rewrite H; [eexists; reflexivity|reflexivity].
Qed.

(* ---------------------------------------------------------------------------------------- *)
(* lifting to types and models                                                               *)
(* ---------------------------------------------------------------------------------------- *)
From Verif Require Import Proofs.SortFacts Proofs.PrinterCanonical.

Definition usersets_of (t : typedef) : list userset := map snd (td_rels t).

Definition type_carriable (t : typedef) : Prop :=
  NoDup (keys (td_rels t)) /\ Forall (fun u => carriable u = true) (usersets_of t).
Definition type_expressible (t : typedef) : Prop := Forall (fun u => expressible u = true) (usersets_of t).

Lemma print_relations_ok ty names rels meta src :
  (forall n, In n names -> exists u, assoc n rels = Some u /\ carriable u = true /\ expressible u = true) ->
  exists t, print_relations ty names rels meta src = Ok t.
Proof.
  induction names as [|n names IH]; simpl; intros H; [eexists; reflexivity|].
  destruct (H n (or_introl eq_refl)) as [u [Eu [Hc He]]]. rewrite Eu.
  destruct (proj1 (print_relation_iff ty n u (assoc n meta) src Hc) He) as [t Et]. rewrite Et.
  destruct IH as [t' Et']; [intros; apply H; right; assumption|]. rewrite Et'. eexists; reflexivity.
Qed.

Lemma print_relations_err ty names rels meta src n u :
  In n names -> assoc n rels = Some u -> carriable u = true -> expressible u = false ->
  (forall n', In n' names -> exists u', assoc n' rels = Some u' /\ carriable u' = true) ->
  exists r, print_relations ty names rels meta src = Err (EUnsupportedNesting ty r).
Proof.
  induction names as [|n0 names IH]; simpl; intros Hin Eu Hc He Hall; [contradiction|].
  destruct (Hall n0 (or_introl eq_refl)) as [u0 [Eu0 Hc0]]. rewrite Eu0.
  destruct (expressible u0) eqn:E0.
  - destruct (proj1 (print_relation_iff ty n0 u0 (assoc n0 meta) src Hc0) E0) as [t Et]. rewrite Et.
    destruct Hin as [->|Hin]; [rewrite Eu in Eu0; inversion Eu0; subst; congruence|].
    destruct (IH Hin Eu Hc He) as [r Er]; [intros; apply Hall; right; assumption|]. rewrite Er. eexists; reflexivity.
  - rewrite (proj2 (print_relation_iff ty n0 u0 (assoc n0 meta) src Hc0) E0). eexists; reflexivity.
Qed.

Lemma sorted_names_perm (t : typedef) (modular : bool) :
  Permutation (keys (td_rels t))
    (if modular then stable_sort (rel_cmp_modular (td_meta_rels t)) (keys (td_rels t))
     else stable_sort str_compare (keys (td_rels t))).
Proof. destruct modular; apply stable_sort_perm. Qed.

Lemma in_keys_assoc {A} (l : list (str * A)) n : In n (keys l) -> exists v, assoc n l = Some v /\ In v (map snd l).
Proof.
  induction l as [|[k v] l IH]; simpl; intros H; [contradiction|].
  destruct (str_eqb_spec n k) as [->|Hn]; [exists v; split; auto|].
  destruct H as [->|H]; [contradiction|]. destruct (IH H) as [v' [E Hin]]. exists v'; split; auto.
Qed.

Theorem print_type_iff (t : typedef) modular src :
  type_carriable t ->
  (type_expressible t -> exists s, print_type t modular src = Ok s) /\
  (~ type_expressible t -> exists r, print_type t modular src = Err (EUnsupportedNesting (td_name t) r)).
Proof.
  intros [Hnd Hc]. unfold print_type.
  destruct (td_rels t) as [|r0 rs] eqn:Er.
  - split; [intros; eexists; reflexivity|]. intros Hn. exfalso. apply Hn. unfold type_expressible, usersets_of. rewrite Er. constructor.
  - rewrite <- Er.
    set (names := if modular then stable_sort (rel_cmp_modular (td_meta_rels t)) (keys (td_rels t))
                  else stable_sort str_compare (keys (td_rels t))).
    assert (Hp : Permutation (keys (td_rels t)) names) by apply sorted_names_perm.
    assert (Hall : forall n, In n names -> exists u, assoc n (td_rels t) = Some u /\ carriable u = true /\ In u (usersets_of t)).
    { intros n Hin. apply (Permutation_in _ (Permutation_sym Hp)) in Hin.
      destruct (in_keys_assoc _ _ Hin) as [u [E Hu]]. exists u. repeat split; auto.
      rewrite Forall_forall in Hc. apply Hc. exact Hu. }
    split.
    + intros He. destruct (print_relations_ok (td_name t) names (td_rels t) (td_meta_rels t) src) as [s Es].
      * intros n Hin. destruct (Hall n Hin) as [u [E [Hcu Hu]]]. exists u. repeat split; auto.
        unfold type_expressible in He. rewrite Forall_forall in He. auto.
      * rewrite Es. eexists; reflexivity.
    + intros Hne.
      assert (Hex : exists u, In u (usersets_of t) /\ expressible u = false).
      { unfold type_expressible in Hne. apply Exists_Forall_neg in Hne.
        - apply Exists_exists in Hne. destruct Hne as [u [Hu Hx]]. exists u. split; auto. destruct (expressible u); congruence.
        - intros u. destruct (expressible u); [left; reflexivity|right; discriminate]. }
      destruct Hex as [u [Hu Hx]]. unfold usersets_of in Hu. apply in_map_iff in Hu. destruct Hu as [[n u'] [Eq Hin]]. simpl in Eq; subst u'.
      destruct (print_relations_err (td_name t) names (td_rels t) (td_meta_rels t) src n u) as [r Erel]; auto.
      * apply (Permutation_in _ Hp). change n with (fst (n, u)). apply in_map. exact Hin.
      * apply assoc_in; [rewrite Er; exact Hnd|exact Hin].
      * rewrite Forall_forall in Hc. apply Hc. unfold usersets_of. change u with (snd (n, u)). apply in_map. exact Hin.
      * intros n' Hin'. destruct (Hall n' Hin') as [u' [E [Hcu _]]]. exists u'; auto.
      * rewrite Erel. eexists; reflexivity.
Qed.

(* ---- conditions that the DSL can carry always print ---- *)
Definition param_ok (p : ptype) : Prop :=
  match p with
  | PT n gen => (str_eqb (type_name_string n) (lit "list") || str_eqb (type_name_string n) (lit "map")) = true -> gen <> []
  end.
Definition cond_printable (p : str * condition) : Prop :=
  fst p = c_name (snd p) /\ Forall (fun q => param_ok (snd q)) (c_params (snd p)).

Lemma print_params_ok cname ps : Forall (fun q : str * ptype => param_ok (snd q)) ps -> exists l, print_params cname ps = Ok l.
Proof.
  induction 1 as [|[name [n gen]] ps Hp _ [l El]]; simpl; [eexists; reflexivity|].
  unfold param_ok in Hp. simpl in Hp.
  destruct (str_eqb (type_name_string n) (lit "list") || str_eqb (type_name_string n) (lit "map")) eqn:E.
  - destruct gen as [|[g gs] r]; [exfalso; apply Hp; auto|]. simpl in E. rewrite E, El. eexists; reflexivity.
  - simpl in E. rewrite E, El. eexists; reflexivity.
Qed.

Lemma print_condition_ok k c src : cond_printable (k, c) -> exists s, print_condition k c src = Ok s.
Proof.
  intros [Hk Hp]. simpl in *. unfold print_condition. subst k. rewrite str_eqb_refl. simpl.
  destruct (print_params_ok (c_name c) (stable_sort pair_cmp (c_params c))) as [l El].
  - apply Forall_forall. intros q Hq. rewrite Forall_forall in Hp. apply Hp.
    apply (Permutation_in _ (Permutation_sym (stable_sort_perm pair_cmp (c_params c)))). exact Hq.
  - rewrite El. eexists; reflexivity.
Qed.

Lemma print_conditions_ok cs src : Forall cond_printable cs -> exists s, print_conditions cs src = Ok s.
Proof.
  induction 1 as [|[k c] cs Hc _ [s Es]]; simpl; [eexists; reflexivity|].
  destruct (print_condition_ok k c src Hc) as [t Et]. rewrite Et, Es. eexists; reflexivity.
Qed.

(* ---- types ---- *)
Lemma print_types_ok ts modular src :
  Forall type_carriable ts -> Forall type_expressible ts -> exists l, print_types ts modular src = Ok l.
Proof.
  induction ts as [|t ts IH]; simpl; intros Hc He; [eexists; reflexivity|].
  inversion Hc; subst. inversion He; subst.
  destruct (proj1 (print_type_iff t modular src H1) H3) as [s Es]. rewrite Es.
  destruct (IH H2 H4) as [l El]. rewrite El. eexists; reflexivity.
Qed.

Lemma classic_type_expressible t : type_expressible t \/ ~ type_expressible t.
Proof.
  unfold type_expressible. destruct (Forall_dec (fun u => expressible u = true)) with (l := usersets_of t) as [H|H]; auto.
  intros u. destruct (expressible u); [left; reflexivity|right; discriminate].
Qed.

Lemma print_types_err ts modular src :
  Forall type_carriable ts -> ~ Forall type_expressible ts ->
  exists ty r, print_types ts modular src = Err (EUnsupportedNesting ty r).
Proof.
  induction ts as [|t ts IH]; simpl; intros Hc Hne; [exfalso; apply Hne; constructor|].
  inversion Hc; subst.
  destruct (classic_type_expressible t) as [He|Hn].
  - destruct (proj1 (print_type_iff t modular src H1) He) as [s Es]. rewrite Es.
    assert (Hne' : ~ Forall type_expressible ts) by (intros Hall; apply Hne; constructor; auto).
    destruct (IH H2 Hne') as [ty [r E]].
    rewrite E. eexists; eexists; reflexivity.
  - destruct (proj2 (print_type_iff t modular src H1) Hn) as [r E]. rewrite E. eexists; eexists; reflexivity.
Qed.

(* ---- the whole model ---- *)
Definition model_carriable (m : model) : Prop :=
  Forall type_carriable (m_types m) /\ Forall cond_printable (m_conds m).

Lemma Forall_perm {A} (P : A -> Prop) l l' : Permutation l l' -> Forall P l -> Forall P l'.
Proof. intros Hp H. apply Forall_forall. intros x Hx. rewrite Forall_forall in H. apply H. eapply Permutation_in; [apply Permutation_sym; exact Hp|exact Hx]. Qed.

Theorem print_model_iff src (m : model) :
  model_carriable m ->
  (Forall type_expressible (m_types m) -> exists s, fst (print_model src m) = Ok s) /\
  (~ Forall type_expressible (m_types m) -> exists ty r, fst (print_model src m) = Err (EUnsupportedNesting ty r)).
Proof.
  intros [Ht Hc]. unfold print_model. simpl.
  set (sorted := if is_modular_model m then stable_sort type_cmp (m_types m) else m_types m).
  assert (Hp : Permutation (m_types m) sorted) by (unfold sorted; destruct (is_modular_model m); [apply stable_sort_perm|reflexivity]).
  assert (Ht' : Forall type_carriable sorted) by (eapply Forall_perm; eauto).
  split.
  - intros He. destruct (print_types_ok sorted (is_modular_model m) src Ht' (Forall_perm _ _ _ Hp He)) as [l El]. rewrite El.
    destruct (print_conditions_ok (stable_sort cond_cmp (m_conds m)) src) as [s Es].
    + eapply Forall_perm; [apply stable_sort_perm|exact Hc].
    + rewrite Es. eexists; reflexivity.
  - intros Hne. destruct (print_types_err sorted (is_modular_model m) src Ht') as [ty [r E]].
    + intros Hall. apply Hne. eapply Forall_perm; [apply Permutation_sym; exact Hp|exact Hall].
    + rewrite E. eexists; eexists; reflexivity.
Qed.

(* Proofs/BuilderNodes.v — the node inventory of the weighted graph (C10): after a successful build the nodes are
   exactly the ones the model names — every type, every defined relation, every target of a type restriction of a
   direct assignment, every computed userset, every parent relation of a tuple-to-userset — and one operator node
   per operator number below the operator count; nothing else.  No hypothesis on the model. *)
From Coq Require Import Permutation Lia.
From Verif Require Import Base.Str Base.Outcome Model.Ast Model.Printer Model.WGraph Spec.GraphShape
  Proofs.SortFacts Proofs.WGraphProofs Proofs.BuilderShape.

(* the names the model asks nodes for, exactly *)
Definition exact_ids (m : model) : list str :=
  flat_map (fun td => td_name td ::
                      flat_map (fun r => (td_name td ++ lit "#" ++ r) :: req_ids td r (rewrite_of td r)) (keys (td_rels td)))
           (m_types m).

Definition is_opnode (k : N) (id : str) : Prop := exists op j, In op op_names /\ j < k /\ id = op_id op j.

Section Nodes.
  Variable P : str -> Prop.

  Definition nodes_from (g : wgraph) : Prop := forall n, In n (g_nodes g) -> P (n_id n) \/ is_opnode (g_ops g) (n_id n).

  Lemma nf_get_or_add g id lab t : P id -> nodes_from g -> nodes_from (fst (get_or_add_node g id lab t)).
  Proof.
    intros Hid H. unfold get_or_add_node. destruct (find_node id (g_nodes g)); cbn [fst]; [exact H|].
    intros n Hn. cbn [g_nodes g_ops] in *. apply in_app_or in Hn. destruct Hn as [Hn|[<-|[]]]; [apply H; exact Hn|left; exact Hid].
  Qed.
  Lemma nf_same g g' : g_nodes g' = g_nodes g -> g_ops g' = g_ops g -> nodes_from g -> nodes_from g'.
  Proof. intros En Eo H n Hn. rewrite En in Hn. rewrite Eo. apply H. exact Hn. Qed.
  Lemma nf_upsert g a b t ts c : nodes_from g -> nodes_from (upsert_edge g a b t ts c).
  Proof. apply nf_same; [apply nodes_upsert|apply upsert_edge_ops]. Qed.

  Lemma nf_parse_this g p td rel : Forall P (map ref_id (rm_types_of (assoc rel (td_meta_rels td)))) -> nodes_from g -> nodes_from (parse_this g p td rel).
  Proof.
    unfold parse_this. generalize (rm_types_of (assoc rel (td_meta_rels td))). intros refs. revert g.
    induction refs as [|r refs IH]; intros g Hn H; [exact H|]. cbn [map] in Hn. apply Forall_cons_iff in Hn. destruct Hn as [Hr Hn']. cbn [fold_left].
    apply IH; [exact Hn'|]. unfold ref_id in Hr.
    destruct (rr_kind r); match goal with |- context [get_or_add_node g ?i ?l ?t] => pose proof (nf_get_or_add g i l t Hr H) as X; destruct (get_or_add_node g i l t) as [g1 cur] end;
      apply nf_upsert; exact X.
  Qed.

  Lemma nf_parse_computed g p td r : P (td_name td ++ lit "#" ++ r) -> nodes_from g -> nodes_from (parse_computed g p td r).
  Proof.
    intros Hr H. unfold parse_computed. pose proof (nf_get_or_add g _ (td_name td ++ lit "#" ++ r) NTypeRel Hr H) as X.
    destruct (get_or_add_node g _ _ NTypeRel) as [g1 n]. cbn [fst] in X. apply (nf_same g1); [reflexivity|reflexivity|exact X].
  Qed.

  Lemma nf_parse_ttu_refs p m td ts cu refs : forall g g', Forall P (map (fun r => rr_type r ++ lit "#" ++ cu) refs) ->
    parse_ttu_refs g p m td ts cu refs = Ok g' -> nodes_from g -> nodes_from g'.
  Proof.
    induction refs as [|r refs IH]; intros g g' Hn E H; cbn in E; [inversion E; subst; exact H|].
    cbn [map] in Hn. apply Forall_cons_iff in Hn. destruct Hn as [Hr Hn'].
    destruct (negb (type_and_relation_exists m (rr_type r) cu)); [discriminate|].
    pose proof (nf_get_or_add g _ (rr_type r ++ lit "#" ++ cu) NTypeRel Hr H) as X. destruct (get_or_add_node g _ _ NTypeRel) as [g1 n]. cbn [fst] in X.
    eapply IH; [exact Hn'|exact E|]. destruct (has_edge _ _ _ _ _); [exact X|apply nf_upsert; exact X].
  Qed.

  Definition nf_spec (m : model) (td : typedef) (rel : str) (u : userset) : Prop :=
    forall g p g', Forall P (req_ids td rel u) -> parse_rewrite g p m td rel u = Ok g' -> nodes_from g -> nodes_from g'.

  Lemma nf_operator m td rel op cs : In op op_names -> Forall (nf_spec m td rel) cs -> forall g p g',
    Forall P (flat_map (req_ids td rel) cs) -> parse_operator m td rel g p op cs = Ok g' -> nodes_from g -> nodes_from g'.
  Proof.
    intros Hop Hcs g p g' Hn E H. unfold parse_operator, op_node in E.
    set (g0 := {| g_nodes := g_nodes g; g_edges := g_edges g; g_ops := g_ops g + 1 |}) in *.
    assert (H0 : forall n, In n (g_nodes (fst (get_or_add_node g0 (op ++ lit ":" ++ str_of_N (g_ops g)) op NOperator))) ->
                 P (n_id n) \/ is_opnode (g_ops g + 1) (n_id n)).
    { unfold get_or_add_node. destruct (find_node _ (g_nodes g0)); cbn [fst g_nodes g0].
      - intros n Hn0. destruct (H n Hn0) as [A|(op' & j & A1 & A2 & A3)]; [left; exact A|right; exists op', j; repeat split; try assumption; lia].
      - intros n Hn0. apply in_app_or in Hn0. destruct Hn0 as [Hn0|[<-|[]]].
        + destruct (H n Hn0) as [A|(op' & j & A1 & A2 & A3)]; [left; exact A|right; exists op', j; repeat split; try assumption; lia].
        + right. exists op, (g_ops g). repeat split; [exact Hop|lia]. }
    destruct (get_or_add_node g0 (op ++ lit ":" ++ str_of_N (g_ops g)) op NOperator) as [g1 opn] eqn:Eg.
    assert (Eo1 : g_ops g1 = g_ops g + 1) by (pose proof (get_or_add_ops g0 (op ++ lit ":" ++ str_of_N (g_ops g)) op NOperator) as X; rewrite Eg in X; exact X).
    cbn [fst] in H0.
    assert (H2 : nodes_from (add_edge g1 (n_id p) (n_id opn) ERewrite [])) by (intros n Hn0; cbn [g_nodes g_ops add_edge push_edge] in *; rewrite Eo1; apply H0; exact Hn0).
    revert H2 E. generalize (add_edge g1 (n_id p) (n_id opn) ERewrite []). clear -Hcs Hn.
    induction Hcs as [|c cs Hc _ IH]; intros g2 H2 E; cbn [parse_children] in E; [inversion E; subst; exact H2|].
    cbn [flat_map] in Hn. apply Forall_app in Hn. destruct Hn as [Hn1 Hn2].
    destruct (parse_rewrite g2 opn m td rel c) as [g3| |] eqn:E3; cbn [obind] in E; try discriminate.
    apply (IH Hn2 g3); [eapply Hc; eauto|exact E].
  Qed.

  Theorem nf_parse_rewrite m td rel u : nf_spec m td rel u.
  Proof.
    induction u as [| r | rel0 | ts cu | cs IH | cs IH | b s IHb IHs] using userset_ind'; intros g p g' Hn E H; rewrite parse_rewrite_op in E.
    - apply (nf_operator m td rel [] [] ltac:(right; right; right; left; reflexivity) (Forall_nil _) g p g' (Forall_nil _) E H).
    - inversion E; subst. apply nf_parse_this; assumption.
    - inversion E; subst. cbn [req_ids] in Hn. apply Forall_cons_iff in Hn. apply nf_parse_computed; tauto.
    - unfold parse_ttu in E. destruct (assoc ts (td_meta_rels td)) as [rm|] eqn:Ea; [|discriminate]. destruct (rm_types rm) eqn:Er; [discriminate|].
      cbn [req_ids] in Hn. unfold rm_types_of in Hn. rewrite Ea, Er in Hn. eapply nf_parse_ttu_refs; eauto.
    - apply (nf_operator m td rel (lit "union") cs ltac:(left; reflexivity) IH g p g' Hn E H).
    - apply (nf_operator m td rel (lit "intersection") cs ltac:(right; left; reflexivity) IH g p g' Hn E H).
    - refine (nf_operator m td rel (lit "exclusion") [b; s] ltac:(right; right; left; reflexivity) _ g p g' _ E H).
      + constructor; [exact IHb|constructor; [exact IHs|constructor]].
      + cbn [flat_map]. rewrite app_nil_r. exact Hn.
  Qed.

  Lemma nf_build_relations m td names : forall g g',
    (forall r, In r names -> P (td_name td ++ lit "#" ++ r) /\ Forall P (req_ids td r (rewrite_of td r))) ->
    build_relations g m td names = Ok g' -> nodes_from g -> nodes_from g'.
  Proof.
    induction names as [|r names IH]; intros g g' Hn E H; cbn in E; [inversion E; subst; exact H|].
    destruct (Hn r (or_introl eq_refl)) as [Hr1 Hr2].
    pose proof (nf_get_or_add g _ (td_name td ++ lit "#" ++ r) NTypeRel Hr1 H) as X. destruct (get_or_add_node g _ _ NTypeRel) as [g1 p]. cbn [fst] in X.
    change (match assoc r (td_rels td) with Some u => u | None => UUnset end) with (rewrite_of td r) in E.
    destruct (parse_rewrite g1 p m td r (rewrite_of td r)) as [g2| |] eqn:E2; cbn [obind] in E; try discriminate.
    apply (IH g2 g'); [intros r' Hr'; apply Hn; right; exact Hr'|exact E|]. eapply nf_parse_rewrite; eauto.
  Qed.

  Lemma nf_build_types m tds : forall g g',
    (forall td, In td tds -> P (td_name td) /\ forall r, In r (keys (td_rels td)) -> P (td_name td ++ lit "#" ++ r) /\ Forall P (req_ids td r (rewrite_of td r))) ->
    build_types g m tds = Ok g' -> nodes_from g -> nodes_from g'.
  Proof.
    induction tds as [|td tds IH]; intros g g' Hn E H; cbn in E; [inversion E; subst; exact H|].
    destruct (Hn td (or_introl eq_refl)) as [Ht1 Ht2].
    pose proof (nf_get_or_add g _ (td_name td) NType Ht1 H) as X. destruct (get_or_add_node g _ _ NType) as [g1 p]. cbn [fst] in X.
    destruct (build_relations g1 m td _) as [g2| |] eqn:E2; cbn [obind] in E; try discriminate.
    apply (IH g2 g'); [intros td' Htd'; apply Hn; right; exact Htd'|exact E|].
    eapply nf_build_relations; [|exact E2|exact X]. intros r Hr. apply Ht2.
    apply (Permutation_in r (Permutation_sym (stable_sort_perm str_compare _))). exact Hr.
  Qed.
End Nodes.

(* nothing but what the model names, and operator nodes *)
Theorem wbuild_nodes_sound m g : wbuild m = Ok g ->
  forall n, In n (g_nodes g) -> In (n_id n) (exact_ids m) \/ is_opnode (g_ops g) (n_id n).
Proof.
  intros E. apply (nf_build_types (fun id => In id (exact_ids m)) m (stable_sort td_cmp (m_types m)) empty_graph g); [|exact E|intros n []].
  intros td Htd. assert (Htd' : In td (m_types m)) by (apply (Permutation_in td (Permutation_sym (stable_sort_perm td_cmp _))); exact Htd).
  split.
  - unfold exact_ids. apply in_flat_map. exists td. split; [exact Htd'|left; reflexivity].
  - intros r Hr. split.
    + unfold exact_ids. apply in_flat_map. exists td. split; [exact Htd'|]. right. apply in_flat_map. exists r. split; [exact Hr|left; reflexivity].
    + apply Forall_forall. intros x Hx. unfold exact_ids. apply in_flat_map. exists td. split; [exact Htd'|]. right. apply in_flat_map. exists r. split; [exact Hr|right; exact Hx].
Qed.

(* ---- and everything the model names is there ---- *)
Definition has (g : wgraph) (id : str) : Prop := find_node id (g_nodes g) <> None.

Lemma has_prefix g g' id : (exists more, g_nodes g' = g_nodes g ++ more) -> has g id -> has g' id.
Proof. intros [more E] H. unfold has in *. rewrite E, find_node_app. destruct (find_node id (g_nodes g)); [discriminate|contradiction]. Qed.

Lemma has_get_or_add g id lab t : has (fst (get_or_add_node g id lab t)) id.
Proof. destruct (get_or_add_facts g id lab t) as (Hf & _). unfold has. rewrite Hf. discriminate. Qed.

Lemma prefix_get_or_add g id lab t : exists more, g_nodes (fst (get_or_add_node g id lab t)) = g_nodes g ++ more.
Proof. destruct (get_or_add_facts g id lab t) as (_ & _ & H & _). exact H. Qed.

Lemma pre_trans (a b c : list wnode) : (exists m1, b = a ++ m1) -> (exists m2, c = b ++ m2) -> exists m3, c = a ++ m3.
Proof. intros [m1 ->] [m2 ->]. exists (m1 ++ m2). rewrite app_assoc. reflexivity. Qed.
Lemma pre_refl (a : list wnode) : exists m0, a = a ++ m0.
Proof. exists []. rewrite app_nil_r. reflexivity. Qed.

Definition this_step (parent : wnode) (g : wgraph) (r : relation_ref) : wgraph :=
  let '(g, cur) :=
    match rr_kind r with
    | RPlain => get_or_add_node g (rr_type r) (rr_type r) NType
    | RWild => get_or_add_node g (rr_type r ++ lit ":*") (rr_type r ++ lit ":*") NWildcard
    | RRel x => get_or_add_node g (rr_type r ++ lit "#" ++ x) (rr_type r ++ lit "#" ++ x) NTypeRel
    end in
  upsert_edge g (n_id parent) (n_id cur) EDirect [] (rr_cond r).

Lemma this_step_facts parent g r : (exists more, g_nodes (this_step parent g r) = g_nodes g ++ more) /\ has (this_step parent g r) (ref_id r).
Proof.
  unfold this_step, ref_id.
  destruct (rr_kind r); match goal with |- context [get_or_add_node g ?i ?l ?t] =>
    pose proof (prefix_get_or_add g i l t) as Pre; pose proof (has_get_or_add g i l t) as Hs; destruct (get_or_add_node g i l t) as [g1 cur] end;
    cbn [fst] in *; (split; [rewrite nodes_upsert; exact Pre|unfold has in *; rewrite nodes_upsert; exact Hs]).
Qed.

Lemma this_fold_facts parent refs : forall g,
  (exists more, g_nodes (fold_left (this_step parent) refs g) = g_nodes g ++ more) /\
  forall id, In id (map ref_id refs) -> has (fold_left (this_step parent) refs g) id.
Proof.
  induction refs as [|r refs IH]; intros g; [split; [apply pre_refl|intros id []]|]. cbn [fold_left map].
  destruct (this_step_facts parent g r) as [P1 H1]. destruct (IH (this_step parent g r)) as [P2 H2]. split; [eapply pre_trans; eauto|].
  intros id [<-|Hin]; [apply (has_prefix _ _ _ P2 H1)|apply H2; exact Hin].
Qed.

Lemma ttu_refs_facts p m td ts cu refs : forall g g', parse_ttu_refs g p m td ts cu refs = Ok g' ->
  (exists more, g_nodes g' = g_nodes g ++ more) /\ forall id, In id (map (fun r => rr_type r ++ lit "#" ++ cu) refs) -> has g' id.
Proof.
  induction refs as [|r refs IH]; intros g g' E; cbn in E; [inversion E; subst; split; [apply pre_refl|intros id []]|].
  destruct (negb (type_and_relation_exists m (rr_type r) cu)); [discriminate|].
  pose proof (prefix_get_or_add g (rr_type r ++ lit "#" ++ cu) (rr_type r ++ lit "#" ++ cu) NTypeRel) as P1.
  pose proof (has_get_or_add g (rr_type r ++ lit "#" ++ cu) (rr_type r ++ lit "#" ++ cu) NTypeRel) as H1.
  destruct (get_or_add_node g _ _ NTypeRel) as [g1 n]. cbn [fst] in *.
  set (g2 := if has_edge g1 (n_id p) (n_id n) ETTU (td_name td ++ lit "#" ++ ts) then g1 else upsert_edge g1 (n_id p) (n_id n) ETTU (td_name td ++ lit "#" ++ ts) (rr_cond r)) in *.
  assert (N2 : g_nodes g2 = g_nodes g1) by (unfold g2; destruct (has_edge _ _ _ _ _); [reflexivity|apply nodes_upsert]).
  destruct (IH g2 g' E) as [P2 H2]. rewrite N2 in P2. split; [eapply pre_trans; eauto|].
  cbn [map]. intros id [<-|Hin]; [apply (has_prefix g1 g' _ P2 H1)|apply H2; exact Hin].
Qed.

Definition complete_spec (m : model) (td : typedef) (rel : str) (u : userset) : Prop :=
  forall g p g', parse_rewrite g p m td rel u = Ok g' ->
    (forall id, In id (req_ids td rel u) -> has g' id) /\
    (forall j, g_ops g <= j < g_ops g' -> exists op, In op op_names /\ has g' (op_id op j)).

Lemma complete_operator m td rel op cs : In op op_names -> Forall (complete_spec m td rel) cs -> forall g p g',
  parse_operator m td rel g p op cs = Ok g' ->
  (forall id, In id (flat_map (req_ids td rel) cs) -> has g' id) /\
  (forall j, g_ops g <= j < g_ops g' -> exists op', In op' op_names /\ has g' (op_id op' j)).
Proof.
  intros Hop Hcs g p g' E. unfold parse_operator, op_node in E.
  set (g0 := {| g_nodes := g_nodes g; g_edges := g_edges g; g_ops := g_ops g + 1 |}) in *.
  pose proof (has_get_or_add g0 (op ++ lit ":" ++ str_of_N (g_ops g)) op NOperator) as Hh.
  pose proof (get_or_add_ops g0 (op ++ lit ":" ++ str_of_N (g_ops g)) op NOperator) as Eo.
  destruct (get_or_add_node g0 (op ++ lit ":" ++ str_of_N (g_ops g)) op NOperator) as [g1 opn]. cbn [fst] in *.
  set (g2 := add_edge g1 (n_id p) (n_id opn) ERewrite []) in *.
  assert (H2 : has g2 (op_id op (g_ops g))) by exact Hh.
  assert (O2 : g_ops g2 = g_ops g + 1) by exact Eo.
  assert (G : forall cs, Forall (complete_spec m td rel) cs -> forall g2 g', parse_children m td rel g2 opn cs = Ok g' ->
            (exists more, g_nodes g' = g_nodes g2 ++ more) /\ g_ops g2 <= g_ops g' /\
            (forall id, In id (flat_map (req_ids td rel) cs) -> has g' id) /\
            (forall j, g_ops g2 <= j < g_ops g' -> exists op', In op' op_names /\ has g' (op_id op' j))).
  { clear. induction 1 as [|c cs Hc _ IH]; intros g2 g' E; cbn [parse_children] in E.
    - inversion E; subst. split; [apply pre_refl|]. split; [lia|]. split; [intros id []|intros j Hj; lia].
    - destruct (parse_rewrite g2 opn m td rel c) as [g3| |] eqn:E3; cbn [obind] in E; try discriminate.
      destruct (Hc g2 opn g3 E3) as [C1 C2]. destruct (IH g3 g' E) as (P & L & D1 & D2).
      pose proof (parse_rewrite_prefix m td rel c g2 opn g3 E3) as P3.
      pose proof (parse_rewrite_ops c g2 opn m td rel g3 E3) as O3.
      split; [eapply pre_trans; eauto|]. split; [lia|]. split.
      + cbn [flat_map]. intros id Hin. apply in_app_or in Hin. destruct Hin as [Hin|Hin]; [apply (has_prefix g3 g' _ P); apply C1; exact Hin|apply D1; exact Hin].
      + intros j Hj. destruct (N.lt_ge_cases j (g_ops g3)) as [Hlt|Hge].
        * destruct (C2 j ltac:(lia)) as [op' [A B]]. exists op'. split; [exact A|apply (has_prefix g3 g' _ P B)].
        * apply D2. lia. }
  destruct (G cs Hcs g2 g' E) as (P & L & D1 & D2). split; [exact D1|].
  intros j Hj. destruct (N.eq_dec j (g_ops g)) as [->|Hne].
  - exists op. split; [exact Hop|apply (has_prefix g2 g' _ P H2)].
  - apply D2. rewrite O2. lia.
Qed.

Theorem complete_parse_rewrite m td rel u : complete_spec m td rel u.
Proof.
  induction u as [| r | rel0 | ts cu | cs IH | cs IH | b s IHb IHs] using userset_ind'; intros g p g' E; rewrite parse_rewrite_op in E.
  - apply (complete_operator m td rel [] [] ltac:(right; right; right; left; reflexivity) (Forall_nil _) g p g' E).
  - inversion E; subst. split.
    + unfold parse_this. change (fun g0 r0 => _) with (this_step p). apply this_fold_facts.
    + intros j Hj. rewrite parse_this_ops in Hj. lia.
  - inversion E; subst. split.
    + cbn [req_ids]. intros id [<-|[]]. unfold parse_computed. pose proof (has_get_or_add g (td_name td ++ lit "#" ++ rel0) (td_name td ++ lit "#" ++ rel0) NTypeRel) as H.
      destruct (get_or_add_node g _ _ NTypeRel) as [g1 n]. exact H.
    + intros j Hj. rewrite parse_computed_ops in Hj. lia.
  - split.
    + unfold parse_ttu in E. cbn [req_ids]. unfold rm_types_of. destruct (assoc ts (td_meta_rels td)) as [rm|]; [|discriminate]. destruct (rm_types rm) eqn:Er; [discriminate|].
      rewrite <- Er in *. apply (ttu_refs_facts _ _ _ _ _ _ _ _ E).
    + intros j Hj. rewrite (parse_ttu_ops _ _ _ _ _ _ _ E) in Hj. lia.
  - apply (complete_operator m td rel (lit "union") cs ltac:(left; reflexivity) IH g p g' E).
  - apply (complete_operator m td rel (lit "intersection") cs ltac:(right; left; reflexivity) IH g p g' E).
  - assert (Hbs : Forall (complete_spec m td rel) [b; s]) by (constructor; [exact IHb|constructor; [exact IHs|constructor]]).
    destruct (complete_operator m td rel (lit "exclusion") [b; s] ltac:(right; right; left; reflexivity) Hbs g p g' E) as [A B].
    split; [|exact B]. intros id Hin. apply A. cbn [flat_map]. rewrite app_nil_r. exact Hin.
Qed.

Lemma complete_build_relations m td names : forall g g', build_relations g m td names = Ok g' ->
  g_ops g <= g_ops g' /\
  (forall r, In r names -> has g' (td_name td ++ lit "#" ++ r) /\ forall id, In id (req_ids td r (rewrite_of td r)) -> has g' id) /\
  (forall j, g_ops g <= j < g_ops g' -> exists op, In op op_names /\ has g' (op_id op j)).
Proof.
  induction names as [|r names IH]; intros g g' E; cbn in E.
  - inversion E; subst. split; [lia|]. split; [intros r []|intros j Hj; lia].
  - pose proof (has_get_or_add g (td_name td ++ lit "#" ++ r) (td_name td ++ lit "#" ++ r) NTypeRel) as H1.
    pose proof (prefix_get_or_add g (td_name td ++ lit "#" ++ r) (td_name td ++ lit "#" ++ r) NTypeRel) as P1.
    pose proof (get_or_add_ops g (td_name td ++ lit "#" ++ r) (td_name td ++ lit "#" ++ r) NTypeRel) as O1.
    destruct (get_or_add_node g _ _ NTypeRel) as [g1 p]. cbn [fst] in *.
    change (match assoc r (td_rels td) with Some u => u | None => UUnset end) with (rewrite_of td r) in E.
    destruct (parse_rewrite g1 p m td r (rewrite_of td r)) as [g2| |] eqn:E2; cbn [obind] in E; try discriminate.
    destruct (complete_parse_rewrite m td r (rewrite_of td r) g1 p g2 E2) as [C1 C2].
    pose proof (parse_rewrite_prefix m td r (rewrite_of td r) g1 p g2 E2) as P2.
    pose proof (parse_rewrite_ops (rewrite_of td r) g1 p m td r g2 E2) as O2.
    pose proof (build_relations_prefix m td names g2 g' E) as P3.
    destruct (IH g2 g' E) as (L & D1 & D2). split; [lia|]. split.
    + intros r' [<-|Hr']; [|apply D1; exact Hr']. split; [apply (has_prefix g2 g' _ P3); apply (has_prefix g1 g2 _ P2); exact H1|].
      intros id Hid. apply (has_prefix g2 g' _ P3). apply C1. exact Hid.
    + intros j Hj. destruct (N.lt_ge_cases j (g_ops g2)) as [Hlt|Hge].
      * destruct (C2 j ltac:(lia)) as [op [A B]]. exists op. split; [exact A|apply (has_prefix g2 g' _ P3 B)].
      * apply D2. lia.
Qed.

Lemma complete_build_types m tds : forall g g', build_types g m tds = Ok g' ->
  g_ops g <= g_ops g' /\
  (forall td, In td tds -> has g' (td_name td) /\
     forall r, In r (keys (td_rels td)) -> has g' (td_name td ++ lit "#" ++ r) /\ forall id, In id (req_ids td r (rewrite_of td r)) -> has g' id) /\
  (forall j, g_ops g <= j < g_ops g' -> exists op, In op op_names /\ has g' (op_id op j)).
Proof.
  induction tds as [|td tds IH]; intros g g' E; cbn in E.
  - inversion E; subst. split; [lia|]. split; [intros td []|intros j Hj; lia].
  - pose proof (has_get_or_add g (td_name td) (td_name td) NType) as H1.
    pose proof (prefix_get_or_add g (td_name td) (td_name td) NType) as P1.
    pose proof (get_or_add_ops g (td_name td) (td_name td) NType) as O1.
    destruct (get_or_add_node g _ _ NType) as [g1 p]. cbn [fst] in *.
    destruct (build_relations g1 m td _) as [g2| |] eqn:E2; cbn [obind] in E; try discriminate.
    destruct (complete_build_relations m td _ g1 g2 E2) as (L2 & C1 & C2).
    pose proof (build_relations_prefix m td _ g1 g2 E2) as P2.
    pose proof (build_types_prefix m tds g2 g' E) as P3.
    destruct (IH g2 g' E) as (L & D1 & D2). split; [lia|]. split.
    + intros td' [<-|Htd']; [|apply D1; exact Htd']. split; [apply (has_prefix g2 g' _ P3); apply (has_prefix g1 g2 _ P2); exact H1|].
      intros r Hr. assert (Hr' : In r (stable_sort str_compare (keys (td_rels td)))) by (apply (Permutation_in r (stable_sort_perm str_compare _)); exact Hr).
      destruct (C1 r Hr') as [A B]. split; [apply (has_prefix g2 g' _ P3 A)|intros id Hid; apply (has_prefix g2 g' _ P3); apply B; exact Hid].
    + intros j Hj. destruct (N.lt_ge_cases j (g_ops g2)) as [Hlt|Hge].
      * destruct (C2 j ltac:(lia)) as [op [A B]]. exists op. split; [exact A|apply (has_prefix g2 g' _ P3 B)].
      * apply D2. lia.
Qed.

(* THE NODE INVENTORY of the built graph *)
Theorem wbuild_nodes m g : wbuild m = Ok g ->
  (forall n, In n (g_nodes g) -> In (n_id n) (exact_ids m) \/ is_opnode (g_ops g) (n_id n)) /\
  (forall id, In id (exact_ids m) -> find_node id (g_nodes g) <> None) /\
  (forall j, j < g_ops g -> exists op, In op op_names /\ find_node (op_id op j) (g_nodes g) <> None) /\
  NoDup (map n_id (g_nodes g)).
Proof.
  intros E. split; [apply wbuild_nodes_sound; exact E|]. pose proof (wbuild_nodes_unique m g E) as Hu. unfold wbuild in E.
  destruct (complete_build_types m _ empty_graph g E) as (_ & C1 & C2). split; [|split; [|exact Hu]].
  - intros id Hid. unfold exact_ids in Hid. apply in_flat_map in Hid. destruct Hid as [td [Htd Hid]].
    assert (Htd' : In td (stable_sort td_cmp (m_types m))) by (apply (Permutation_in td (stable_sort_perm td_cmp _)); exact Htd).
    destruct (C1 td Htd') as [A B]. destruct Hid as [<-|Hid]; [exact A|]. apply in_flat_map in Hid. destruct Hid as [r [Hr Hid]].
    destruct (B r Hr) as [B1 B2]. destruct Hid as [<-|Hid]; [exact B1|apply B2; exact Hid].
  - intros j Hj. apply C2. cbn. lia.
Qed.

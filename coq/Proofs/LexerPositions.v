(* Proofs/LexerPositions.v — every token of the lexer model carries the position of its first character and
   its text stands at that position in the lexed text; lines of the cleaned text are prefixes of the
   lines of the input (C16). *)
From Verif Require Import Base.Str Model.Token Model.Lexer Gen.Keywords.

Lemma advance_app a : forall b l c, advance (a ++ b) l c = let '(l', c') := advance a l c in advance b l' c'.
Proof.
  induction a as [|x a IH]; intros b l c; simpl; [reflexivity|].
  destruct (x =? 10); apply IH.
Qed.

(* a token (or a skipped character) found at [pre] ++ text ++ [post] with the position reached after [pre] *)
Definition placed (s : str) (line col : nat) (t : tok) : Prop :=
  exists pre post, s = pre ++ ttext t ++ post /\ advance pre line col = (tline t, tcol t) /\ ttext t <> [].

Lemma firstn_nonempty {A} n (s : list A) : n <> 0%nat -> s <> [] -> firstn n s <> [].
Proof. destruct n, s; simpl; congruence. Qed.

Theorem lex_loop_placed fuel : forall s depth line col ts es,
  lex_loop fuel s depth line col = (ts, es) -> Forall (placed s line col) ts.
Proof.
  induction fuel as [|f IH]; intros s depth line col ts es H; cbn [lex_loop] in H; [inversion H; constructor|].
  destruct s as [|c r]; [inversion H; constructor|].
  destruct (best_rule (if (depth =? 0)%nat then default_rules else condition_rules) (c :: r) TEOF 0) as [k n] eqn:Eb.
  destruct (Nat.eqb_spec n 0) as [->|Hn].
  - (* a character no rule matches: reported and skipped *)
    destruct (advance [c] line col) as [l' c'] eqn:Ea.
    destruct (lex_loop f r depth l' c') as [ts0 es0] eqn:El. inversion H; subst.
    apply IH in El. eapply Forall_impl; [|exact El].
    intros t [pre [post [E1 [E2 E3]]]]. exists (c :: pre), post. repeat split; auto.
    + simpl. rewrite E1. reflexivity.
    + change (c :: pre) with ([c] ++ pre). rewrite advance_app, Ea. exact E2.
  - destruct (advance (firstn n (c :: r)) line col) as [l' c'] eqn:Ea.
    destruct (lex_loop f (skipn n (c :: r)) _ l' c') as [ts0 es0] eqn:El. inversion H; subst.
    constructor.
    + exists [], (skipn n (c :: r)). simpl. repeat split; [symmetry; apply firstn_skipn|].
      apply firstn_nonempty; [exact Hn|discriminate].
    + apply IH in El. eapply Forall_impl; [|exact El].
      intros t [pre [post [E1 [E2 E3]]]]. exists (firstn n (c :: r) ++ pre), post. repeat split; auto.
      * rewrite <- app_assoc, <- E1. symmetry. apply firstn_skipn.
      * rewrite advance_app, Ea. exact E2.
Qed.

(* C16_token_positions: for the whole text, starting at line 1, column 0 *)
Theorem lex_all_placed s ts es : lex_all s = (ts, es) -> Forall (placed s 1 0) ts.
Proof. apply lex_loop_placed. Qed.

Theorem lex_placed s ts es : lex s = (ts, es) -> Forall (placed s 1 0) ts.
Proof.
  unfold lex. destruct (lex_all s) as [ts0 es0] eqn:E. intros H; inversion H; subst.
  apply lex_all_placed in E. rewrite Forall_forall in *. intros t Ht. apply filter_In in Ht. apply E. tauto.
Qed.

(* ---- consequences: the recorded line and column lie inside the text ---- *)
Definition is_lf (c : N) : bool := c =? 10.
Fixpoint count_nl (s : str) : nat := match s with [] => 0%nat | c :: r => ((if is_lf c then 1 else 0) + count_nl r)%nat end.

Lemma advance_line a : forall l c, fst (advance a l c) = (l + count_nl a)%nat.
Proof.
  induction a as [|x a IH]; intros l c; simpl; [lia|]. unfold is_lf.
  destruct (x =? 10); rewrite IH; lia.
Qed.

Lemma advance_col_bound a : forall l c, (snd (advance a l c) <= c + length a)%nat.
Proof.
  induction a as [|x a IH]; intros l c; simpl; [lia|].
  destruct (x =? 10); [specialize (IH (S l) 0%nat)|specialize (IH l (S c))]; lia.
Qed.

Lemma count_nl_app a b : count_nl (a ++ b) = (count_nl a + count_nl b)%nat.
Proof. induction a as [|x a IH]; simpl; [reflexivity|]. rewrite IH. lia. Qed.

(* the (1-based) line of every token is one of the lines of the text; its column is within the text *)
Theorem token_line_in_text s t : placed s 1 0 t -> (1 <= tline t <= 1 + count_nl s)%nat /\ (tcol t <= length s)%nat.
Proof.
  intros [pre [post [E1 [E2 _]]]].
  pose proof (advance_line pre 1 0) as Hl. pose proof (advance_col_bound pre 1 0) as Hc. rewrite E2 in Hl, Hc. simpl in Hl, Hc.
  subst s. rewrite count_nl_app, app_length. lia.
Qed.

(* ---- the pre-pass keeps every line a prefix of the original line ---- *)
Lemma cut_comment_prefix s : exists rest, s = cut_comment s ++ rest.
Proof.
  induction s as [|c r [rest IH]]; simpl; [exists []; reflexivity|].
  destruct ((c =? 32) && match r with d :: _ => d =? 35 | [] => false end); [exists (c :: r); reflexivity|].
  exists rest. simpl. rewrite <- IH. reflexivity.
Qed.

Lemma trim_left_suffix p s : exists pre, s = pre ++ trim_left p s.
Proof.
  induction s as [|c r [pre IH]]; simpl; [exists []; reflexivity|].
  destruct (p c); [exists (c :: pre); simpl; rewrite <- IH; reflexivity|exists []; reflexivity].
Qed.

Lemma trim_right_prefix p s : exists rest, s = trim_right p s ++ rest.
Proof.
  unfold trim_right. destruct (trim_left_suffix p (rev s)) as [pre E].
  exists (rev pre). apply (f_equal (@rev N)) in E. rewrite rev_involutive, rev_app_distr in E. exact E.
Qed.

(* a cleaned line is a prefix of the line it comes from: columns are preserved, nothing is moved *)
Theorem clean_line_prefix line : exists rest, line = clean_line line ++ rest.
Proof.
  unfold clean_line. destruct (trim_left is_space line) as [|c r]; [exists line; reflexivity|].
  destruct (c =? 35); [exists line; reflexivity|].
  destruct (cut_comment_prefix line) as [r1 E1]. destruct (trim_right_prefix is_space (cut_comment line)) as [r2 E2].
  exists (r2 ++ r1). rewrite app_assoc, <- E2. exact E1.
Qed.

(* Proofs/PBuilderShape.v — C17: the plain authorization-model graph has the lines the rewrites dictate.  For every
   model in [pshape_domain] and every relation, the lines that enter "type#relation" and each operator node created
   for it — read as (label of the source node, kind, tupleset label, conditions), in the order of their line
   numbers — are exactly the lists Spec/PGraphShape.pshape computes from the rewrite alone. *)
From Coq Require Import Permutation Lia.
From Verif Require Import Base.Str Base.Outcome Model.Ast Model.Printer Model.WGraph Model.PGraph Spec.GraphShape Spec.PGraphShape
  Proofs.SortFacts Proofs.GraphPrims Proofs.StrategyProofs Proofs.WGraphProofs Proofs.BuilderShape.

(* ---------------------------------------------------------------------------------------- *)
(* 1. reading a plain graph by labels                                                        *)
(* ---------------------------------------------------------------------------------------- *)
Definition nlabel (g : pgraph) (i : nat) : str :=
  match nth_error (pg_nodes g) i with Some n => pn_ulabel n | None => [] end.
Definition eview (g : pgraph) (l : pline) : pentry := (nlabel g (pl_from l), pl_type l, pl_tupleset l, pl_conds l).
Definition into (g : pgraph) (x : str) : list pline := filter (fun l => str_eqb (nlabel g (pl_to l)) x) (pg_lines g).
Definition entries (g : pgraph) (x : str) : list pentry := map (eview g) (into g x).

Record WF (g : pgraph) : Prop := {
  wf_ids : forall i n, nth_error (pg_nodes g) i = Some n -> pn_id n = i;
  wf_labels : NoDup (map pn_ulabel (pg_nodes g));
  wf_lines : forall l, In l (pg_lines g) -> (pl_from l < length (pg_nodes g))%nat /\ (pl_to l < length (pg_nodes g))%nat }.

Lemma find_nth {A} (f : A -> bool) l x : find f l = Some x -> exists i, nth_error l i = Some x /\ f x = true.
Proof.
  induction l as [|y l IH]; cbn; [discriminate|]. destruct (f y) eqn:E.
  - intros H. inversion H; subst. exists 0%nat. split; [reflexivity|exact E].
  - intros H. destruct (IH H) as [i [Hi Hf]]. exists (S i). split; assumption.
Qed.

Lemma find_pnode_facts g ul n : WF g -> find_pnode ul g = Some n ->
  nth_error (pg_nodes g) (pn_id n) = Some n /\ pn_ulabel n = ul /\ nlabel g (pn_id n) = ul /\ (pn_id n < length (pg_nodes g))%nat.
Proof.
  intros W H. unfold find_pnode in H. destruct (find_nth _ _ _ H) as [i [Hi Hf]]. rewrite (wf_ids g W i n Hi).
  assert (El : pn_ulabel n = ul) by (destruct (str_eqb_spec (pn_ulabel n) ul); [assumption|discriminate]).
  split; [exact Hi|]. split; [exact El|]. split; [unfold nlabel; rewrite Hi; exact El|]. apply nth_error_Some. congruence.
Qed.

Lemma nlabel_inj g i j : WF g -> (i < length (pg_nodes g))%nat -> (j < length (pg_nodes g))%nat -> nlabel g i = nlabel g j -> i = j.
Proof.
  intros W Hi Hj E. unfold nlabel in E.
  destruct (nth_error (pg_nodes g) i) as [a|] eqn:Ea; [|apply nth_error_None in Ea; lia].
  destruct (nth_error (pg_nodes g) j) as [b|] eqn:Eb; [|apply nth_error_None in Eb; lia].
  pose proof (wf_labels g W) as Hnd.
  assert (Ha : nth_error (map pn_ulabel (pg_nodes g)) i = Some (pn_ulabel a)) by (rewrite nth_error_map, Ea; reflexivity).
  assert (Hb : nth_error (map pn_ulabel (pg_nodes g)) j = Some (pn_ulabel b)) by (rewrite nth_error_map, Eb; reflexivity).
  rewrite E in Ha. rewrite <- Hb in Ha. apply (proj1 (NoDup_nth_error _) Hnd i j); [rewrite map_length; exact Hi|exact Ha].
Qed.

Lemma find_pnode_none_label g ul : find_pnode ul g = None -> ~ In ul (map pn_ulabel (pg_nodes g)).
Proof.
  unfold find_pnode. intros H Hin. apply in_map_iff in Hin. destruct Hin as [n [E Hn]].
  pose proof (find_none _ _ H n Hn) as X. cbn in X. rewrite E, str_eqb_refl in X. discriminate.
Qed.

Lemma find_app_gen {A} (f : A -> bool) l l' : find f (l ++ l') = match find f l with Some x => Some x | None => find f l' end.
Proof. induction l as [|x l IH]; cbn; [reflexivity|]. destruct (f x); [reflexivity|exact IH]. Qed.
Lemma find_app_none {A} (f : A -> bool) l l' : find f l = None -> find f (l ++ l') = find f l'.
Proof. intros H. rewrite find_app_gen, H. reflexivity. Qed.

(* ---- the three primitives ---- *)
Lemma nlabel_app g more i : (i < length (pg_nodes g))%nat ->
  match nth_error (pg_nodes g ++ more) i with Some n => pn_ulabel n | None => [] end = nlabel g i.
Proof. intros H. unfold nlabel. rewrite nth_error_app1 by exact H. reflexivity. Qed.

Definition same_view (g g' : pgraph) : Prop :=
  pg_lines g' = pg_lines g /\ (forall i, (i < length (pg_nodes g))%nat -> nlabel g' i = nlabel g i).

Lemma map_filter_agree (g g' : pgraph) x ls :
  (forall l, In l ls -> str_eqb (nlabel g' (pl_to l)) x = str_eqb (nlabel g (pl_to l)) x /\ eview g' l = eview g l) ->
  map (eview g') (filter (fun l => str_eqb (nlabel g' (pl_to l)) x) ls) = map (eview g) (filter (fun l => str_eqb (nlabel g (pl_to l)) x) ls).
Proof.
  induction ls as [|l ls IH]; intros H; [reflexivity|]. cbn [filter]. destruct (H l (or_introl eq_refl)) as [H1 H2]. rewrite H1.
  specialize (IH (fun l0 Hl0 => H l0 (or_intror Hl0))). destruct (str_eqb (nlabel g (pl_to l)) x); cbn [map]; [rewrite H2|]; rewrite IH; reflexivity.
Qed.

Lemma entries_same_view g g' x : WF g -> same_view g g' -> entries g' x = entries g x.
Proof.
  intros W [El En]. unfold entries, into. rewrite El. apply map_filter_agree.
  intros l Hl. destruct (wf_lines g W l Hl) as [Hf Ht]. unfold eview. rewrite (En _ Hf), (En _ Ht). split; reflexivity.
Qed.

Lemma p_get_or_add_facts g ul lab t : WF g ->
  let g' := fst (p_get_or_add g ul lab t) in let n := snd (p_get_or_add g ul lab t) in
  WF g' /\ find_pnode ul g' = Some n /\ same_view g g' /\ pg_ops g' = pg_ops g /\
  (exists more, pg_nodes g' = pg_nodes g ++ more) /\
  (forall ul', ul' <> ul -> find_pnode ul' g' = find_pnode ul' g) /\
  (find_pnode ul g = None -> pn_type n = t).
Proof.
  intros W. unfold p_get_or_add. destruct (find_pnode ul g) as [n|] eqn:Ef; cbn [fst snd].
  - split; [exact W|]. split; [exact Ef|]. split; [split; [reflexivity|intros; reflexivity]|]. split; [reflexivity|].
    split; [exists []; rewrite app_nil_r; reflexivity|]. split; [intros; reflexivity|discriminate].
  - set (n := {| pn_id := length (pg_nodes g); pn_ulabel := ul; pn_label := lab; pn_type := t |}).
    split; [|split; [|split; [|split; [|split; [|split]]]]].
    + constructor; cbn [pg_nodes pg_lines].
      * intros i x Hi. destruct (Nat.lt_ge_cases i (length (pg_nodes g))) as [Hlt|Hge].
        -- rewrite nth_error_app1 in Hi by exact Hlt. apply (wf_ids g W). exact Hi.
        -- rewrite nth_error_app2 in Hi by exact Hge. destruct (i - length (pg_nodes g))%nat as [|k] eqn:Ek; cbn in Hi; [|destruct k; discriminate].
           inversion Hi; subst x. cbn. lia.
      * rewrite map_app. cbn. apply NoDup_app_single; [apply (wf_labels g W)|apply find_pnode_none_label; exact Ef].
      * intros l Hl. destruct (wf_lines g W l Hl). rewrite app_length. cbn. lia.
    + unfold find_pnode. cbn [pg_nodes]. rewrite find_app_none; [cbn; rewrite str_eqb_refl; reflexivity|exact Ef].
    + split; [reflexivity|]. intros i Hi. unfold nlabel at 1. cbn [pg_nodes]. apply nlabel_app. exact Hi.
    + reflexivity.
    + eexists. reflexivity.
    + intros ul' Hne. unfold find_pnode. cbn [pg_nodes]. rewrite find_app_gen. destruct (find _ (pg_nodes g)); [reflexivity|]. cbn.
      rewrite str_eqb_false by congruence. reflexivity.
    + reflexivity.
Qed.

(* lines seen from one target label, for a fixed node table *)
Definition view (g : pgraph) (x : str) (ls : list pline) : list pentry :=
  map (eview g) (filter (fun l => str_eqb (nlabel g (pl_to l)) x) ls).
Definition ends_ok (g : pgraph) (ls : list pline) : Prop :=
  forall l, In l ls -> (pl_from l < length (pg_nodes g))%nat /\ (pl_to l < length (pg_nodes g))%nat.

Lemma entries_view g x : entries g x = view g x (pg_lines g).
Proof. reflexivity. Qed.

Lemma view_app g x a b : view g x (a ++ b) = view g x a ++ view g x b.
Proof. unfold view. rewrite filter_app, map_app. reflexivity. Qed.

Lemma p_same_view g l from to t ts : WF g -> (from < length (pg_nodes g))%nat -> (to < length (pg_nodes g))%nat ->
  (pl_from l < length (pg_nodes g))%nat -> (pl_to l < length (pg_nodes g))%nat ->
  p_same l from to t ts = str_eqb (nlabel g (pl_to l)) (nlabel g to) && pe_same (eview g l) (nlabel g from) t ts.
Proof.
  intros W Hf Ht Hlf Hlt. unfold p_same, pe_same, eview.
  assert (E1 : (pl_from l =? from)%nat = str_eqb (nlabel g (pl_from l)) (nlabel g from)).
  { destruct (Nat.eqb_spec (pl_from l) from) as [->|Hne]; [rewrite str_eqb_refl; reflexivity|].
    symmetry. apply str_eqb_false. intros X. apply Hne. apply (nlabel_inj g); assumption. }
  assert (E2 : (pl_to l =? to)%nat = str_eqb (nlabel g (pl_to l)) (nlabel g to)).
  { destruct (Nat.eqb_spec (pl_to l) to) as [->|Hne]; [rewrite str_eqb_refl; reflexivity|].
    symmetry. apply str_eqb_false. intros X. apply Hne. apply (nlabel_inj g); assumption. }
  rewrite E1, E2. destruct (str_eqb (nlabel g (pl_from l)) (nlabel g from)), (str_eqb (nlabel g (pl_to l)) (nlabel g to)),
    (etype_eqb (pl_type l) t), (str_eqb (pl_tupleset l) ts); reflexivity.
Qed.

Lemma upsert_in_view g from to t ts cond : WF g -> (from < length (pg_nodes g))%nat -> (to < length (pg_nodes g))%nat ->
  forall ls, ends_ok g ls ->
    option_map (view g (nlabel g to)) (p_upsert_in ls from to t ts cond) =
      pl_upsert_in (view g (nlabel g to) ls) (nlabel g from) t ts cond /\
    forall ls', p_upsert_in ls from to t ts cond = Some ls' ->
      (forall y, y <> nlabel g to -> view g y ls' = view g y ls) /\ ends_ok g ls' /\ length ls' = length ls.
Proof.
  intros W Hf Ht. induction ls as [|l ls IH]; intros He.
  - split; [reflexivity|intros ls' H; discriminate H].
  - destruct (He l (or_introl eq_refl)) as [Hlf Hlt]. assert (He' : ends_ok g ls) by (intros l0 Hl0; apply He; right; exact Hl0).
    destruct (IH He') as [IH1 IH2]. cbn [p_upsert_in]. rewrite (p_same_view g l from to t ts W Hf Ht Hlf Hlt).
    unfold view at 2. cbn [filter]. destruct (str_eqb_spec (nlabel g (pl_to l)) (nlabel g to)) as [Eto|Nto]; cbn [andb map].
    + cbn [pl_upsert_in]. destruct (pe_same (eview g l) (nlabel g from) t ts) eqn:Es.
      * unfold view, eview. cbv beta iota. fold (eview g). destruct (mem_str cond (pl_conds l)) eqn:Em.
        -- split; [cbn [option_map filter]; rewrite Eto, str_eqb_refl; reflexivity|].
           intros ls' H. inversion H; subst ls'. split; [reflexivity|split; [exact He|reflexivity]].
        -- split.
           ++ cbn [option_map filter pl_to]. rewrite Eto, str_eqb_refl. reflexivity.
           ++ intros ls' H. inversion H; subst ls'. split; [|split].
              ** intros y Hy. unfold view. cbn [filter pl_to]. rewrite Eto. rewrite (str_eqb_false _ _ (not_eq_sym Hy)). reflexivity.
              ** intros l0 [<-|Hl0]; [cbn; tauto|apply He; right; exact Hl0].
              ** reflexivity.
      * fold (view g (nlabel g to) ls). rewrite <- IH1. destruct (p_upsert_in ls from to t ts cond) as [r'|] eqn:Eu; cbn [option_map].
        -- split; [unfold view; cbn [filter]; rewrite Eto, str_eqb_refl; reflexivity|].
           intros ls' H. inversion H; subst ls'. destruct (IH2 r' eq_refl) as (A & B & C). split; [|split].
           ++ intros y Hy. unfold view. cbn [filter]. specialize (A y Hy). unfold view in A.
              destruct (str_eqb (nlabel g (pl_to l)) y); cbn [map]; rewrite A; reflexivity.
           ++ intros l0 [<-|Hl0]; [tauto|apply B; exact Hl0].
           ++ cbn. rewrite C. reflexivity.
        -- split; [reflexivity|intros ls' H; discriminate H].
    + fold (view g (nlabel g to) ls). rewrite <- IH1. destruct (p_upsert_in ls from to t ts cond) as [r'|] eqn:Eu; cbn [option_map].
      * split; [unfold view; cbn [filter]; rewrite (str_eqb_false _ _ Nto); reflexivity|].
        intros ls' H. inversion H; subst ls'. destruct (IH2 r' eq_refl) as (A & B & C). split; [|split].
        -- intros y Hy. unfold view. cbn [filter]. specialize (A y Hy). unfold view in A.
           destruct (str_eqb (nlabel g (pl_to l)) y); cbn [map]; rewrite A; reflexivity.
        -- intros l0 [<-|Hl0]; [tauto|apply B; exact Hl0].
        -- cbn. rewrite C. reflexivity.
      * split; [reflexivity|intros ls' H; discriminate H].
Qed.

(* ---- add and upsert on the graph ---- *)
Lemma nlabel_same_nodes g g' i : pg_nodes g' = pg_nodes g -> nlabel g' i = nlabel g i.
Proof. unfold nlabel. intros ->. reflexivity. Qed.

Lemma view_same_nodes g g' x ls : pg_nodes g' = pg_nodes g -> view g' x ls = view g x ls.
Proof.
  intros E. unfold view. induction ls as [|l ls IH]; [reflexivity|]. cbn [filter]. rewrite (nlabel_same_nodes g g' _ E).
  destruct (str_eqb (nlabel g (pl_to l)) x); cbn [map]; [unfold eview at 1; rewrite (nlabel_same_nodes g g' _ E); fold (eview g l)|]; rewrite IH; reflexivity.
Qed.

Lemma WF_lines g ls : WF g -> ends_ok g ls -> WF {| pg_nodes := pg_nodes g; pg_lines := ls; pg_ops := pg_ops g; pg_listobjects := pg_listobjects g |}.
Proof. intros W He. constructor; cbn; [apply (wf_ids g W)|apply (wf_labels g W)|exact He]. Qed.

Lemma p_add_edge_facts g from to t ts conds : WF g -> (from < length (pg_nodes g))%nat -> (to < length (pg_nodes g))%nat ->
  let g' := p_add_edge g from to t ts conds in
  WF g' /\ pg_nodes g' = pg_nodes g /\ pg_ops g' = pg_ops g /\
  forall x, entries g' x = entries g x ++
            (if str_eqb (nlabel g to) x then [(nlabel g from, t, ts, match conds with [] => [no_cond] | _ => conds end)] else []).
Proof.
  intros W Hf Ht g'. assert (En : pg_nodes g' = pg_nodes g) by reflexivity.
  split; [|split; [exact En|split; [reflexivity|]]].
  - unfold g', p_add_edge. apply (WF_lines g); [exact W|]. intros l Hl. apply in_app_or in Hl. destruct Hl as [Hl|[<-|[]]]; [apply (wf_lines g W); exact Hl|cbn; tauto].
  - intros x. rewrite !entries_view. rewrite (view_same_nodes g g' x _ En). unfold g', p_add_edge. cbn [pg_lines]. rewrite view_app. f_equal.
    unfold view. cbn [filter pl_to]. destruct (str_eqb (nlabel g to) x); reflexivity.
Qed.

Lemma p_upsert_facts g from to t ts cond : WF g -> (from < length (pg_nodes g))%nat -> (to < length (pg_nodes g))%nat ->
  let g' := p_upsert g from to t ts cond in
  WF g' /\ pg_nodes g' = pg_nodes g /\ pg_ops g' = pg_ops g /\
  entries g' (nlabel g to) = pl_upsert (entries g (nlabel g to)) (nlabel g from) t ts cond /\
  (forall y, y <> nlabel g to -> entries g' y = entries g y).
Proof.
  intros W Hf Ht g'. destruct (upsert_in_view g from to t ts cond W Hf Ht (pg_lines g) (wf_lines g W)) as [U1 U2].
  unfold g', p_upsert, pl_upsert. change (entries g (nlabel g to)) with (view g (nlabel g to) (pg_lines g)). rewrite <- U1.
  destruct (p_upsert_in (pg_lines g) from to t ts cond) as [ls'|] eqn:Eu; cbn [option_map].
  - destruct (U2 ls' eq_refl) as (A & B & C).
    set (g1 := {| pg_nodes := pg_nodes g; pg_lines := ls'; pg_ops := pg_ops g; pg_listobjects := pg_listobjects g |}).
    split; [apply (WF_lines g); assumption|]. split; [reflexivity|]. split; [reflexivity|]. split.
    + change (entries g1 (nlabel g to)) with (view g1 (nlabel g to) ls'). apply (view_same_nodes g g1 _ _ eq_refl).
    + intros y Hy. change (entries g1 y) with (view g1 y ls'). rewrite (view_same_nodes g g1 _ _ eq_refl). apply A. exact Hy.
  - destruct (p_add_edge_facts g from to t ts [if is_empty cond then no_cond else cond] W Hf Ht) as (W' & N' & O' & E').
    split; [exact W'|]. split; [exact N'|]. split; [exact O'|]. split.
    + rewrite E', str_eqb_refl. reflexivity.
    + intros y Hy. rewrite E'. rewrite str_eqb_false by (intros X; apply Hy; symmetry; exact X). apply app_nil_r.
Qed.

Lemma entries_no_node g x : WF g -> ~ In x (map pn_ulabel (pg_nodes g)) -> entries g x = [].
Proof.
  intros W Hx. unfold entries, into.
  assert (H : forall l, In l (pg_lines g) -> str_eqb (nlabel g (pl_to l)) x = false).
  { intros l Hl. destruct (wf_lines g W l Hl) as [_ Ht]. apply str_eqb_false. intros E. apply Hx. rewrite <- E. unfold nlabel.
    destruct (nth_error (pg_nodes g) (pl_to l)) as [n|] eqn:En; [|apply nth_error_None in En; lia]. apply in_map. eapply nth_error_In; eauto. }
  induction (pg_lines g) as [|l ls IH]; [reflexivity|]. cbn [filter]. rewrite (H l (or_introl eq_refl)). apply IH. intros l0 Hl0. apply H. right. exact Hl0.
Qed.

(* ---- invariants of the builder ---- *)
Definition pfresh (g : pgraph) : Prop := forall op j, In op op_names -> pg_ops g <= j -> find_pnode (op_id op j) g = None.
Definition pold (g : pgraph) (x : str) : Prop := forall op j, In op op_names -> pg_ops g <= j -> x <> op_id op j.
Definition pty_ok (ty : str -> ntype) (g : pgraph) : Prop := forall ul n, find_pnode ul g = Some n -> ty ul = pn_type n.

Lemma pold_nonop g id : nonop id -> pold g id.
Proof. intros H op j Hin _ ->. unfold nonop in H. rewrite is_op_id_op_id in H by exact Hin. discriminate. Qed.
Lemma pold_mono g g' x : pg_ops g <= pg_ops g' -> pold g x -> pold g' x.
Proof. intros Hle H op j Hin Hj. apply H; [exact Hin|lia]. Qed.
Lemma op_id_pold g op j : In op op_names -> j < pg_ops g -> pold g (op_id op j).
Proof. intros Hin Hj op' j' Hin' Hj' E. apply op_id_inj in E; [|assumption|assumption]. lia. Qed.

Lemma find_pnode_app g more ul : find_pnode ul g <> None ->
  find (fun n => str_eqb (pn_ulabel n) ul) (pg_nodes g ++ more) = find_pnode ul g.
Proof. unfold find_pnode. intros H. rewrite find_app_gen. destruct (find _ (pg_nodes g)); [reflexivity|contradiction]. Qed.

Lemma pty_ok_prefix ty g g' : (exists more, pg_nodes g' = pg_nodes g ++ more) -> pty_ok ty g' -> pty_ok ty g.
Proof.
  intros [more E] H ul n Hf. apply H. unfold find_pnode. rewrite E. rewrite find_pnode_app by congruence. exact Hf.
Qed.

Lemma pfresh_get_or_add g ul lab t : WF g -> nonop ul -> pfresh g -> pfresh (fst (p_get_or_add g ul lab t)).
Proof.
  intros W Hn Hf op j Hin Hj. destruct (p_get_or_add_facts g ul lab t W) as (_ & _ & _ & Eo & _ & Hother & _).
  rewrite Eo in Hj. rewrite Hother; [apply Hf; assumption|]. intros E. apply (pold_nonop g ul Hn op j Hin Hj). symmetry. exact E.
Qed.

(* ---------------------------------------------------------------------------------------- *)
(* 2. the three kinds of leaves                                                              *)
(* ---------------------------------------------------------------------------------------- *)
Definition pleaf_ok (g g' : pgraph) (plabel : str) (l' : list pentry) : Prop :=
  WF g' /\ entries g' plabel = l' /\ (forall x, x <> plabel -> entries g' x = entries g x) /\
  pg_ops g' = pg_ops g /\ pfresh g' /\ (exists more, pg_nodes g' = pg_nodes g ++ more).

Lemma find_pnode_prefix g g' ul n : (exists more, pg_nodes g' = pg_nodes g ++ more) -> find_pnode ul g = Some n -> find_pnode ul g' = Some n.
Proof. intros [more E] H. unfold find_pnode. rewrite E, find_pnode_app by congruence. exact H. Qed.

Lemma pleaf_refl g plabel : WF g -> pfresh g -> pleaf_ok g g plabel (entries g plabel).
Proof. intros W F. split; [exact W|]. split; [reflexivity|]. split; [reflexivity|]. split; [reflexivity|]. split; [exact F|exists []; rewrite app_nil_r; reflexivity]. Qed.

Lemma pleaf_trans g g1 g2 plabel l1 l2 :
  pleaf_ok g g1 plabel l1 -> pleaf_ok g1 g2 plabel l2 -> pleaf_ok g g2 plabel l2.
Proof.
  intros (W1 & E1 & F1 & O1 & P1 & [m1 N1]) (W2 & E2 & F2 & O2 & P2 & [m2 N2]).
  split; [exact W2|]. split; [exact E2|]. split; [intros x Hx; rewrite (F2 x Hx); apply F1; exact Hx|]. split; [congruence|]. split; [exact P2|].
  exists (m1 ++ m2). rewrite N2, N1, app_assoc. reflexivity.
Qed.

(* adding a node *)
Lemma pleaf_get_or_add g ul lab t plabel : WF g -> pfresh g -> nonop ul ->
  pleaf_ok g (fst (p_get_or_add g ul lab t)) plabel (entries g plabel).
Proof.
  intros W F Hn. destruct (p_get_or_add_facts g ul lab t W) as (W' & _ & SV & Eo & Hpre & _ & _).
  split; [exact W'|]. split; [apply entries_same_view; assumption|]. split; [intros; apply entries_same_view; assumption|].
  split; [exact Eo|]. split; [apply pfresh_get_or_add; assumption|exact Hpre].
Qed.

(* an upsert into the parent *)
Lemma pleaf_upsert g c parent plabel t ts cond :
  WF g -> pfresh g -> find_pnode (pn_ulabel c) g = Some c -> find_pnode plabel g = Some parent ->
  pleaf_ok g (p_upsert g (pn_id c) (pn_id parent) t ts cond) plabel (pl_upsert (entries g plabel) (pn_ulabel c) t ts cond).
Proof.
  intros W F Hc Hp. destruct (find_pnode_facts g _ c W Hc) as (_ & _ & Lc & Bc). destruct (find_pnode_facts g _ parent W Hp) as (_ & _ & Lp & Bp).
  destruct (p_upsert_facts g (pn_id c) (pn_id parent) t ts cond W Bc Bp) as (W' & N' & O' & E' & F').
  rewrite Lp, Lc in E'. rewrite Lp in F'.
  split; [exact W'|]. split; [exact E'|]. split; [exact F'|]. split; [exact O'|]. split.
  - intros op j Hin Hj. rewrite O' in Hj. unfold find_pnode. rewrite N'. apply F; assumption.
  - exists []. rewrite app_nil_r. exact N'.
Qed.

Definition cur_rel (g : pgraph) (cur : option pnode) (curl : option str) : Prop :=
  match cur with
  | Some c => find_pnode (pn_ulabel c) g = Some c /\ curl = Some (pn_ulabel c)
  | None => curl = None
  end.

Definition pthis_step (parent : pnode) (acc : pgraph * option pnode) (r : relation_ref) : pgraph * option pnode :=
  let '(g, cur) := acc in
  let '(g, cur) :=
    match rr_kind r with
    | RPlain => let '(g, n) := p_get_or_add g (rr_type r) (rr_type r) NType in (g, Some n)
    | RWild => let '(g, n) := p_get_or_add g (rr_type r ++ lit ":*") (rr_type r ++ lit ":*") NWildcard in (g, Some n)
    | RRel x => if is_empty x then (g, cur)
                else let '(g, n) := p_get_or_add g (rr_type r ++ lit "#" ++ x) (rr_type r ++ lit "#" ++ x) NTypeRel in (g, Some n)
    end in
  match cur with
  | Some c => (p_upsert g (pn_id c) (pn_id parent) EDirect [] (rr_cond r), cur)
  | None => (g, cur)
  end.
Definition lthis_step (acc : list pentry * option str) (r : relation_ref) : list pentry * option str :=
  let '(l, cur) := acc in
  let cur := match rr_kind r with
             | RPlain => Some (rr_type r)
             | RWild => Some (rr_type r ++ lit ":*")
             | RRel x => if is_empty x then cur else Some (rr_type r ++ lit "#" ++ x)
             end in
  match cur with
  | Some c => (pl_upsert l c EDirect [] (rr_cond r), cur)
  | None => (l, cur)
  end.

Lemma p_parse_this_fold parent plabel refs : forall g cur curl l,
  WF g -> pfresh g -> find_pnode plabel g = Some parent -> Forall nonop (map ref_id refs) -> cur_rel g cur curl -> entries g plabel = l ->
  pleaf_ok g (fst (fold_left (pthis_step parent) refs (g, cur))) plabel (fst (fold_left lthis_step refs (l, curl))).
Proof.
  induction refs as [|r refs IH]; intros g cur curl l W F Hp Hn Hcur El.
  - cbn [fold_left fst]. subst l. apply pleaf_refl; assumption.
  - cbn [map] in Hn. apply Forall_cons_iff in Hn. destruct Hn as [Hr Hn']. cbn [fold_left].
    (* an upsert from the current node [c], then the rest *)
    assert (Hup : forall g1 c, pleaf_ok g g1 plabel l -> find_pnode (pn_ulabel c) g1 = Some c ->
              pleaf_ok g
                (fst (fold_left (pthis_step parent) refs (p_upsert g1 (pn_id c) (pn_id parent) EDirect [] (rr_cond r), Some c))) plabel
                (fst (fold_left lthis_step refs (pl_upsert l (pn_ulabel c) EDirect [] (rr_cond r), Some (pn_ulabel c))))).
    { intros g1 c L1 Hc. pose proof L1 as (W1 & En1 & Fr1 & O1 & P1 & Pre1).
      pose proof (find_pnode_prefix g g1 plabel parent Pre1 Hp) as Hp1.
      pose proof (pleaf_upsert g1 c parent plabel EDirect [] (rr_cond r) W1 P1 Hc Hp1) as L2. rewrite En1 in L2.
      pose proof L2 as (W2 & En2 & Fr2 & O2 & P2 & Pre2).
      assert (Hc2 : cur_rel (p_upsert g1 (pn_id c) (pn_id parent) EDirect [] (rr_cond r)) (Some c) (Some (pn_ulabel c))).
      { cbn [cur_rel]. split; [|reflexivity]. apply (find_pnode_prefix g1 _ _ _ Pre2 Hc). }
      eapply pleaf_trans; [eapply pleaf_trans; [exact L1|exact L2]|].
      apply (IH _ (Some c) (Some (pn_ulabel c)) _ W2 P2 (find_pnode_prefix g1 _ _ _ Pre2 Hp1) Hn' Hc2 En2). }
    (* a restriction that names a node *)
    assert (Hadd : forall ul lab t, nonop ul ->
              pleaf_ok g
                (fst (fold_left (pthis_step parent) refs (let '(g1, n) := p_get_or_add g ul lab t in (p_upsert g1 (pn_id n) (pn_id parent) EDirect [] (rr_cond r), Some n)))) plabel
                (fst (fold_left lthis_step refs (pl_upsert l ul EDirect [] (rr_cond r), Some ul)))).
    { intros ul lab t Hu. pose proof (pleaf_get_or_add g ul lab t plabel W F Hu) as L1.
      destruct (p_get_or_add_facts g ul lab t W) as (W' & Hfind & _).
      destruct (p_get_or_add g ul lab t) as [g1 n]. cbn [fst snd] in *.
      destruct (find_pnode_facts g1 ul n W' Hfind) as (_ & El' & _ & _). rewrite El in L1.
      pose proof (Hup g1 n L1 ltac:(rewrite El'; exact Hfind)) as X. rewrite El' in X. exact X. }
    unfold ref_id in Hr. unfold pthis_step at 2, lthis_step at 2. destruct (rr_kind r) as [|x|].
    + pose proof (Hadd (rr_type r) (rr_type r) NType Hr) as X. destruct (p_get_or_add g (rr_type r) (rr_type r) NType) as [g1 n]. exact X.
    + destruct (is_empty x) eqn:Ex.
      * destruct cur as [c|]; cbn [cur_rel] in Hcur.
        -- destruct Hcur as [Hc ->]. apply Hup; [subst l; apply pleaf_refl; assumption|exact Hc].
        -- subst curl. apply (IH g None None l W F Hp Hn' eq_refl El).
      * pose proof (Hadd (rr_type r ++ lit "#" ++ x) (rr_type r ++ lit "#" ++ x) NTypeRel Hr) as X.
        destruct (p_get_or_add g (rr_type r ++ lit "#" ++ x) (rr_type r ++ lit "#" ++ x) NTypeRel) as [g1 n]. exact X.
    + pose proof (Hadd (rr_type r ++ lit ":*") (rr_type r ++ lit ":*") NWildcard Hr) as X.
      destruct (p_get_or_add g (rr_type r ++ lit ":*") (rr_type r ++ lit ":*") NWildcard) as [g1 n]. exact X.
Qed.

Lemma p_parse_this_leaf g parent plabel td rel :
  WF g -> pfresh g -> find_pnode plabel g = Some parent ->
  Forall nonop (map ref_id (rm_types_of (assoc rel (td_meta_rels td)))) ->
  pleaf_ok g (p_parse_this g parent td rel) plabel (pl_this (rm_types_of (assoc rel (td_meta_rels td))) (entries g plabel)).
Proof. intros W F Hp Hn. unfold p_parse_this, pl_this. apply (p_parse_this_fold parent plabel _ g None None _ W F Hp Hn eq_refl eq_refl). Qed.

Lemma has_edge_view g from to t ts : WF g -> (from < length (pg_nodes g))%nat -> (to < length (pg_nodes g))%nat ->
  forall ls, ends_ok g ls ->
  existsb (fun l => p_same l from to t ts) ls = existsb (fun e => pe_same e (nlabel g from) t ts) (view g (nlabel g to) ls).
Proof.
  intros W Hf Ht. induction ls as [|l ls IH]; intros He; [reflexivity|].
  destruct (He l (or_introl eq_refl)) as [Hlf Hlt]. cbn [existsb]. rewrite (p_same_view g l from to t ts W Hf Ht Hlf Hlt), IH by (intros l0 Hl0; apply He; right; exact Hl0).
  unfold view. cbn [filter]. destruct (str_eqb (nlabel g (pl_to l)) (nlabel g to)); reflexivity.
Qed.

Lemma pleaf_add_edge g c parent plabel t ts :
  WF g -> pfresh g -> find_pnode (pn_ulabel c) g = Some c -> find_pnode plabel g = Some parent ->
  pleaf_ok g (p_add_edge g (pn_id c) (pn_id parent) t ts []) plabel (entries g plabel ++ [(pn_ulabel c, t, ts, [no_cond])]).
Proof.
  intros W F Hc Hp. destruct (find_pnode_facts g _ c W Hc) as (_ & _ & Lc & Bc). destruct (find_pnode_facts g _ parent W Hp) as (_ & _ & Lp & Bp).
  destruct (p_add_edge_facts g (pn_id c) (pn_id parent) t ts [] W Bc Bp) as (W' & N' & O' & E').
  split; [exact W'|]. split; [rewrite E', Lp, Lc, str_eqb_refl; reflexivity|]. split.
  - intros x Hx. rewrite E', Lp. rewrite str_eqb_false by (intros X; apply Hx; symmetry; exact X). apply app_nil_r.
  - split; [exact O'|]. split; [|exists []; rewrite app_nil_r; exact N'].
    intros op j Hin Hj. rewrite O' in Hj. unfold find_pnode. rewrite N'. apply F; assumption.
Qed.

Lemma p_parse_computed_leaf ty g parent plabel td r :
  WF g -> pfresh g -> find_pnode plabel g = Some parent -> nonop (td_name td ++ lit "#" ++ r) -> pty_ok ty (p_parse_computed g parent td r) ->
  pleaf_ok g (p_parse_computed g parent td r) plabel
    (entries g plabel ++ [(td_name td ++ lit "#" ++ r, computed_kind ty plabel (td_name td ++ lit "#" ++ r), [], [no_cond])]).
Proof.
  intros W F Hp Hn Hty. unfold p_parse_computed in *. set (id := td_name td ++ lit "#" ++ r) in *.
  pose proof (pleaf_get_or_add g id id NTypeRel plabel W F Hn) as L1.
  destruct (p_get_or_add_facts g id id NTypeRel W) as (W1 & Hfind & _).
  destruct (p_get_or_add g id id NTypeRel) as [g1 n]. cbn [fst snd] in *.
  pose proof L1 as (_ & En1 & _ & _ & P1 & Pre1).
  destruct (find_pnode_facts g1 id n W1 Hfind) as (_ & El & _ & _).
  pose proof (find_pnode_prefix g g1 plabel parent Pre1 Hp) as Hp1.
  set (t := if ntype_eqb (pn_type parent) NTypeRel && ntype_eqb (pn_type n) NTypeRel then EComputed else ERewrite) in *.
  pose proof (pleaf_add_edge g1 n parent plabel t [] W1 P1 ltac:(rewrite El; exact Hfind) Hp1) as L2. rewrite En1, El in L2.
  pose proof L2 as (_ & _ & _ & _ & _ & Pre2).
  assert (Tn : ty id = pn_type n) by (apply Hty; apply (find_pnode_prefix g1 _ _ _ Pre2 Hfind)).
  assert (Tp : ty plabel = pn_type parent) by (apply Hty; apply (find_pnode_prefix g1 _ _ _ Pre2 Hp1)).
  unfold computed_kind. rewrite Tn, Tp. fold t. eapply pleaf_trans; [exact L1|exact L2].
Qed.

Definition pttu_step (parent : pnode) (m : model) (td : typedef) (tupleset computed : str) (g : pgraph) (r : relation_ref) : pgraph :=
  if negb (type_and_relation_exists m (rr_type r) computed) then g
  else
    let id := rr_type r ++ lit "#" ++ computed in
    let '(g, n) := p_get_or_add g id id NTypeRel in
    let label := td_name td ++ lit "#" ++ tupleset in
    if p_has_edge g (pn_id n) (pn_id parent) ETTU label then g
    else p_upsert g (pn_id n) (pn_id parent) ETTU label (rr_cond r).
Definition lttu_step (m : model) (label computed : str) (l : list pentry) (r : relation_ref) : list pentry :=
  if negb (type_and_relation_exists m (rr_type r) computed) then l
  else
    let src := rr_type r ++ lit "#" ++ computed in
    if existsb (fun e => pe_same e src ETTU label) l then l
    else pl_upsert l src ETTU label (rr_cond r).

Lemma p_parse_ttu_fold parent plabel m td ts cu refs : forall g l,
  WF g -> pfresh g -> find_pnode plabel g = Some parent ->
  Forall nonop (map (fun r => rr_type r ++ lit "#" ++ cu) refs) -> entries g plabel = l ->
  pleaf_ok g (fold_left (pttu_step parent m td ts cu) refs g) plabel (fold_left (lttu_step m (td_name td ++ lit "#" ++ ts) cu) refs l).
Proof.
  induction refs as [|r refs IH]; intros g l W F Hp Hn El.
  - cbn [fold_left]. subst l. apply pleaf_refl; assumption.
  - cbn [map] in Hn. apply Forall_cons_iff in Hn. destruct Hn as [Hr Hn']. cbn [fold_left]. unfold pttu_step at 2, lttu_step at 2.
    destruct (negb (type_and_relation_exists m (rr_type r) cu)); [apply IH; assumption|].
    set (id := rr_type r ++ lit "#" ++ cu) in *. set (label := td_name td ++ lit "#" ++ ts) in *.
    pose proof (pleaf_get_or_add g id id NTypeRel plabel W F Hr) as L1.
    destruct (p_get_or_add_facts g id id NTypeRel W) as (W1 & Hfind & _).
    destruct (p_get_or_add g id id NTypeRel) as [g1 n]. cbn [fst snd] in *.
    pose proof L1 as (_ & En1 & _ & _ & P1 & Pre1). rewrite El in En1, L1.
    destruct (find_pnode_facts g1 id n W1 Hfind) as (_ & Eln & Ln & Bn).
    pose proof (find_pnode_prefix g g1 plabel parent Pre1 Hp) as Hp1.
    destruct (find_pnode_facts g1 plabel parent W1 Hp1) as (_ & _ & Lp & Bp).
    assert (Hhas : p_has_edge g1 (pn_id n) (pn_id parent) ETTU label = existsb (fun e => pe_same e id ETTU label) l).
    { unfold p_has_edge. rewrite (has_edge_view g1 _ _ ETTU label W1 Bn Bp _ (wf_lines g1 W1)), Ln, Lp. rewrite <- entries_view, En1. reflexivity. }
    rewrite Hhas. destruct (existsb (fun e => pe_same e id ETTU label) l).
    + eapply pleaf_trans; [exact L1|]. apply IH; [exact W1|exact P1|exact Hp1|exact Hn'|exact En1].
    + pose proof (pleaf_upsert g1 n parent plabel ETTU label (rr_cond r) W1 P1 ltac:(rewrite Eln; exact Hfind) Hp1) as L2. rewrite En1, Eln in L2.
      pose proof L2 as (W2 & En2 & _ & _ & P2 & Pre2).
      eapply pleaf_trans; [eapply pleaf_trans; [exact L1|exact L2]|].
      apply IH; [exact W2|exact P2|apply (find_pnode_prefix g1 _ _ _ Pre2 Hp1)|exact Hn'|exact En2].
Qed.

Lemma p_parse_ttu_leaf g parent plabel m td ts cu :
  WF g -> pfresh g -> find_pnode plabel g = Some parent ->
  Forall nonop (map (fun r => rr_type r ++ lit "#" ++ cu) (rm_types_of (assoc ts (td_meta_rels td)))) ->
  pleaf_ok g (p_parse_ttu g parent m td ts cu) plabel
    (pl_ttu m (td_name td ++ lit "#" ++ ts) cu (rm_types_of (assoc ts (td_meta_rels td))) (entries g plabel)).
Proof. intros W F Hp Hn. unfold p_parse_ttu, pl_ttu. apply (p_parse_ttu_fold parent plabel m td ts cu _ g _ W F Hp Hn eq_refl). Qed.

(* ---------------------------------------------------------------------------------------- *)
(* 3. a whole rewrite                                                                        *)
(* ---------------------------------------------------------------------------------------- *)
Section PMain.
  Variable ty : str -> ntype.
  Variable m : model.
  Variable td : typedef.
  Variable rel : str.

  Fixpoint p_children (g : pgraph) (opn : pnode) (cs : list userset) : pgraph :=
    match cs with
    | [] => g
    | c :: r => p_children (p_rewrite g opn m td rel c) opn r
    end.
  Definition p_operator (g : pgraph) (parent : pnode) (op : str) (cs : list userset) : pgraph :=
    let id := op ++ lit ":" ++ str_of_N (pg_ops g) in
    let g := {| pg_nodes := pg_nodes g; pg_lines := pg_lines g; pg_ops := pg_ops g + 1; pg_listobjects := pg_listobjects g |} in
    let '(g, opn) := p_get_or_add g id op NOperator in
    let g := p_add_edge g (pn_id opn) (pn_id parent) ERewrite [] [] in
    p_children g opn cs.

  Fixpoint pshape_children (k : N) (olabel : str) (cs : list userset) (ol : list pentry) (created : list (str * list pentry))
    : list pentry * list (str * list pentry) * N :=
    match cs with
    | [] => (ol, created, k)
    | c :: r => let '(ol', cr, k') := pshape ty m td rel k olabel c ol in pshape_children k' olabel r ol' (created ++ cr)
    end.
  Definition pshape_operator (k : N) (plabel op : str) (cs : list userset) (l : list pentry) :=
    let olabel := op_id op k in
    let '(ol, created, k') := pshape_children (k + 1) olabel cs [] [] in
    (l ++ [(olabel, ERewrite, [], [no_cond])], (olabel, ol) :: created, k').

  Lemma p_rewrite_op g p u :
    p_rewrite g p m td rel u =
    match u with
    | UThis _ => p_parse_this g p td rel
    | UComputed r => p_parse_computed g p td r
    | UTTU ts cu => p_parse_ttu g p m td ts cu
    | UUnion cs => p_operator g p (lit "union") cs
    | UInter cs => p_operator g p (lit "intersection") cs
    | UDiff b s => p_operator g p (lit "exclusion") [b; s]
    | UUnset => p_operator g p [] []
    end.
  Proof. destruct u; reflexivity. Qed.

  Lemma pshape_op k plabel u l :
    pshape ty m td rel k plabel u l =
    match u with
    | UThis _ => (pl_this (rm_types_of (assoc rel (td_meta_rels td))) l, [], k)
    | UComputed r => (l ++ [(td_name td ++ lit "#" ++ r, computed_kind ty plabel (td_name td ++ lit "#" ++ r), [], [no_cond])], [], k)
    | UTTU ts cu => (pl_ttu m (td_name td ++ lit "#" ++ ts) cu (rm_types_of (assoc ts (td_meta_rels td))) l, [], k)
    | UUnion cs => pshape_operator k plabel (lit "union") cs l
    | UInter cs => pshape_operator k plabel (lit "intersection") cs l
    | UDiff b s => pshape_operator k plabel (lit "exclusion") [b; s] l
    | UUnset => pshape_operator k plabel [] [] l
    end.
  Proof. destruct u; reflexivity. Qed.

  Definition presult_ok (g g' : pgraph) (plabel : str) (res : list pentry * list (str * list pentry) * N) : Prop :=
    let '(l, created, k') := res in
    WF g' /\ entries g' plabel = l /\
    (forall olab es, In (olab, es) created ->
       entries g' olab = es /\ exists op j, In op op_names /\ pg_ops g <= j < k' /\ olab = op_id op j) /\
    pg_ops g' = k' /\ pg_ops g <= k' /\ pfresh g' /\
    (forall x, x <> plabel -> pold g x -> entries g' x = entries g x) /\
    (exists more, pg_nodes g' = pg_nodes g ++ more).

  Definition pshape_spec (u : userset) : Prop := forall g p plabel,
    WF g -> find_pnode plabel g = Some p -> pfresh g -> pold g plabel ->
    Forall nonop (req_ids td rel u) -> pty_ok ty (p_rewrite g p m td rel u) ->
    presult_ok g (p_rewrite g p m td rel u) plabel (pshape ty m td rel (pg_ops g) plabel u (entries g plabel)).

  Lemma pleaf_result g g' plabel l : pleaf_ok g g' plabel l -> presult_ok g g' plabel (l, [], pg_ops g).
  Proof.
    intros (W & L1 & L2 & L3 & L4 & L5). unfold presult_ok. split; [exact W|]. split; [exact L1|]. split; [intros ? ? []|].
    split; [exact L3|]. split; [lia|]. split; [exact L4|]. split; [intros x Hx _; apply L2; exact Hx|exact L5].
  Qed.

  (* node tables only grow: the plain builder never fails, so this is a direct induction *)
  Lemma p_get_or_add_prefix g ul lab t : exists more, pg_nodes (fst (p_get_or_add g ul lab t)) = pg_nodes g ++ more.
  Proof. unfold p_get_or_add. destruct (find_pnode ul g); cbn; [exists []; rewrite app_nil_r; reflexivity|eexists; reflexivity]. Qed.
  Lemma p_upsert_nodes g a b t ts c : pg_nodes (p_upsert g a b t ts c) = pg_nodes g.
  Proof. unfold p_upsert. destruct (p_upsert_in _ _ _ _ _ _); reflexivity. Qed.

  Lemma prefix_trans (a b c : list pnode) : (exists m1, b = a ++ m1) -> (exists m2, c = b ++ m2) -> exists m3, c = a ++ m3.
  Proof. intros [m1 ->] [m2 ->]. exists (m1 ++ m2). rewrite app_assoc. reflexivity. Qed.
  Lemma prefix_refl (a : list pnode) : exists m0, a = a ++ m0.
  Proof. exists []. rewrite app_nil_r. reflexivity. Qed.

  Lemma p_parse_this_prefix g p : exists more, pg_nodes (p_parse_this g p td rel) = pg_nodes g ++ more.
  Proof.
    unfold p_parse_this. generalize (rm_types_of (assoc rel (td_meta_rels td))). intros refs.
    change (fun (acc : pgraph * option pnode) r => _) with (pthis_step p).
    assert (G : forall refs g cur, exists more, pg_nodes (fst (fold_left (pthis_step p) refs (g, cur))) = pg_nodes g ++ more).
    { clear. induction refs as [|r refs IH]; intros g cur; [apply prefix_refl|]. cbn [fold_left].
      assert (S1 : exists more, pg_nodes (fst (pthis_step p (g, cur) r)) = pg_nodes g ++ more).
      { unfold pthis_step.
        assert (A : forall ul lab t (f : pgraph * pnode -> pgraph * option pnode), (forall g1 n, exists more, pg_nodes (fst (f (g1, n))) = pg_nodes g1 ++ more) ->
                   exists more, pg_nodes (fst (f (p_get_or_add g ul lab t))) = pg_nodes g ++ more).
        { intros ul lab t f Hf. destruct (p_get_or_add_prefix g ul lab t) as [m1 E1]. destruct (p_get_or_add g ul lab t) as [g1 n]. cbn [fst] in E1.
          eapply prefix_trans; [exists m1; exact E1|apply Hf]. }
        destruct (rr_kind r) as [|x|].
        - destruct (p_get_or_add_prefix g (rr_type r) (rr_type r) NType) as [m1 E1]. destruct (p_get_or_add g (rr_type r) (rr_type r) NType) as [g1 n].
          cbn [fst] in *. rewrite p_upsert_nodes. exists m1. exact E1.
        - destruct (is_empty x).
          + destruct cur; cbn [fst]; [rewrite p_upsert_nodes|]; apply prefix_refl.
          + destruct (p_get_or_add_prefix g (rr_type r ++ lit "#" ++ x) (rr_type r ++ lit "#" ++ x) NTypeRel) as [m1 E1].
            destruct (p_get_or_add g _ _ NTypeRel) as [g1 n]. cbn [fst] in *. rewrite p_upsert_nodes. exists m1. exact E1.
        - destruct (p_get_or_add_prefix g (rr_type r ++ lit ":*") (rr_type r ++ lit ":*") NWildcard) as [m1 E1].
          destruct (p_get_or_add g _ _ NWildcard) as [g1 n]. cbn [fst] in *. rewrite p_upsert_nodes. exists m1. exact E1. }
      destruct (pthis_step p (g, cur) r) as [g1 cur1]. cbn [fst] in S1. eapply prefix_trans; [exact S1|apply IH]. }
    apply G.
  Qed.

  Lemma p_parse_computed_prefix g p r : exists more, pg_nodes (p_parse_computed g p td r) = pg_nodes g ++ more.
  Proof.
    unfold p_parse_computed. destruct (p_get_or_add_prefix g (td_name td ++ lit "#" ++ r) (td_name td ++ lit "#" ++ r) NTypeRel) as [m1 E1].
    destruct (p_get_or_add g _ _ NTypeRel) as [g1 n]. cbn [fst] in E1. exists m1. exact E1.
  Qed.

  Lemma p_parse_ttu_prefix g p ts cu : exists more, pg_nodes (p_parse_ttu g p m td ts cu) = pg_nodes g ++ more.
  Proof.
    unfold p_parse_ttu. generalize (rm_types_of (assoc ts (td_meta_rels td))). intros refs. revert g.
    induction refs as [|r refs IH]; intros g; [apply prefix_refl|]. cbn [fold_left].
    destruct (negb (type_and_relation_exists m (rr_type r) cu)); [apply IH|].
    destruct (p_get_or_add_prefix g (rr_type r ++ lit "#" ++ cu) (rr_type r ++ lit "#" ++ cu) NTypeRel) as [m1 E1].
    destruct (p_get_or_add g _ _ NTypeRel) as [g1 n]. cbn [fst] in E1.
    destruct (p_has_edge g1 (pn_id n) (pn_id p) ETTU (td_name td ++ lit "#" ++ ts)).
    - eapply prefix_trans; [exists m1; exact E1|apply IH].
    - eapply prefix_trans; [exists m1; exact E1|]. eapply prefix_trans; [|apply IH]. rewrite p_upsert_nodes. apply prefix_refl.
  Qed.

  Lemma p_rewrite_prefix u : forall g p, exists more, pg_nodes (p_rewrite g p m td rel u) = pg_nodes g ++ more.
  Proof.
    assert (Hch : forall cs, Forall (fun c => forall g p, exists more, pg_nodes (p_rewrite g p m td rel c) = pg_nodes g ++ more) cs ->
                  forall g opn, exists more, pg_nodes (p_children g opn cs) = pg_nodes g ++ more).
    { induction 1 as [|c cs Hc _ IH]; intros g opn; [apply prefix_refl|]. cbn [p_children]. eapply prefix_trans; [apply Hc|apply IH]. }
    assert (Hop : forall op cs, Forall (fun c => forall g p, exists more, pg_nodes (p_rewrite g p m td rel c) = pg_nodes g ++ more) cs ->
                  forall g p, exists more, pg_nodes (p_operator g p op cs) = pg_nodes g ++ more).
    { intros op cs H g p. unfold p_operator.
      match goal with |- context [p_get_or_add ?g0 ?id op NOperator] => destruct (p_get_or_add_prefix g0 id op NOperator) as [m1 E1]; destruct (p_get_or_add g0 id op NOperator) as [g1 opn] end.
      cbn [fst pg_nodes] in E1. eapply prefix_trans; [|apply (Hch cs H)]. exists m1. exact E1. }
    induction u as [| r | rel0 | ts cu | cs IH | cs IH | b s IHb IHs] using userset_ind'; intros g p; rewrite p_rewrite_op.
    - apply (Hop [] [] (Forall_nil _)).
    - apply p_parse_this_prefix.
    - apply p_parse_computed_prefix.
    - apply p_parse_ttu_prefix.
    - apply (Hop _ cs IH).
    - apply (Hop _ cs IH).
    - apply (Hop _ [b; s]). constructor; [exact IHb|constructor; [exact IHs|constructor]].
  Qed.

  Lemma p_children_prefix cs : forall g opn, exists more, pg_nodes (p_children g opn cs) = pg_nodes g ++ more.
  Proof. induction cs as [|c cs IH]; intros g opn; [apply prefix_refl|]. cbn [p_children]. eapply prefix_trans; [apply p_rewrite_prefix|apply IH]. Qed.
End PMain.

Section PMain2.
  Variable ty : str -> ntype.
  Variable m : model.
  Variable td : typedef.
  Variable rel : str.

  Lemma WF_ops g k : WF g -> WF {| pg_nodes := pg_nodes g; pg_lines := pg_lines g; pg_ops := k; pg_listobjects := pg_listobjects g |}.
  Proof. intros W. constructor; cbn; [apply (wf_ids g W)|apply (wf_labels g W)|apply (wf_lines g W)]. Qed.

  Lemma pchildren_ok cs : Forall (pshape_spec ty m td rel) cs -> forall g opn olabel created0,
    WF g -> find_pnode olabel g = Some opn -> pfresh g -> pold g olabel ->
    Forall nonop (flat_map (req_ids td rel) cs) -> pty_ok ty (p_children m td rel g opn cs) ->
    let '(ol, created, k') := pshape_children ty m td rel (pg_ops g) olabel cs (entries g olabel) created0 in
    exists cr, created = created0 ++ cr /\ presult_ok g (p_children m td rel g opn cs) olabel (ol, cr, k').
  Proof.
    induction 1 as [|c cs Hc _ IH]; intros g opn olabel created0 W Hp Hf Ho Hn Hty.
    - cbn [p_children pshape_children]. exists []. split; [rewrite app_nil_r; reflexivity|].
      unfold presult_ok. split; [exact W|]. split; [reflexivity|]. split; [intros ? ? []|]. split; [reflexivity|]. split; [lia|]. split; [exact Hf|].
      split; [reflexivity|]. exists []. rewrite app_nil_r. reflexivity.
    - cbn [p_children] in *. cbn [flat_map] in Hn. apply Forall_app in Hn. destruct Hn as [Hn1 Hn2].
      set (g1 := p_rewrite g opn m td rel c) in *.
      assert (Hty1 : pty_ok ty g1) by (eapply pty_ok_prefix; [apply p_children_prefix|exact Hty]).
      pose proof (Hc g opn olabel W Hp Hf Ho Hn1 Hty1) as R1. fold g1 in R1. cbn [pshape_children].
      destruct (pshape ty m td rel (pg_ops g) olabel c (entries g olabel)) as [[ol1 cr1] k1].
      destruct R1 as (W1 & A1 & A2 & A3 & A4 & A5 & A6 & A7).
      assert (Hp1 : find_pnode olabel g1 = Some opn) by (apply (find_pnode_prefix g g1 _ _ A7 Hp)).
      assert (Ho1 : pold g1 olabel) by (apply (pold_mono g); [lia|exact Ho]).
      specialize (IH g1 opn olabel (created0 ++ cr1) W1 Hp1 A5 Ho1 Hn2 Hty). rewrite A3, A1 in IH.
      destruct (pshape_children ty m td rel k1 olabel cs ol1 (created0 ++ cr1)) as [[ol cr] k'].
      destruct IH as (cr2 & Ecr & W2 & B1 & B2 & B3 & B4 & B5 & B6 & B7).
      exists (cr1 ++ cr2). split; [rewrite Ecr, app_assoc; reflexivity|].
      unfold presult_ok. split; [exact W2|]. split; [exact B1|]. split.
      + intros olab es Hin. apply in_app_or in Hin. destruct Hin as [Hin|Hin].
        * destruct (A2 olab es Hin) as [Ees (op & j & Hop & Hj & ->)]. split.
          -- rewrite B6; [exact Ees| |apply op_id_pold; [exact Hop|lia]].
             intros X. apply (Ho op j Hop ltac:(lia)). symmetry. exact X.
          -- exists op, j. split; [exact Hop|]. split; [lia|reflexivity].
        * destruct (B2 olab es Hin) as [Ees (op & j & Hop & Hj & ->)]. split; [exact Ees|].
          exists op, j. split; [exact Hop|]. split; [lia|reflexivity].
      + split; [exact B3|]. split; [lia|]. split; [exact B5|]. split.
        * intros x Hx Hox. rewrite B6; [apply A6; assumption|exact Hx|apply (pold_mono g); [lia|exact Hox]].
        * eapply prefix_trans; [exact A7|exact B7].
  Qed.

  Lemma poperator_ok g p plabel op cs :
    In op op_names -> Forall (pshape_spec ty m td rel) cs ->
    WF g -> find_pnode plabel g = Some p -> pfresh g -> pold g plabel ->
    Forall nonop (flat_map (req_ids td rel) cs) -> pty_ok ty (p_operator m td rel g p op cs) ->
    presult_ok g (p_operator m td rel g p op cs) plabel (pshape_operator ty m td rel (pg_ops g) plabel op cs (entries g plabel)).
  Proof.
    intros Hop Hcs W Hp Hf Ho Hn Hty. unfold p_operator in *.
    set (k := pg_ops g) in *. set (oid := op_id op k).
    change (op ++ lit ":" ++ str_of_N k) with oid in *.
    set (g0 := {| pg_nodes := pg_nodes g; pg_lines := pg_lines g; pg_ops := k + 1; pg_listobjects := pg_listobjects g |}) in *.
    assert (W0 : WF g0) by (apply WF_ops; exact W).
    assert (Fn : find_pnode oid g0 = None) by (apply (Hf op k Hop); unfold k; lia).
    assert (E00 : forall x, entries g0 x = entries g x) by reflexivity.
    destruct (p_get_or_add_facts g0 oid op NOperator W0) as (W1 & Hfind & SV & Eo & Hpre & Hother & Htype).
    assert (Hf0 : pfresh g0) by (intros op' j Hop' Hj; apply (Hf op' j Hop'); cbn in Hj; unfold k in Hj; lia).
    destruct (p_get_or_add g0 oid op NOperator) as [g1 opn]. cbn [fst snd] in *.
    assert (E01 : forall x, entries g1 x = entries g x) by (intros x; rewrite (entries_same_view g0 g1 x W0 SV); apply E00).
    destruct (find_pnode_facts g1 oid opn W1 Hfind) as (_ & Elo & Lo & Bo).
    assert (Hp1 : find_pnode plabel g1 = Some p) by (apply (find_pnode_prefix g0 g1 _ _ Hpre); exact Hp).
    assert (Hne : plabel <> oid) by (apply Ho; [exact Hop|unfold k; lia]).
    assert (Hf1 : pfresh g1).
    { intros op' j Hop' Hj. rewrite Eo in Hj. cbn in Hj. rewrite Hother; [apply Hf0; [exact Hop'|cbn; lia]|].
      intros X. apply op_id_inj in X; [|assumption|assumption]. lia. }
    pose proof (pleaf_add_edge g1 opn p plabel ERewrite [] W1 Hf1 ltac:(rewrite Elo; exact Hfind) Hp1) as L2. rewrite E01, Elo in L2.
    set (g2 := p_add_edge g1 (pn_id opn) (pn_id p) ERewrite [] []) in *.
    destruct L2 as (W2 & En2 & Fr2 & O2 & P2 & Pre2).
    assert (Eops : pg_ops g2 = k + 1) by (rewrite O2, Eo; reflexivity).
    assert (Hp2 : find_pnode oid g2 = Some opn) by (apply (find_pnode_prefix g1 g2 _ _ Pre2 Hfind)).
    assert (Ho2 : pold g2 oid) by (apply op_id_pold; [exact Hop|rewrite Eops; lia]).
    assert (Ee2 : entries g2 oid = []).
    { rewrite Fr2 by (intros X; apply Hne; symmetry; exact X). rewrite E01. apply entries_no_node; [exact W|]. apply find_pnode_none_label. exact Fn. }
    pose proof (pchildren_ok cs Hcs g2 opn oid [] W2 Hp2 P2 Ho2 Hn Hty) as R. rewrite Eops, Ee2 in R.
    unfold pshape_operator. fold k. fold oid.
    destruct (pshape_children ty m td rel (k + 1) oid cs [] []) as [[ol created] k'].
    destruct R as (cr & Ecr & W3 & B1 & B2 & B3 & B4 & B5 & B6 & B7). cbn [app] in Ecr. subst created. rewrite Eops in B4.
    assert (Hpre02 : exists more, pg_nodes g2 = pg_nodes g ++ more) by (eapply prefix_trans; [exact Hpre|exact Pre2]).
    unfold presult_ok. split; [exact W3|]. split.
    - rewrite B6; [exact En2|exact Hne|]. apply (pold_mono g); [rewrite Eops; unfold k; lia|exact Ho].
    - split.
      + intros olab es [Heq|Hin].
        * inversion Heq; subst olab es. split; [exact B1|]. exists op, k. split; [exact Hop|]. split; [unfold k; lia|reflexivity].
        * destruct (B2 olab es Hin) as [Ees (op' & j & Hop' & Hj & ->)]. split; [exact Ees|].
          exists op', j. split; [exact Hop'|]. split; [rewrite Eops in Hj; unfold k in *; lia|reflexivity].
      + split; [exact B3|]. split; [unfold k in *; lia|]. split; [exact B5|]. split.
        * intros x Hx Hox. assert (Hxo : x <> oid) by (apply Hox; [exact Hop|unfold k; lia]).
          rewrite B6; [|exact Hxo|apply (pold_mono g); [rewrite Eops; unfold k; lia|exact Hox]].
          rewrite Fr2 by exact Hx. apply E01.
        * eapply prefix_trans; [exact Hpre02|exact B7].
  Qed.

  Theorem p_rewrite_shape u : pshape_spec ty m td rel u.
  Proof.
    induction u as [| r | rel0 | ts cu | cs IH | cs IH | b s IHb IHs] using userset_ind';
      intros g p plabel W Hp Hf Ho Hn Hty; rewrite p_rewrite_op in *; rewrite pshape_op.
    - apply (poperator_ok g p plabel [] []); auto. right; right; right; left; reflexivity.
    - apply (pleaf_result ty). exact (p_parse_this_leaf g p plabel td rel W Hf Hp Hn).
    - apply (pleaf_result ty). cbn [req_ids] in Hn. apply Forall_cons_iff in Hn. destruct Hn as [Hn1 _]. exact (p_parse_computed_leaf ty g p plabel td rel0 W Hf Hp Hn1 Hty).
    - apply (pleaf_result ty). exact (p_parse_ttu_leaf g p plabel m td ts cu W Hf Hp Hn).
    - apply (poperator_ok g p plabel (lit "union") cs); auto. left; reflexivity.
    - apply (poperator_ok g p plabel (lit "intersection") cs); auto. right; left; reflexivity.
    - apply (poperator_ok g p plabel (lit "exclusion") [b; s]); auto; [right; right; left; reflexivity|].
      cbn [flat_map]. rewrite app_nil_r. exact Hn.
  Qed.
End PMain2.

(* ---------------------------------------------------------------------------------------- *)
(* 4. all relations of all types                                                             *)
(* ---------------------------------------------------------------------------------------- *)
Definition prel_ok (ty : str -> ntype) (m : model) (g : pgraph) (p : typedef * str) : Prop :=
  exists k, let '(l, created, k') := pshape ty m (fst p) (snd p) k (relid p) (rewrite_of (fst p) (snd p)) [] in
            entries g (relid p) = l /\ (forall olab es, In (olab, es) created -> entries g olab = es) /\
            k' <= pg_ops g /\
            (forall olab es, In (olab, es) created -> exists op j, In op op_names /\ j < k' /\ olab = op_id op j).

Record PG (ty : str -> ntype) (m : model) (g : pgraph) (built : list (typedef * str)) : Prop := {
  PG_wf : WF g;
  PG_fresh : pfresh g;
  PG_rel : forall p, In p built -> prel_ok ty m g p /\ nonop (relid p);
  PG_empty : forall id, nonop id -> ~ In id (map relid built) -> entries g id = [] }.

Lemma PG_get_or_add ty m g built ul lab t : nonop ul -> PG ty m g built -> PG ty m (fst (p_get_or_add g ul lab t)) built.
Proof.
  intros Hn [W F R Z]. destruct (pleaf_get_or_add g ul lab t ul W F Hn) as (W' & _ & _ & Eo & F' & _).
  destruct (p_get_or_add_facts g ul lab t W) as (_ & _ & SV & _).
  assert (Een : forall x, entries (fst (p_get_or_add g ul lab t)) x = entries g x) by (intros x; apply entries_same_view; assumption).
  constructor; [exact W'|exact F'| |].
  - intros p Hp. destruct (R p Hp) as [[k Hk] Hnp]. split; [|exact Hnp]. exists k.
    destruct (pshape ty m (fst p) (snd p) k (relid p) (rewrite_of (fst p) (snd p)) []) as [[l created] k'].
    destruct Hk as (A & B & C & D). split; [rewrite Een; exact A|]. split; [intros olab es Hin; rewrite Een; apply B; exact Hin|]. split; [rewrite Eo; exact C|exact D].
  - intros id Hn' Hnot. rewrite Een. apply Z; assumption.
Qed.

Section PAssembly.
  Variable ty : str -> ntype.
  Variable m : model.

  Definition prel_step (td : typedef) (g : pgraph) (rel : str) : pgraph :=
    let id := td_name td ++ lit "#" ++ rel in
    let '(g, parent) := p_get_or_add g id id NTypeRel in
    p_rewrite g parent m td rel (match assoc rel (td_rels td) with Some u => u | None => UUnset end).
  Definition ptype_step (g : pgraph) (td : typedef) : pgraph :=
    let '(g, _) := p_get_or_add g (td_name td) (td_name td) NType in p_relations g m td.

  Lemma prel_step_prefix td g r : exists more, pg_nodes (prel_step td g r) = pg_nodes g ++ more.
  Proof.
    unfold prel_step. destruct (p_get_or_add_prefix g (td_name td ++ lit "#" ++ r) (td_name td ++ lit "#" ++ r) NTypeRel) as [m1 E1].
    destruct (p_get_or_add g _ _ NTypeRel) as [g1 p]. cbn [fst] in E1. eapply prefix_trans; [exists m1; exact E1|apply p_rewrite_prefix].
  Qed.
  Lemma prel_fold_prefix td names : forall g, exists more, pg_nodes (fold_left (prel_step td) names g) = pg_nodes g ++ more.
  Proof. induction names as [|r names IH]; intros g; [apply prefix_refl|]. cbn [fold_left]. eapply prefix_trans; [apply prel_step_prefix|apply IH]. Qed.
  Lemma ptype_step_prefix g td : exists more, pg_nodes (ptype_step g td) = pg_nodes g ++ more.
  Proof.
    unfold ptype_step. destruct (p_get_or_add_prefix g (td_name td) (td_name td) NType) as [m1 E1]. destruct (p_get_or_add g _ _ NType) as [g1 p]. cbn [fst] in E1.
    eapply prefix_trans; [exists m1; exact E1|]. unfold p_relations. apply (prel_fold_prefix td).
  Qed.
  Lemma ptype_fold_prefix tds : forall g, exists more, pg_nodes (fold_left ptype_step tds g) = pg_nodes g ++ more.
  Proof. induction tds as [|td tds IH]; intros g; [apply prefix_refl|]. cbn [fold_left]. eapply prefix_trans; [apply ptype_step_prefix|apply IH]. Qed.

  Lemma pbuild_one td r g built :
    PG ty m g built -> ~ In (relid (td, r)) (map relid built) -> nonop (relid (td, r)) ->
    Forall nonop (req_ids td r (rewrite_of td r)) -> pty_ok ty (prel_step td g r) ->
    PG ty m (prel_step td g r) (built ++ [(td, r)]).
  Proof.
    intros HG Hnew Hnid Hreq Hty. pose proof (PG_get_or_add ty m g built (relid (td, r)) (relid (td, r)) NTypeRel Hnid HG) as HG1.
    destruct (p_get_or_add_facts g (relid (td, r)) (relid (td, r)) NTypeRel (PG_wf _ _ _ _ HG)) as (_ & Hfind & _).
    unfold prel_step in *. change (td_name td ++ lit "#" ++ r) with (relid (td, r)) in *.
    destruct (p_get_or_add g (relid (td, r)) (relid (td, r)) NTypeRel) as [g1 p]. cbn [fst snd] in *.
    change (match assoc r (td_rels td) with Some u => u | None => UUnset end) with (rewrite_of td r) in *.
    destruct HG1 as [W F R Z].
    pose proof (p_rewrite_shape ty m td r (rewrite_of td r) g1 p (relid (td, r)) W Hfind F (pold_nonop g1 _ Hnid) Hreq Hty) as Res.
    rewrite (Z _ Hnid Hnew) in Res.
    destruct (pshape ty m td r (pg_ops g1) (relid (td, r)) (rewrite_of td r) []) as [[l created] k'] eqn:Es.
    destruct Res as (W' & A1 & A2 & A3 & A4 & A5 & A6 & A7).
    constructor; [exact W'|exact A5| |].
    - intros q Hq. apply in_app_or in Hq. destruct Hq as [Hq|[<-|[]]].
      + destruct (R q Hq) as [[k Hk] Hnq]. split; [|exact Hnq]. exists k.
        destruct (pshape ty m (fst q) (snd q) k (relid q) (rewrite_of (fst q) (snd q)) []) as [[lq cq] kq].
        destruct Hk as (B1 & B2 & B3 & B4).
        assert (Hqid : relid q <> relid (td, r)) by (intros X; apply Hnew; rewrite <- X; apply in_map; exact Hq).
        split; [rewrite A6; [exact B1|exact Hqid|apply pold_nonop; exact Hnq]|].
        split; [|split; [lia|exact B4]].
        intros olab es Hin. destruct (B4 olab es Hin) as (op & j & Hop & Hj & ->).
        rewrite A6; [apply B2; exact Hin| |apply op_id_pold; [exact Hop|lia]].
        intros X. unfold nonop in Hnid. rewrite <- X, is_op_id_op_id in Hnid by exact Hop. discriminate.
      + split; [|exact Hnid]. exists (pg_ops g1). cbn [fst snd]. rewrite Es. split; [exact A1|]. split; [intros olab es Hin; apply (A2 olab es Hin)|].
        split; [lia|]. intros olab es Hin. destruct (A2 olab es Hin) as [_ (op & j & Hop & Hj & ->)]. exists op, j. split; [exact Hop|]. split; [lia|reflexivity].
    - intros id Hn Hnot. rewrite map_app in Hnot. cbn [map] in Hnot.
      rewrite A6; [apply Z; [exact Hn|]| |apply pold_nonop; exact Hn].
      + intros X. apply Hnot. apply in_or_app. left. exact X.
      + intros X. apply Hnot. apply in_or_app. right. left. symmetry. exact X.
  Qed.

  Lemma prel_fold_G td : forall names g built,
    PG ty m g built ->
    NoDup (map relid built ++ map (fun r => relid (td, r)) names) ->
    (forall r, In r names -> nonop (relid (td, r)) /\ Forall nonop (req_ids td r (rewrite_of td r))) ->
    pty_ok ty (fold_left (prel_step td) names g) -> PG ty m (fold_left (prel_step td) names g) (built ++ map (pair td) names).
  Proof.
    induction names as [|r names IH]; intros g built HG Hnd Hnon Hty.
    - cbn. rewrite app_nil_r. exact HG.
    - cbn [fold_left map] in *. destruct (Hnon r (or_introl eq_refl)) as [Hn1 Hn2].
      assert (HG2 : PG ty m (prel_step td g r) (built ++ [(td, r)])).
      { apply pbuild_one; [exact HG| |exact Hn1|exact Hn2|eapply pty_ok_prefix; [apply prel_fold_prefix|exact Hty]].
        intros X. apply (NoDup_remove_2 _ _ _ Hnd). apply in_or_app. left. exact X. }
      replace (built ++ (td, r) :: map (pair td) names) with ((built ++ [(td, r)]) ++ map (pair td) names) by (rewrite <- app_assoc; reflexivity).
      apply IH; [exact HG2| |intros r' Hr'; apply Hnon; right; exact Hr'|exact Hty].
      rewrite map_app, <- app_assoc. exact Hnd.
  Qed.

  Lemma ptype_fold_G : forall tds g built,
    PG ty m g built ->
    NoDup (map relid built ++ flat_map (fun td => map (fun r => relid (td, r)) (sorted_rels td)) tds) ->
    (forall td, In td tds -> nonop (td_name td) /\
       forall r, In r (sorted_rels td) -> nonop (relid (td, r)) /\ Forall nonop (req_ids td r (rewrite_of td r))) ->
    pty_ok ty (fold_left ptype_step tds g) ->
    PG ty m (fold_left ptype_step tds g) (built ++ flat_map (fun td => map (pair td) (sorted_rels td)) tds).
  Proof.
    induction tds as [|td tds IH]; intros g built HG Hnd Hnon Hty.
    - cbn. rewrite app_nil_r. exact HG.
    - cbn [fold_left flat_map] in *. destruct (Hnon td (or_introl eq_refl)) as [Hn1 Hn2].
      rewrite app_assoc in Hnd.
      assert (HG2 : PG ty m (ptype_step g td) (built ++ map (pair td) (sorted_rels td))).
      { unfold ptype_step. pose proof (PG_get_or_add ty m g built (td_name td) (td_name td) NType Hn1 HG) as HG1.
        assert (Hty1 : pty_ok ty (ptype_step g td)) by (eapply pty_ok_prefix; [apply ptype_fold_prefix|exact Hty]). unfold ptype_step in Hty1.
        destruct (p_get_or_add g (td_name td) (td_name td) NType) as [g1 tn]. cbn [fst] in HG1.
        unfold p_relations in *. apply (prel_fold_G td (sorted_rels td) g1 built HG1); [apply (nodup_app_l _ _ Hnd)|exact Hn2|exact Hty1]. }
      rewrite app_assoc. apply IH; [exact HG2| |intros td' Htd'; apply Hnon; right; exact Htd'|exact Hty].
      rewrite map_app, map_map. cbn [relid fst snd]. exact Hnd.
  Qed.
End PAssembly.

Definition pty_of (g : pgraph) (ul : str) : ntype := match find_pnode ul g with Some n => pn_type n | None => NType end.

(* THE STRUCTURE of the plain graph: for every relation of every type, the lines that enter "type#relation" and each
   operator node created for it are the ones the rewrite dictates, in line order *)
Theorem pbuild_shape m :
  pshape_domain m = true ->
  forall td r u, In td (m_types m) -> assoc r (td_rels td) = Some u ->
  exists k, let '(l, created, k') := pshape (pty_of (pbuild m)) m td r k (td_name td ++ lit "#" ++ r) u [] in
            entries (pbuild m) (td_name td ++ lit "#" ++ r) = l /\
            (forall olab es, In (olab, es) created -> entries (pbuild m) olab = es) /\ k' <= pg_ops (pbuild m).
Proof.
  intros Hdom td r u Htd Hu. unfold pshape_domain in Hdom. apply andb_true_iff in Hdom. destruct Hdom as [Hnd Hnamed].
  apply nodupb_str_sound in Hnd. rewrite forallb_forall in Hnamed.
  assert (Hnon : forall id, In id (named_ids m) -> nonop id).
  { intros id Hin. specialize (Hnamed id Hin). unfold nonop. destruct (is_op_id id); [discriminate|reflexivity]. }
  set (tds := stable_sort td_cmp (m_types m)).
  assert (Ptds : Permutation (m_types m) tds) by apply stable_sort_perm.
  set (g0 := {| pg_nodes := []; pg_lines := []; pg_ops := 0; pg_listobjects := true |}).
  assert (Epb : pbuild m = fold_left (ptype_step m) tds g0) by reflexivity.
  set (ty := pty_of (pbuild m)).
  assert (Hty : pty_ok ty (fold_left (ptype_step m) tds g0)).
  { intros ul n Hf. unfold ty, pty_of. rewrite Epb, Hf. reflexivity. }
  assert (HG0 : PG ty m g0 []).
  { constructor; [constructor; cbn; [intros [|i] n H; discriminate H|constructor|intros l []]|intros op j _ _; reflexivity|intros p []|intros; reflexivity]. }
  assert (Hperm : Permutation (flat_map (fun td => map (fun r => relid (td, r)) (sorted_rels td)) tds) (rel_ids m)).
  { unfold rel_ids. eapply Permutation_trans; [apply perm_flat_map'; apply Permutation_sym; exact Ptds|].
    apply perm_flat_map_ext. intros t. apply Permutation_map. apply Permutation_sym. apply stable_sort_perm. }
  pose proof (ptype_fold_G ty m tds g0 [] HG0) as HG. cbn [map app] in HG.
  assert (HGf : PG ty m (pbuild m) (flat_map (fun td => map (pair td) (sorted_rels td)) tds)).
  { rewrite Epb. apply HG; [apply (Permutation_NoDup (Permutation_sym Hperm)); exact Hnd| |exact Hty].
    intros t Ht. assert (Ht' : In t (m_types m)) by (apply (Permutation_in t (Permutation_sym Ptds)); exact Ht).
    split.
    - apply Hnon. unfold named_ids. apply in_or_app. left. apply in_map. exact Ht'.
    - intros r0 Hr0. assert (Hr0' : In r0 (keys (td_rels t))) by (apply (Permutation_in r0 (Permutation_sym (stable_sort_perm str_compare _))); exact Hr0).
      split.
      + apply Hnon. unfold named_ids. apply in_or_app. right. apply in_or_app. left. unfold rel_ids. apply in_flat_map.
        exists t. split; [exact Ht'|]. apply in_map_iff. exists r0. split; [reflexivity|exact Hr0'].
      + apply Forall_forall. intros x Hx. apply Hnon. unfold named_ids. apply in_or_app. right. apply in_or_app. right.
        destruct (req_ids_named t r0 (rewrite_of t r0) x Hx) as [L|R].
        * apply in_or_app. left. apply in_flat_map. exists t. split; [exact Ht'|].
          unfold rm_types_of in L. destruct (assoc r0 (td_meta_rels t)) as [rm|] eqn:Em; [|destruct L].
          apply in_flat_map. exists (r0, rm). split; [apply assoc_some_in'; exact Em|exact L].
        * apply in_or_app. right. apply in_flat_map. exists t. split; [exact Ht'|].
          unfold rewrite_of in R. destruct (assoc r0 (td_rels t)) as [u0|] eqn:Eu; [|destruct R].
          apply in_flat_map. exists (r0, u0). split; [apply assoc_some_in'; exact Eu|exact R]. }
  assert (Hin : In (td, r) (flat_map (fun td => map (pair td) (sorted_rels td)) tds)).
  { apply in_flat_map. exists td. split; [apply (Permutation_in td Ptds); exact Htd|]. apply in_map.
    apply (Permutation_in r (stable_sort_perm str_compare _)). unfold keys. apply in_map_iff. exists (r, u).
    split; [reflexivity|apply assoc_some_in'; exact Hu]. }
  destruct (PG_rel _ _ _ _ HGf (td, r) Hin) as [[k Hk] _]. exists k. unfold relid in Hk. cbn [fst snd] in Hk.
  unfold rewrite_of in Hk. rewrite Hu in Hk. fold ty.
  destruct (pshape ty m td r k (td_name td ++ lit "#" ++ r) u []) as [[l created] k'].
  destruct Hk as (A & B & C & _). split; [exact A|]. split; [exact B|exact C].
Qed.

(* Proofs/DocChars.v — a whole printed DOCUMENT at character level (C01, C02): header, type blocks, relation lines.
   The text the printer model writes for a condition-free model with plain names, after the pre-pass, lexes without error
   to the canonical token sequence of its syntax tree, which the parser model takes back (Proofs/DocParse.v). *)
From Coq Require Import Lia.
From Verif Require Import Base.Str Base.Outcome Model.Ast Model.Token Gen.Keywords Model.Lexer Model.Parser Spec.Sem Spec.Normalize
  Proofs.ParserComplete Proofs.LexInversion Proofs.LexEof Proofs.LexRender Proofs.ParserNatural Proofs.RoundTripChars
  Proofs.DeclRoundTrip Proofs.DocLex Proofs.DocParse Proofs.DocNatural.

(* tokens that carry the text the lexer sees: line breaks with their indentation, the version *)
Definition nlt (s : str) : tok := {| tk := NEWLINE; ttext := s; tline := 0; tcol := 0 |}.
Definition vtok (v : str) : tok := {| tk := SCHEMA_VERSION; ttext := v; tline := 0; tcol := 0 |}.

Definition nl_decl : str := 10 :: lit "    ".
Definition nl_rels : str := 10 :: lit "  ".
Definition nl_type : str := [10; 10].

Fixpoint ctoks_rels (rs : list reldecl) : list tok :=
  match rs with [] => [] | r :: rs' => toks_decl (nlt nl_decl) (rl_name r) (rl_def r) ++ ctoks_rels rs' end.
Definition ctoks_type (t : typedecl) : list tok :=
  nlt nl_type :: mk TYPE :: mk WHITESPACE :: ty_name t ::
  match ty_rels t with [] => [] | rs => nlt nl_rels :: mk RELATIONS :: ctoks_rels rs end.
Fixpoint ctoks_types (ts : list typedecl) : list tok :=
  match ts with [] => [] | t :: r => ctoks_type t ++ ctoks_types r end.
Definition ctoks_doc (v : str) (ts : list typedecl) : list tok :=
  mk MODEL :: nlt nl_rels :: mk SCHEMA :: mk WHITESPACE :: vtok v :: ctoks_types ts.

(* names are plain identifiers, definitions lex *)
Definition decl_lex_ok (r : reldecl) : Prop := name_ok (rl_name r) /\ rdef_lex_ok (rl_def r).
Definition type_lex_ok (t : typedecl) : Prop := name_ok (ty_name t) /\ Forall decl_lex_ok (ty_rels t).

Lemma nl_next_cons rest : nl_next (10 :: rest).
Proof. reflexivity. Qed.

Lemma recs_decl r rest : decl_lex_ok r -> nl_next rest ->
  fits (kts (toks_decl (nlt nl_decl) (rl_name r) (rl_def r))) rest.
Proof.
  intros [Hn Hd] Hr. destruct (kt_name _ Hn) as [En Hp]. unfold toks_decl.
  change (kts (nlt nl_decl :: mk DEFINE :: mk WHITESPACE :: rl_name r :: mk COLON :: mk WHITESPACE :: toks_def (rd_first (rl_def r)) (rd_op (rl_def r)) (rd_rest (rl_def r))))
    with (kt_of (nlt nl_decl) :: kt_of (mk DEFINE) :: kt_of (mk WHITESPACE) :: kt_of (rl_name r) :: kt_of (mk COLON) :: kt_of (mk WHITESPACE)
            :: kts (toks_def (rd_first (rl_def r)) (rd_op (rl_def r)) (rd_rest (rl_def r)))).
  rewrite En, !kt_of_mk.
  change (kt_of (nlt nl_decl) :: (DEFINE, std_text DEFINE) :: (WHITESPACE, std_text WHITESPACE) :: (IDENTIFIER, ttext (rl_name r))
            :: (COLON, std_text COLON) :: (WHITESPACE, std_text WHITESPACE) :: kts (toks_def (rd_first (rl_def r)) (rd_op (rl_def r)) (rd_rest (rl_def r))))
    with (decl_prefix (ttext (rl_name r)) ++ kts (toks_def (rd_first (rl_def r)) (rd_op (rl_def r)) (rd_rest (rl_def r)))).
  apply fits_app. split; [|apply rdef_lexes; [exact Hd|apply nl_next_delim; exact Hr]].
  apply recs_decl_prefix; [exact Hp|]. apply def_text_solid; [exact Hd|apply nl_next_delim; exact Hr].
Qed.

Lemma text_decl_nl r l rest : nl_next (text_of (toks_decl (nlt nl_decl) (rl_name r) (rl_def r) ++ l) ++ rest).
Proof. reflexivity. Qed.

Lemma recs_rels rs : forall rest, Forall decl_lex_ok rs -> nl_next rest ->
  fits (kts (ctoks_rels rs)) rest /\ nl_next (text_of (ctoks_rels rs) ++ rest).
Proof.
  induction rs as [|r rs IH]; intros rest Hok Hr; [split; [exact I|exact Hr]|].
  inversion Hok as [|? ? Hr0 Hok']; subst. destruct (IH rest Hok' Hr) as [R N]. cbn [ctoks_rels]. split; [|apply text_decl_nl].
  rewrite kts_app. apply fits_app. split; [|exact R]. fold (text_of (ctoks_rels rs)). apply recs_decl; assumption.
Qed.

Lemma recs_type t rest : type_lex_ok t -> nl_next rest ->
  fits (kts (ctoks_type t)) rest /\ nl_next (text_of (ctoks_type t) ++ rest).
Proof.
  intros [Hn Hrs] Hr. split; [|reflexivity]. destruct (kt_name _ Hn) as [En Hp]. unfold ctoks_type.
  set (tail := match ty_rels t with [] => [] | rs => nlt nl_rels :: mk RELATIONS :: ctoks_rels rs end).
  assert (Htail : fits (kts tail) rest /\ nl_next (text_of tail ++ rest)).
  { unfold tail. destruct (ty_rels t) as [|r rs]; [split; [exact I|exact Hr]|].
    destruct (recs_rels (r :: rs) rest Hrs Hr) as [R N]. split; [|reflexivity].
    change (kts (nlt nl_rels :: mk RELATIONS :: ctoks_rels (r :: rs))) with (kt_of (nlt nl_rels) :: kt_of (mk RELATIONS) :: kts (ctoks_rels (r :: rs))).
    rewrite kt_of_mk. apply fits_cons; [|apply fits_cons; [|exact R]]; cbn [fst snd kt_of nlt tk ttext nl_rels std_text map concat].
    - apply fit_newline; reflexivity.
    - fold (text_of (ctoks_rels (r :: rs))). cbn [ctoks_rels]. apply rec_relations. reflexivity. }
  destruct Htail as [Rt Nt].
  change (kts (nlt nl_type :: mk TYPE :: mk WHITESPACE :: ty_name t :: tail))
    with (kt_of (nlt nl_type) :: kt_of (mk TYPE) :: kt_of (mk WHITESPACE) :: kt_of (ty_name t) :: kts tail).
  rewrite En, !kt_of_mk. fold (text_of tail) in Nt.
  apply fits_cons; [|apply fits_cons; [|apply fits_cons; [|apply fits_cons; [|exact Rt]]]]; cbn [fst snd kt_of nlt tk ttext nl_type std_text map concat].
  - apply fit_newline; reflexivity.
  - apply rec_type. reflexivity.
  - apply rec_blank'. rewrite <- app_assoc. apply name_solid. exact Hp.
  - apply fit_name; [exact Hp|]. apply nl_next_delim. exact Nt.
Qed.

Lemma recs_types ts : forall rest, Forall type_lex_ok ts -> nl_next rest ->
  fits (kts (ctoks_types ts)) rest /\ nl_next (text_of (ctoks_types ts) ++ rest).
Proof.
  induction ts as [|t ts IH]; intros rest Hok Hr; [split; [exact I|exact Hr]|].
  inversion Hok as [|? ? Ht Hok']; subst. destruct (IH rest Hok' Hr) as [R N]. cbn [ctoks_types].
  destruct (recs_type t (text_of (ctoks_types ts) ++ rest) Ht N) as [Rt Nt]. split.
  - rewrite kts_app. apply fits_app. split; [exact Rt|exact R].
  - rewrite text_of_app, <- app_assoc. exact Nt.
Qed.

Theorem recs_doc v ts : std_version v = true -> Forall type_lex_ok ts -> fits (kts (ctoks_doc v ts)) [].
Proof.
  intros Hv Hts. destruct (recs_types ts [] Hts I) as [R N]. unfold ctoks_doc.
  change (kts (mk MODEL :: nlt nl_rels :: mk SCHEMA :: mk WHITESPACE :: vtok v :: ctoks_types ts))
    with (kt_of (mk MODEL) :: kt_of (nlt nl_rels) :: kt_of (mk SCHEMA) :: kt_of (mk WHITESPACE) :: kt_of (vtok v) :: kts (ctoks_types ts)).
  assert (Ev : kt_of (vtok v) = (SCHEMA_VERSION, v)).
  { unfold kt_of, vtok. cbn [tk ttext]. destruct v; [discriminate Hv|reflexivity]. }
  rewrite Ev, !kt_of_mk.
  apply fits_cons; [|apply fits_cons; [|apply fits_cons; [|apply fits_cons; [|apply fits_cons; [|exact R]]]]]; cbn [fst snd kt_of nlt tk ttext nl_rels std_text map concat].
  - apply rec_model. reflexivity.
  - apply fit_newline; reflexivity.
  - apply rec_schema. reflexivity.
  - apply rec_blank'. unfold std_version in Hv. destruct v as [|c v']; [discriminate|].
    assert (Hc : c = 49) by (cbn in Hv; destruct (c =? 49) eqn:E; [apply N.eqb_eq in E; exact E|cbn in Hv; discriminate]). subst c. reflexivity.
  - fold (text_of (ctoks_types ts)). apply fit_version; [exact Hv|]. rewrite app_nil_r in N. rewrite app_nil_r. exact N.
Qed.

(* ---------------------------------------------------------------------------------------- *)
(* lexing a text that ends where its last token ends                                         *)
(* ---------------------------------------------------------------------------------------- *)
Lemma lexes_of_recs_eof ts :
  recs ts [] ->
  let s := concat (map snd ts) in
  map (fun t => (tk t, ttext t)) (fst (lex_all s)) = ts /\ snd (lex_all s) = [].
Proof.
  intros R s. pose proof (recs_length ts [] R) as Hlen.
  unfold lex_all. destruct (lex_loop_lexk (S (length s)) s 0 1 0) as [A B].
  assert (Hf : (length ts <= S (length s))%nat) by (unfold s; lia).
  pose proof (lexk_tokens ts [] (S (length s)) R Hf) as L. rewrite Nat.add_0_r, app_nil_r in L. fold s in L. rewrite L in A, B. cbn [fst snd] in A, B.
  assert (E : (S (length s) - length ts = S (length s - length ts))%nat) by (unfold s; lia).
  rewrite E in A, B. cbn [lexk fst snd] in A, B. rewrite app_nil_r in A. split; [exact A|].
  destruct (snd (lex_loop (S (length s)) s 0 1 0)); [reflexivity|discriminate B].
Qed.

(* ---------------------------------------------------------------------------------------- *)
(* forgetting what the parser does not read, keeping names and the version                   *)
(* ---------------------------------------------------------------------------------------- *)
Definition keeps_text (k : tkind) : bool := tk_eqb k IDENTIFIER || tk_eqb k SCHEMA_VERSION.
Definition forget2 (t : tok) : tok :=
  if keeps_text (tk t) then {| tk := tk t; ttext := ttext t; tline := 0; tcol := 0 |} else mk (tk t).
Lemma forget2_kind t : tk (forget2 t) = tk t.
Proof. unfold forget2. destruct (keeps_text (tk t)); reflexivity. Qed.

Lemma forget2_canon c : canon c -> forget2 c = c.
Proof.
  intros [(Hc & Hi & _)|(Hc & _)]; rewrite Hc; unfold forget2; cbn [tk mk name_tok ttext]; [|reflexivity].
  unfold keeps_text. rewrite Hi. cbn [orb]. destruct (tk_eqb (tk c) SCHEMA_VERSION); reflexivity.
Qed.
Lemma forget2_canon_all l : Forall canon l -> map forget2 l = l.
Proof. induction 1 as [|c l Hc _ IH]; [reflexivity|]. cbn [map]. rewrite (forget2_canon c Hc), IH. reflexivity. Qed.

(* what the lexer returned for a canonical token is that token, up to what forget2 forgets *)
Lemma forget2_of_kt l c : (tk l, ttext l) = kt_of c -> forget2 l = forget2 c.
Proof.
  unfold kt_of. intros E. inversion E as [[Ek Et]]. unfold forget2. rewrite Ek. destruct (keeps_text (tk c)) eqn:K; [|reflexivity].
  f_equal. rewrite Et. unfold keeps_text in K. destruct (ttext c) eqn:Ec; [|reflexivity].
  rewrite Ek. apply orb_prop in K. destruct K as [K|K]; apply tk_eqb_true in K; rewrite K; reflexivity.
Qed.

Lemma forget2_all L C : map (fun t => (tk t, ttext t)) L = kts C -> Forall (fun c => tk_eqb (tk c) CEL_COMMENT = false) C ->
  map forget2 L = map forget2 C /\ filter on_default_channel L = L.
Proof.
  revert C. induction L as [|l L IH]; intros [|c C] E HC; cbn in E; try discriminate; [split; reflexivity|].
  assert (Ekt : (tk l, ttext l) = kt_of c) by (apply (f_equal (hd (tk l, ttext l))) in E; exact E).
  assert (E3 : map (fun t => (tk t, ttext t)) L = kts C) by (apply (f_equal (@tl _)) in E; exact E).
  inversion HC as [|? ? Hc HC']; subst. destruct (IH C E3 HC') as [I1 I2].
  cbn [map filter]. rewrite (forget2_of_kt l c Ekt), I1. split; [reflexivity|].
  unfold on_default_channel at 1. assert (Ek : tk l = tk c) by (unfold kt_of in Ekt; inversion Ekt; reflexivity). rewrite Ek, Hc. cbn [negb]. rewrite I2. reflexivity.
Qed.

(* ---------------------------------------------------------------------------------------- *)
(* the canonical tokens, text forgotten, are the tokens of Proofs/DocParse.v                  *)
(* ---------------------------------------------------------------------------------------- *)
Definition not_comment (c : tok) : Prop := tk_eqb (tk c) CEL_COMMENT = false.
Lemma canon_not_comment c : canon c -> not_comment c.
Proof. intros [(_ & _ & H)|(H & _)]; [exact H|]. unfold not_comment. rewrite H. reflexivity. Qed.

Lemma decl_tokens r : decl_lex_ok r ->
  map forget2 (toks_decl (nlt nl_decl) (rl_name r) (rl_def r)) = toks_decl nl (rl_name r) (rl_def r) /\
  Forall not_comment (toks_decl (nlt nl_decl) (rl_name r) (rl_def r)).
Proof.
  intros [Hn Hd]. pose proof (canon_def _ Hd) as Hc. unfold toks_decl. split.
  - cbn [map]. rewrite (forget2_canon _ (canon_name _ Hn)), (forget2_canon_all _ Hc). reflexivity.
  - repeat (apply Forall_cons; [first [reflexivity|apply canon_not_comment; apply canon_name; exact Hn]|]).
    eapply Forall_impl; [|exact Hc]. intros; apply canon_not_comment; assumption.
Qed.

Lemma rels_tokens rs : Forall decl_lex_ok rs ->
  map forget2 (ctoks_rels rs) = toks_rels rs /\ Forall not_comment (ctoks_rels rs).
Proof.
  induction 1 as [|r rs Hr _ [IH1 IH2]]; [split; [reflexivity|constructor]|]. destruct (decl_tokens r Hr) as [D1 D2].
  cbn [ctoks_rels toks_rels]. rewrite map_app, D1, IH1. split; [reflexivity|apply Forall_app; split; assumption].
Qed.

Lemma type_tokens t : type_lex_ok t -> map forget2 (ctoks_type t) = toks_type t /\ Forall not_comment (ctoks_type t).
Proof.
  intros [Hn Hrs]. destruct (rels_tokens _ Hrs) as [R1 R2]. unfold ctoks_type, toks_type. cbn [map].
  rewrite (forget2_canon _ (canon_name _ Hn)). destruct (ty_rels t) as [|r rs].
  - split; [reflexivity|]. repeat (apply Forall_cons; [first [reflexivity|apply canon_not_comment; apply canon_name; exact Hn]|]). constructor.
  - cbn [map]. rewrite R1. split; [reflexivity|].
    do 6 (apply Forall_cons; [first [reflexivity|apply canon_not_comment; apply canon_name; exact Hn]|]). exact R2.
Qed.

Lemma types_tokens ts : Forall type_lex_ok ts -> map forget2 (ctoks_types ts) = toks_types ts /\ Forall not_comment (ctoks_types ts).
Proof.
  induction 1 as [|t ts Ht _ [IH1 IH2]]; [split; [reflexivity|constructor]|]. destruct (type_tokens t Ht) as [T1 T2].
  cbn [ctoks_types toks_types]. rewrite map_app, T1, IH1. split; [reflexivity|apply Forall_app; split; assumption].
Qed.


(* ---------------------------------------------------------------------------------------- *)
(* EVERY LAYOUT with the same tokens: other runs of blanks and tabs, other line breaks         *)
(* ---------------------------------------------------------------------------------------- *)
Lemma fit_relay_refl k t R : fit k t R -> relay (k, t) (k, t).
Proof. destruct k; cbn [fit]; intros [H _]; split; cbn [fst snd]; try reflexivity; exact H. Qed.
Lemma fits_relay_refl ts rest : fits ts rest -> Forall2 relay ts ts.
Proof.
  induction ts as [|[k t] ts IH]; cbn [fits]; [constructor|]. intros [H1 H2]. constructor; [exact (fit_relay_refl _ _ _ H1)|exact (IH H2)].
Qed.

(* what the lexer returned for a re-laid-out canonical token is that token, up to what forget2 forgets *)
Lemma forget2_of_relay l c : relay (kt_of c) (tk l, ttext l) -> forget2 l = forget2 c.
Proof.
  intros [Ek Hr]. cbn [fst snd] in Ek, Hr. assert (Ek' : tk l = tk c) by (rewrite <- Ek; reflexivity).
  unfold forget2. rewrite Ek'. destruct (keeps_text (tk c)) eqn:K; [|reflexivity].
  f_equal. unfold keeps_text in K. unfold kt_of in Hr. cbn [fst snd] in Hr.
  apply orb_prop in K. destruct K as [K|K]; apply tk_eqb_true in K; rewrite K in Hr; cbn in Hr;
    (destruct (ttext c); symmetry; exact Hr).
Qed.

Lemma forget2_relay_all L C : Forall2 relay (kts C) (map (fun t => (tk t, ttext t)) L) -> Forall not_comment C ->
  map forget2 L = map forget2 C /\ filter on_default_channel L = L.
Proof.
  revert C. induction L as [|l L IH]; intros [|c C] E HC; cbn [kts map] in E; inversion E as [|? ? ? ? Hr E']; subst; [split; reflexivity|].
  inversion HC as [|? ? Hc HC']; subst. destruct (IH C E' HC') as [I1 I2].
  cbn [map filter]. rewrite (forget2_of_relay l c Hr), I1. split; [reflexivity|].
  unfold on_default_channel at 1. assert (Ek : tk l = tk c) by (destruct Hr as [Ek _]; cbn in Ek; congruence).
  rewrite Ek. unfold not_comment in Hc. rewrite Hc. cbn [negb]. rewrite I2. reflexivity.
Qed.

(* the parser takes the document back from EVERY text that consists of its canonical tokens with other runs of blanks
   and tabs in place of the single blanks and other line breaks (any indentation, blank lines) in place of the printer's,
   the closing line feed already stripped by the pre-pass *)
Definition doc_file (v : str) (ts : list typedecl) : file := {| f_header := HModel (vtok v); f_types := ts; f_conds := [] |}.

Theorem every_layout_reads_back v ts L :
  std_version v = true -> Forall type_lex_ok ts -> Forall type_ok ts ->
  Forall2 relay (kts (ctoks_doc v ts)) L ->
  let s := concat (map snd L) in
  snd (lex s) = [] /\
  map (fun t => (tk t, ttext t)) (fst (lex s)) = L /\
  exists f', parse (fst (lex s)) = Some f' /\ file_map forget2 f' = doc_file v ts.
Proof.
  intros Hv Hlex Hok HL s.
  destruct (fits_relayout _ _ [] HL (recs_doc v ts Hv Hlex)) as [FL _].
  destruct (lexes_of_recs_eof _ (fits_recs _ _ FL)) as [HLx Herr]. cbv zeta in HLx, Herr. fold s in HLx, Herr.
  destruct (types_tokens ts Hlex) as [T1 T2].
  assert (HC : Forall not_comment (ctoks_doc v ts)).
  { unfold ctoks_doc. do 5 (apply Forall_cons; [reflexivity|]). exact T2. }
  rewrite <- HLx in HL.
  destruct (forget2_relay_all _ _ HL HC) as [Hforget Hfilter].
  assert (Elex : lex s = (fst (lex_all s), [])).
  { unfold lex. destruct (lex_all s) as [Lx es]. cbn [fst snd] in *. subst es. rewrite Hfilter. reflexivity. }
  rewrite Elex. cbn [fst snd]. split; [reflexivity|]. split; [exact HLx|].
  assert (Emap : map forget2 (ctoks_doc v ts) = toks_doc_end (vtok v) ts []).
  { unfold ctoks_doc, toks_doc_end. cbn [map]. rewrite T1, app_nil_r. reflexivity. }
  pose proof (parse_map forget2 forget2_kind (fst (lex_all s))) as Hnat.
  rewrite Hforget, Emap, (parse_complete_end (vtok v) ts [] eq_refl Hok (or_introl eq_refl)) in Hnat.
  destruct (parse (fst (lex_all s))) as [f'|]; [|discriminate Hnat].
  exists f'. split; [reflexivity|]. cbn [option_map] in Hnat. unfold doc_file. congruence.
Qed.

(* the canonical layout is one of them *)
Theorem canonical_document_reads_back v ts :
  std_version v = true -> Forall type_lex_ok ts -> Forall type_ok ts ->
  let s := text_of (ctoks_doc v ts) in
  snd (lex s) = [] /\
  exists f', parse (fst (lex s)) = Some f' /\ file_map forget2 f' = doc_file v ts.
Proof.
  intros Hv Hlex Hok s.
  destruct (every_layout_reads_back v ts _ Hv Hlex Hok (fits_relay_refl _ _ (recs_doc v ts Hv Hlex))) as (A & _ & B).
  split; [exact A|exact B].
Qed.

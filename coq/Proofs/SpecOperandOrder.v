(* Proofs/SpecOperandOrder.v — C06, last clause, on the property's own definition of weights (Spec/Weights.v, on the MODEL):
   reordering the operands of unions and intersections, at any nesting depth and in any number of relations, changes no
   relation's depth map (the same depth for every user type). *)
From Coq Require Import Permutation Lia.
From Verif Require Import Base.Str Base.Outcome Model.Ast Model.Printer Model.WGraph Model.WWeights Spec.Weights
  Proofs.StrategyProofs Proofs.OperandOrder.

(* ---- depth maps as finite functions ---- *)
Definition deq (a b : dmap) : Prop := forall k, wget k a = wget k b.
Definition nd (a : dmap) : Prop := NoDup (keys a).

Lemma dmax_is_add_entries a b : dmax a b = add_entries a b.
Proof. reflexivity. Qed.

Lemma nd_add_entries l : forall w, nd w -> nd (add_entries w l).
Proof.
  induction l as [|[k v] l IH]; intros w H; [exact H|]. change (add_entries w ((k, v) :: l)) with (add_entries (wmax k v w) l).
  apply IH. unfold wmax. destruct (wget k w); apply NoDup_wset; exact H.
Qed.

Lemma dmax_get a b k : nd b -> wget k (dmax a b) = omax (wget k a) (wget k b).
Proof. intros H. rewrite dmax_is_add_entries. apply wget_add_entries. exact H. Qed.
Lemma dmax_nd a b : nd a -> nd (dmax a b).
Proof. intros H. rewrite dmax_is_add_entries. apply nd_add_entries. exact H. Qed.

Definition bumpv (v : N) : N := if v =? infinite then v else v + 1.
Lemma dbump_keys a : keys (dbump a) = keys a.
Proof. unfold dbump, keys. rewrite map_map. reflexivity. Qed.
Lemma dbump_get a k : wget k (dbump a) = option_map bumpv (wget k a).
Proof.
  unfold wget, dbump. induction a as [|[k' v] a IH]; [reflexivity|]. cbn [map assoc fst snd]. destruct (str_eqb k k'); [reflexivity|exact IH].
Qed.
Lemma dbump_nd a : nd a -> nd (dbump a).
Proof. unfold nd. rewrite dbump_keys. exact (fun H => H). Qed.

Definition oand2 (x y : option N) : option N := match x, y with Some a, Some b => Some (N.max a b) | _, _ => None end.
Lemma dinter_get a b k : nd a -> wget k (dinter a b) = oand2 (wget k a) (wget k b).
Proof.
  unfold wget, dinter, nd. induction a as [|[k' v] a IH]; intros H; [reflexivity|]. inversion H as [|? ? Hn H']; subst.
  cbn [flat_map fst snd assoc]. destruct (str_eqb_spec k k') as [->|Hk].
  - destruct (assoc k' b) as [vb|] eqn:Eb; cbn [app assoc]; [rewrite str_eqb_refl; reflexivity|].
    rewrite (IH H'). unfold wget in *. rewrite (assoc_notin k' a Hn). reflexivity.
  - destruct (assoc k' b) as [vb|]; cbn [app assoc]; [destruct (str_eqb_spec k k'); [contradiction|]|]; apply IH; exact H'.
Qed.
Lemma dinter_keys_in a b x : In x (keys (dinter a b)) -> In x (keys a).
Proof.
  unfold dinter, keys. induction a as [|[k' v] a IH]; [intros []|]. cbn [flat_map map fst snd]. rewrite map_app. intros H. apply in_app_or in H.
  destruct H as [H|H]; [|right; apply IH; exact H]. destruct (assoc k' b); [destruct H as [<-|[]]; left; reflexivity|destruct H].
Qed.
Lemma dinter_nd a b : nd a -> nd (dinter a b).
Proof.
  unfold nd. induction a as [|[k' v] a IH]; intros H; [constructor|]. inversion H as [|? ? Hn H']; subst. unfold dinter. cbn [flat_map fst snd].
  unfold keys. rewrite map_app. fold (keys (dinter a b)).
  destruct (assoc k' b); cbn [map fst app]; [|apply IH; exact H']. constructor; [|apply IH; exact H'].
  intros Hin. apply Hn. apply (dinter_keys_in a b). exact Hin.
Qed.

Lemma dexcl_keys base sub : keys (dexcl base sub) = keys base.
Proof. unfold dexcl, keys. rewrite map_map. reflexivity. Qed.
Lemma dexcl_get base sub k :
  wget k (dexcl base sub) = match wget k base with Some x => Some (match wget k sub with Some v => N.max x v | None => x end) | None => None end.
Proof.
  unfold wget, dexcl. induction base as [|[k' v] l IH]; [reflexivity|]. cbn [map assoc fst snd]. destruct (str_eqb_spec k k') as [->|Hk]; [reflexivity|exact IH].
Qed.
Lemma dexcl_nd base sub : nd base -> nd (dexcl base sub).
Proof. unfold nd. rewrite dexcl_keys. exact (fun H => H). Qed.

(* ---- folds of maxima and of intersections are symmetric ---- *)
Lemma fold_dmax_get (l : list dmap) : forall acc k, Forall nd l ->
  wget k (fold_left dmax l acc) = fold_left (fun o w => omax o (wget k w)) l (wget k acc).
Proof.
  induction l as [|w l IH]; intros acc k H; [reflexivity|]. inversion H as [|? ? Hw Hl]; subst. cbn [fold_left].
  rewrite (IH _ _ Hl), (dmax_get acc w k Hw). reflexivity.
Qed.
Lemma fold_dmax_nd (l : list dmap) : forall acc, nd acc -> nd (fold_left dmax l acc).
Proof. induction l as [|w l IH]; intros acc H; [exact H|]. cbn [fold_left]. apply IH. apply dmax_nd. exact H. Qed.

Lemma fold_dinter_get (l : list dmap) : forall acc k, nd acc ->
  wget k (fold_left dinter l acc) = fold_left (fun o w => oand2 o (wget k w)) l (wget k acc).
Proof.
  induction l as [|w l IH]; intros acc k H; [reflexivity|]. cbn [fold_left]. rewrite (IH _ _ (dinter_nd acc w H)), (dinter_get acc w k H). reflexivity.
Qed.
Lemma fold_dinter_nd (l : list dmap) : forall acc, nd acc -> nd (fold_left dinter l acc).
Proof. induction l as [|w l IH]; intros acc H; [exact H|]. cbn [fold_left]. apply IH. apply dinter_nd. exact H. Qed.

Lemma oand2_is_oand x y : oand2 x y = oand x y.
Proof. destruct x, y; reflexivity. Qed.

Lemma fold_oand2_map k (l : list dmap) : forall x, fold_left (fun o w => oand2 o (wget k w)) l x = fold_left oand (map (wget k) l) x.
Proof. induction l as [|w l IH]; intros x; [reflexivity|]. cbn [fold_left map]. rewrite oand2_is_oand. apply IH. Qed.

(* [eval_u] written over the evaluated children *)
Lemma fold_left_map' {A B C} (f : A -> B -> A) (g : C -> B) l : forall a, fold_left (fun a x => f a (g x)) l a = fold_left f (map g l) a.
Proof. induction l as [|x l IH]; intros a; [reflexivity|]. cbn [fold_left map]. apply IH. Qed.

(* ---- the same rewrite up to the order of the operands of unions and intersections, at any depth ---- *)
Fixpoint perm_u (u u' : userset) : Prop :=
  let all2 := fix all2 (cs ds : list userset) : Prop :=
    match cs, ds with [], [] => True | c :: r, d :: r' => perm_u c d /\ all2 r r' | _, _ => False end in
  match u, u' with
  | UUnion cs, UUnion cs' => exists ds, all2 cs ds /\ Permutation ds cs'
  | UInter cs, UInter cs' => exists ds, all2 cs ds /\ Permutation ds cs'
  | UDiff b s, UDiff b' s' => perm_u b b' /\ perm_u s s'
  | _, _ => u = u'
  end.
Fixpoint perm_all (cs ds : list userset) : Prop :=
  match cs, ds with [], [] => True | c :: r, d :: r' => perm_u c d /\ perm_all r r' | _, _ => False end.
Lemma perm_u_union cs u' : perm_u (UUnion cs) u' <-> exists cs' ds, u' = UUnion cs' /\ perm_all cs ds /\ Permutation ds cs'.
Proof.
  destruct u'; cbn [perm_u]; try (split; [discriminate|intros (? & ? & E & _); discriminate E]).
  split; [intros (ds & H & P); exists cs0, ds; split; [reflexivity|split; [|exact P]]|intros (cs' & ds & E & H & P); inversion E; subst; exists ds; split; [|exact P]].
  - clear P. revert ds H. induction cs as [|c r IH]; intros [|d r'] H; cbn in *; try tauto; try (split; [tauto|apply IH; tauto]).
  - clear P E. revert ds H. induction cs as [|c r IH]; intros [|d r'] H; cbn in *; try tauto; try (split; [tauto|apply IH; tauto]).
Qed.
Lemma perm_u_inter cs u' : perm_u (UInter cs) u' <-> exists cs' ds, u' = UInter cs' /\ perm_all cs ds /\ Permutation ds cs'.
Proof.
  destruct u'; cbn [perm_u]; try (split; [discriminate|intros (? & ? & E & _); discriminate E]).
  split; [intros (ds & H & P); exists cs0, ds; split; [reflexivity|split; [|exact P]]|intros (cs' & ds & E & H & P); inversion E; subst; exists ds; split; [|exact P]].
  - clear P. revert ds H. induction cs as [|c r IH]; intros [|d r'] H; cbn in *; try tauto; try (split; [tauto|apply IH; tauto]).
  - clear P E. revert ds H. induction cs as [|c r IH]; intros [|d r'] H; cbn in *; try tauto; try (split; [tauto|apply IH; tauto]).
Qed.

(* ---- operations respect equality of maps ---- *)
Lemma dmax_deq a a' b b' : deq a a' -> deq b b' -> nd b -> nd b' -> deq (dmax a b) (dmax a' b').
Proof. intros Ha Hb N1 N2 k. rewrite (dmax_get a b k N1), (dmax_get a' b' k N2), (Ha k), (Hb k). reflexivity. Qed.
Lemma dbump_deq a a' : deq a a' -> deq (dbump a) (dbump a').
Proof. intros H k. rewrite !dbump_get, (H k). reflexivity. Qed.

Section Eval.
  Variables rec rec' : str -> str -> dmap.
  Hypothesis Hrec : forall t r, deq (rec t r) (rec' t r) /\ nd (rec t r) /\ nd (rec' t r).

  Definition good (a a' : dmap) : Prop := deq a a' /\ nd a /\ nd a'.

  Lemma good_nil : good [] [].
  Proof. split; [intros k; reflexivity|split; constructor]. Qed.
  Lemma single_nd k v : nd [(k, v)].
  Proof. unfold nd. cbn. constructor; [intros []|constructor]. Qed.

  Definition refs_step (rc : str -> str -> dmap) (acc : dmap) (r : relation_ref) : dmap :=
    match rr_kind r with
    | RPlain | RWild => dmax acc [(rr_type r, 1)]
    | RRel x => dmax acc (dbump (rc (rr_type r) x))
    end.
  Lemma refs_fold_good refs : forall a a', good a a' -> good (fold_left (refs_step rec) refs a) (fold_left (refs_step rec') refs a').
  Proof.
    induction refs as [|r refs IH]; intros a a' G; [exact G|]. cbn [fold_left]. apply IH. destruct G as (D & N1 & N2). unfold refs_step.
    destruct (rr_kind r) as [|x|].
    - split; [apply dmax_deq; [exact D|intros k; reflexivity|apply single_nd|apply single_nd]|split; apply dmax_nd; assumption].
    - destruct (Hrec (rr_type r) x) as (E & M1 & M2).
      split; [apply dmax_deq; [exact D|apply dbump_deq; exact E|apply dbump_nd; exact M1|apply dbump_nd; exact M2]|split; apply dmax_nd; assumption].
    - split; [apply dmax_deq; [exact D|intros k; reflexivity|apply single_nd|apply single_nd]|split; apply dmax_nd; assumption].
  Qed.
  Lemma eval_refs_good refs : good (eval_refs rec refs) (eval_refs rec' refs).
  Proof. exact (refs_fold_good refs [] [] good_nil). Qed.

  Definition ttu_step (rc : str -> str -> dmap) (cu : str) (acc : dmap) (r : relation_ref) : dmap := dmax acc (dbump (rc (rr_type r) cu)).
  Lemma ttu_fold_good cu refs : forall a a', good a a' -> good (fold_left (ttu_step rec cu) refs a) (fold_left (ttu_step rec' cu) refs a').
  Proof.
    induction refs as [|r refs IH]; intros a a' G; [exact G|]. cbn [fold_left]. apply IH. destruct G as (D & N1 & N2). unfold ttu_step.
    destruct (Hrec (rr_type r) cu) as (E & M1 & M2).
    split; [apply dmax_deq; [exact D|apply dbump_deq; exact E|apply dbump_nd; exact M1|apply dbump_nd; exact M2]|split; apply dmax_nd; assumption].
  Qed.
  Lemma ttu_good cu refs :
    good (fold_left (fun acc r => dmax acc (dbump (rec (rr_type r) cu))) refs []) (fold_left (fun acc r => dmax acc (dbump (rec' (rr_type r) cu))) refs []).
  Proof. exact (ttu_fold_good cu refs [] [] good_nil). Qed.

  (* values of a fold of intersections, the first operand included *)
  Lemma oand_fold_perm (l l' : list (option N)) x x' : Permutation (x :: l) (x' :: l') -> fold_left oand l x = fold_left oand l' x'.
  Proof.
    intros Hp. set (step := fun (a : acc_t) (v : option N) => match a with Top => Val v | Val w => Val (oand w v) end).
    assert (Hs : forall a u v, step (step a u) v = step (step a v) u).
    { intros [|w] u v; cbn; f_equal; [apply oand_comm|apply oand_swap]. }
    assert (Hf : forall l v, fold_left step l (Val v) = Val (fold_left oand l v)) by (induction l0 as [|y l0 IH]; intros v; cbn; [reflexivity|apply IH]).
    pose proof (fold_left_perm step Hs _ _ Hp Top) as H. cbn [fold_left] in H. unfold step at 2 4 in H. rewrite !Hf in H. inversion H. reflexivity.
  Qed.

  Variables td td' : typedef.
  Variable rel : str.
  Hypothesis Hname : td_name td = td_name td'.
  Hypothesis Hmeta : td_meta_rels td = td_meta_rels td'.

  Lemma eval_u_perm u : forall u', perm_u u u' -> good (eval_u rec td rel u) (eval_u rec' td' rel u').
  Proof.
    induction u as [| t | r | ts cu | cs IH | cs IH | b s IHb IHs] using userset_ind'; intros u' H.
    - cbn [perm_u] in H. subst u'. exact good_nil.
    - cbn [perm_u] in H. subst u'. cbn [eval_u]. rewrite Hmeta. apply eval_refs_good.
    - cbn [perm_u] in H. subst u'. cbn [eval_u]. rewrite Hname. apply Hrec.
    - cbn [perm_u] in H. subst u'. cbn [eval_u]. rewrite Hmeta. apply ttu_good.
    - apply perm_u_union in H. destruct H as (cs' & ds & -> & Hall & Hp). cbn [eval_u].
      rewrite (fold_left_map' dmax (eval_u rec td rel) cs), (fold_left_map' dmax (eval_u rec' td' rel) cs').
      (* children: pairwise good (cs, ds), then ds permuted to cs' *)
      assert (Hpair : Forall2 good (map (eval_u rec td rel) cs) (map (eval_u rec' td' rel) ds)).
      { clear Hp. revert ds Hall. induction IH as [|c r Hc _ IHr]; intros [|d r'] Hall; cbn in Hall; try tauto; [constructor|].
        cbn [map]. constructor; [apply Hc; tauto|apply IHr; tauto]. }
      assert (N1 : Forall nd (map (eval_u rec td rel) cs)) by (clear -Hpair; induction Hpair as [|? ? ? ? (_ & A & _) _ IHp]; constructor; assumption).
      assert (N2 : Forall nd (map (eval_u rec' td' rel) ds)) by (clear -Hpair; induction Hpair as [|? ? ? ? (_ & _ & A) _ IHp]; constructor; assumption).
      assert (P' : Permutation (map (eval_u rec' td' rel) ds) (map (eval_u rec' td' rel) cs')) by (apply Permutation_map; exact Hp).
      assert (N3 : Forall nd (map (eval_u rec' td' rel) cs')) by (apply (Forall_perm' _ _ _ P' N2)).
      split; [|split; apply fold_dmax_nd; constructor].
      intros k. rewrite (fold_dmax_get _ [] k N1), (fold_dmax_get _ [] k N3).
      rewrite <- (fold_left_perm (fun o w => omax o (wget k w)) (fun a x y => omax_swap a (wget k x) (wget k y)) _ _ P' (wget k [])).
      clear -Hpair. generalize (wget k []). induction Hpair as [|a a' l l' (D & _) _ IHp]; intros o; [reflexivity|]. cbn [fold_left]. rewrite (D k). apply IHp.
    - apply perm_u_inter in H. destruct H as (cs' & ds & -> & Hall & Hp). cbn [eval_u].
      assert (Hpair : Forall2 good (map (eval_u rec td rel) cs) (map (eval_u rec' td' rel) ds)).
      { clear Hp. revert ds Hall. induction IH as [|c r Hc _ IHr]; intros [|d r'] Hall; cbn in Hall; try tauto; [constructor|].
        cbn [map]. constructor; [apply Hc; tauto|apply IHr; tauto]. }
      assert (P' : Permutation (map (eval_u rec' td' rel) ds) (map (eval_u rec' td' rel) cs')) by (apply Permutation_map; exact Hp).
      destruct cs as [|c r]; destruct ds as [|d r']; cbn in Hall; try tauto.
      + apply Permutation_nil in Hp. subst cs'. exact good_nil.
      + destruct cs' as [|c' r'']; [apply Permutation_sym, Permutation_nil in Hp; discriminate Hp|].
        rewrite (fold_left_map' dinter (eval_u rec td rel) r), (fold_left_map' dinter (eval_u rec' td' rel) r'').
        cbn [map] in Hpair, P'. inversion Hpair as [|? ? ? ? (D0 & A0 & B0) Hrest]; subst.
        assert (N3 : Forall nd (map (eval_u rec' td' rel) (c' :: r''))).
        { apply (Forall_perm' _ _ _ P'). constructor; [exact B0|]. clear -Hrest. induction Hrest as [|? ? ? ? (_ & _ & A) _ IHp]; constructor; assumption. }
        cbn [map] in N3. inversion N3 as [|? ? Nc' _]; subst.
        split; [|split; apply fold_dinter_nd; assumption].
        intros k. rewrite (fold_dinter_get _ _ k A0), (fold_dinter_get _ _ k Nc').
        rewrite !fold_oand2_map.
        transitivity (fold_left oand (map (wget k) (map (eval_u rec' td' rel) r')) (wget k (eval_u rec' td' rel d))).
        * rewrite (D0 k). clear -Hrest. generalize (wget k (eval_u rec' td' rel d)). induction Hrest as [|a a' l l' (D & _) _ IHp]; intros o; [reflexivity|].
          cbn [map fold_left]. rewrite (D k). apply IHp.
        * apply oand_fold_perm. apply (Permutation_map (wget k)) in P'. exact P'.
    - destruct u'; cbn [perm_u] in H; try discriminate H. destruct H as [Hb Hs]. cbn [eval_u].
      destruct (IHb _ Hb) as (D1 & A1 & B1). destruct (IHs _ Hs) as (D2 & A2 & B2).
      split; [|split; apply dexcl_nd; assumption]. intros k. rewrite !dexcl_get, (D1 k), (D2 k). reflexivity.
  Qed.
End Eval.

(* ---- models that differ only in the order of operands ---- *)
Definition perm_rels (rs rs' : list (str * userset)) : Prop :=
  Forall2 (fun p p' => fst p = fst p' /\ perm_u (snd p) (snd p')) rs rs'.
Definition perm_td (td td' : typedef) : Prop :=
  td_name td = td_name td' /\ td_meta td = td_meta td' /\ perm_rels (td_rels td) (td_rels td').
Definition perm_model (m m' : model) : Prop := Forall2 perm_td (m_types m) (m_types m').

Lemma find_type_perm m m' ty : perm_model m m' ->
  match find_type m ty, find_type m' ty with
  | Some td, Some td' => perm_td td td'
  | None, None => True
  | _, _ => False
  end.
Proof.
  unfold perm_model, find_type. intros H. induction H as [|td td' l l' Ht _ IH]; [exact I|]. cbn [find].
  destruct Ht as (Hn & Hm & Hr). rewrite <- Hn. destruct (str_eqb (td_name td) ty); [repeat split; assumption|exact IH].
Qed.

Lemma assoc_perm rel rs rs' : perm_rels rs rs' ->
  match assoc rel rs, assoc rel rs' with
  | Some u, Some u' => perm_u u u'
  | None, None => True
  | _, _ => False
  end.
Proof.
  intros H. induction H as [|[k u] [k' u'] l l' (Hk & Hu) _ IH]; [exact I|]. cbn [fst snd] in Hk, Hu. subst k'. cbn [assoc].
  destruct (str_eqb rel k); [exact Hu|exact IH].
Qed.

Theorem spec_depths_operand_order m m' : perm_model m m' ->
  forall fuel ty rel, deq (spec_depths fuel m ty rel) (spec_depths fuel m' ty rel) /\
                      nd (spec_depths fuel m ty rel) /\ nd (spec_depths fuel m' ty rel).
Proof.
  intros Hm. induction fuel as [|f IH]; intros ty rel; [exact good_nil|]. cbn [spec_depths].
  pose proof (find_type_perm m m' ty Hm) as Hf. destruct (find_type m ty) as [td|], (find_type m' ty) as [td'|]; try contradiction; [|exact good_nil].
  destruct Hf as (Hn & Hmeta & Hr). pose proof (assoc_perm rel _ _ Hr) as Ha.
  destruct (assoc rel (td_rels td)) as [u|], (assoc rel (td_rels td')) as [u'|]; try contradiction; [|exact good_nil].
  apply (eval_u_perm (spec_depths f m) (spec_depths f m') IH td td' rel Hn); [unfold td_meta_rels; rewrite Hmeta; reflexivity|exact Ha].
Qed.

Lemma n_relations_perm m m' : perm_model m m' -> n_relations m = n_relations m'.
Proof.
  unfold perm_model, n_relations. intros H. induction H as [|td td' l l' (_ & _ & Hr) _ IH]; [reflexivity|]. cbn [fold_right]. rewrite IH. f_equal.
  unfold perm_rels in Hr. clear -Hr. induction Hr; cbn; [reflexivity|f_equal; assumption].
Qed.

(* THE STATEMENT: the property's depth map of every relation is the same in both models *)
Theorem spec_of_operand_order m m' : perm_model m m' -> forall ty rel k, wget k (spec_of m ty rel) = wget k (spec_of m' ty rel).
Proof.
  intros H ty rel k. unfold spec_of. rewrite <- (n_relations_perm m m' H). apply (spec_depths_operand_order m m' H).
Qed.
Print Assumptions spec_of_operand_order.

(* non-vacuity: "a: [user] or b or c" against "a: c or [user] or b", nested under an intersection *)
Example perm_u_example :
  perm_u (UInter [UUnion [UThis ThisEmpty; UComputed (lit "b"); UComputed (lit "c")]; UComputed (lit "d")])
         (UInter [UComputed (lit "d"); UUnion [UComputed (lit "c"); UThis ThisEmpty; UComputed (lit "b")]]).
Proof.
  apply perm_u_inter. exists [UComputed (lit "d"); UUnion [UComputed (lit "c"); UThis ThisEmpty; UComputed (lit "b")]],
                             [UUnion [UComputed (lit "c"); UThis ThisEmpty; UComputed (lit "b")]; UComputed (lit "d")].
  split; [reflexivity|]. split; [|apply perm_swap].
  cbn [perm_all]. split; [|split; [reflexivity|exact I]].
  apply perm_u_union. exists [UComputed (lit "c"); UThis ThisEmpty; UComputed (lit "b")], [UThis ThisEmpty; UComputed (lit "b"); UComputed (lit "c")].
  split; [reflexivity|]. split; [cbn; repeat split|].
  apply Permutation_sym. apply (Permutation_cons_app [UThis ThisEmpty; UComputed (lit "b")] [] (UComputed (lit "c"))). rewrite app_nil_r. apply Permutation_refl.
Qed.

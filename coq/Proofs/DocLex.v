(* Proofs/DocLex.v — the remaining tokens of a printed DOCUMENT at character level: line breaks with their
   indentation (any run of line feeds and blanks that starts with a line feed, in front of something that is neither),
   the keywords model, schema, type, relations and the schema version. *)
From Coq Require Import Lia.
From Verif Require Import Spec.DocDomain Base.Str Base.Outcome Model.Ast Model.Token Gen.Keywords Model.Lexer Model.Parser
  Proofs.ParserComplete Proofs.LexInversion Proofs.LexRender.

(* a line break as the printer writes it: a line feed, then line feeds and blanks *)
Definition nl_text (s : str) : bool :=
  match s with c :: r => (c =? 10) && forallb (fun x => (x =? 10) || (x =? 32)) r | [] => false end.

Lemma no_literal_starts_with_nl : forallb (fun l => match l with c :: _ => negb (c =? 10) | [] => false end) all_literal_spellings = true.
Proof. vm_compute. reflexivity. Qed.

Lemma nl_text_nlish s : nl_text s = true -> forallb is_nlish s = true.
Proof.
  destruct s as [|c r]; [discriminate|]. cbn [nl_text forallb]. intros H. apply andb_prop in H. destruct H as [Hc Hr].
  apply andb_true_intro. split.
  - apply N.eqb_eq in Hc. subst c. reflexivity.
  - rewrite forallb_forall in Hr |- *. intros x Hx. specialize (Hr x Hx). apply orb_prop in Hr.
    destruct Hr as [E|E]; apply N.eqb_eq in E; subst x; reflexivity.
Qed.

Lemma rec_newline_gen nl c rest : nl_text nl = true -> is_nlish c = false -> rec_at NEWLINE nl (c :: rest).
Proof.
  intros Hnl Hc. pose proof (nl_text_nlish nl Hnl) as Hall. destruct nl as [|c0 r]; [discriminate|].
  assert (E0 : c0 = 10) by (cbn [nl_text] in Hnl; apply andb_prop in Hnl; destruct Hnl as [H _]; apply N.eqb_eq in H; exact H). subst c0.
  split; [|split; [discriminate|reflexivity]].
  rewrite default_rules_parts. change recognisers with (firstn 9 recognisers ++ (NEWLINE, rec_newline) :: []). rewrite app_assoc.
  apply best_rule_wins.
  - unfold rec_newline. rewrite (run_len_app is_nlish (10 :: r) c rest Hall Hc), firstn_app_exact. reflexivity.
  - cbn [length]. lia.
  - apply Forall_app. split.
    + apply (literals_bound _ (fun n => (n < S (length r))%nat)).
      * intros l Hl. pose proof no_literal_starts_with_nl as H. rewrite forallb_forall in H. specialize (H l Hl).
        unfold rec_literal. destruct l as [|c1 l]; [discriminate|]. cbn [is_prefix app]. destruct (c1 =? 10) eqn:E; [discriminate|].
        cbn [andb]. cbv iota. lia.
      * cbn. lia.
    + cbn [firstn recognisers]. repeat apply Forall_cons; try apply Forall_nil; cbn [snd]; cbn; try lia; destruct (r ++ c :: rest) as [|? ?]; cbn; lia.
  - constructor.
Qed.

(* ---------------------------------------------------------------------------------------- *)
(* keywords of the document frame                                                            *)
(* ---------------------------------------------------------------------------------------- *)
Lemma rec_type rest : rec_at TYPE (lit "type") (32 :: rest).
Proof. split; [destruct rest as [|? [|? ?]]; vm_compute; reflexivity|split; [discriminate|reflexivity]]. Qed.
Lemma rec_relations rest : rec_at RELATIONS (lit "relations") (10 :: rest).
Proof. split; [destruct rest as [|? [|? ?]]; vm_compute; reflexivity|split; [discriminate|reflexivity]]. Qed.
Lemma rec_model rest : rec_at MODEL (lit "model") (10 :: rest).
Proof. split; [destruct rest as [|? [|? ?]]; vm_compute; reflexivity|split; [discriminate|reflexivity]]. Qed.
Lemma rec_schema rest : rec_at SCHEMA (lit "schema") (32 :: rest).
Proof. split; [destruct rest as [|? [|? ?]]; vm_compute; reflexivity|split; [discriminate|reflexivity]]. Qed.
Lemma rec_define' rest : rec_at DEFINE (lit "define") (32 :: rest).
Proof. split; [destruct rest as [|? [|? ?]]; vm_compute; reflexivity|split; [discriminate|reflexivity]]. Qed.

(* end of input, or a line feed *)
Definition nl_next (rest : str) : Prop := match rest with [] => True | c :: _ => c = 10 end.
Lemma nl_next_delim rest : nl_next rest -> delim_next rest.
Proof. destruct rest as [|c r]; [exact (fun _ => I)|]. cbn. intros ->. reflexivity. Qed.

Lemma str_eqb_eq a b : str_eqb a b = true -> a = b.
Proof.
  revert b. induction a as [|x a IH]; intros [|y b] H; cbn in H; try discriminate; [reflexivity|].
  apply andb_prop in H. destruct H as [H1 H2]. apply N.eqb_eq in H1. subst y. f_equal. apply IH. exact H2.
Qed.

Lemma rec_version v rest : std_version v = true -> nl_next rest -> rec_at SCHEMA_VERSION v rest.
Proof.
  intros Hv Hr. unfold std_version in Hv. apply orb_prop in Hv. destruct Hv as [Hv|Hv]; [apply orb_prop in Hv; destruct Hv as [Hv|Hv]|];
    apply str_eqb_eq in Hv; subst v; (destruct rest as [|c rest]; [|cbn in Hr; subst c]);
    (split; [try (destruct rest as [|? [|? ?]]); vm_compute; reflexivity|split; [discriminate|reflexivity]]).
Qed.

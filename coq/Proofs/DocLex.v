(* Proofs/DocLex.v — the remaining tokens of a printed DOCUMENT at character level: line breaks with their
   indentation (any run of line feeds and blanks that starts with a line feed, in front of something that is neither),
   the keywords model, schema, type, relations and the schema version. *)
From Coq Require Import Lia.
From Verif Require Import Spec.DocDomain Base.Str Base.Outcome Model.Ast Model.Token Gen.Keywords Model.Lexer Model.Parser
  Proofs.ParserComplete Proofs.LexInversion Proofs.LexRender.

(* nl_text, rec_newline_gen, nl_next, str_eqb_eq and rec_version now live in Proofs/LexFit.v (re-exported by
   Proofs/LexRender.v), stated for line breaks whose indentation may hold tabs as well. *)

(* ---------------------------------------------------------------------------------------- *)
(* keywords of the document frame: they fit in front of a blank (or tab), resp. a line feed   *)
(* ---------------------------------------------------------------------------------------- *)
Lemma rec_type rest : blank_next rest -> fit TYPE (lit "type") rest.
Proof. apply (fit_kw TYPE). cbn. tauto. Qed.
Lemma rec_schema rest : blank_next rest -> fit SCHEMA (lit "schema") rest.
Proof. apply (fit_kw SCHEMA). cbn. tauto. Qed.
Lemma rec_define' rest : blank_next rest -> fit DEFINE (lit "define") rest.
Proof. apply (fit_kw DEFINE). cbn. tauto. Qed.
Lemma rec_relations rest : lf_next rest -> fit RELATIONS (lit "relations") rest.
Proof. apply (fit_line RELATIONS). cbn. tauto. Qed.
Lemma rec_model rest : lf_next rest -> fit MODEL (lit "model") rest.
Proof. apply (fit_line MODEL). cbn. tauto. Qed.

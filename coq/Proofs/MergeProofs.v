(* Proofs/MergeProofs.v — module merge: an error result is never empty and never comes with a model, the
   schema version is the requested one, applying extensions neither loses, invents nor reorders types (C07). *)
From Verif Require Import Base.Str Base.Outcome Model.Ast Model.Printer Model.Transform Model.LineNumbers Model.Merge.

Lemma collect_files_not_err fs : forall k s e, collect_files fs k s <> Err e.
Proof.
  induction fs as [|f fs IH]; intros k s e; simpl; [discriminate|].
  destruct (dsl_to_model (mf_text f)) as [m exts md|n p|es|w]; try apply IH; try discriminate.
  destruct (negb (is_empty (m_schema m))); [apply IH|].
  destruct (collect_conds _ _ _ _); [apply IH|discriminate].
Qed.

Theorem merge_err_nonempty fs v es : merge fs v = Err es -> es <> [].
Proof.
  unfold merge. destruct (collect_files fs 0 init_mstate) as [s|e|w] eqn:E; try discriminate.
  - destruct (apply_all _ _ _ _) as [[raw [|e0 es0]]|]; try discriminate. intros H; inversion H; discriminate.
  - exfalso. eapply collect_files_not_err; eauto.
Qed.

Theorem merge_ok_schema fs v m : merge fs v = Ok m -> m_schema m = v.
Proof.
  unfold merge. destruct (collect_files fs 0 init_mstate) as [s|e|w]; try discriminate.
  destruct (apply_all _ _ _ _) as [[raw [|e0 es0]]|]; try discriminate. intros H; inversion H; reflexivity.
Qed.

(* ---- extensions never lose, invent or reorder types ---- *)
Lemma replace_nth_names i t raw :
  td_name t = td_name (nth i raw empty_typedef) -> (i < length raw)%nat ->
  map td_name (replace_nth i t raw) = map td_name raw.
Proof.
  revert i. induction raw as [|x raw IH]; intros [|i] H Hl; simpl in *; try lia.
  - rewrite H. reflexivity.
  - f_equal. apply IH; auto. lia.
Qed.

Lemma index_of_type_bound name l i k : index_of_type name l i = Some k -> (i <= k < i + length l)%nat /\ td_name (nth (k - i) l empty_typedef) = name.
Proof.
  revert i. induction l as [|t l IH]; intros i H; simpl in H; [discriminate|].
  destruct (str_eqb_spec (td_name t) name) as [E|_].
  - inversion H; subst. simpl. rewrite Nat.sub_diag. split; [lia|reflexivity].
  - destruct (IH _ H) as [Hb Hn]. split; [simpl; lia|].
    replace (k - i)%nat with (S (k - S i)) by lia. exact Hn.
Qed.

Lemma merge_relations_name file lines ty existing names td : forall orig errs orig' errs',
  merge_relations file lines ty existing names td orig errs = Some (orig', errs') -> td_name orig' = td_name orig.
Proof.
  induction names as [|n names IH]; intros orig errs orig' errs' H; simpl in H; [inversion H; reflexivity|].
  destruct (mem_str n existing); [eapply IH; eauto|].
  destruct (assoc n (td_meta_rels td)); [|discriminate]. destruct (td_meta orig); [|discriminate].
  destruct (assoc n (td_rels td)); [|discriminate]. apply IH in H. exact H.
Qed.

Lemma apply_extension_names file lines td raw raw' es :
  apply_extension file lines td raw = Some (raw', es) -> map td_name raw' = map td_name raw.
Proof.
  unfold apply_extension. destruct (index_of_type (td_name td) raw 0) as [i|] eqn:Ei.
  - destruct (index_of_type_bound _ _ _ _ Ei) as [Hb Hn]. rewrite Nat.sub_0_r in Hn.
    destruct (td_rels (nth i raw empty_typedef)) eqn:Er.
    + intros H; inversion H; subst. apply replace_nth_names; [reflexivity|lia].
    + destruct (merge_relations _ _ _ _ _ _ _ _) as [[orig' es']|] eqn:Em; [|discriminate].
      intros H; inversion H; subst. apply replace_nth_names; [|lia].
      eapply merge_relations_name; eauto.
  - intros H; inversion H; reflexivity.
Qed.

Lemma apply_extensions_names file lines tds : forall raw errs raw' errs',
  apply_extensions file lines tds raw errs = Some (raw', errs') -> map td_name raw' = map td_name raw.
Proof.
  induction tds as [|td tds IH]; intros raw errs raw' errs' H; simpl in H; [inversion H; reflexivity|].
  destruct (apply_extension file lines td raw) as [[raw1 es]|] eqn:E; [|discriminate].
  rewrite (IH _ _ _ _ H). eapply apply_extension_names; eauto.
Qed.

Theorem apply_all_names exts all_lines : forall raw errs raw' errs',
  apply_all exts all_lines raw errs = Some (raw', errs') -> map td_name raw' = map td_name raw.
Proof.
  induction exts as [|[file tds] exts IH]; intros raw errs raw' errs' H; simpl in H; [inversion H; reflexivity|].
  destruct (apply_extensions _ _ _ _ _) as [[raw1 errs1]|] eqn:E; [|discriminate].
  rewrite (IH _ _ _ _ H). eapply apply_extensions_names; eauto.
Qed.

(* errors only accumulate while extensions are applied: a conflict found early is never dropped *)
Lemma apply_extensions_errs file lines tds : forall raw errs raw' errs',
  apply_extensions file lines tds raw errs = Some (raw', errs') -> exists more, errs' = errs ++ more.
Proof.
  induction tds as [|td tds IH]; intros raw errs raw' errs' H; simpl in H.
  - inversion H; subst. exists []. rewrite app_nil_r. reflexivity.
  - destruct (apply_extension file lines td raw) as [[raw1 es]|]; [|discriminate].
    destruct (IH _ _ _ _ H) as [more E]. exists (es ++ more). rewrite E, app_assoc. reflexivity.
Qed.

Theorem apply_all_errs exts all_lines : forall raw errs raw' errs',
  apply_all exts all_lines raw errs = Some (raw', errs') -> exists more, errs' = errs ++ more.
Proof.
  induction exts as [|[file tds] exts IH]; intros raw errs raw' errs' H; simpl in H.
  - inversion H; subst. exists []. rewrite app_nil_r. reflexivity.
  - destruct (apply_extensions _ _ _ _ _) as [[raw1 errs1]|] eqn:E; [|discriminate].
    destruct (apply_extensions_errs _ _ _ _ _ _ _ E) as [m1 E1]. destruct (IH _ _ _ _ H) as [m2 E2].
    exists (m1 ++ m2). rewrite E2, E1, app_assoc. reflexivity.
Qed.

(* success means that collecting the files raised no error at all, and the types of the result are the
   collected base types, in the order of their declaration *)
Theorem merge_ok_types fs v m :
  merge fs v = Ok m ->
  exists s, collect_files fs 0 init_mstate = Ok s /\ ms_errs s = [] /\
            map td_name (m_types m) = map td_name (ms_raw s) /\ m_conds m = ms_conds s.
Proof.
  unfold merge. destruct (collect_files fs 0 init_mstate) as [s|e|w] eqn:E; try discriminate.
  destruct (apply_all _ _ _ _) as [[raw [|e0 es0]]|] eqn:Ea; try discriminate.
  intros H; inversion H; subst; simpl. exists s. split; [reflexivity|].
  destruct (apply_all_errs _ _ _ _ _ _ Ea) as [more Em].
  symmetry in Em. apply app_eq_nil in Em. destruct Em as [Em _].
  split; [exact Em|]. split; [eapply apply_all_names; eauto|reflexivity].
Qed.

(* ---- relations contributed by an extension ---- *)
Lemma assoc_set_same {A} k (v : A) l : assoc k (assoc_set k v l) = Some v.
Proof. induction l as [|[k' v'] l IH]; simpl; [rewrite str_eqb_refl; reflexivity|]. destruct (str_eqb k k') eqn:E; simpl; rewrite ?E, ?str_eqb_refl; auto. Qed.

Lemma assoc_set_other {A} k k' (v : A) l : k' <> k -> assoc k' (assoc_set k v l) = assoc k' l.
Proof.
  intros Hn. induction l as [|[k0 v0] l IH]; simpl.
  - destruct (str_eqb_spec k' k); [contradiction|reflexivity].
  - destruct (str_eqb_spec k k0) as [->|Hk]; simpl.
    + destruct (str_eqb_spec k' k0); [contradiction|reflexivity].
    + destruct (str_eqb k' k0); auto.
Qed.

(* when merging raises no error, the target gains exactly the extension's relations, each attributed to the
   extending file, and keeps everything it had *)
Lemma merge_relations_spec file lines ty existing td names : forall orig errs orig',
  NoDup names ->
  merge_relations file lines ty existing names td orig errs = Some (orig', errs) ->
  (forall n, In n names ->
     assoc n (td_rels orig') = assoc n (td_rels td) /\ assoc n (td_rels td) <> None /\
     exists rm, assoc n (td_meta_rels td) = Some rm /\ assoc n (td_meta_rels orig') = Some (with_rel_file file rm)) /\
  (forall n, ~ In n names -> assoc n (td_rels orig') = assoc n (td_rels orig) /\ assoc n (td_meta_rels orig') = assoc n (td_meta_rels orig)) /\
  td_module orig' = td_module orig /\ td_file orig' = td_file orig.
Proof.
  induction names as [|n names IH]; intros orig errs orig' Hnd H.
  - simpl in H. inversion H; subst. split; [intros n0 []|]. split; [intros n0 _; split; reflexivity|]. split; reflexivity.
  - inversion Hnd as [|? ? Hnotin Hnd']; subst. simpl in H.
    destruct (mem_str n existing).
    + (* a conflict would have appended an error: impossible since the error list is unchanged *)
      exfalso. clear -H.
      assert (G : forall names orig errs orig' errs', merge_relations file lines ty existing names td orig errs = Some (orig', errs') -> exists more, errs' = errs ++ more).
      { clear. induction names as [|n names IH]; intros orig errs orig' errs' H; simpl in H.
        - inversion H; subst. exists []. rewrite app_nil_r. reflexivity.
        - destruct (mem_str n existing).
          + destruct (IH _ _ _ _ H) as [more E]. eexists. rewrite E, <- app_assoc. reflexivity.
          + destruct (assoc n (td_meta_rels td)); [|discriminate]. destruct (td_meta orig); [|discriminate].
            destruct (assoc n (td_rels td)); [|discriminate]. eapply IH; eauto. }
      destruct (G _ _ _ _ _ H) as [more E]. rewrite <- app_assoc in E.
      apply (f_equal (@length merror)) in E. rewrite app_length in E. simpl in E. lia.
    + destruct (assoc n (td_meta_rels td)) as [rm|] eqn:Em; [|discriminate].
      destruct (td_meta orig) as [omd|] eqn:Eo; [|discriminate].
      destruct (assoc n (td_rels td)) as [u|] eqn:Eu; [|discriminate].
      destruct (IH _ _ _ Hnd' H) as [Hin [Hout [Hmod Hfile]]].
      split; [|split].
      * intros n' [<-|Hn'].
        -- destruct (Hout n Hnotin) as [Hr Hm]. unfold td_meta_rels in Hm at 2. simpl in Hr, Hm.
           rewrite assoc_set_same in Hr. rewrite assoc_set_same in Hm. split; [rewrite Hr, Eu; reflexivity|]. split; [rewrite Eu; discriminate|].
           exists rm. split; auto.
        -- apply Hin. exact Hn'.
      * intros n' Hn'. assert (Hne : n' <> n) by (intros ->; apply Hn'; left; reflexivity).
        assert (Hni : ~ In n' names) by (intros X; apply Hn'; right; exact X).
        destruct (Hout n' Hni) as [Hr Hm]. unfold td_meta_rels in Hm at 2. simpl in Hr, Hm.
        rewrite assoc_set_other in Hr by exact Hne. rewrite assoc_set_other in Hm by exact Hne. split; [exact Hr|].
        rewrite Hm. unfold td_meta_rels. rewrite Eo. reflexivity.
      * unfold td_module, td_file in *. simpl in Hmod, Hfile. rewrite Hmod, Hfile, Eo. split; reflexivity.
Qed.

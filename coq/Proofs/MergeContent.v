(* Proofs/MergeContent.v — what a successful merge contains (C07) and that it does not depend on the order of the
   files (C12).  Readings of the merged model (Spec/MergeObs.v): every relation declared by a type definition or
   by an extension is present with its rewrite unchanged; a relation of the definition keeps its metadata, a
   relation added by an extension carries the extending file; the type keeps the module and file of its
   definition; nothing else is present.  Since all four readings are determined by membership in the set of
   files, permuting the list changes none of them. *)
From Coq Require Import Permutation.
From Verif Require Import Base.Str Base.Outcome Model.Ast Model.Printer Model.Transform Model.LineNumbers Model.Merge
  Spec.MergeSpec Spec.MergeObs Proofs.SortFacts Proofs.PrinterCanonical Proofs.MergeProofs Proofs.MergeIff.

(* ---------------------------------------------------------------------------------------- *)
(* 1. reading the list of types                                                              *)
(* ---------------------------------------------------------------------------------------- *)
Lemma tfind_find raw T : tfind raw T = find (fun t => str_eqb (td_name t) T) raw.
Proof.
  unfold tfind. pose proof (index_find T raw 0) as H.
  destruct (index_of_type T raw 0) as [i|]; rewrite H; [rewrite Nat.sub_0_r|]; reflexivity.
Qed.

Lemma rk_tfind raw T : rk raw T = match tfind raw T with Some t => keys (td_rels t) | None => [] end.
Proof. unfold rk, tfind. destruct (index_of_type T raw 0); reflexivity. Qed.

Lemma tfind_name raw T t : tfind raw T = Some t -> td_name t = T /\ In t raw.
Proof.
  rewrite tfind_find. intros H. apply find_some in H. destruct H as [Hin E]. split; [|exact Hin].
  destruct (str_eqb_spec (td_name t) T); [assumption|discriminate].
Qed.

Lemma tfind_none raw T : tfind raw T = None <-> ~ In T (map td_name raw).
Proof. unfold tfind. rewrite <- (index_of_type_none T raw 0). destruct (index_of_type T raw 0); split; congruence. Qed.

Lemma tfind_in_nodup raw t : NoDup (map td_name raw) -> In t raw -> tfind raw (td_name t) = Some t.
Proof.
  rewrite tfind_find. induction raw as [|x raw IH]; intros Hnd Hin; [destruct Hin|].
  inversion Hnd as [|a b Hx Hnd' Eab]. cbn [find]. destruct Hin as [->|Hin]; [rewrite str_eqb_refl; reflexivity|].
  destruct (str_eqb_spec (td_name x) (td_name t)) as [E|_]; [|apply IH; assumption].
  exfalso. apply Hx. rewrite E. apply in_map. exact Hin.
Qed.

Lemma tfind_names raw raw' T : map td_name raw = map td_name raw' -> (tfind raw T = None <-> tfind raw' T = None).
Proof. intros E. rewrite !tfind_none, E. tauto. Qed.

Lemma tfind_replace raw i T orig' :
  index_of_type T raw 0 = Some i -> td_name orig' = T ->
  tfind (replace_nth i orig' raw) T = Some orig' /\
  forall T', T' <> T -> tfind (replace_nth i orig' raw) T' = tfind raw T'.
Proof.
  intros Ei Hname. destruct (index_of_type_bound _ _ _ _ Ei) as [Hb Hn]. rewrite Nat.sub_0_r in Hn.
  assert (Hnames : map td_name (replace_nth i orig' raw) = map td_name raw) by (apply replace_nth_names; [congruence|lia]).
  split.
  - unfold tfind. rewrite (index_of_type_names _ _ raw 0 Hnames), Ei. rewrite nth_replace_nth_same by lia. reflexivity.
  - intros T' HT'. unfold tfind. rewrite (index_of_type_names _ _ raw 0 Hnames).
    destruct (index_of_type T' raw 0) as [j|] eqn:Ej; [|reflexivity].
    destruct (index_of_type_bound _ _ _ _ Ej) as [_ Hnj]. rewrite Nat.sub_0_r in Hnj.
    rewrite nth_replace_nth_other; [reflexivity|]. intros ->. apply HT'. congruence.
Qed.

Lemma assoc_map_snd {A B} (f : A -> B) k (l : list (str * A)) :
  assoc k (map (fun p => (fst p, f (snd p))) l) = option_map f (assoc k l).
Proof. induction l as [|[k0 v0] l IH]; cbn; [reflexivity|]. destruct (str_eqb k k0); [reflexivity|exact IH]. Qed.

Lemma assoc_some_key {A} k (v : A) l : assoc k l = Some v -> In k (keys l).
Proof.
  induction l as [|[k0 v0] l IH]; cbn; [discriminate|]. destruct (str_eqb_spec k k0) as [->|_]; [left; reflexivity|].
  intros H. right. apply IH. exact H.
Qed.

Lemma key_assoc_some {A} k (l : list (str * A)) : In k (keys l) -> exists v, assoc k l = Some v.
Proof.
  induction l as [|[k0 v0] l IH]; cbn; [intros []|]. destruct (str_eqb_spec k k0) as [->|Hne]; [eexists; reflexivity|].
  intros [E|H]; [congruence|apply IH; exact H].
Qed.

(* ---------------------------------------------------------------------------------------- *)
(* 2. one conflict-free extension                                                            *)
(* ---------------------------------------------------------------------------------------- *)
Lemma apply_extension_content file lines td raw raw' :
  Forall meta_some raw -> ext_has_meta td -> NoDup (keys (td_rels td)) ->
  apply_extension file lines td raw = Some (raw', []) ->
  (forall r u, assoc r (td_rels td) = Some u ->
     rel_body raw' (td_name td) r = Some u /\
     rel_attr raw' (td_name td) r = option_map (with_rel_file file) (assoc r (td_meta_rels td))) /\
  (forall r, In r (rk raw (td_name td)) ->
     rel_body raw' (td_name td) r = rel_body raw (td_name td) r /\ rel_attr raw' (td_name td) r = rel_attr raw (td_name td) r) /\
  type_attr raw' (td_name td) = type_attr raw (td_name td) /\
  (forall T', T' <> td_name td -> tfind raw' T' = tfind raw T') /\
  (forall r, In r (keys (td_rels td)) -> In r (rk raw' (td_name td))) /\
  (forall T r, In r (rk raw T) -> In r (rk raw' T)).
Proof.
  intros Hms Hwf Hnd E.
  destruct (apply_extension_step file lines td raw Hms Hwf Hnd) as (raw2 & more & E2 & _ & _ & Hiff & Hp).
  rewrite E in E2. inversion E2; subst raw2 more. clear E2.
  destruct (proj1 Hiff eq_refl) as [Hin Hfresh]. destruct (Hp eq_refl) as [Hperm Hother].
  assert (Hgain : forall r, In r (keys (td_rels td)) -> In r (rk raw' (td_name td))).
  { intros r Hr. apply (Permutation_in r (Permutation_sym Hperm)). apply in_or_app. right. exact Hr. }
  assert (Hkeep : forall T r, In r (rk raw T) -> In r (rk raw' T)).
  { intros T r Hr. destruct (list_eq_dec N.eq_dec T (td_name td)) as [->|Hne].
    - apply (Permutation_in r (Permutation_sym Hperm)). apply in_or_app. left. exact Hr.
    - rewrite (Hother T Hne). exact Hr. }
  unfold apply_extension in E.
  destruct (index_of_type (td_name td) raw 0) as [i|] eqn:Ei; [|inversion E].
  destruct (index_of_type_bound _ _ _ _ Ei) as [Hb Hn]. rewrite Nat.sub_0_r in Hn.
  set (orig := nth i raw empty_typedef) in *.
  assert (Hf : tfind raw (td_name td) = Some orig) by (unfold tfind; rewrite Ei; reflexivity).
  assert (Hrk : rk raw (td_name td) = keys (td_rels orig)) by (rewrite rk_tfind, Hf; reflexivity).
  destruct (td_rels orig) as [|r0 rs] eqn:Er.
  - (* the target had no relation *)
    inversion E as [E']. clear E.
    match goal with |- context [replace_nth i ?o raw] => set (orig' := o) end.
    destruct (tfind_replace raw i (td_name td) orig' Ei Hn) as [R1 R2].
    split; [|split; [|split; [|split; [|split]]]].
    + intros r u Hu. unfold rel_body, rel_attr. rewrite R1. unfold orig'. cbn [td_rels]. split; [exact Hu|].
      unfold td_meta_rels at 1. cbn [td_meta tm_rels]. apply assoc_map_snd.
    + rewrite Hrk. intros r [].
    + unfold type_attr. rewrite R1, Hf. unfold orig', td_module, td_file. cbn [td_meta tm_module tm_file].
      destruct (td_meta orig); reflexivity.
    + exact R2.
    + subst raw'. exact Hgain.
    + subst raw'. exact Hkeep.
  - rewrite <- Er in *.
    destruct (merge_relations file lines (td_name td) (keys (td_rels orig)) (stable_sort str_compare (keys (td_rels td))) td orig [])
      as [[orig' es]|] eqn:Em; [|discriminate E].
    inversion E; subst raw' es. clear E.
    assert (Hnd' : NoDup (stable_sort str_compare (keys (td_rels td)))) by (apply (Permutation_NoDup (stable_sort_perm str_compare _)); exact Hnd).
    destruct (merge_relations_spec file lines (td_name td) (keys (td_rels orig)) td _ orig [] orig' Hnd' Em) as (Sin & Sout & Smod & Sfile).
    assert (Hname : td_name orig' = td_name td) by (rewrite (merge_relations_name _ _ _ _ _ _ _ _ _ _ Em); exact Hn).
    destruct (tfind_replace raw i (td_name td) orig' Ei Hname) as [R1 R2].
    split; [|split; [|split; [|split; [|split]]]].
    + intros r u Hu. assert (Hr : In r (stable_sort str_compare (keys (td_rels td)))).
      { apply (Permutation_in r (stable_sort_perm str_compare _)). eapply assoc_some_key; eauto. }
      destruct (Sin r Hr) as (Hb' & _ & rm & Hrm & Hrm'). unfold rel_body, rel_attr. rewrite R1. split; [congruence|].
      rewrite Hrm', Hrm. reflexivity.
    + intros r Hr. rewrite Hrk in Hr.
      assert (Hnot : ~ In r (stable_sort str_compare (keys (td_rels td)))).
      { intros X. apply (Permutation_in r (Permutation_sym (stable_sort_perm str_compare _))) in X.
        apply (Hfresh r X). rewrite Hrk. exact Hr. }
      destruct (Sout r Hnot) as [Hb' Hm']. unfold rel_body, rel_attr. rewrite R1, Hf. split; assumption.
    + unfold type_attr. rewrite R1, Hf, Smod, Sfile. reflexivity.
    + exact R2.
    + exact Hgain.
    + exact Hkeep.
Qed.

(* ---------------------------------------------------------------------------------------- *)
(* 3. a sequence of extensions that raises no error                                          *)
(* ---------------------------------------------------------------------------------------- *)
(* a reading that is settled: the relation exists, later conflict-free extensions never touch it *)
Definition settled (raw : list typedef) (T r : str) (u : option userset) (m : option rel_meta) : Prop :=
  In r (rk raw T) /\ rel_body raw T r = u /\ rel_attr raw T r = m.

Lemma settled_step file lines td raw raw' T r u m :
  Forall meta_some raw -> ext_has_meta td -> NoDup (keys (td_rels td)) ->
  apply_extension file lines td raw = Some (raw', []) ->
  settled raw T r u m -> settled raw' T r u m.
Proof.
  intros Hms Hwf Hnd E [Hin [Hb Hm]].
  destruct (apply_extension_content file lines td raw raw' Hms Hwf Hnd E) as (_ & Hold & _ & Hother & _ & Hkeep).
  split; [apply Hkeep; exact Hin|].
  destruct (list_eq_dec N.eq_dec T (td_name td)) as [->|Hne].
  - destruct (Hold r Hin) as [H1 H2]. split; congruence.
  - unfold rel_body, rel_attr in *. rewrite (Hother T Hne). split; assumption.
Qed.

Lemma apply_extensions_content file lines : forall tds raw errs raw',
  Forall meta_some raw -> ext_wf_all tds ->
  apply_extensions file lines tds raw errs = Some (raw', errs) ->
  (forall td r u, In td tds -> assoc r (td_rels td) = Some u ->
     settled raw' (td_name td) r (Some u) (option_map (with_rel_file file) (assoc r (td_meta_rels td)))) /\
  (forall T r u m, settled raw T r u m -> settled raw' T r u m) /\
  (forall T, type_attr raw' T = type_attr raw T) /\
  Forall meta_some raw'.
Proof.
  induction tds as [|td tds IH]; intros raw errs raw' Hms Hwf E.
  - cbn in E. inversion E; subst raw'. split; [intros td r u []|]. split; [auto|]. split; [reflexivity|exact Hms].
  - inversion Hwf as [|? ? [Hm Hnd] Hwf']; subst. cbn [apply_extensions] in E.
    destruct (apply_extension_step file lines td raw Hms Hm Hnd) as (raw1 & more1 & E1 & _ & M1 & _ & _). rewrite E1 in E.
    destruct (apply_extensions_errs _ _ _ _ _ _ _ E) as [more2 Eerr].
    assert (more1 = []).
    { rewrite <- app_assoc in Eerr. rewrite <- (app_nil_r errs) in Eerr at 1. apply app_inv_head in Eerr.
      symmetry in Eerr. apply app_eq_nil in Eerr. tauto. }
    subst more1. rewrite app_nil_r in E.
    destruct (IH raw1 errs raw' M1 Hwf' E) as (I1 & I2 & I3 & I4).
    destruct (apply_extension_content file lines td raw raw1 Hms Hm Hnd E1) as (C1 & _ & C3 & C4 & C5 & _).
    split; [|split; [|split]].
    + intros td' r u [<-|Hin] Hu; [|apply I1; assumption].
      apply I2. destruct (C1 r u Hu) as [H1 H2]. split; [|split; assumption]. apply C5. eapply assoc_some_key; eauto.
    + intros T r u m S. apply I2. exact (settled_step file lines td raw raw1 T r u m Hms Hm Hnd E1 S).
    + intros T. rewrite I3. destruct (list_eq_dec N.eq_dec T (td_name td)) as [->|Hne]; [exact C3|].
      unfold type_attr. rewrite (C4 T Hne). reflexivity.
    + exact I4.
Qed.

Lemma apply_all_content all_lines : forall exts raw errs raw',
  Forall meta_some raw -> ext_wf_all (flat_map snd exts) ->
  apply_all exts all_lines raw errs = Some (raw', errs) ->
  (forall file tds td r u, In (file, tds) exts -> In td tds -> assoc r (td_rels td) = Some u ->
     settled raw' (td_name td) r (Some u) (option_map (with_rel_file file) (assoc r (td_meta_rels td)))) /\
  (forall T r u m, settled raw T r u m -> settled raw' T r u m) /\
  (forall T, type_attr raw' T = type_attr raw T).
Proof.
  induction exts as [|[file tds] exts IH]; intros raw errs raw' Hms Hwf E.
  - cbn in E. inversion E; subst raw'. split; [intros ? ? ? ? ? []|]. split; [auto|reflexivity].
  - cbn [flat_map snd] in Hwf. unfold ext_wf_all in Hwf. apply Forall_app in Hwf. destruct Hwf as [Hwf1 Hwf2]. cbn [apply_all] in E.
    set (lines := match assoc file all_lines with Some l => l | None => [] end) in *.
    destruct (apply_extensions_seq file lines tds raw errs Hms Hwf1) as (raw1 & more1 & E1 & _ & M1 & _ & _). rewrite E1 in E.
    destruct (apply_all_errs _ _ _ _ _ _ E) as [more2 Eerr].
    assert (more1 = []).
    { rewrite <- app_assoc in Eerr. rewrite <- (app_nil_r errs) in Eerr at 1. apply app_inv_head in Eerr.
      symmetry in Eerr. apply app_eq_nil in Eerr. tauto. }
    subst more1. rewrite app_nil_r in E, E1.
    destruct (IH raw1 errs raw' M1 Hwf2 E) as (I1 & I2 & I3).
    destruct (apply_extensions_content file lines tds raw errs raw1 Hms Hwf1 E1) as (C1 & C2 & C3 & _).
    split; [|split].
    + intros file' tds' td r u [Heq|Hin] Htd Hu; [|eapply I1; eauto].
      inversion Heq; subst file' tds'. apply I2. apply C1; assumption.
    + intros T r u m S. apply I2, C2, S.
    + intros T. rewrite I3. apply C3.
Qed.

(* ---------------------------------------------------------------------------------------- *)
(* 4. the merged model                                                                       *)
(* ---------------------------------------------------------------------------------------- *)
Lemma in_all_exts fs f td : NoDup (map mf_name fs) -> In f fs -> In td (file_exts f) -> In (mf_name f, file_exts f) (all_exts fs).
Proof.
  intros _ Hf Htd. unfold all_exts. apply in_flat_map. exists f. split; [exact Hf|].
  destruct (file_exts f); [destruct Htd|left; reflexivity].
Qed.

Lemma in_all_defs fs f td : In f fs -> In td (file_defs f) -> In (attributed (mf_name f) td) (all_defs fs).
Proof. intros Hf Htd. unfold all_defs. apply in_flat_map. exists f. split; [exact Hf|]. apply in_map. exact Htd. Qed.

Lemma in_defs_of fs f td : In f fs -> In td (file_defs f) -> In td (defs_of fs).
Proof. intros Hf Htd. unfold defs_of. apply in_flat_map. exists f. split; assumption. Qed.
Lemma in_exts_of fs f td : In f fs -> In td (file_exts f) -> In td (exts_of fs).
Proof. intros Hf Htd. unfold exts_of. apply in_flat_map. exists f. split; assumption. Qed.

(* the two phases of a successful merge, as one statement *)
Lemma merge_ok_phases fs v m :
  wf_modules fs -> merge fs v = Ok m ->
  exists lines, apply_all (all_exts fs) lines (all_defs fs) [] = Some (m_types m, []) /\ m_conds m = all_conds fs /\ m_schema m = v /\
                conflict_free fs.
Proof.
  intros Hwf Hm. assert (Hcf : conflict_free fs) by (apply (merge_ok_iff fs v Hwf); eauto).
  destruct Hcf as [M DN CN Ht Hc]. unfold merge in Hm.
  assert (Eok : files_ok fs [] [] = true).
  { apply files_ok_iff. split; [exact M|]. split; [apply (wf_def_meta _ Hwf)|]. split; [exact DN|]. split; [intros td _ []|].
    split; [apply (wf_cond_meta _ Hwf)|]. split; [exact CN|intros n _ []]. }
  destruct (collect_files_good fs 0 init_mstate Eok) as (s & Es & Ee & Er & Et & Ex & Ec). rewrite Es in Hm.
  cbn [init_mstate ms_errs ms_raw ms_types ms_ext ms_conds app] in *.
  rewrite (ext_after_is_all_exts fs [] (wf_names _ Hwf)) in Ex by (intros f _ []). cbn [app] in Ex.
  rewrite Ex, Er, Ee in Hm. exists (ms_lines s).
  destruct (apply_all (all_exts fs) (ms_lines s) (all_defs fs) []) as [[raw es]|]; [|discriminate Hm].
  destruct es; [|discriminate Hm]. inversion Hm; subst m. cbn. split; [reflexivity|]. split; [exact Ec|]. split; [reflexivity|].
  constructor; assumption.
Qed.

Lemma ext_wf_all_exts fs : wf_modules fs -> ext_wf_all (flat_map snd (all_exts fs)).
Proof.
  intros Hwf. rewrite all_exts_flat. unfold ext_wf_all. apply Forall_forall. intros td Hin. split.
  - pose proof (wf_ext_meta _ Hwf) as W. rewrite Forall_forall in W. exact (W td Hin).
  - pose proof (wf_rel_keys _ Hwf) as W. rewrite Forall_forall in W. apply W. apply in_or_app. right. exact Hin.
Qed.

Lemma attributed_meta_rels file td : td_meta_rels (attributed file td) = td_meta_rels td.
Proof. unfold attributed. destruct (td_meta td) eqn:E; [|reflexivity]. unfold td_meta_rels. cbn. rewrite E. reflexivity. Qed.
Lemma attributed_module file td : td_module (attributed file td) = td_module td.
Proof. unfold attributed. destruct (td_meta td) eqn:E; [|reflexivity]. unfold td_module. cbn. rewrite E. reflexivity. Qed.
Lemma attributed_file file td : td_meta td <> None -> td_file (attributed file td) = file.
Proof. unfold attributed. destruct (td_meta td) eqn:E; [|contradiction]. reflexivity. Qed.

(* THE CONTENT of a successful merge *)
Theorem merge_content fs v m :
  wf_modules fs -> merge fs v = Ok m ->
  (* every relation of a definition: rewrite and metadata unchanged *)
  (forall f td r u, In f fs -> In td (file_defs f) -> assoc r (td_rels td) = Some u ->
     rel_body (m_types m) (td_name td) r = Some u /\ rel_attr (m_types m) (td_name td) r = assoc r (td_meta_rels td)) /\
  (* every relation of an extension: rewrite unchanged, attributed to the extending file *)
  (forall f td r u, In f fs -> In td (file_exts f) -> assoc r (td_rels td) = Some u ->
     rel_body (m_types m) (td_name td) r = Some u /\
     rel_attr (m_types m) (td_name td) r = option_map (with_rel_file (mf_name f)) (assoc r (td_meta_rels td))) /\
  (* every type keeps the module of its definition and gets the file that defined it *)
  (forall f td, In f fs -> In td (file_defs f) -> type_attr (m_types m) (td_name td) = Some (td_module td, mf_name f)) /\
  (* nothing invented *)
  (forall T r u, rel_body (m_types m) T r = Some u ->
     exists f td, In f fs /\ In td (file_defs f ++ file_exts f) /\ td_name td = T /\ assoc r (td_rels td) = Some u).
Proof.
  intros Hwf Hm. destruct (merge_ok_phases fs v m Hwf Hm) as (lines & Ea & _ & _ & Hcf).
  assert (Hnd : NoDup (map td_name (all_defs fs))) by (rewrite all_defs_names; exact (cf_types _ Hcf)).
  destruct (apply_all_content lines (all_exts fs) (all_defs fs) [] (m_types m)
              (all_defs_meta fs (wf_def_meta _ Hwf)) (ext_wf_all_exts fs Hwf) Ea) as (A1 & A2 & A3).
  assert (Hdefs : forall f td r u, In f fs -> In td (file_defs f) -> assoc r (td_rels td) = Some u ->
     rel_body (m_types m) (td_name td) r = Some u /\ rel_attr (m_types m) (td_name td) r = assoc r (td_meta_rels td)).
  { intros f td r u Hf Htd Hu.
    pose proof (tfind_in_nodup _ _ Hnd (in_all_defs fs f td Hf Htd)) as Hfind. rewrite attributed_name in Hfind.
    destruct (A2 (td_name td) r (Some u) (assoc r (td_meta_rels td))) as (_ & H1 & H2); [|split; assumption].
    split; [|split].
    - rewrite rk_tfind, Hfind, attributed_rels. eapply assoc_some_key; eauto.
    - unfold rel_body. rewrite Hfind, attributed_rels. exact Hu.
    - unfold rel_attr. rewrite Hfind, attributed_meta_rels. reflexivity. }
  assert (Hexts : forall f td r u, In f fs -> In td (file_exts f) -> assoc r (td_rels td) = Some u ->
     rel_body (m_types m) (td_name td) r = Some u /\
     rel_attr (m_types m) (td_name td) r = option_map (with_rel_file (mf_name f)) (assoc r (td_meta_rels td))).
  { intros f td r u Hf Htd Hu.
    destruct (A1 (mf_name f) (file_exts f) td r u (in_all_exts fs f td (wf_names _ Hwf) Hf Htd) Htd Hu) as (_ & H1 & H2). split; assumption. }
  split; [exact Hdefs|]. split; [exact Hexts|]. split.
  - intros f td Hf Htd. rewrite A3.
    pose proof (tfind_in_nodup _ _ Hnd (in_all_defs fs f td Hf Htd)) as Hfind. rewrite attributed_name in Hfind.
    unfold type_attr. rewrite Hfind, attributed_module, attributed_file; [reflexivity|].
    pose proof (wf_def_meta _ Hwf) as W. rewrite Forall_forall in W. apply W. eapply in_defs_of; eauto.
  - intros T r u Hb.
    assert (Hr : In r (rk (m_types m) T)).
    { rewrite rk_tfind. unfold rel_body in Hb. destruct (tfind (m_types m) T); [|discriminate]. eapply assoc_some_key; eauto. }
    destruct (merge_ok_result fs v m Hwf Hm) as (_ & _ & _ & Hp).
    apply (Permutation_in r (Hp T)) in Hr. unfold contributed, contributed_in in Hr.
    assert (Hsrc : exists f td, In f fs /\ In td (file_defs f ++ file_exts f) /\ td_name td = T /\ In r (keys (td_rels td))).
    { apply in_app_or in Hr. destruct Hr as [Hr|Hr]; apply in_flat_map in Hr; destruct Hr as [td [Hin Hk]];
        apply filter_In in Hin; destruct Hin as [Hin En];
        (assert (td_name td = T) by (destruct (str_eqb_spec (td_name td) T); [assumption|discriminate]));
        apply in_flat_map in Hin; destruct Hin as [f [Hf Htd]]; exists f, td; (split; [exact Hf|]); (split; [apply in_or_app; auto|]); auto. }
    destruct Hsrc as (f & td & Hf & Htd & Hname & Hk). destruct (key_assoc_some r (td_rels td) Hk) as [u' Hu'].
    exists f, td. split; [exact Hf|]. split; [exact Htd|]. split; [exact Hname|].
    apply in_app_or in Htd. destruct Htd as [Htd|Htd].
    + destruct (Hdefs f td r u' Hf Htd Hu') as [H1 _]. rewrite Hname in H1. congruence.
    + destruct (Hexts f td r u' Hf Htd Hu') as [H1 _]. rewrite Hname in H1. congruence.
Qed.

(* ---------------------------------------------------------------------------------------- *)
(* 5. the order of the files                                                                 *)
(* ---------------------------------------------------------------------------------------- *)
Lemma assoc_perm_nodup {A} k (l l' : list (str * A)) : NoDup (keys l) -> Permutation l l' -> assoc k l = assoc k l'.
Proof.
  intros Hnd Hp. assert (Hnd' : NoDup (keys l')) by (apply (Permutation_NoDup (Permutation_map fst Hp)); exact Hnd).
  destruct (assoc k l) as [v|] eqn:E.
  - symmetry. apply PrinterCanonical.assoc_in; [exact Hnd'|]. apply (Permutation_in _ Hp). apply PrinterCanonical.assoc_some_in. exact E.
  - destruct (assoc k l') as [v'|] eqn:E'; [|reflexivity].
    apply PrinterCanonical.assoc_some_in in E'. apply (Permutation_in _ (Permutation_sym Hp)) in E'.
    apply (PrinterCanonical.assoc_in k v' l Hnd) in E'. congruence.
Qed.

Lemma all_conds_keys fs : keys (all_conds fs) = keys (conds_of fs).
Proof.
  unfold all_conds, conds_of, keys. induction fs as [|f fs IH]; cbn [flat_map]; [reflexivity|].
  rewrite !map_app, IH, map_map. reflexivity.
Qed.

Theorem merge_content_order_independent fs fs' v m m' :
  wf_modules fs -> Permutation fs fs' -> merge fs v = Ok m -> merge fs' v = Ok m' ->
  m_schema m = m_schema m' /\
  Permutation (map td_name (m_types m)) (map td_name (m_types m')) /\
  (forall T, type_attr (m_types m) T = type_attr (m_types m') T) /\
  (forall T r, rel_body (m_types m) T r = rel_body (m_types m') T r /\
               (rel_body (m_types m) T r <> None -> rel_attr (m_types m) T r = rel_attr (m_types m') T r)) /\
  (forall n, assoc n (m_conds m) = assoc n (m_conds m')).
Proof.
  intros Hwf Hp Hm Hm'. pose proof (wf_modules_perm fs fs' Hp Hwf) as Hwf'.
  destruct (merge_content fs v m Hwf Hm) as (D & X & TA & INV).
  destruct (merge_content fs' v m' Hwf' Hm') as (D' & X' & TA' & INV').
  destruct (merge_ok_result fs v m Hwf Hm) as (S1 & N1 & C1 & _).
  destruct (merge_ok_result fs' v m' Hwf' Hm') as (S1' & N1' & C1' & _).
  assert (Hcf : conflict_free fs) by (apply (merge_ok_iff fs v Hwf); eauto).
  assert (Hin : forall f, In f fs -> In f fs') by (intros f; apply Permutation_in; exact Hp).
  assert (Hin' : forall f, In f fs' -> In f fs) by (intros f; apply Permutation_in; apply Permutation_sym; exact Hp).
  assert (Hnames : Permutation (map td_name (m_types m)) (map td_name (m_types m'))).
  { rewrite N1, N1'. apply Permutation_map. unfold defs_of. apply perm_flat_map. exact Hp. }
  (* one direction of the relation readings, used both ways *)
  assert (Half : forall a b (ma mb : model),
            (forall f, In f a -> In f b) ->
            (forall T r u, rel_body (m_types ma) T r = Some u ->
               exists f td, In f a /\ In td (file_defs f ++ file_exts f) /\ td_name td = T /\ assoc r (td_rels td) = Some u) ->
            (forall f td r u, In f a -> In td (file_defs f) -> assoc r (td_rels td) = Some u ->
               rel_body (m_types ma) (td_name td) r = Some u /\ rel_attr (m_types ma) (td_name td) r = assoc r (td_meta_rels td)) ->
            (forall f td r u, In f a -> In td (file_exts f) -> assoc r (td_rels td) = Some u ->
               rel_body (m_types ma) (td_name td) r = Some u /\
               rel_attr (m_types ma) (td_name td) r = option_map (with_rel_file (mf_name f)) (assoc r (td_meta_rels td))) ->
            (forall f td r u, In f b -> In td (file_defs f) -> assoc r (td_rels td) = Some u ->
               rel_body (m_types mb) (td_name td) r = Some u /\ rel_attr (m_types mb) (td_name td) r = assoc r (td_meta_rels td)) ->
            (forall f td r u, In f b -> In td (file_exts f) -> assoc r (td_rels td) = Some u ->
               rel_body (m_types mb) (td_name td) r = Some u /\
               rel_attr (m_types mb) (td_name td) r = option_map (with_rel_file (mf_name f)) (assoc r (td_meta_rels td))) ->
            forall T r u, rel_body (m_types ma) T r = Some u ->
              rel_body (m_types mb) T r = Some u /\ rel_attr (m_types ma) T r = rel_attr (m_types mb) T r).
  { intros a b ma mb Hab Hinv Da Xa Db Xb T r u Hb.
    destruct (Hinv T r u Hb) as (f & td & Hf & Htd & <- & Hu). apply in_app_or in Htd. destruct Htd as [Htd|Htd].
    - destruct (Da f td r u Hf Htd Hu) as [_ A2]. destruct (Db f td r u (Hab f Hf) Htd Hu) as [B1 B2]. split; congruence.
    - destruct (Xa f td r u Hf Htd Hu) as [_ A2]. destruct (Xb f td r u (Hab f Hf) Htd Hu) as [B1 B2]. split; congruence. }
  split; [congruence|]. split; [exact Hnames|]. split; [|split].
  - intros T. destruct (tfind (m_types m) T) as [t|] eqn:Ef.
    + destruct (tfind_name _ _ _ Ef) as [Hn Hint].
      assert (HT : In T (map td_name (defs_of fs))) by (rewrite <- N1, <- Hn; apply in_map; exact Hint).
      apply in_map_iff in HT. destruct HT as [td [<- Htd]]. apply in_flat_map in Htd. destruct Htd as [f [Hf Htd]].
      rewrite (TA f td Hf Htd), (TA' f td (Hin f Hf) Htd). reflexivity.
    + unfold type_attr. rewrite Ef.
      assert (E' : tfind (m_types m') T = None).
      { apply tfind_none. apply tfind_none in Ef. intros Z. apply Ef. apply (Permutation_in T (Permutation_sym Hnames)). exact Z. }
      rewrite E'. reflexivity.
  - intros T r. destruct (rel_body (m_types m) T r) as [u|] eqn:Eb.
    + destruct (Half fs fs' m m' Hin INV D X D' X' T r u Eb) as [H1 H2]. split; [congruence|intros _; exact H2].
    + split; [|intros X0; contradiction]. destruct (rel_body (m_types m') T r) as [u'|] eqn:Eb'; [|reflexivity].
      destruct (Half fs' fs m' m Hin' INV' D' X' D X T r u' Eb') as [H1 _]. congruence.
  - intros n. rewrite C1, C1'. apply assoc_perm_nodup.
    + rewrite all_conds_keys. exact (cf_conds _ Hcf).
    + unfold all_conds. apply perm_flat_map. exact Hp.
Qed.

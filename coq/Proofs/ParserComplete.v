(* Proofs/ParserComplete.v — the parser model returns EXACTLY the grammatical trees for relation definitions:
   every grammatical definition (Spec/Sem.wf_rdef) whose name tokens have identifier kinds is the result of
   parsing its canonical token sequence.  Together with Proofs/ParserShape.parse_wf (everything the parser
   returns is grammatical) this makes [wf_rdef] the exact image of the parser on relation definitions. *)
From Verif Require Import Base.Str Model.Token Model.Parser Spec.Sem.

Definition mk (k : tkind) : tok := {| tk := k; ttext := []; tline := 0; tcol := 0 |}.

Definition optok (op : opk) : tkind := match op with OOr => OR | OAnd => AND | OButNot => BUT_NOT | ONone => OR end.

Definition toks_restr (r : restr) : list tok :=
  rs_type r :: (match rs_kind r with RKWild => [mk COLON; mk STAR] | RKRel t => [mk HASH; t] | RKPlain => [] end)
  ++ (match rs_cond r with Some c => [mk WHITESPACE; mk KEYWORD_WITH; mk WHITESPACE; c] | None => [] end).

Fixpoint toks_restrs_more (rs : list restr) : list tok :=
  match rs with
  | [] => [mk RPRACKET]
  | r :: rs' => mk COMMA :: mk WHITESPACE :: toks_restr r ++ toks_restrs_more rs'
  end.

Definition toks_direct (rs : list restr) : list tok :=
  match rs with
  | [] => [mk LBRACKET; mk RPRACKET]
  | r :: rs' => mk LBRACKET :: toks_restr r ++ toks_restrs_more rs'
  end.

Fixpoint toks_elem (e : relem) : list tok :=
  let seq := fix seq (op : opk) (es : list relem) : list tok :=
    match es with
    | [] => []
    | x :: r => mk WHITESPACE :: mk (optok op) :: mk WHITESPACE :: toks_elem x ++ seq op r
    end in
  match e with
  | EDirect rs => toks_direct rs
  | ERewrite cu None => [cu]
  | ERewrite cu (Some t) => [cu; mk WHITESPACE; mk FROM; mk WHITESPACE; t]
  | EGroup _ first op rest => mk LPAREN :: toks_elem first ++ seq op rest ++ [mk RPAREN]
  end.

Fixpoint toks_partials (op : opk) (es : list relem) : list tok :=
  match es with
  | [] => []
  | x :: r => mk WHITESPACE :: mk (optok op) :: mk WHITESPACE :: toks_elem x ++ toks_partials op r
  end.

Definition toks_def (first : relem) (op : opk) (rest : list relem) : list tok := toks_elem first ++ toks_partials op rest.

Lemma toks_elem_group nd first op rest :
  toks_elem (EGroup nd first op rest) = mk LPAREN :: toks_def first op rest ++ [mk RPAREN].
Proof.
  cbn [toks_elem]. unfold toks_def. rewrite <- app_assoc. reflexivity.
Qed.

(* name tokens have the kinds the grammar asks for; a direct assignment has a restriction *)
Definition ident (t : tok) : Prop := is_ext_identifier_tk (tk t) = true.
Definition restr_ok (r : restr) : Prop :=
  ident (rs_type r) /\ (match rs_kind r with RKRel t => ident t | _ => True end) /\
  (match rs_cond r with Some c => tk c = IDENTIFIER | None => True end).

Fixpoint toks_ok (e : relem) : Prop :=
  let all := fix all (es : list relem) : Prop := match es with [] => True | x :: r => toks_ok x /\ all r end in
  match e with
  | EDirect rs => rs <> [] /\ Forall restr_ok rs
  | ERewrite cu ts => ident cu /\ match ts with Some t => ident t | None => True end
  | EGroup _ first _ rest => toks_ok first /\ all rest
  end.
Fixpoint toks_ok_all (es : list relem) : Prop := match es with [] => True | x :: r => toks_ok x /\ toks_ok_all r end.

Lemma toks_ok_group nd first op rest : toks_ok (EGroup nd first op rest) <-> toks_ok first /\ toks_ok_all rest.
Proof.
  cbn [toks_ok]. reflexivity.
Qed.

(* nesting depth of parentheses *)
Fixpoint depth (e : relem) : nat :=
  let mx := fix mx (es : list relem) : nat := match es with [] => 0%nat | x :: r => Nat.max (depth x) (mx r) end in
  match e with
  | EGroup _ first _ rest => S (Nat.max (depth first) (mx rest))
  | _ => 0%nat
  end.
Fixpoint depth_all (es : list relem) : nat := match es with [] => 0%nat | x :: r => Nat.max (depth x) (depth_all r) end.
Lemma depth_group nd first op rest : depth (EGroup nd first op rest) = S (Nat.max (depth first) (depth_all rest)).
Proof. reflexivity. Qed.

(* what may follow a definition: anything that does not start with white space *)
Definition stops (k : list tok) : Prop := hd_tk k <> WHITESPACE.

Lemma ident_not k : is_ext_identifier_tk k = true ->
  tk_eqb k LBRACKET = false /\ tk_eqb k LPAREN = false /\ tk_eqb k COLON = false /\ tk_eqb k HASH = false /\
  tk_eqb k WHITESPACE = false /\ tk_eqb k NEWLINE = false /\ tk_eqb k COMMA = false.
Proof. destruct k; intros H; try discriminate H; repeat split; reflexivity. Qed.

Lemma stops_not_ws k : stops k -> is_tk WHITESPACE k = false.
Proof.
  unfold stops, is_tk. intros H. destruct (tk_eqb (hd_tk k) WHITESPACE) eqn:E; [|reflexivity].
  exfalso. apply H. destruct (hd_tk k); try discriminate E; reflexivity.
Qed.

(* ---- restrictions ---- *)
Lemma skip_opt_no k c : is_tk c k = false -> skip_opt c k = k.
Proof. unfold is_tk. destruct k as [|t k]; [reflexivity|]. cbn [skip_opt hd_tk]. intros ->. reflexivity. Qed.

Definition after_restr (k : list tok) : Prop := hd_tk k = COMMA \/ hd_tk k = RPRACKET.

Lemma p_restr_complete r k :
  restr_ok r -> after_restr k -> p_restr (toks_restr r ++ k) = Some (r, k).
Proof.
  intros (Ht & Hk & Hc) Hk0. destruct r as [ty kind cond]. cbn [rs_type rs_kind rs_cond] in *.
  destruct (ident_not _ Ht) as (N1 & N2 & N3 & N4 & N5 & N6 & N7).
  assert (Hkt : forall c, c <> COMMA -> c <> RPRACKET -> is_tk c k = false).
  { intros c H1 H2. unfold is_tk. destruct Hk0 as [-> | ->]; destruct c; try reflexivity; contradiction. }
  assert (Hskip : skip_opt NEWLINE k = k) by (apply skip_opt_no; apply Hkt; discriminate).
  unfold p_restr, toks_restr. cbn [rs_type rs_kind rs_cond app skip_opt]. rewrite N6.
  unfold p_restr_base. cbn [expect_p]. unfold ident in Ht. rewrite Ht.
  destruct kind as [| |t]; destruct cond as [c|]; cbn [app].
  - cbn. rewrite Hc. cbn. rewrite Hskip. reflexivity.
  - rewrite (Hkt COLON), (Hkt HASH), (Hkt WHITESPACE) by discriminate. cbn. rewrite Hskip. reflexivity.
  - cbn. rewrite Hc. cbn. rewrite Hskip. reflexivity.
  - cbn. rewrite (Hkt WHITESPACE) by discriminate. cbn. rewrite Hskip. reflexivity.
  - unfold ident in Hk. destruct (ident_not _ Hk) as (M1 & M2 & M3 & M4 & M5 & M6 & M7). cbn. rewrite Hk. cbn. rewrite Hc. cbn. rewrite Hskip. reflexivity.
  - unfold ident in Hk. cbn. rewrite Hk. cbn. rewrite (Hkt WHITESPACE) by discriminate. cbn. rewrite Hskip. reflexivity.
Qed.

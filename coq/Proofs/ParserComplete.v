(* Proofs/ParserComplete.v — the parser model returns EXACTLY the grammatical trees for relation definitions:
   every grammatical definition (Spec/Sem.wf_rdef) whose name tokens have identifier kinds is the result of
   parsing its canonical token sequence.  Together with Proofs/ParserShape.parse_wf (everything the parser
   returns is grammatical) this makes [wf_rdef] the exact image of the parser on relation definitions. *)
From Verif Require Import Base.Str Model.Token Model.Parser Spec.Sem.

Definition mk (k : tkind) : tok := {| tk := k; ttext := []; tline := 0; tcol := 0 |}.

Definition optok (op : opk) : tkind := match op with OOr => OR | OAnd => AND | OButNot => BUT_NOT | ONone => OR end.

Definition toks_restr (r : restr) : list tok :=
  rs_type r :: (match rs_kind r with RKWild => [mk COLON; mk STAR] | RKRel t => [mk HASH; t] | RKPlain => [] end)
  ++ (match rs_cond r with Some c => [mk WHITESPACE; mk KEYWORD_WITH; mk WHITESPACE; c] | None => [] end).

Fixpoint toks_restrs_more (rs : list restr) : list tok :=
  match rs with
  | [] => [mk RPRACKET]
  | r :: rs' => mk COMMA :: mk WHITESPACE :: toks_restr r ++ toks_restrs_more rs'
  end.

Definition toks_direct (rs : list restr) : list tok :=
  match rs with
  | [] => [mk LBRACKET; mk RPRACKET]
  | r :: rs' => mk LBRACKET :: toks_restr r ++ toks_restrs_more rs'
  end.

Fixpoint toks_elem (e : relem) : list tok :=
  let seq := fix seq (op : opk) (es : list relem) : list tok :=
    match es with
    | [] => []
    | x :: r => mk WHITESPACE :: mk (optok op) :: mk WHITESPACE :: toks_elem x ++ seq op r
    end in
  match e with
  | EDirect rs => toks_direct rs
  | ERewrite cu None => [cu]
  | ERewrite cu (Some t) => [cu; mk WHITESPACE; mk FROM; mk WHITESPACE; t]
  | EGroup _ first op rest => mk LPAREN :: toks_elem first ++ seq op rest ++ [mk RPAREN]
  end.

Fixpoint toks_partials (op : opk) (es : list relem) : list tok :=
  match es with
  | [] => []
  | x :: r => mk WHITESPACE :: mk (optok op) :: mk WHITESPACE :: toks_elem x ++ toks_partials op r
  end.

Definition toks_def (first : relem) (op : opk) (rest : list relem) : list tok := toks_elem first ++ toks_partials op rest.

Lemma toks_elem_group nd first op rest :
  toks_elem (EGroup nd first op rest) = mk LPAREN :: toks_def first op rest ++ [mk RPAREN].
Proof.
  cbn [toks_elem]. unfold toks_def. rewrite <- app_assoc. reflexivity.
Qed.

(* name tokens have the kinds the grammar asks for; a direct assignment has a restriction *)
Definition ident (t : tok) : Prop := is_ext_identifier_tk (tk t) = true.
Definition restr_ok (r : restr) : Prop :=
  ident (rs_type r) /\ (match rs_kind r with RKRel t => ident t | _ => True end) /\
  (match rs_cond r with Some c => tk c = IDENTIFIER | None => True end).

Fixpoint toks_ok (e : relem) : Prop :=
  let all := fix all (es : list relem) : Prop := match es with [] => True | x :: r => toks_ok x /\ all r end in
  match e with
  | EDirect rs => rs <> [] /\ Forall restr_ok rs
  | ERewrite cu ts => ident cu /\ match ts with Some t => ident t | None => True end
  | EGroup _ first _ rest => toks_ok first /\ all rest
  end.
Fixpoint toks_ok_all (es : list relem) : Prop := match es with [] => True | x :: r => toks_ok x /\ toks_ok_all r end.

Lemma toks_ok_group nd first op rest : toks_ok (EGroup nd first op rest) <-> toks_ok first /\ toks_ok_all rest.
Proof.
  cbn [toks_ok]. reflexivity.
Qed.

(* nesting depth of parentheses *)
Fixpoint depth (e : relem) : nat :=
  let mx := fix mx (es : list relem) : nat := match es with [] => 0%nat | x :: r => Nat.max (depth x) (mx r) end in
  match e with
  | EGroup _ first _ rest => S (Nat.max (depth first) (mx rest))
  | _ => 0%nat
  end.
Fixpoint depth_all (es : list relem) : nat := match es with [] => 0%nat | x :: r => Nat.max (depth x) (depth_all r) end.
Lemma depth_group nd first op rest : depth (EGroup nd first op rest) = S (Nat.max (depth first) (depth_all rest)).
Proof. reflexivity. Qed.

(* what may follow a definition: anything that does not start with white space *)
Definition stops (k : list tok) : Prop := hd_tk k <> WHITESPACE.

Lemma ident_not k : is_ext_identifier_tk k = true ->
  tk_eqb k LBRACKET = false /\ tk_eqb k LPAREN = false /\ tk_eqb k COLON = false /\ tk_eqb k HASH = false /\
  tk_eqb k WHITESPACE = false /\ tk_eqb k NEWLINE = false /\ tk_eqb k COMMA = false.
Proof. destruct k; intros H; try discriminate H; repeat split; reflexivity. Qed.

Lemma stops_not_ws k : stops k -> is_tk WHITESPACE k = false.
Proof.
  unfold stops, is_tk. intros H. destruct (tk_eqb (hd_tk k) WHITESPACE) eqn:E; [|reflexivity].
  exfalso. apply H. destruct (hd_tk k); try discriminate E; reflexivity.
Qed.

(* ---- restrictions ---- *)
Lemma skip_opt_no k c : is_tk c k = false -> skip_opt c k = k.
Proof. unfold is_tk. destruct k as [|t k]; [reflexivity|]. cbn [skip_opt hd_tk]. intros ->. reflexivity. Qed.

Definition after_restr (k : list tok) : Prop := hd_tk k = COMMA \/ hd_tk k = RPRACKET.

Lemma p_restr_complete r k :
  restr_ok r -> after_restr k -> p_restr (toks_restr r ++ k) = Some (r, k).
Proof.
  intros (Ht & Hk & Hc) Hk0. destruct r as [ty kind cond]. cbn [rs_type rs_kind rs_cond] in *.
  destruct (ident_not _ Ht) as (N1 & N2 & N3 & N4 & N5 & N6 & N7).
  assert (Hkt : forall c, c <> COMMA -> c <> RPRACKET -> is_tk c k = false).
  { intros c H1 H2. unfold is_tk. destruct Hk0 as [-> | ->]; destruct c; try reflexivity; contradiction. }
  assert (Hskip : skip_opt NEWLINE k = k) by (apply skip_opt_no; apply Hkt; discriminate).
  unfold p_restr, toks_restr. cbn [rs_type rs_kind rs_cond app skip_opt]. rewrite N6.
  unfold p_restr_base. cbn [expect_p]. unfold ident in Ht. rewrite Ht.
  destruct kind as [| |t]; destruct cond as [c|]; cbn [app].
  - cbn. rewrite Hc. cbn. rewrite Hskip. reflexivity.
  - rewrite (Hkt COLON), (Hkt HASH), (Hkt WHITESPACE) by discriminate. cbn. rewrite Hskip. reflexivity.
  - cbn. rewrite Hc. cbn. rewrite Hskip. reflexivity.
  - cbn. rewrite (Hkt WHITESPACE) by discriminate. cbn. rewrite Hskip. reflexivity.
  - unfold ident in Hk. destruct (ident_not _ Hk) as (M1 & M2 & M3 & M4 & M5 & M6 & M7). cbn. rewrite Hk. cbn. rewrite Hc. cbn. rewrite Hskip. reflexivity.
  - unfold ident in Hk. cbn. rewrite Hk. cbn. rewrite (Hkt WHITESPACE) by discriminate. cbn. rewrite Hskip. reflexivity.
Qed.

Lemma tk_eqb_refl k : tk_eqb k k = true.
Proof. unfold tk_eqb. apply N.eqb_refl. Qed.
Lemma is_tk_mk k l : is_tk k (mk k :: l) = true.
Proof. unfold is_tk. cbn [hd_tk tk mk]. apply tk_eqb_refl. Qed.

Lemma after_restr_more rs k : after_restr (toks_restrs_more rs ++ k).
Proof. destruct rs; [right|left]; reflexivity. Qed.

Lemma hd_ident_ws_no (t : tok) l : ident t -> skip_opt WHITESPACE (t :: l) = t :: l.
Proof. intros H. cbn [skip_opt]. destruct (ident_not _ H) as (_ & _ & _ & _ & -> & _). reflexivity. Qed.

Lemma toks_restr_hd r : exists l, toks_restr r = rs_type r :: l.
Proof. unfold toks_restr. eexists. reflexivity. Qed.

Lemma p_restr_more_complete : forall rs fuel k,
  Forall restr_ok rs -> (length rs < fuel)%nat ->
  p_restr_more fuel (toks_restrs_more rs ++ k) = Some (rs, k).
Proof.
  induction rs as [|r rs IH]; intros fuel k Hok Hf; (destruct fuel as [|f]; [lia|]).
  - cbn. reflexivity.
  - inversion Hok as [|? ? Hr Hrs]; subst. cbn [toks_restrs_more p_restr_more app is_tk hd_tk tk mk tl].
    cbn [tk_eqb tk_code N.eqb Pos.eqb]. cbn [skip_opt tk mk tk_eqb tk_code N.eqb Pos.eqb].
    rewrite <- app_assoc. destruct (toks_restr_hd r) as [l El]. rewrite El. cbn [app].
    destruct Hr as (Ht & Hr2). rewrite is_tk_mk, tk_eqb_refl. change (rs_type r :: l ++ toks_restrs_more rs ++ k) with ((rs_type r :: l) ++ toks_restrs_more rs ++ k).
    rewrite <- El. rewrite (p_restr_complete r _ (conj Ht Hr2) (after_restr_more rs k)).
    assert (Hsk : skip_opt WHITESPACE (toks_restrs_more rs ++ k) = toks_restrs_more rs ++ k) by (destruct rs; reflexivity).
    rewrite Hsk. rewrite (IH f k Hrs) by (cbn in Hf; lia). reflexivity.
Qed.

Lemma p_direct_complete rs k :
  rs <> [] -> Forall restr_ok rs -> p_direct (toks_direct rs ++ k) = Some (rs, k).
Proof.
  intros Hne Hok. destruct rs as [|r rs]; [contradiction|]. inversion Hok as [|? ? Hr Hrs]; subst.
  unfold p_direct, toks_direct. cbn [app expect tk mk tk_eqb tk_code N.eqb Pos.eqb].
  rewrite <- app_assoc. destruct (toks_restr_hd r) as [l El]. rewrite El. cbn [app].
  destruct Hr as (Ht & Hr2). rewrite tk_eqb_refl. rewrite (hd_ident_ws_no _ _ Ht).
  change (rs_type r :: l ++ toks_restrs_more rs ++ k) with ((rs_type r :: l) ++ toks_restrs_more rs ++ k). rewrite <- El.
  rewrite (p_restr_complete r _ (conj Ht Hr2) (after_restr_more rs k)).
  assert (Hsk : skip_opt WHITESPACE (toks_restrs_more rs ++ k) = toks_restrs_more rs ++ k) by (destruct rs; reflexivity).
  rewrite Hsk. rewrite p_restr_more_complete; [reflexivity|exact Hrs|].
  rewrite app_length. assert (length rs <= length (toks_restrs_more rs))%nat.
  { clear. induction rs as [|x rs IH]; cbn [toks_restrs_more length]; [lia|]. rewrite app_length. lia. }
  lia.
Qed.

(* what may follow an operand: " op ...", ")" or the end of the definition — never " from" *)
Definition after_operand (k : list tok) : Prop := is_tk WHITESPACE k && is_tk2 FROM k = false.

Lemma p_rewrite_complete cu ts k :
  ident cu -> match ts with Some t => ident t | None => True end -> after_operand k ->
  p_rewrite (toks_elem (ERewrite cu ts) ++ k) = Some (ERewrite cu ts, k).
Proof.
  intros Hcu Hts Hk. unfold p_rewrite. destruct ts as [t|]; cbn [toks_elem app expect_p].
  - unfold ident in *. rewrite Hcu. cbn. rewrite Hts. reflexivity.
  - unfold ident in *. rewrite Hcu. unfold after_operand in Hk. rewrite Hk. reflexivity.
Qed.

(* ---- definitions: operands, partials, the knot ---- *)
Definition depth_def (first : relem) (rest : list relem) : nat := Nat.max (depth first) (depth_all rest).

Definition def_ok (direct : bool) (first : relem) (op : opk) (rest : list relem) : Prop :=
  (if direct then wf_leading first else wf_operand first) = true /\ partials_ok op rest = true /\
  forallb wf_operand rest = true /\ toks_ok first /\ toks_ok_all rest.

Definition RecOK (rec : bool -> list tok -> P def_result) (dd : nat) : Prop :=
  forall direct first op rest k,
    (depth_def first rest < dd)%nat -> def_ok direct first op rest -> stops k ->
    rec direct (toks_def first op rest ++ k) = Some ((first, op, rest), k).

Lemma stops_after_operand k : stops k -> after_operand k.
Proof. intros H. unfold after_operand. rewrite (stops_not_ws k H). reflexivity. Qed.

Lemma stops_rparen k : stops (mk RPAREN :: k).
Proof. unfold stops. cbn. discriminate. Qed.

Lemma ws_op_after_operand op l : op <> ONone -> after_operand (mk WHITESPACE :: mk (optok op) :: l).
Proof. intros H. unfold after_operand. unfold is_tk2. cbn [hd2_tk tk mk]. destruct op; try contradiction; cbn [optok]; apply andb_false_r. Qed.

Lemma elem_hd_not_ws e l : toks_ok e -> skip_opt WHITESPACE (toks_elem e ++ l) = toks_elem e ++ l.
Proof.
  intros H. destruct e as [rs|cu ts|nd f o r].
  - destruct rs; reflexivity.
  - cbn [toks_ok] in H. destruct H as [Hc _]. destruct ts; cbn [toks_elem app]; apply hd_ident_ws_no; exact Hc.
  - reflexivity.
Qed.

(* an operand that is not in leading position *)
Lemma operand_complete rec dd e k :
  RecOK rec dd -> (depth e <= dd)%nat -> wf_operand e = true -> toks_ok e -> after_operand k ->
  p_operand_with rec (toks_elem e ++ k) = Some (e, k).
Proof.
  intros HR Hd Hwf Hok Hk. unfold p_operand_with. destruct e as [rs|cu ts|nd f o r]; [discriminate Hwf| |].
  - cbn [toks_ok] in Hok. destruct Hok as [Hc Ht]. assert (Hnl : is_tk LPAREN (toks_elem (ERewrite cu ts) ++ k) = false).
    { destruct (ident_not _ Hc) as (_ & N2 & _). destruct ts; cbn; exact N2. }
    rewrite Hnl. apply p_rewrite_complete; assumption.
  - destruct nd; [|discriminate Hwf]. cbn [wf_operand] in Hwf. apply andb_prop in Hwf. destruct Hwf as [Hwf Hr].
    apply andb_prop in Hwf. destruct Hwf as [Hf Hp]. destruct (proj1 (toks_ok_group _ _ _ _) Hok) as [Okf Okr].
    rewrite depth_group in Hd.
    rewrite toks_elem_group. cbn [app]. rewrite is_tk_mk. cbn [tl]. rewrite <- app_assoc. cbn [app].
    unfold toks_def at 1. rewrite <- app_assoc. rewrite (elem_hd_not_ws f _ Okf). rewrite app_assoc. fold (toks_def f o r).
    rewrite (HR false f o r (mk RPAREN :: k)); [|unfold depth_def; lia|repeat split; assumption|apply stops_rparen].
    cbn [skip_opt tk mk]. replace (tk_eqb RPAREN WHITESPACE) with false by reflexivity. cbn [expect tk mk]. rewrite tk_eqb_refl. reflexivity.
Qed.

Lemma op_of_optok op : op <> ONone -> op_of_tk (optok op) = op.
Proof. destruct op; try reflexivity. contradiction. Qed.

Lemma opk_eqb_refl op : opk_eqb op op = true. Proof. destruct op; reflexivity. Qed.

Lemma partials_complete rec dd op : op <> ONone -> RecOK rec dd ->
  forall rest fuel k,
    (depth_all rest <= dd)%nat -> forallb wf_operand rest = true -> toks_ok_all rest -> stops k ->
    (length rest < fuel)%nat -> (op = OButNot -> (length rest <= 1)%nat) ->
    rest <> [] \/ op <> OButNot ->
    p_partials_with rec fuel op (toks_partials op rest ++ k) = Some (rest, k).
Proof.
  intros Hop HR. induction rest as [|e rest IH]; intros fuel k Hd Hwf Hok Hk Hf Hbn Hne; (destruct fuel as [|f]; [lia|]).
  - cbn [toks_partials app p_partials_with]. unfold peek_op. rewrite (stops_not_ws k Hk).
    destruct op; try contradiction; reflexivity.
  - cbn [forallb] in Hwf. apply andb_prop in Hwf. destruct Hwf as [He Hr]. destruct Hok as [Oke Okr]. cbn [depth_all] in Hd.
    cbn [toks_partials app p_partials_with]. unfold peek_op. rewrite is_tk_mk. cbn [hd2_tk tk mk].
    rewrite (op_of_optok op Hop), opk_eqb_refl. cbn [tl expect tk mk]. rewrite tk_eqb_refl.
    rewrite <- app_assoc.
    assert (Hafter : after_operand (toks_partials op rest ++ k)).
    { destruct rest; [apply stops_after_operand; exact Hk|cbn [toks_partials app]; apply ws_op_after_operand; exact Hop]. }
    rewrite (operand_complete rec dd e _ HR); [|lia|exact He|exact Oke|exact Hafter].
    destruct op; try contradiction.
    + rewrite (IH f k); try assumption; try reflexivity; try (cbn [length] in Hf; lia); [intros E; discriminate E|right; intros E; discriminate E].
    + rewrite (IH f k); try assumption; try reflexivity; try (cbn [length] in Hf; lia); [intros E; discriminate E|right; intros E; discriminate E].
    + specialize (Hbn eq_refl). cbn in Hbn. destruct rest; [reflexivity|cbn in Hbn; lia].
Qed.

Lemma def_body_complete rec dd direct first op rest k :
  RecOK rec dd -> (depth_def first rest <= dd)%nat -> def_ok direct first op rest -> stops k ->
  p_def_body rec direct (toks_def first op rest ++ k) = Some ((first, op, rest), k).
Proof.
  intros HR Hd (Hf & Hp & Hr & Okf & Okr) Hk. unfold depth_def in Hd. unfold p_def_body, toks_def. rewrite <- app_assoc.
  assert (Hop : rest <> [] -> op <> ONone) by (intros H E; subst op; destruct rest; [contradiction|discriminate Hp]).
  assert (Hafter : after_operand (toks_partials op rest ++ k)).
  { destruct rest as [|e r]; [apply stops_after_operand; exact Hk|cbn [toks_partials app]; apply ws_op_after_operand; apply Hop; discriminate]. }
  (* the first operand *)
  assert (Hfirst :
    (if is_tk LBRACKET (toks_elem first ++ toks_partials op rest ++ k) then
       if direct then do (rs, ts) <- p_direct (toks_elem first ++ toks_partials op rest ++ k); Some (EDirect rs, ts) else None
     else if is_tk LPAREN (toks_elem first ++ toks_partials op rest ++ k) then
       if direct then
         do (d, ts) <- rec true (skip_opt WHITESPACE (tl (toks_elem first ++ toks_partials op rest ++ k)));
         do (_, ts) <- expect RPAREN (skip_opt WHITESPACE ts);
         let '(fi, op, rest) := d in Some (EGroup false fi op rest, ts)
       else p_operand_with rec (toks_elem first ++ toks_partials op rest ++ k)
     else p_rewrite (toks_elem first ++ toks_partials op rest ++ k)) = Some (first, toks_partials op rest ++ k)).
  { destruct first as [rs|cu ts|nd f o r].
    - destruct direct; [|discriminate Hf]. cbn [toks_ok] in Okf. destruct Okf as [Hne Hall].
      assert (Hb : is_tk LBRACKET (toks_elem (EDirect rs) ++ toks_partials op rest ++ k) = true) by (destruct rs; [contradiction|reflexivity]).
      rewrite Hb. cbn [toks_elem]. rewrite (p_direct_complete rs _ Hne Hall). reflexivity.
    - cbn [toks_ok] in Okf. destruct Okf as [Hc Ht]. destruct (ident_not _ Hc) as (N1 & N2 & _).
      assert (Hb : is_tk LBRACKET (toks_elem (ERewrite cu ts) ++ toks_partials op rest ++ k) = false) by (destruct ts; exact N1).
      assert (Hl : is_tk LPAREN (toks_elem (ERewrite cu ts) ++ toks_partials op rest ++ k) = false) by (destruct ts; exact N2).
      rewrite Hb, Hl. apply p_rewrite_complete; assumption.
    - assert (Hb : is_tk LBRACKET (toks_elem (EGroup nd f o r) ++ toks_partials op rest ++ k) = false) by reflexivity.
      assert (Hl : is_tk LPAREN (toks_elem (EGroup nd f o r) ++ toks_partials op rest ++ k) = true) by reflexivity.
      rewrite Hb, Hl. destruct direct.
      + destruct nd; [discriminate Hf|]. cbn [wf_leading] in Hf. apply andb_prop in Hf. destruct Hf as [Hf Hr'].
        apply andb_prop in Hf. destruct Hf as [Hf' Hp']. destruct (proj1 (toks_ok_group _ _ _ _) Okf) as [Okf' Okr'].
        rewrite depth_group in Hd.
        rewrite toks_elem_group. cbn [app tl]. rewrite <- app_assoc. cbn [app].
        unfold toks_def at 1. rewrite <- app_assoc. rewrite (elem_hd_not_ws f _ Okf'). rewrite app_assoc. fold (toks_def f o r).
        rewrite (HR true f o r (mk RPAREN :: toks_partials op rest ++ k)); [|unfold depth_def; lia|repeat split; assumption|apply stops_rparen].
        cbn [skip_opt tk mk]. replace (tk_eqb RPAREN WHITESPACE) with false by reflexivity. cbn [expect tk mk]. rewrite tk_eqb_refl. reflexivity.
      + apply (operand_complete rec dd (EGroup nd f o r) _ HR); [lia|exact Hf|exact Okf|exact Hafter]. }
  rewrite Hfirst. clear Hfirst.
  destruct rest as [|e r].
  - destruct op; try discriminate Hp. cbn [toks_partials app]. unfold peek_op. rewrite (stops_not_ws k Hk). reflexivity.
  - assert (Hop' : op <> ONone) by (apply Hop; discriminate).
    assert (Hpk : peek_op (toks_partials op (e :: r) ++ k) = op).
    { cbn [toks_partials app]. unfold peek_op. rewrite is_tk_mk. cbn [hd2_tk tk mk]. apply op_of_optok. exact Hop'. }
    rewrite Hpk.
    assert (Hpart : p_partials_with rec (S (length (toks_partials op (e :: r) ++ k))) op (toks_partials op (e :: r) ++ k) = Some (e :: r, k)).
    { apply (partials_complete rec dd op Hop' HR (e :: r) _ k); try assumption; try lia.
      - rewrite app_length. assert (length (e :: r) <= length (toks_partials op (e :: r)))%nat.
        { generalize (e :: r). clear. induction l as [|x l IH]; cbn [toks_partials length]; [lia|]. rewrite app_length. lia. }
        lia.
      - intros ->. destruct r; [cbn; lia|discriminate Hp].
      - left. discriminate. }
    destruct op; try contradiction; rewrite Hpart; reflexivity.
Qed.

Theorem p_def_complete : forall n, RecOK (p_def n) n.
Proof.
  induction n as [|n IH]; intros direct first op rest k Hd Hok Hk; [lia|].
  cbn [p_def]. apply (def_body_complete (p_def n) n); try assumption. lia.
Qed.

(* the statement: every grammatical relation definition is what the parser returns for its canonical tokens *)
Theorem parser_complete_for_definitions d k :
  wf_rdef d = true -> toks_ok (rd_first d) -> toks_ok_all (rd_rest d) -> stops k ->
  p_def (S (depth_def (rd_first d) (rd_rest d))) true (toks_def (rd_first d) (rd_op d) (rd_rest d) ++ k)
  = Some ((rd_first d, rd_op d, rd_rest d), k).
Proof.
  intros Hwf Ok1 Ok2 Hk. unfold wf_rdef in Hwf. apply andb_prop in Hwf. destruct Hwf as [Hwf Hr]. apply andb_prop in Hwf. destruct Hwf as [Hf Hp].
  apply p_def_complete; [lia|repeat split; assumption|exact Hk].
Qed.

(* Proofs/PrinterOrder.v — sortByModule is a strict total order on items with distinct names, hence
   every sort of the DSL printer is canonical (C14). *)
From Coq Require Import Permutation.
From Verif Require Import Base.Str Base.Outcome Model.Ast Model.Printer Proofs.SortFacts.

Record skey := { k_name : str; k_module : str; k_file : str }.
Definition sbm (a b : skey) : comparison :=
  sort_by_module (k_name a) (k_name b) (k_module a) (k_module b) (k_file a) (k_file b).

Lemma is_empty_spec s : is_empty s = true <-> s = [].
Proof. destruct s; simpl; split; congruence. Qed.

Ltac empties :=
  repeat match goal with
         | H : is_empty ?s = true |- _ => apply is_empty_spec in H; subst
         | |- context [is_empty ?s] => let E := fresh "E" in destruct (is_empty s) eqn:E
         | H : context [is_empty ?s] |- _ => let E := fresh "E" in destruct (is_empty s) eqn:E
         end.

Lemma sbm_trans a b c : sbm a b = Lt -> sbm b c = Lt -> sbm a c = Lt.
Proof.
  unfold sbm, sort_by_module.
  destruct a as [an am af], b as [bn bm bf], c as [cn cm cf]; simpl.
  destruct (is_empty am) eqn:Ea, (is_empty bm) eqn:Eb, (is_empty cm) eqn:Ec; simpl; try discriminate; auto;
    try (intros; eapply str_compare_trans; eassumption).
  destruct (str_eqb_spec am bm) as [->|Hab], (str_eqb_spec bm cm) as [->|Hbc]; simpl.
  - try (rewrite str_eqb_refl; simpl).
    destruct (str_eqb_spec af bf) as [->|Hf1], (str_eqb_spec bf cf) as [->|Hf2]; simpl.
    + try (rewrite str_eqb_refl; simpl). apply str_compare_trans.
    + destruct (str_eqb_spec bf cf); [contradiction|]. simpl. auto.
    + destruct (str_eqb_spec af cf); [contradiction|]. simpl. auto.
    + intros H1 H2. assert (H : str_compare af cf = Lt) by (eapply str_compare_trans; eauto).
      destruct (str_eqb_spec af cf) as [->|_]; simpl; [|exact H].
      rewrite str_compare_refl in H. discriminate.
  - destruct (str_eqb_spec bm cm); [contradiction|]. simpl.
    destruct (negb (str_eqb af bf)); auto.
  - destruct (str_eqb_spec am cm); [contradiction|]. simpl.
    destruct (negb (str_eqb bf cf)); auto.
  - intros H1 H2. assert (H : str_compare am cm = Lt) by (eapply str_compare_trans; eauto).
    destruct (str_eqb_spec am cm) as [->|_]; simpl; [|exact H].
    rewrite str_compare_refl in H. discriminate.
Qed.

Lemma sbm_antisym a b : sbm b a = CompOpp (sbm a b).
Proof.
  unfold sbm, sort_by_module.
  destruct a as [an am af], b as [bn bm bf]; simpl.
  destruct (is_empty am) eqn:Ea, (is_empty bm) eqn:Eb; simpl; auto using str_compare_antisym.
  destruct (str_eqb_spec am bm) as [->|Hab]; simpl.
  - try (rewrite str_eqb_refl; simpl).
    destruct (str_eqb_spec af bf) as [->|Hf]; simpl.
    + try (rewrite str_eqb_refl; simpl). apply str_compare_antisym.
    + destruct (str_eqb_spec bf af) as [->|_]; [contradiction|]. simpl. apply str_compare_antisym.
  - destruct (str_eqb_spec bm am) as [->|_]; [contradiction|]. simpl. apply str_compare_antisym.
Qed.

Lemma sbm_asym a b : sbm a b = Lt -> sbm b a <> Lt.
Proof. intros H. rewrite sbm_antisym, H. discriminate. Qed.

Lemma sbm_total a b : k_name a <> k_name b -> sbm a b = Lt \/ sbm b a = Lt.
Proof.
  intros Hn. destruct (sbm a b) eqn:E; auto.
  - exfalso. revert E. unfold sbm, sort_by_module.
    destruct (is_empty (k_module a) && is_empty (k_module b)); [intros E; apply str_compare_eq in E; contradiction|].
    destruct (is_empty (k_module a)); [discriminate|]. destruct (is_empty (k_module b)); [discriminate|].
    destruct (str_eqb_spec (k_module a) (k_module b)) as [Hm|Hm]; simpl.
    + destruct (str_eqb_spec (k_file a) (k_file b)) as [Hf|Hf]; simpl; intros E; apply str_compare_eq in E; contradiction.
    + intros E; apply str_compare_eq in E; contradiction.
  - right. rewrite sbm_antisym, E. reflexivity.
Qed.

(* ---- generic: sorting items by a key function ---- *)
Section ByKey.
  Context {A : Type} (key : A -> skey).
  Definition by_key (a b : A) : comparison := sbm (key a) (key b).

  Lemma NoDup_names_inj (l : list A) a b :
    NoDup (map (fun x => k_name (key x)) l) -> In a l -> In b l -> a <> b -> k_name (key a) <> k_name (key b).
  Proof.
    induction l as [|x l IH]; simpl; intros Hnd Ha Hb Hab; [contradiction|].
    inversion Hnd as [|? ? Hx Hnd']; subst.
    destruct Ha as [->|Ha], Hb as [->|Hb].
    - contradiction.
    - intros E. apply Hx. rewrite E. apply in_map_iff. exists b; auto.
    - intros E. apply Hx. rewrite <- E. apply in_map_iff. exists a; auto.
    - apply IH; auto.
  Qed.

  Theorem sort_by_key_canonical (l l' : list A) :
    NoDup (map (fun x => k_name (key x)) l) -> Permutation l l' ->
    stable_sort by_key l = stable_sort by_key l'.
  Proof.
    intros Hnd Hp.
    apply (stable_sort_canonical by_key (fun x => In x l)); auto.
    - intros a b c _ _ _. apply sbm_trans.
    - intros a b Ha Hb Hab. apply sbm_total. eapply NoDup_names_inj; eauto.
    - intros a b _ _. apply sbm_asym.
    - apply Forall_forall; auto.
    - eapply NoDup_map_inv; eauto.
  Qed.
End ByKey.

(* Proofs/PrinterCanonical.v — the DSL printer's output does not depend on the order in which the
   (Go) maps and, for modular models, the type definitions are presented (C14). *)
From Coq Require Import Permutation.
From Verif Require Import Base.Str Base.Outcome Model.Ast Model.Printer Proofs.SortFacts Proofs.PrinterOrder.

(* ---- association lists with distinct keys are insensitive to order ---- *)
Lemma assoc_in {A} k (v : A) l : NoDup (keys l) -> In (k, v) l -> assoc k l = Some v.
Proof.
  induction l as [|[k' v'] l IH]; simpl; intros Hnd Hin; [contradiction|].
  inversion Hnd as [|? ? Hk Hnd']; subst.
  destruct Hin as [E|Hin].
  - inversion E; subst. rewrite str_eqb_refl. reflexivity.
  - destruct (str_eqb_spec k k') as [->|_]; [|auto].
    exfalso. apply Hk. change k' with (fst (k', v)). apply in_map. exact Hin.
Qed.

Lemma assoc_none {A} k (l : list (str * A)) : ~ In k (keys l) -> assoc k l = None.
Proof.
  induction l as [|[k' v'] l IH]; simpl; intros Hn; [reflexivity|].
  destruct (str_eqb_spec k k') as [->|_]; [exfalso; apply Hn; left; reflexivity|]. apply IH. tauto.
Qed.

Lemma assoc_some_in {A} k (v : A) l : assoc k l = Some v -> In (k, v) l.
Proof.
  induction l as [|[k' v'] l IH]; simpl; [discriminate|].
  destruct (str_eqb_spec k k') as [->|_]; intros H; [inversion H; subst; left; reflexivity|right; auto].
Qed.

Lemma assoc_perm {A} (l l' : list (str * A)) k :
  NoDup (keys l) -> Permutation l l' -> assoc k l = assoc k l'.
Proof.
  intros Hnd Hp.
  assert (Hnd' : NoDup (keys l')) by (eapply Permutation_NoDup; [apply Permutation_map; exact Hp|exact Hnd]).
  destruct (assoc k l) eqn:E.
  - apply assoc_some_in in E. symmetry. apply assoc_in; auto. eapply Permutation_in; eauto.
  - destruct (assoc k l') eqn:E'; [|reflexivity].
    apply assoc_some_in in E'. apply (Permutation_in _ (Permutation_sym Hp)) in E'.
    rewrite (assoc_in _ _ _ Hnd E') in E. discriminate.
Qed.

Lemma existsb_perm {A} (f : A -> bool) l l' : Permutation l l' -> existsb f l = existsb f l'.
Proof.
  induction 1; simpl; auto.
  - rewrite IHPermutation; reflexivity.
  - destruct (f x), (f y); reflexivity.
  - congruence.
Qed.

(* ---- the four sorts ---- *)
Definition tkey (t : typedef) : skey := {| k_name := td_name t; k_module := td_module t; k_file := td_file t |}.
Definition ckey (p : str * condition) : skey := {| k_name := fst p; k_module := c_module (snd p); k_file := c_file (snd p) |}.
Definition rkey (meta : list (str * rel_meta)) (n : str) : skey :=
  {| k_name := n; k_module := rm_module_str (assoc n meta); k_file := rm_file_str (assoc n meta) |}.

Lemma type_cmp_by_key : type_cmp = by_key tkey. Proof. reflexivity. Qed.
Lemma cond_cmp_by_key : cond_cmp = by_key ckey. Proof. reflexivity. Qed.
Lemma rel_cmp_by_key meta : rel_cmp_modular meta = by_key (rkey meta). Proof. reflexivity. Qed.

Theorem sort_types_canonical ts ts' :
  NoDup (map td_name ts) -> Permutation ts ts' -> stable_sort type_cmp ts = stable_sort type_cmp ts'.
Proof. intros Hnd Hp. rewrite type_cmp_by_key. exact (sort_by_key_canonical tkey ts ts' Hnd Hp). Qed.

Theorem sort_conds_canonical (cs cs' : list (str * condition)) :
  NoDup (keys cs) -> Permutation cs cs' -> stable_sort cond_cmp cs = stable_sort cond_cmp cs'.
Proof. intros Hnd Hp. rewrite cond_cmp_by_key. exact (sort_by_key_canonical ckey cs cs' Hnd Hp). Qed.

Theorem sort_rel_names_canonical meta (ns ns' : list str) :
  NoDup ns -> Permutation ns ns' ->
  stable_sort (rel_cmp_modular meta) ns = stable_sort (rel_cmp_modular meta) ns'.
Proof.
  intros Hnd Hp. rewrite rel_cmp_by_key. apply sort_by_key_canonical; auto.
  change (NoDup (map (fun x : str => x) ns)). rewrite map_id. exact Hnd.
Qed.

(* parameters: sorted by name *)
Theorem sort_pairs_canonical {B} (ps ps' : list (str * B)) :
  NoDup (keys ps) -> Permutation ps ps' -> stable_sort pair_cmp ps = stable_sort pair_cmp ps'.
Proof.
  intros Hnd Hp.
  assert (inj : forall a b, In a ps -> In b ps -> a <> b -> fst a <> fst b).
  { clear Hp. induction ps as [|x ps IH]; simpl; intros a b Ha Hb Hab; [contradiction|].
    inversion Hnd as [|? ? Hx Hnd']; subst.
    destruct Ha as [->|Ha], Hb as [->|Hb].
    - contradiction.
    - intros E. apply Hx. rewrite E. apply in_map; auto.
    - intros E. apply Hx. rewrite <- E. apply in_map; auto.
    - apply IH; auto. }
  apply (stable_sort_canonical pair_cmp (fun x => In x ps)); auto.
  - intros a b c _ _ _. apply str_compare_trans.
  - intros a b Ha Hb Hab. apply str_compare_total. apply inj; auto.
  - intros a b _ _. apply str_compare_asym.
  - apply Forall_forall; auto.
  - eapply NoDup_map_inv; eauto.
Qed.

(* ---- the printer under permutations ---- *)

Lemma print_relations_ext ty names rels rels' meta meta' src :
  (forall n, assoc n rels = assoc n rels') -> (forall n, assoc n meta = assoc n meta') ->
  print_relations ty names rels meta src = print_relations ty names rels' meta' src.
Proof.
  intros Hr Hm. induction names as [|n names IH]; simpl; [reflexivity|].
  rewrite <- Hr, <- Hm, IH. reflexivity.
Qed.

Lemma insert_sorted_ext {A} (c c' : A -> A -> comparison) x l :
  (forall a b, c a b = c' a b) -> insert_sorted c x l = insert_sorted c' x l.
Proof. intros H. induction l as [|y l IH]; simpl; [reflexivity|]. rewrite H, IH. reflexivity. Qed.

Lemma stable_sort_ext {A} (c c' : A -> A -> comparison) l :
  (forall a b, c a b = c' a b) -> stable_sort c l = stable_sort c' l.
Proof.
  intros H. induction l as [|x l IH]; [reflexivity|].
  change (insert_sorted c x (stable_sort c l) = insert_sorted c' x (stable_sort c' l)).
  rewrite IH. apply insert_sorted_ext. exact H.
Qed.

Lemma rel_cmp_ext meta meta' a b :
  (forall n, assoc n meta = assoc n meta') -> rel_cmp_modular meta a b = rel_cmp_modular meta' a b.
Proof. intros H. unfold rel_cmp_modular. rewrite !H. reflexivity. Qed.

(* a type definition whose relation map and metadata map are presented in another order prints the same *)
Theorem print_type_rels_perm (t : typedef) rels' meta' modular src :
  NoDup (keys (td_rels t)) -> Permutation (td_rels t) rels' ->
  NoDup (keys (td_meta_rels t)) -> Permutation (td_meta_rels t) meta' ->
  print_type t modular src =
  print_type {| td_name := td_name t; td_rels := rels';
                td_meta := match td_meta t with
                           | Some md => Some {| tm_rels := meta'; tm_module := tm_module md; tm_file := tm_file md |}
                           | None => None
                           end |} modular src.
Proof.
  intros Hnd Hp Hndm Hpm.
  assert (Hr : forall n, assoc n (td_rels t) = assoc n rels') by (intros; apply assoc_perm; auto).
  set (t' := {| td_name := td_name t; td_rels := rels'; td_meta := _ |}).
  assert (Hmeta' : Permutation (td_meta_rels t) (td_meta_rels t')).
  { subst t'. destruct t as [nm rs [md|]]; unfold td_meta_rels in *; simpl in *; [exact Hpm|constructor]. }
  assert (Hm : forall n, assoc n (td_meta_rels t) = assoc n (td_meta_rels t')) by (intros; apply assoc_perm; auto).
  assert (Hmod : td_module t' = td_module t) by (subst t'; destruct t as [nm rs [md|]]; reflexivity).
  assert (Hfile : td_file t' = td_file t) by (subst t'; destruct t as [nm rs [md|]]; reflexivity).
  unfold print_type. rewrite Hmod, Hfile. change (td_name t') with (td_name t). change (td_rels t') with rels'.
  destruct (td_rels t) as [|r0 rs] eqn:Er.
  - apply Permutation_nil in Hp. subst rels'. reflexivity.
  - destruct rels' as [|r0' rs']; [apply Permutation_sym, Permutation_nil in Hp; discriminate|].
    assert (Hk : Permutation (keys (r0 :: rs)) (keys (r0' :: rs'))) by (apply Permutation_map; exact Hp).
    assert (Hsorted : (if modular then stable_sort (rel_cmp_modular (td_meta_rels t)) (keys (r0 :: rs))
                       else stable_sort str_compare (keys (r0 :: rs)))
                      = (if modular then stable_sort (rel_cmp_modular (td_meta_rels t')) (keys (r0' :: rs'))
                         else stable_sort str_compare (keys (r0' :: rs')))).
    { destruct modular.
      - rewrite (stable_sort_ext _ (rel_cmp_modular (td_meta_rels t'))) by (intros; apply rel_cmp_ext; exact Hm).
        apply sort_rel_names_canonical; auto.
      - apply sort_strings_canonical; auto. }
    rewrite Hsorted.
    rewrite (print_relations_ext _ _ (r0 :: rs) (r0' :: rs') (td_meta_rels t) (td_meta_rels t')); auto.
Qed.

(* conditions presented in another order, parameters of a condition in another order *)
Theorem print_conditions_perm (cs cs' : list (str * condition)) src :
  NoDup (keys cs) -> Permutation cs cs' ->
  print_conditions (stable_sort cond_cmp cs) src = print_conditions (stable_sort cond_cmp cs') src.
Proof. intros Hnd Hp. rewrite (sort_conds_canonical cs cs'); auto. Qed.

Theorem print_condition_params_perm key (c : condition) ps' src :
  NoDup (keys (c_params c)) -> Permutation (c_params c) ps' ->
  print_condition key c src =
  print_condition key {| c_name := c_name c; c_expr := c_expr c; c_params := ps'; c_meta := c_meta c |} src.
Proof.
  intros Hnd Hp. unfold print_condition; simpl.
  rewrite (sort_pairs_canonical (c_params c) ps'); auto.
Qed.

(* a modular model whose type definitions are presented in another order prints the same *)
Theorem print_model_types_perm src (m : model) ts' :
  is_modular_model m = true -> NoDup (map td_name (m_types m)) -> Permutation (m_types m) ts' ->
  fst (print_model src m) = fst (print_model src {| m_schema := m_schema m; m_types := ts'; m_conds := m_conds m |}).
Proof.
  intros Hmod Hnd Hp. unfold print_model.
  assert (Hmod' : is_modular_model {| m_schema := m_schema m; m_types := ts'; m_conds := m_conds m |} = true).
  { unfold is_modular_model in *; simpl. rewrite <- (existsb_perm _ _ _ Hp). exact Hmod. }
  rewrite Hmod, Hmod'. simpl. rewrite (sort_types_canonical (m_types m) ts'); auto.
Qed.

(* conditions of a model presented in another order *)
Theorem print_model_conds_perm src (m : model) cs' :
  NoDup (keys (m_conds m)) -> Permutation (m_conds m) cs' ->
  print_model src m = print_model src {| m_schema := m_schema m; m_types := m_types m; m_conds := cs' |}.
Proof.
  intros Hnd Hp. unfold print_model, is_modular_model; simpl.
  rewrite (sort_conds_canonical (m_conds m) cs'); auto.
Qed.

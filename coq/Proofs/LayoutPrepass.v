(* Proofs/LayoutPrepass.v — the pre-pass is the identity (up to the closing line feed) on EVERY layout of a document whose
   line breaks carry no blank in front of a line feed: a sequence of fitting tokens (Proofs/LexFit.v) in which '#' only
   follows a name has no blank or line feed in front of '#', no blank in front of a line feed, does not start with '#'
   and does not end in a blank or a line feed — the hypotheses of Proofs/PrepassText.prepass_id. *)
From Coq Require Import Lia.
From Verif Require Import Spec.DocDomain Base.Str Model.Token Gen.Keywords Model.Lexer Proofs.LexInversion Proofs.LexEof Proofs.LexFit
  Proofs.PrepassText.

(* ---------------------------------------------------------------------------------------- *)
(* what a fitting token's text looks like at its ends and inside                              *)
(* ---------------------------------------------------------------------------------------- *)
Definition tok_facts (k : tkind) (t : str) : Prop :=
  t <> [] /\
  haspair 32 35 t = false /\ haspair 10 35 t = false /\
  (k <> NEWLINE -> haspair 32 10 t = false) /\
  (last t 0 = 32 \/ last t 0 = 10 -> k = WHITESPACE \/ k = NEWLINE) /\
  (hd 0 t = 35 -> k = HASH).

Lemma not_in_all (p : N -> bool) c s : forallb p s = true -> p c = false -> ~ In c s.
Proof. intros H Hc Hin. rewrite forallb_forall in H. rewrite (H c Hin) in Hc. discriminate. Qed.

Lemma last_in {A} (s : list A) d : s <> [] -> In (last s d) s.
Proof.
  induction s as [|x s IH]; [contradiction|]. intros _. destruct s as [|y s']; [left; reflexivity|]. right. apply IH. discriminate.
Qed.
Lemma hd_in {A} (s : list A) d : s <> [] -> In (hd d s) s.
Proof. destruct s; [contradiction|]. intros _. left. reflexivity. Qed.

(* a text without blanks, line feeds and '#' *)
Lemma facts_plain k t : t <> [] -> ~ In 32 t -> ~ In 10 t -> ~ In 35 t -> tok_facts k t.
Proof.
  intros Hne H32 H10 H35. split; [exact Hne|]. split; [apply haspair_none_a; exact H32|]. split; [apply haspair_none_a; exact H10|].
  split; [intros _; apply haspair_none_a; exact H32|]. split.
  - intros [E|E]; exfalso; [apply H32|apply H10]; rewrite <- E; apply last_in; exact Hne.
  - intros E. exfalso. apply H35. rewrite <- E. apply hd_in. exact Hne.
Qed.

Lemma name_chars_ge s x : plain_name s = true -> In x s -> 45 <= x.
Proof.
  unfold plain_name. intros H. apply andb_prop in H. destruct H as [H _]. apply andb_prop in H. destruct H as [H _].
  destruct s as [|c r]; [discriminate|]. apply andb_prop in H. destruct H as [Hc Hr]. intros [<-|Hx].
  - pose proof (id_start_ge c Hc). lia.
  - rewrite forallb_forall in Hr. exact (id_char_ge x (Hr x Hx)).
Qed.

Lemma std_facts :
  forallb (fun k => let t := std_text k in
             negb (match t with [] => true | _ => false end) && negb (haspair 32 35 t) && negb (haspair 10 35 t) && negb (haspair 32 10 t) &&
             negb ((last t 0 =? 32) || (last t 0 =? 10)) && (negb (hd 0 t =? 35) || tk_eqb k HASH))
          (kw_blank ++ kw_line ++ punct) = true.
Proof. vm_compute. reflexivity. Qed.

Lemma fit_std_facts k t rest : fit_std k t rest -> tok_facts k t.
Proof.
  intros [-> H]. assert (Hin : In k (kw_blank ++ kw_line ++ punct)).
  { apply in_or_app. destruct (mem_tk k kw_blank) eqn:E1; [left; apply mem_tk_in; exact E1|right]. apply in_or_app.
    destruct (mem_tk k kw_line) eqn:E2; [left; apply mem_tk_in; exact E2|right; apply mem_tk_in; exact H]. }
  pose proof std_facts as F. rewrite forallb_forall in F. specialize (F k Hin). cbv zeta in F.
  repeat (apply andb_prop in F; destruct F as [F ?]).
  repeat match goal with H : negb _ = true |- _ => apply negb_true_iff in H end.
  split; [intros E; rewrite E in F; discriminate F|]. split; [assumption|]. split; [assumption|]. split; [intros _; assumption|]. split.
  - match goal with H : (_ =? 32) || (_ =? 10) = false |- _ => apply orb_false_iff in H; destruct H as [A B] end.
    apply N.eqb_neq in A, B. intros [E|E]; contradiction.
  - match goal with H : negb (hd 0 _ =? 35) || tk_eqb k HASH = true |- _ => apply orb_prop in H; destruct H as [A|A] end.
    + apply negb_true_iff, N.eqb_neq in A. intros E. contradiction.
    + intros _. apply tk_eqb_true. exact A.
Qed.

Lemma fit_facts k t rest : fit k t rest -> tok_facts k t.
Proof.
  destruct k; cbn [fit]; try apply fit_std_facts; intros [H _].
  - (* SCHEMA_VERSION *)
    unfold std_version in H. apply orb_prop in H. destruct H as [H|H]; [apply orb_prop in H; destruct H as [H|H]|];
      apply str_eqb_eq in H; subst t; (apply facts_plain; [discriminate|cbn; intuition discriminate..]).
  - (* WHITESPACE *)
    destruct (ws_run_all t H) as [Hall Hne].
    assert (H10 : ~ In 10 t) by (apply (not_in_all blankc); [exact Hall|reflexivity]).
    assert (H35 : ~ In 35 t) by (apply (not_in_all blankc); [exact Hall|reflexivity]).
    split; [exact Hne|]. split; [apply haspair_none_b; exact H35|]. split; [apply haspair_none_b; exact H35|].
    split; [intros _; apply haspair_none_b; exact H10|]. split; [intros _; left; reflexivity|].
    intros E. exfalso. apply H35. rewrite <- E. apply hd_in. exact Hne.
  - (* IDENTIFIER *)
    apply facts_plain; [intros ->; discriminate H| | |]; intros Hin; pose proof (name_chars_ge t _ H Hin); lia.
  - (* NEWLINE *)
    destruct t as [|c r]; [discriminate H|]. cbn [nl_text] in H. apply andb_prop in H. destruct H as [Hc Hr]. apply N.eqb_eq in Hc. subst c.
    assert (H35 : ~ In 35 (10 :: r)).
    { intros [E|Hin]; [discriminate E|]. revert Hin. apply (not_in_all (fun x => (x =? 10) || blankc x)); [exact Hr|reflexivity]. }
    split; [discriminate|]. split; [apply haspair_none_b; exact H35|]. split; [apply haspair_none_b; exact H35|].
    split; [intros E; contradiction|]. split; [intros _; right; reflexivity|]. cbn [hd]. intros E. discriminate E.
Qed.

(* ---------------------------------------------------------------------------------------- *)
(* '#' only after a name: a property of the token KINDS                                       *)
(* ---------------------------------------------------------------------------------------- *)
Fixpoint hscan (prev : tkind) (ks : list tkind) : bool :=
  match ks with
  | [] => true
  | k :: r => (negb (tk_eqb k HASH) || tk_eqb prev IDENTIFIER) && hscan k r
  end.

Definition nl_clean (ts : list kt) : Prop := Forall (fun a => fst a = NEWLINE -> haspair 32 10 (snd a) = false) ts.

(* ---------------------------------------------------------------------------------------- *)
(* concatenation                                                                             *)
(* ---------------------------------------------------------------------------------------- *)
Lemma haspair_app_intro a b x y :
  haspair a b x = false -> haspair a b y = false -> (x = [] \/ y = [] \/ last x 0 <> a \/ hd 0 y <> b) ->
  haspair a b (x ++ y) = false.
Proof.
  induction x as [|c x IH]; intros Hx Hy Hb; [exact Hy|]. cbn [haspair] in Hx. apply orb_false_iff in Hx. destruct Hx as [H1 H2].
  cbn [app haspair]. destruct x as [|d x'].
  - cbn [app]. rewrite Hy, orb_false_r. destruct y as [|e y']; [reflexivity|].
    destruct Hb as [E|[E|[E|E]]]; try discriminate E; cbn [last hd] in E.
    + apply N.eqb_neq in E. rewrite E. reflexivity.
    + apply N.eqb_neq in E. rewrite E. apply andb_false_r.
  - cbn [app]. change (d :: x' ++ y) with ((d :: x') ++ y). rewrite IH; [rewrite orb_false_r; exact H1|exact H2|exact Hy|].
    destruct Hb as [E|[E|[E|E]]]; [discriminate E|right; left; exact E|right; right; left; exact E|right; right; right; exact E].
Qed.

Lemma last_app_ne {A} (x y : list A) d : y <> [] -> last (x ++ y) d = last y d.
Proof.
  induction x as [|c x IH]; intros H; [reflexivity|]. cbn [app]. rewrite <- (IH H). destruct (x ++ y) eqn:E; [|reflexivity].
  apply app_eq_nil in E. destruct E as [_ E]. contradiction.
Qed.

Lemma solid_not_nl R : solid_next R -> hd 0 R <> 10 /\ R <> [].
Proof. destruct R as [|c R]; [intros []|]. cbn. intros H. split; [intros ->; discriminate H|discriminate]. Qed.

(* the text of a fitting token sequence *)
Lemma layout_text_facts ts : forall p, fits ts [] -> hscan p (map fst ts) = true -> nl_clean ts ->
  let X := concat (map snd ts) in
  haspair 32 35 X = false /\ haspair 10 35 X = false /\ haspair 32 10 X = false /\
  (hd 0 X = 35 -> p = IDENTIFIER) /\
  (X <> [] -> last X 0 <> 32 /\ last X 0 <> 10).
Proof.
  induction ts as [|[k t] ts IH]; intros p Hf Hs Hc; cbv zeta.
  - cbn [map concat]. split; [reflexivity|]. split; [reflexivity|]. split; [reflexivity|]. split; [cbn; intros E; discriminate E|intros E; contradiction].
  - cbn [fits] in Hf. destruct Hf as [Hfit Hfits]. cbn [map fst hscan] in Hs. apply andb_prop in Hs. destruct Hs as [Hk Hs].
    inversion Hc as [|? ? Hck Hc']; subst. cbn [fst snd] in Hck.
    destruct (IH k Hfits Hs Hc') as (I1 & I2 & I3 & I4 & I5). cbv zeta in I1, I2, I3, I4, I5. clear IH.
    rewrite app_nil_r in Hfit. set (X := concat (map snd ts)) in *.
    destruct (fit_facts k t X Hfit) as (Tne & T1 & T2 & T3 & T4 & T5).
    cbn [map snd concat]. fold X.
    (* a token that ends in a blank or a line feed is a run of blanks or a line break: what follows is solid *)
    assert (Hend : last t 0 = 32 \/ last t 0 = 10 -> hd 0 X <> 10 /\ hd 0 X <> 35).
    { intros Hl. destruct (T4 Hl) as [-> | ->]; cbn [fit] in Hfit; destruct Hfit as [_ Hsolid]; destruct (solid_not_nl X Hsolid) as [A _];
        (split; [exact A|intros E; specialize (I4 E); discriminate I4]). }
    assert (T3' : haspair 32 10 t = false).
    { destruct k; try (apply T3; discriminate). apply Hck. reflexivity. }
    split; [|split; [|split; [|split]]].
    + apply haspair_app_intro; [exact T1|exact I1|]. destruct (N.eq_dec (last t 0) 32) as [E|E]; [|right; right; left; exact E].
      right; right; right. apply (Hend (or_introl E)).
    + apply haspair_app_intro; [exact T2|exact I2|]. destruct (N.eq_dec (last t 0) 10) as [E|E]; [|right; right; left; exact E].
      right; right; right. apply (Hend (or_intror E)).
    + apply haspair_app_intro; [exact T3'|exact I3|]. destruct (N.eq_dec (last t 0) 32) as [E|E]; [|right; right; left; exact E].
      right; right; right. apply (Hend (or_introl E)).
    + destruct t as [|c t']; [contradiction|]. cbn [app hd]. intros E. specialize (T5 E). subst k.
      cbn in Hk. apply tk_eqb_true in Hk. exact Hk.
    + intros _. destruct (list_eq_dec N.eq_dec X []) as [E|E].
      * rewrite E, app_nil_r. rewrite E in Hfit.
        assert (Hnot : ~ (k = WHITESPACE \/ k = NEWLINE)) by (intros [-> | ->]; cbn [fit] in Hfit; destruct Hfit as [_ []]).
        split; intros El; apply Hnot; apply T4; [left|right]; exact El.
      * rewrite (last_app_ne t X 0 E). exact (I5 E).
Qed.

(* THE PRE-PASS ON A LAYOUT *)
Theorem layout_prepass ts :
  ts <> [] -> fits ts [] -> hscan TEOF (map fst ts) = true -> nl_clean ts ->
  prepass (concat (map snd ts) ++ [10]) = concat (map snd ts).
Proof.
  intros Hne Hf Hs Hc. destruct (layout_text_facts ts TEOF Hf Hs Hc) as (H1 & H2 & H3 & H4 & H5). cbv zeta in H1, H2, H3, H4, H5.
  set (T := concat (map snd ts)) in *.
  assert (HT : T <> []).
  { unfold T. destruct ts as [|[k t] ts']; [contradiction|]. cbn [fits] in Hf. destruct Hf as [Hfit _]. apply fit_nonempty in Hfit.
    cbn [map snd concat]. intros E. apply app_eq_nil in E. destruct E as [E _]. contradiction. }
  destruct (H5 HT) as [L32 L10].
  apply prepass_id; try assumption.
  - intros q E. apply L10. rewrite E. rewrite last_app_ne by discriminate. reflexivity.
  - intros q E. apply L32. rewrite E. rewrite last_app_ne by discriminate. reflexivity.
  - intros E. specialize (H4 E). discriminate H4.
Qed.
Print Assumptions layout_prepass.

(* Proofs/BuilderValid.v — when the weighted graph builder (before any weight is assigned) rejects a model (C05, C10):
   exactly when some tuple-to-userset of some relation names a tupleset without metadata entry, with an empty list
   of type restrictions, or one of whose parent types does not define the computed relation — wherever in the
   rewrite the tuple-to-userset stands, whatever the rest of the model is, whatever the graph built so far. *)
From Verif Require Import Base.Str Base.Outcome Model.Ast Model.Printer Model.WGraph Spec.GraphShape Proofs.WGraphProofs.

Lemma parse_ttu_refs_ok m td ts cu refs : forall g p,
  is_ok (parse_ttu_refs g p m td ts cu refs) = forallb (fun r => type_and_relation_exists m (rr_type r) cu) refs.
Proof.
  induction refs as [|r refs IH]; intros g p; [reflexivity|]. cbn [parse_ttu_refs forallb].
  destruct (type_and_relation_exists m (rr_type r) cu); cbn [negb andb]; [|reflexivity].
  destruct (get_or_add_node _ _ _ _) as [g1 n]. apply IH.
Qed.

Lemma parse_ttu_ok g p m td ts cu : is_ok (parse_ttu g p m td ts cu) = ttu_valid m td ts cu.
Proof.
  unfold parse_ttu, ttu_valid. destruct (assoc ts (td_meta_rels td)) as [rm|]; [|reflexivity].
  destruct (rm_types rm) as [|r refs] eqn:E; [reflexivity|]. apply parse_ttu_refs_ok.
Qed.

Lemma is_ok_obind {A B E} (o : outcome A E) (f : A -> outcome B E) (b : bool) :
  (forall a, o = Ok a -> is_ok (f a) = b) -> is_ok (obind o f) = is_ok o && b.
Proof. destruct o; cbn; intros H; [apply H; reflexivity|reflexivity|reflexivity]. Qed.

Definition valid_spec (m : model) (td : typedef) (rel : str) (u : userset) : Prop :=
  forall g p, is_ok (parse_rewrite g p m td rel u) = rewrite_valid m td u.

Lemma operator_valid m td rel op cs : Forall (valid_spec m td rel) cs -> forall g p,
  is_ok (let '(g1, opn) := op_node g op in
         let g2 := add_edge g1 (n_id p) (n_id opn) ERewrite [] in
         (fix children (g : wgraph) (opn : wnode) (cs : list userset) : outcome wgraph werr :=
            match cs with
            | [] => Ok g
            | c :: r => obind (parse_rewrite g opn m td rel c) (fun g => children g opn r)
            end) g2 opn cs) = forallb (rewrite_valid m td) cs.
Proof.
  intros Hcs g p. destruct (op_node g op) as [g1 opn]. generalize (add_edge g1 (n_id p) (n_id opn) ERewrite []).
  induction Hcs as [|c cs Hc _ IH]; intros g2; [reflexivity|]. cbn [forallb].
  rewrite (is_ok_obind _ _ (forallb (rewrite_valid m td) cs)); [rewrite Hc; reflexivity|]. intros g3 _. apply IH.
Qed.

Theorem parse_rewrite_valid m td rel u : valid_spec m td rel u.
Proof.
  induction u as [| r | rel0 | ts cu | cs IH | cs IH | b s IHb IHs] using userset_ind'; intros g p.
  - apply (operator_valid m td rel [] [] (Forall_nil _)).
  - reflexivity.
  - reflexivity.
  - apply parse_ttu_ok.
  - apply (operator_valid m td rel (lit "union") cs IH).
  - apply (operator_valid m td rel (lit "intersection") cs IH).
  - assert (Hbs : Forall (valid_spec m td rel) [b; s]) by (constructor; [exact IHb|constructor; [exact IHs|constructor]]).
    pose proof (operator_valid m td rel (lit "exclusion") [b; s] Hbs g p) as X. cbn [forallb] in X. rewrite andb_true_r in X. exact X.
Qed.

Lemma build_relations_valid m td names : forall g,
  is_ok (build_relations g m td names) =
  forallb (fun r => rewrite_valid m td (match assoc r (td_rels td) with Some u => u | None => UUnset end)) names.
Proof.
  induction names as [|r names IH]; intros g; [reflexivity|]. cbn [build_relations forallb].
  destruct (get_or_add_node _ _ _ _) as [g1 p].
  rewrite (is_ok_obind _ _ (forallb (fun r0 => rewrite_valid m td (match assoc r0 (td_rels td) with Some u => u | None => UUnset end)) names)).
  - rewrite parse_rewrite_valid. reflexivity.
  - intros g2 _. apply IH.
Qed.

Lemma forallb_perm {A} (f : A -> bool) l l' : Permutation.Permutation l l' -> forallb f l = forallb f l'.
Proof.
  induction 1 as [|x l l' _ IH|x y l|l l' l'' _ IH1 _ IH2]; cbn.
  - reflexivity.
  - rewrite IH. reflexivity.
  - destruct (f x), (f y); reflexivity.
  - congruence.
Qed.

Lemma build_types_valid m tds : forall g, is_ok (build_types g m tds) = forallb (type_valid m) tds.
Proof.
  induction tds as [|td tds IH]; intros g; [reflexivity|]. cbn [build_types forallb].
  destruct (get_or_add_node _ _ _ _) as [g1 p].
  rewrite (is_ok_obind _ _ (forallb (type_valid m) tds)).
  - rewrite build_relations_valid. unfold type_valid. f_equal. apply forallb_perm. apply Permutation.Permutation_sym. apply SortFacts.stable_sort_perm.
  - intros g2 _. apply IH.
Qed.

(* THE BUILDER'S VERDICT: it rejects exactly the models with a dangling tuple-to-userset *)
Theorem wbuild_ok_iff_valid m : is_ok (wbuild m) = model_valid m.
Proof.
  unfold wbuild, model_valid. rewrite build_types_valid. apply forallb_perm. apply Permutation.Permutation_sym. apply SortFacts.stable_sort_perm.
Qed.

(* and when it rejects, it is never with a cycle error: cycles are found when weights are assigned *)
Theorem wbuild_errors_are_invalid_model m e : wbuild m = Err e -> exists why, e = WInvalidModel why.
Proof.
  assert (Httu : forall refs g p td ts cu e, parse_ttu_refs g p m td ts cu refs = Err e -> exists why, e = WInvalidModel why).
  { induction refs as [|r refs IH]; intros g p td ts cu e0 H; cbn in H; [discriminate|].
    destruct (negb (type_and_relation_exists m (rr_type r) cu)); [inversion H; eexists; reflexivity|].
    destruct (get_or_add_node _ _ _ _) as [g1 n]. eapply IH; eauto. }
  assert (Hrw : forall u td rel g p e, parse_rewrite g p m td rel u = Err e -> exists why, e = WInvalidModel why).
  { intros u td rel.
    assert (Hop : forall op cs, Forall (fun c => forall g p e, parse_rewrite g p m td rel c = Err e -> exists why, e = WInvalidModel why) cs ->
              forall g p e0,
              (let '(g1, opn) := op_node g op in
               let g2 := add_edge g1 (n_id p) (n_id opn) ERewrite [] in
               (fix children (g : wgraph) (opn : wnode) (cs : list userset) : outcome wgraph werr :=
                  match cs with
                  | [] => Ok g
                  | c :: r => obind (parse_rewrite g opn m td rel c) (fun g => children g opn r)
                  end) g2 opn cs) = Err e0 -> exists why, e0 = WInvalidModel why).
    { intros op cs Hcs g p e0. destruct (op_node g op) as [g1 opn]. generalize (add_edge g1 (n_id p) (n_id opn) ERewrite []).
      induction Hcs as [|c cs Hc _ IH]; intros g2 H; [discriminate|]. cbn [obind] in H.
      destruct (parse_rewrite g2 opn m td rel c) as [g3|e1|w] eqn:E; cbn [obind] in H; [eapply IH; eauto|inversion H; subst; eapply Hc; eauto|discriminate]. }
    induction u as [| r | rel0 | ts cu | cs IH | cs IH | b s IHb IHs] using userset_ind'; intros g p e0 H.
    - exact (Hop [] [] (Forall_nil _) g p e0 H).
    - discriminate.
    - discriminate.
    - cbn in H. unfold parse_ttu in H. destruct (assoc ts (td_meta_rels td)) as [rm|]; [|inversion H; eexists; reflexivity].
      destruct (rm_types rm) eqn:Er; [inversion H; eexists; reflexivity|]. eapply Httu; eauto.
    - exact (Hop (lit "union") cs IH g p e0 H).
    - exact (Hop (lit "intersection") cs IH g p e0 H).
    - refine (Hop (lit "exclusion") [b; s] _ g p e0 H). constructor; [exact IHb|constructor; [exact IHs|constructor]]. }
  assert (Hrel : forall names td g e, build_relations g m td names = Err e -> exists why, e = WInvalidModel why).
  { induction names as [|r names IH]; intros td g e0 H; cbn in H; [discriminate|]. destruct (get_or_add_node _ _ _ _) as [g1 p].
    destruct (parse_rewrite g1 p m td r _) as [g2|e1|w] eqn:E; cbn [obind] in H; [eapply IH; eauto|inversion H; subst; eapply Hrw; eauto|discriminate]. }
  assert (Hty : forall tds g e, build_types g m tds = Err e -> exists why, e = WInvalidModel why).
  { induction tds as [|td tds IH]; intros g e0 H; cbn in H; [discriminate|]. destruct (get_or_add_node _ _ _ _) as [g1 p].
    destruct (build_relations g1 m td _) as [g2|e1|w] eqn:E; cbn [obind] in H; [eapply IH; eauto|inversion H; subst; eapply Hrel; eauto|discriminate]. }
  unfold wbuild. apply Hty.
Qed.

(* Proofs/PrepassTidy.v — the pre-pass of ParseDSL (comment stripping, trailing blanks, closing line feeds) is the identity
   on a text made of tidy lines, apart from dropping the closing line feed. *)
From Coq Require Import Lia.
From Verif Require Import Base.Str Model.Token Model.Lexer.

Lemma split_aux_run l : forall t cur, ~ In 10 l -> split_on_aux 10 (l ++ t) cur = split_on_aux 10 t (rev l ++ cur).
Proof.
  induction l as [|x l IH]; intros t cur H; [reflexivity|]. cbn [app split_on_aux].
  destruct (N.eqb x 10) eqn:E; [apply N.eqb_eq in E; subst x; exfalso; apply H; left; reflexivity|].
  rewrite IH by (intros Hin; apply H; right; exact Hin). cbn [rev]. rewrite <- app_assoc. reflexivity.
Qed.

Lemma split_join lines : lines <> [] -> Forall (fun l => ~ In 10 l) lines -> split_on 10 (join [10] lines) = lines.
Proof.
  unfold split_on. induction lines as [|l lines IH]; intros Hne H; [contradiction|]. inversion H as [|? ? Hl Hls]; subst.
  destruct lines as [|l2 lines].
  - cbn [join]. rewrite <- (app_nil_r l) at 1. rewrite split_aux_run by exact Hl. cbn [split_on_aux]. rewrite app_nil_r, rev_involutive. reflexivity.
  - change (join [10] (l :: l2 :: lines)) with (l ++ [10] ++ join [10] (l2 :: lines)). rewrite split_aux_run by exact Hl.
    cbn [app split_on_aux]. change (N.eqb 10 10) with true. cbv iota. rewrite (app_nil_r (rev l)), rev_involutive. f_equal. apply IH; [discriminate|exact Hls].
Qed.

Lemma join_snoc_empty lines : lines <> [] -> join [10] (lines ++ [[]]) = join [10] lines ++ [10].
Proof.
  induction lines as [|l lines IH]; intros H; [contradiction|]. destruct lines as [|l2 lines]; [cbn; rewrite ?app_nil_r; reflexivity|].
  change ((l :: l2 :: lines) ++ [[]]) with (l :: ((l2 :: lines) ++ [[]])).
  change (join [10] (l :: (l2 :: lines) ++ [[]])) with (l ++ [10] ++ join [10] ((l2 :: lines) ++ [[]])).
  rewrite IH by discriminate. change (join [10] (l :: l2 :: lines)) with (l ++ [10] ++ join [10] (l2 :: lines)). rewrite <- !app_assoc. reflexivity.
Qed.

Lemma trim_right_keep p s : (match rev s with c :: _ => p c = false | [] => True end) -> trim_right p s = s.
Proof. unfold trim_right. intros H. destruct (rev s) as [|c r] eqn:E; [cbn; rewrite <- (rev_involutive s), E; reflexivity|]. cbn [trim_left]. rewrite H, <- E. apply rev_involutive. Qed.

Lemma trim_right_drop p s c : p c = true -> trim_right p (s ++ [c]) = trim_right p s.
Proof. intros H. unfold trim_right. rewrite rev_app_distr. cbn [rev app trim_left]. rewrite H. reflexivity. Qed.

(* a tidy line: the pre-pass leaves it alone *)
Definition tidy_line (l : str) : Prop := clean_line l = l /\ ~ In 10 l.

Theorem prepass_tidy lines :
  lines <> [] -> Forall tidy_line lines -> last lines [] <> [] ->
  prepass (join [10] lines ++ [10]) = join [10] lines.
Proof.
  intros Hne Hall Hlast. unfold prepass. rewrite <- (join_snoc_empty lines Hne).
  assert (Hno : Forall (fun l => ~ In 10 l) (lines ++ [[]])).
  { apply Forall_app. split; [eapply Forall_impl; [|exact Hall]; intros l [_ H]; exact H|constructor; [intros []|constructor]]. }
  pose proof (split_join (lines ++ [[]])) as Hs. unfold str in *. rewrite Hs; [|destruct lines; discriminate|exact Hno]. clear Hs.
  assert (Hclean : map clean_line (lines ++ [[]]) = lines ++ [[]]).
  { rewrite map_app. cbn [map]. f_equal. clear -Hall. induction Hall as [|l ls [Hl _] _ IH]; [reflexivity|]. cbn [map]. rewrite Hl, IH. reflexivity. }
  pose proof (join_snoc_empty lines Hne) as Hj. unfold str in *. rewrite Hclean, Hj, (trim_right_drop _ _ 10 eq_refl). clear Hj.
  apply trim_right_keep.
  (* the last character of the text is the last character of the last line, which is no line feed *)
  clear Hclean Hno. induction lines as [|l lines IH]; [contradiction|]. inversion Hall as [|? ? [_ Hl] Hls]; subst.
  destruct lines as [|l2 lines].
  - cbn [join last] in *. destruct (rev l) as [|c r] eqn:E; [apply (f_equal (@rev _)) in E; rewrite rev_involutive in E; contradiction|].
    destruct (c =? 10) eqn:Ec; [|reflexivity]. apply N.eqb_eq in Ec. subst c. exfalso. apply Hl. apply in_rev. rewrite E. left. reflexivity.
  - change (join [10] (l :: l2 :: lines)) with (l ++ [10] ++ join [10] (l2 :: lines)). rewrite !rev_app_distr.
    specialize (IH ltac:(discriminate) Hls Hlast). destruct (rev (join [10] (l2 :: lines))) as [|c r] eqn:E; [|exact IH].
    exfalso. apply (f_equal (@rev _)) in E. rewrite rev_involutive in E. cbn in E.
    (* join of a non-empty list whose last line is non-empty is non-empty *)
    clear -E Hlast. revert l2 E Hlast. induction lines as [|l3 lines IH]; intros l2 E Hlast; [cbn in *; contradiction|].
    change (join [10] (l2 :: l3 :: lines)) with (l2 ++ [10] ++ join [10] (l3 :: lines)) in E. destruct l2; discriminate E.
Qed.

(* Proofs/DagCheck.v — the decidable check of Spec/GraphWeights.v implies the hypotheses of the theorem on
   graphs without cycles, so that for a concrete graph they are discharged by evaluation. *)
From Verif Require Import Base.Str Base.Outcome Model.Ast Model.Printer Model.WGraph Model.WWeights
  Proofs.StrategyProofs Proofs.GraphPrims Spec.GraphWeights Proofs.DagWeights.

Lemma assoc_in {A} k (l : list (str * A)) v : assoc k l = Some v -> In (k, v) l.
Proof.
  induction l as [|[k0 v0] l IH]; simpl; [discriminate|].
  destruct (str_eqb_spec k k0) as [->|]; [intros H; inversion H; left; reflexivity|right; auto].
Qed.

Lemma edges_from_in g x e : In e (edges_from g x) -> exists l, In (x, l) (g_edges g) /\ In e l.
Proof.
  unfold edges_from. destruct (assoc x (g_edges g)) as [l|] eqn:E; [|intros []].
  intros H. exists l. split; [apply assoc_in; exact E|exact H].
Qed.

Lemma check_ranked_sound g l : check_ranked g l = true -> ranked_by g (rank_fn l).
Proof.
  unfold check_ranked. rewrite forallb_forall. intros H x e He.
  destruct (edges_from_in g x e He) as [es [H1 H2]]. specialize (H _ H1). cbn [fst snd] in H.
  rewrite forallb_forall in H. specialize (H e H2). apply andb_prop in H. destruct H as [Ha Hb].
  split; [apply str_eqb_eq; exact Ha|apply Nat.ltb_lt; exact Hb].
Qed.

Lemma check_terminals_sound g : check_terminals g = true -> terminals_not_placeholders g.
Proof.
  unfold check_terminals. rewrite forallb_forall. intros H x e He Ht.
  destruct (edges_from_in g x e He) as [es [H1 H2]]. specialize (H _ H1). cbn [snd] in H.
  rewrite forallb_forall in H. specialize (H e H2). cbv zeta in H. rewrite Ht in H. simpl in H.
  destruct (is_ref_key _); [discriminate|reflexivity].
Qed.

Lemma find_node_in id l n : find_node id l = Some n -> In n l.
Proof.
  induction l as [|y l IH]; simpl; [discriminate|].
  destruct (str_eqb (n_id y) id); [intros H; inversion H; left; reflexivity|right; auto].
Qed.

Lemma check_unweighted_sound g : check_unweighted g = true -> unweighted g.
Proof.
  unfold check_unweighted. intros H. apply andb_prop in H. destruct H as [H Hew]. apply andb_prop in H. destruct H as [H Hnw].
  apply andb_prop in H. destruct H as [Hn He]. rewrite forallb_forall in Hn, He, Hnw, Hew. split; [|split; [|split]].
  - intros x. unfold node_of. destruct (find_node x (g_nodes g)) as [n|] eqn:E; [|reflexivity].
    specialize (Hn n (find_node_in _ _ _ E)). destruct (n_weights n); [reflexivity|discriminate].
  - intros x e Hin. destruct (edges_from_in g x e Hin) as [es [H1 H2]]. specialize (He _ H1). cbn [snd] in He.
    rewrite forallb_forall in He. specialize (He e H2). destruct (e_weights e); [reflexivity|discriminate].
  - intros x. unfold node_of. destruct (find_node x (g_nodes g)) as [n|] eqn:E; [|reflexivity].
    intros Hnt. specialize (Hnw n (find_node_in _ _ _ E)). rewrite Hnt in Hnw. simpl in Hnw.
    destruct (n_wild n); [reflexivity|discriminate].
  - intros x e Hin. destruct (edges_from_in g x e Hin) as [es [H1 H2]]. specialize (Hew _ H1). cbn [snd] in Hew.
    rewrite forallb_forall in Hew. specialize (Hew e H2). destruct (e_wild e); [reflexivity|discriminate].
Qed.

(* the theorem with its hypotheses discharged by evaluation *)
Definition gs_of (g : wgraph) (x : str) : wmap := gs g (rank_fn (heights g)) x.

Theorem checked_dag_weights g order g' :
  dag_check g = true -> assign_weights order g = Ok g' ->
  forall x, In x order -> is_terminal (n_type (node_of g x)) = false -> n_weights (node_of g' x) = gs_of g x.
Proof.
  unfold dag_check. intros H Ha x Hx Hnt. apply andb_prop in H. destruct H as [H H3]. apply andb_prop in H. destruct H as [H1 H2].
  apply (dag_weights g (rank_fn (heights g)) order g' (check_ranked_sound _ _ H1) (check_terminals_sound _ H2)
                     (check_unweighted_sound _ H3) Ha x Hx Hnt).
Qed.

Theorem checked_dag_order_independent g o1 o2 g1 g2 :
  dag_check g = true -> assign_weights o1 g = Ok g1 -> assign_weights o2 g = Ok g2 ->
  forall x, In x o1 -> In x o2 -> is_terminal (n_type (node_of g x)) = false ->
    n_weights (node_of g1 x) = n_weights (node_of g2 x).
Proof.
  intros H H1 H2 x Hx1 Hx2 Hnt.
  rewrite (checked_dag_weights g o1 g1 H H1 x Hx1 Hnt), (checked_dag_weights g o2 g2 H H2 x Hx2 Hnt). reflexivity.
Qed.

Lemma gs_of_is_spec_weights g x : gs_of g x = spec_weights g x.
Proof. reflexivity. Qed.

Theorem checked_dag_wildcards g order g' :
  dag_check g = true -> assign_weights order g = Ok g' ->
  forall x, In x order -> is_terminal (n_type (node_of g x)) = false ->
  forall T, In T (n_wild (node_of g' x)) <-> reaches_wild g x T.
Proof.
  unfold dag_check. intros H Ha x Hx Hnt. apply andb_prop in H. destruct H as [H H3]. apply andb_prop in H. destruct H as [H1 H2].
  apply (dag_wildcards g (rank_fn (heights g)) order g' (check_ranked_sound _ _ H1) (check_terminals_sound _ H2)
                       (check_unweighted_sound _ H3) Ha x Hx Hnt).
Qed.

(* the executable specification lists exactly the reachable public types *)
Lemma spec_wildcards_reaches g x T :
  dag_check g = true -> (In T (spec_wildcards g x) <-> reaches_wild g x T).
Proof.
  unfold dag_check. intros H. apply andb_prop in H. destruct H as [H _]. apply andb_prop in H. destruct H as [H1 _].
  apply (wsx_reaches g (rank_fn (heights g)) (check_ranked_sound _ _ H1) (S (rank_fn (heights g) x)) x T). lia.
Qed.

(* ---- from the model: Build = builder, then AssignWeights ---- *)
Definition order_used (o : option (list str)) (g : wgraph) : list str :=
  match o with Some l => l | None => default_order g end.

Theorem acyclic_model_weights m g o g' :
  wbuild m = Ok g -> dag_check g = true -> build_weighted o m = Ok g' ->
  forall x, In x (order_used o g) -> is_terminal (n_type (node_of g x)) = false ->
    n_weights (node_of g' x) = spec_weights g x.
Proof.
  intros Hb Hc H x Hx Hnt. unfold build_weighted in H. rewrite Hb in H. cbn [obind] in H.
  rewrite <- gs_of_is_spec_weights. eapply checked_dag_weights; eauto.
Qed.

Theorem acyclic_model_wildcards m g o g' :
  wbuild m = Ok g -> dag_check g = true -> build_weighted o m = Ok g' ->
  forall x, In x (order_used o g) -> is_terminal (n_type (node_of g x)) = false ->
  forall T, (In T (n_wild (node_of g' x)) <-> reaches_wild g x T) /\ (In T (n_wild (node_of g' x)) <-> In T (spec_wildcards g x)).
Proof.
  intros Hb Hc H x Hx Hnt T. unfold build_weighted in H. rewrite Hb in H. cbn [obind] in H.
  assert (H1 := checked_dag_wildcards g _ g' Hc H x Hx Hnt T). split; [exact H1|].
  rewrite H1. symmetry. apply spec_wildcards_reaches. exact Hc.
Qed.

Theorem acyclic_model_order_independent m g o1 o2 g1 g2 :
  wbuild m = Ok g -> dag_check g = true ->
  build_weighted o1 m = Ok g1 -> build_weighted o2 m = Ok g2 ->
  forall x, In x (order_used o1 g) -> In x (order_used o2 g) -> is_terminal (n_type (node_of g x)) = false ->
    n_weights (node_of g1 x) = n_weights (node_of g2 x).
Proof.
  intros Hb Hc H1 H2 x Hx1 Hx2 Hnt.
  rewrite (acyclic_model_weights m g o1 g1 Hb Hc H1 x Hx1 Hnt), (acyclic_model_weights m g o2 g2 Hb Hc H2 x Hx2 Hnt). reflexivity.
Qed.

(* ---- the domain is inhabited, and the refutation witnesses lie outside it ---- *)
From Verif Require Import Proofs.Witnesses.

Definition in_dag_domain (m : model) : bool :=
  match wbuild m with Ok g => dag_check g | _ => false end.

Lemma m_good_in_domain : in_dag_domain m_good = true /\ is_ok (build_weighted None m_good) = true.
Proof. split; vm_compute; reflexivity. Qed.

(* the graph-level specification and the model-level definition of Spec/Weights.v agree on the example *)
Lemma m_good_graph_spec_is_model_spec :
  match wbuild m_good with
  | Ok g => forallb (fun tr => Spec.Weights.dmap_eqb (spec_weights g (fst tr ++ lit "#" ++ snd tr)) (Spec.Weights.spec_of m_good (fst tr) (snd tr)))
                    (relations_of m_good)
  | _ => false
  end = true.
Proof. vm_compute. reflexivity. Qed.

Lemma m_order_outside_domain : in_dag_domain m_order = false.
Proof. vm_compute. reflexivity. Qed.
Lemma m_empty_outside_domain : in_dag_domain m_empty = false.
Proof. vm_compute. reflexivity. Qed.

(* ---- acceptance (C05) with the hypotheses discharged by evaluation ---- *)
Lemma rank_fn_bound l n x : forallb (fun p : str * nat => (snd p <=? n)%nat) l = true -> (rank_fn l x <= n)%nat.
Proof.
  intros H. unfold rank_fn. destruct (assoc x l) as [v|] eqn:E; [|lia].
  rewrite forallb_forall in H. specialize (H (x, v) (assoc_in _ _ _ E)). apply Nat.leb_le in H. exact H.
Qed.

Theorem checked_dag_accepts g order :
  dag_check g = true -> fuel_check g = true ->
  (is_ok (assign_weights order g) = true <-> forallb (spec_accepts g) order = true).
Proof.
  unfold dag_check. intros H Hf. apply andb_prop in H. destruct H as [H H3]. apply andb_prop in H. destruct H as [H1 H2].
  assert (Hiff := dag_accepts_iff g (rank_fn (heights g)) order (check_ranked_sound _ _ H1) (check_terminals_sound _ H2)
                                  (check_unweighted_sound _ H3)).
  assert (Hfuel : forall x, In x order -> (2 * rank_fn (heights g) x + 1 <= 2 * length (g_nodes g) + 2)%nat).
  { intros x _. pose proof (rank_fn_bound (heights g) (length (g_nodes g)) x Hf). lia. }
  specialize (Hiff Hfuel). rewrite forallb_forall. split.
  - intros Hok. destruct (assign_weights order g) as [g'| |] eqn:E; try discriminate.
    intros x Hx. unfold spec_accepts. destruct (proj1 Hiff (ex_intro _ g' eq_refl) x Hx) as [Ht|Ha]; [rewrite Ht; reflexivity|].
    unfold acc in Ha. rewrite Ha. apply orb_true_r.
  - intros Hall. destruct (proj2 Hiff) as [g' ->]; [|reflexivity].
    intros x Hx. specialize (Hall x Hx). unfold spec_accepts in Hall. apply orb_prop in Hall. destruct Hall as [Ht|Ha]; [left; exact Ht|right; exact Ha].
Qed.

Theorem acyclic_model_accepts m g o :
  wbuild m = Ok g -> dag_check g = true -> fuel_check g = true ->
  (is_ok (build_weighted o m) = true <-> forallb (spec_accepts g) (order_used o g) = true).
Proof.
  intros Hb Hc Hf. unfold build_weighted. rewrite Hb. cbn [obind]. apply checked_dag_accepts; assumption.
Qed.

Lemma m_good_accepted_by_spec :
  match wbuild m_good with Ok g => fuel_check g && forallb (spec_accepts g) (default_order g) | _ => false end = true.
Proof. vm_compute. reflexivity. Qed.

(* Proofs/MergeModules.v — module attribution (C07): which declarations of a parsed module file are definitions and
   which are extensions, which module name the listener records on each, and what utils.GetModuleForObjectTypeRelation
   ([module_for_relation]) answers on the merged model: for every relation, the module named in the header of the
   file that declared it — the defining file for a relation of the definition, the extending file for a relation
   added by an extension. *)
From Coq Require Import Permutation.
From Verif Require Import Base.Str Base.Outcome Model.Ast Model.Token Model.Lexer Model.Parser Model.Listener Model.Printer
  Model.Transform Model.LineNumbers Model.Merge Spec.Sem Spec.MergeSpec Spec.MergeObs
  Proofs.ListenerSem Proofs.ListenerFile Proofs.ParserShape Proofs.ParserTokens Proofs.SortFacts
  Proofs.MergeProofs Proofs.MergeIff Proofs.MergeContent Proofs.MergeWf.

(* the module named in the header of the file: read off the parse tree, before any listener runs *)
Definition file_module (f : mfile) : str :=
  match parse (fst (lex (prepass (mf_text f)))) with
  | Some ft => header_module (f_header ft)
  | None => []
  end.

(* ---------------------------------------------------------------------------------------- *)
(* 1. the extension table the listener builds                                                *)
(* ---------------------------------------------------------------------------------------- *)
Fixpoint sem_exts (modular : bool) (module_ : str) (i : nat) (ts : list typedecl) : list (str * (nat * typedef)) :=
  match ts with
  | [] => []
  | t :: r => (if ty_extend t then [(tname t, (i, sem_type modular module_ t))] else []) ++ sem_exts modular module_ (S i) r
  end.

Lemma walk_typedecls_exts ts :
  Forall (fun t => Forall (fun r => wf_rdef (rl_def r) = true) (ty_rels t)) ts ->
  Forall (fun t => NoDup (map rname (ty_rels t))) ts ->
  Forall (fun t => tname t <> []) ts ->
  NoDup (map tname (filter ty_extend ts)) ->
  forall s s',
  (forall t, In t ts -> ty_extend t = true -> ls_modular s = true /\ ls_ext_alloc s = true /\ assoc (tname t) (ls_exts s) = None) ->
  walk_typedecls ts s = Ok s' ->
  ls_exts s' = ls_exts s ++ sem_exts (ls_modular s) (ls_module s) (length (ls_types s)) ts.
Proof.
  induction ts as [|t ts IH]; intros Hwf Hnd Hname Hext s s' Hs Hw.
  - cbn in Hw. inversion Hw; subst. cbn. rewrite app_nil_r. reflexivity.
  - inversion Hwf as [|? ? W1 W2]; subst. inversion Hnd as [|? ? N1 N2]; subst. inversion Hname as [|? ? M1 M2]; subst.
    cbn [walk_typedecls] in Hw.
    rewrite (walk_typedecl_sem t s) in Hw; auto; [|intros He; apply Hs; auto; left; reflexivity].
    cbn [obind] in Hw.
    assert (Hext' : NoDup (map tname (filter ty_extend ts))).
    { simpl in Hext. destruct (ty_extend t); [inversion Hext; auto|exact Hext]. }
    rewrite (IH W2 N2 M2 Hext' (after_type s t) s'); [| |exact Hw].
    + cbn [after_type ls_exts ls_modular ls_module ls_types sem_exts]. rewrite app_length. cbn [length]. rewrite Nat.add_1_r.
      destruct (ty_extend t); [rewrite <- app_assoc; reflexivity|reflexivity].
    + intros t' Hin He'. destruct (Hs t' (or_intror Hin) He') as [Hm [Ha Hx]]. cbn [after_type ls_modular ls_ext_alloc ls_exts].
      repeat split; auto.
      destruct (ty_extend t) eqn:Et0; [|exact Hx].
      apply assoc_app_single_none; auto.
      simpl in Hext. rewrite Et0 in Hext. inversion Hext as [|? ? Hnotin _]; subst.
      intros E. apply Hnotin. rewrite <- E. apply in_map. apply filter_In. split; auto.
Qed.

Lemma walk_conddecls_exts cs : forall s, ls_exts (fold_left (fun s c => walk_conddecl c s) cs s) = ls_exts s.
Proof.
  induction cs as [|c cs IH]; intros s; [reflexivity|]. cbn [fold_left]. rewrite IH.
  unfold walk_conddecl. cbv zeta. destruct (walk_params _ _ _ _) as [ps es].
  destruct (assoc (ttext (cd_name c)) (ls_conds s)); reflexivity.
Qed.

Lemma walk_exts f s :
  wf_file f -> distinct_decls f -> walk f = Ok s ->
  ls_exts s = sem_exts (header_modular (f_header f)) (header_module (f_header f)) 0 (f_types f).
Proof.
  intros Hwf [Hrel [Hcond [Hpar [Hext [Hext2 Hname]]]]] Hw. unfold walk in Hw.
  assert (Hs0 : forall t, In t (f_types f) -> ty_extend t = true ->
                ls_modular (init_lstate (f_header f)) = true /\ ls_ext_alloc (init_lstate (f_header f)) = true /\
                assoc (tname t) (ls_exts (init_lstate (f_header f))) = None).
  { intros t Hin He. destruct (f_header f) as [v|n] eqn:Eh; simpl.
    - exfalso. specialize (Hext eq_refl). rewrite Forall_forall in Hext. rewrite (Hext t Hin) in He. discriminate.
    - repeat split; reflexivity. }
  destruct (walk_typedecls (f_types f) (init_lstate (f_header f))) as [s1| |] eqn:Ew; try discriminate Hw.
  cbn [obind] in Hw. inversion Hw; subst s. rewrite walk_conddecls_exts.
  rewrite (walk_typedecls_exts (f_types f) Hwf Hrel Hname Hext2 _ _ Hs0 Ew).
  destruct (f_header f); reflexivity.
Qed.

Lemma assoc_app_some {A} k (l l' : list (str * A)) v : assoc k l = Some v -> assoc k (l ++ l') = Some v.
Proof. induction l as [|[k0 v0] l IH]; cbn; [discriminate|]. destruct (str_eqb k k0); [auto|exact IH]. Qed.

(* looking a name up in the table *)
Lemma sem_exts_assoc_none modular module_ n : forall ts i,
  ~ In n (map tname (filter ty_extend ts)) -> assoc n (sem_exts modular module_ i ts) = None.
Proof.
  induction ts as [|t ts IH]; intros i H; [reflexivity|]. cbn [sem_exts]. cbn [filter] in H.
  destruct (ty_extend t) eqn:Et.
  - cbn [app assoc]. destruct (str_eqb_spec n (tname t)) as [->|Hne]; [exfalso; apply H; left; reflexivity|].
    apply IH. intros X. apply H. right. exact X.
  - cbn [app]. apply IH. exact H.
Qed.

(* with distinct extension names: an entry of the list of declarations is filed as an extension exactly when it is
   one *)
Lemma is_ext_sem modular module_ : forall ts i,
  NoDup (map tname (filter ty_extend ts)) ->
  forall (pre : list (str * (nat * typedef))),
  (forall t, In t ts -> ty_extend t = true -> assoc (tname t) pre = None) ->
  (forall n j td, assoc n pre = Some (j, td) -> (j < i)%nat) ->
  ct_defs (pre ++ sem_exts modular module_ i ts) (map (sem_type modular module_) ts) i =
    map (sem_type modular module_) (filter (fun t => negb (ty_extend t)) ts) /\
  ct_exts (pre ++ sem_exts modular module_ i ts) (map (sem_type modular module_) ts) i =
    map (sem_type modular module_) (filter ty_extend ts).
Proof.
  induction ts as [|t ts IH]; intros i Hnd pre Hpre Hlt; [split; reflexivity|].
  cbn [map ct_defs ct_exts filter sem_exts].
  assert (Hname : td_name (sem_type modular module_ t) = tname t) by reflexivity.
  destruct (ty_extend t) eqn:Et.
  - cbn [filter] in Hnd. rewrite Et in Hnd. inversion Hnd as [|? ? Hnotin Hnd']; subst.
    assert (His : is_ext (pre ++ [(tname t, (i, sem_type modular module_ t))] ++ sem_exts modular module_ (S i) ts) i (sem_type modular module_ t) = true).
    { unfold is_ext. rewrite Hname. rewrite assoc_app_none by (apply Hpre; [left; reflexivity|exact Et]).
      cbn [app assoc]. rewrite str_eqb_refl. apply Nat.eqb_refl. }
    rewrite His. cbn [negb].
    destruct (IH (S i) Hnd' (pre ++ [(tname t, (i, sem_type modular module_ t))])) as [I1 I2].
    + intros t' Hin He'. apply assoc_app_single_none; [apply Hpre; [right; exact Hin|exact He']|].
      intros E. apply Hnotin. rewrite <- E. apply in_map. apply filter_In. split; assumption.
    + intros n j td Ha. destruct (assoc n pre) as [[j0 td0]|] eqn:Ep.
      * rewrite (assoc_app_some _ _ _ _ Ep) in Ha. inversion Ha; subst. specialize (Hlt n j td Ep). lia.
      * rewrite assoc_app_none in Ha by exact Ep. cbn [assoc] in Ha. destruct (str_eqb n (tname t)); [|discriminate].
        inversion Ha; subst. lia.
    + rewrite <- app_assoc in I1, I2. cbn [map]. rewrite I1, I2. split; reflexivity.
  - cbn [filter] in Hnd. rewrite Et in Hnd. cbn [app negb].
    assert (His : is_ext (pre ++ sem_exts modular module_ (S i) ts) i (sem_type modular module_ t) = false).
    { unfold is_ext. rewrite Hname. destruct (assoc (tname t) (pre ++ sem_exts modular module_ (S i) ts)) as [[j td]|] eqn:Ea; [|reflexivity].
      apply Nat.eqb_neq. destruct (assoc (tname t) pre) as [[j0 td0]|] eqn:Ep.
      - rewrite (assoc_app_some _ _ _ _ Ep) in Ea. inversion Ea; subst. specialize (Hlt _ _ _ Ep). lia.
      - rewrite assoc_app_none in Ea by exact Ep.
        assert (G : forall ts i n j td, assoc n (sem_exts modular module_ i ts) = Some (j, td) -> (i <= j)%nat).
        { clear. induction ts as [|t ts IH]; intros i n j td H; [discriminate|]. cbn [sem_exts] in H.
          destruct (ty_extend t).
          - cbn [app assoc] in H. destruct (str_eqb n (tname t)); [inversion H; lia|]. apply IH in H. lia.
          - cbn [app] in H. apply IH in H. lia. }
        apply G in Ea. lia. }
    rewrite His.
    destruct (IH (S i) Hnd pre) as [I1 I2].
    + intros t' Hin He'. apply Hpre; [right; exact Hin|exact He'].
    + intros n j td Ha. specialize (Hlt n j td Ha). lia.
    + cbn [map]. rewrite I1, I2. split; reflexivity.
Qed.

(* ---------------------------------------------------------------------------------------- *)
(* 2. a parsed module file, declaration by declaration                                       *)
(* ---------------------------------------------------------------------------------------- *)
Theorem parsed_module_shape f m exts :
  module_of f = Some (m, exts) ->
  exists ft, file_module f <> [] /\
    file_defs f = map (sem_type true (file_module f)) (filter (fun t => negb (ty_extend t)) (f_types ft)) /\
    file_exts f = map (sem_type true (file_module f)) (filter ty_extend (f_types ft)) /\
    m_conds m = map (sem_cond true (file_module f)) (f_conds ft).
Proof.
  intros Hmod. unfold file_defs, file_exts. rewrite Hmod. unfold module_of in Hmod.
  destruct (dsl_to_model (mf_text f)) as [m0 exts0 md| | |] eqn:E; try discriminate.
  destruct (is_empty (m_schema m0)) eqn:Es; [|discriminate]. inversion Hmod; subst m0 exts0. clear Hmod.
  unfold dsl_to_model in E. destruct (lex (prepass (mf_text f))) as [ts es] eqn:El. destruct es; [|discriminate].
  unfold parse_walk in E. destruct (parse ts) as [ft|] eqn:Ep; [|discriminate].
  destruct (walk ft) as [s| |] eqn:Ew; try discriminate. destruct (ls_errs s) eqn:Ee; [|discriminate].
  inversion E; subst m exts md. clear E.
  assert (Hn := accepted_names_nonempty (prepass (mf_text f)) ft). rewrite El in Hn. cbn [fst] in Hn. destruct (Hn Ep) as [Hh Ht].
  pose proof (parse_wf ts ft Ep) as Hwf.
  assert (Hd : distinct_decls ft) by (apply (walk_accepts_only_distinct ft s Hwf Ht Ew Ee)).
  destruct (walk_is_sem ft Hwf Hd) as (s' & Ew' & _ & Em). rewrite Ew in Ew'. inversion Ew'; subst s'.
  pose proof (walk_exts ft s Hwf Hd Ew) as Ex.
  assert (Hfm : file_module f = header_module (f_header ft)) by (unfold file_module; rewrite El; cbn [fst]; rewrite Ep; reflexivity).
  assert (Hmodular : header_modular (f_header ft) = true).
  { rewrite Em in Es. unfold sem_file in Es. cbn [m_schema] in Es. destruct (f_header ft) as [v|n]; [|reflexivity].
    cbn in Es, Hh. destruct (ttext v); [contradiction|discriminate]. }
  exists ft. split.
  - rewrite Hfm. destruct (f_header ft) as [v|n]; [discriminate Hmodular|exact Hh].
  - rewrite Em, Ex, Hfm, Hmodular. unfold sem_file. cbn [m_types m_conds]. rewrite Hmodular.
    destruct Hd as (_ & _ & _ & _ & Hext2 & _).
    destruct (is_ext_sem true (header_module (f_header ft)) (f_types ft) 0 Hext2 []) as [I1 I2];
      [intros; reflexivity|intros n j td H0; discriminate H0|].
    cbn [app] in I1, I2. rewrite I1, I2. repeat split; reflexivity.
Qed.

(* what the listener records: a definition carries the file's module and its relations none of their own; the
   relations of an extension carry the file's module; so do the conditions *)
Theorem parsed_module_attribution f m exts :
  module_of f = Some (m, exts) ->
  file_module f <> [] /\
  Forall (fun td => td_module td = file_module f /\ forall r rm, assoc r (td_meta_rels td) = Some rm -> rm_module rm = []) (file_defs f) /\
  Forall (fun td => forall r rm, assoc r (td_meta_rels td) = Some rm -> rm_module rm = file_module f) (file_exts f) /\
  Forall (fun p : str * condition => option_map cm_module (c_meta (snd p)) = Some (file_module f)) (file_conds f).
Proof.
  intros Hmod. destruct (parsed_module_shape f m exts Hmod) as (ft & Hne & Hd & Hx & Hc).
  split; [exact Hne|]. rewrite Hd, Hx. unfold file_conds. rewrite Hmod, Hc.
  assert (Hmeta : forall t r rm, assoc r (td_meta_rels (sem_type true (file_module f) t)) = Some rm ->
                  rm_module rm = if ty_extend t then file_module f else []).
  { intros t r rm H. unfold td_meta_rels, sem_type in H. cbn [td_meta tm_rels] in H.
    induction (ty_rels t) as [|x l IH]; [discriminate H|]. cbn [map assoc] in H.
    destruct (str_eqb r (ttext (rl_name x))); [inversion H; subst; cbn; reflexivity|exact (IH H)]. }
  split; [|split].
  - apply Forall_forall. intros td Hin. apply in_map_iff in Hin. destruct Hin as [t [<- Ht]].
    apply filter_In in Ht. destruct Ht as [_ Ht]. split; [reflexivity|]. intros r rm H. rewrite (Hmeta t r rm H).
    destruct (ty_extend t); [discriminate Ht|reflexivity].
  - apply Forall_forall. intros td Hin. apply in_map_iff in Hin. destruct Hin as [t [<- Ht]].
    apply filter_In in Ht. destruct Ht as [_ Ht]. intros r rm H. rewrite (Hmeta t r rm H), Ht. reflexivity.
  - apply Forall_forall. intros p Hin. apply (Permutation_in p (Permutation_sym (stable_sort_perm _ _))) in Hin.
    apply in_map_iff in Hin. destruct Hin as [c [<- _]]. reflexivity.
Qed.

(* ---------------------------------------------------------------------------------------- *)
(* 3. GetModuleForObjectTypeRelation on the merged model                                     *)
(* ---------------------------------------------------------------------------------------- *)
Lemma file_defs_module_of f td : In td (file_defs f) -> exists m exts, module_of f = Some (m, exts).
Proof. unfold file_defs. destruct (module_of f) as [[m exts]|]; [eauto|intros []]. Qed.
Lemma file_exts_module_of f td : In td (file_exts f) -> exists m exts, module_of f = Some (m, exts).
Proof. unfold file_exts. destruct (module_of f) as [[m exts]|]; [eauto|intros []]. Qed.

Theorem merge_module_attribution fs v m :
  NoDup (map mf_name fs) -> merge fs v = Ok m ->
  (* a relation is attributed to the module of the file that declared it *)
  (forall f td r u, In f fs -> In td (file_defs f ++ file_exts f) -> assoc r (td_rels td) = Some u ->
     exists t, tfind (m_types m) (td_name td) = Some t /\ module_for_relation t r = Some (file_module f)) /\
  (* a type to the module and file that defined it *)
  (forall f td, In f fs -> In td (file_defs f) -> type_attr (m_types m) (td_name td) = Some (file_module f, mf_name f)) /\
  (* a relation added by an extension carries the extending file *)
  (forall f td r u, In f fs -> In td (file_exts f) -> assoc r (td_rels td) = Some u ->
     option_map rm_file (rel_attr (m_types m) (td_name td) r) = Some (Some (mf_name f))).
Proof.
  intros Hnd Hm. pose proof (wf_modules_of_parsed fs Hnd) as Hwf.
  destruct (merge_content fs v m Hwf Hm) as (D & X & TA & _).
  assert (Htype : forall f td, In f fs -> In td (file_defs f) -> type_attr (m_types m) (td_name td) = Some (file_module f, mf_name f)).
  { intros f td Hf Htd. rewrite (TA f td Hf Htd). destruct (file_defs_module_of f td Htd) as (m0 & exts0 & Hmod).
    destruct (parsed_module_attribution f m0 exts0 Hmod) as (_ & Fd & _ & _). rewrite Forall_forall in Fd.
    destruct (Fd td Htd) as [E _]. rewrite E. reflexivity. }
  split; [|split; [exact Htype|]].
  - intros f td r u Hf Htd Hu. apply in_app_or in Htd. destruct Htd as [Htd|Htd].
    + destruct (D f td r u Hf Htd Hu) as [Hb Ha]. pose proof (Htype f td Hf Htd) as Hty.
      unfold rel_body, rel_attr, type_attr in *. destruct (tfind (m_types m) (td_name td)) as [t|]; [|discriminate Hb].
      exists t. split; [reflexivity|]. unfold module_for_relation. rewrite Hb, Ha. inversion Hty as [[Hmod' Hfile']].
      destruct (file_defs_module_of f td Htd) as (m0 & exts0 & Hmod).
      destruct (parsed_module_attribution f m0 exts0 Hmod) as (_ & Fd & _ & _). rewrite Forall_forall in Fd.
      destruct (Fd td Htd) as [_ Erm].
      destruct (assoc r (td_meta_rels td)) as [rm|] eqn:Em; [|rewrite Hmod'; reflexivity].
      rewrite (Erm r rm Em). cbn. rewrite Hmod'. reflexivity.
    + destruct (X f td r u Hf Htd Hu) as [Hb Ha].
      unfold rel_body, rel_attr in *. destruct (tfind (m_types m) (td_name td)) as [t|]; [|discriminate Hb].
      exists t. split; [reflexivity|]. unfold module_for_relation. rewrite Hb, Ha.
      destruct (file_exts_module_of f td Htd) as (m0 & exts0 & Hmod).
      destruct (parsed_module_attribution f m0 exts0 Hmod) as (Hne & _ & Fx & _). rewrite Forall_forall in Fx.
      pose proof (wf_ext_meta _ Hwf) as W. rewrite Forall_forall in W.
      destruct (W td (in_exts_of fs f td Hf Htd) r (assoc_some_key r u _ Hu)) as [W1 _].
      destruct (assoc r (td_meta_rels td)) as [rm|] eqn:Em; [|contradiction].
      cbn [option_map with_rel_file rm_module]. rewrite (Fx td Htd r rm Em).
      destruct (file_module f) eqn:Efm; [contradiction|reflexivity].
  - intros f td r u Hf Htd Hu. destruct (X f td r u Hf Htd Hu) as [_ Ha]. rewrite Ha.
    pose proof (wf_ext_meta _ Hwf) as W. rewrite Forall_forall in W.
    destruct (W td (in_exts_of fs f td Hf Htd) r (assoc_some_key r u _ Hu)) as [W1 _].
    destruct (assoc r (td_meta_rels td)) as [rm|]; [reflexivity|contradiction].
Qed.

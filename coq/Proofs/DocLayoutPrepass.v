(* Proofs/DocLayoutPrepass.v — in the canonical tokens of a document '#' only follows a name (a property of the token kinds,
   hence of every re-layout), so the pre-pass leaves every layout alone whose line breaks have no blank in front of a line
   feed (Proofs/LayoutPrepass.v); with Proofs/DocRoundTrip.every_layout_accepted: such a layout, followed by a line feed, is
   accepted and yields exactly the model written — no hypothesis about the pre-pass left. *)
From Coq Require Import Lia.
From Verif Require Import Spec.DocDomain Base.Str Base.Outcome Model.Ast Model.Token Model.Lexer Model.Parser Model.Transform Spec.Sem Spec.Normalize
  Proofs.ListenerSem Proofs.ParserComplete Proofs.LexInversion Proofs.LexRender Proofs.DeclRoundTrip Proofs.DocParse Proofs.DocChars Proofs.DocSem
  Proofs.PrepassText Proofs.LayoutPrepass Proofs.DocPrint Proofs.DocRoundTrip Proofs.DocDomainOk.

(* a piece of a token list after which, and in front of which, anything may stand *)
Definition good (X : list tok) : Prop := forall p, hscan p (map tk X) = true.

Lemma hscan_app_good a b : (forall p, hscan p b = true) -> forall p, hscan p a = true -> hscan p (a ++ b) = true.
Proof.
  intros Hb. induction a as [|k a IH]; intros p Ha; [apply Hb|]. cbn [app hscan] in *. apply andb_prop in Ha. destruct Ha as [H1 H2].
  rewrite H1, (IH k H2). reflexivity.
Qed.

Lemma good_nil : good [].
Proof. intros p. reflexivity. Qed.
Lemma good_app a b : good a -> good b -> good (a ++ b).
Proof. intros Ha Hb p. rewrite map_app. apply hscan_app_good; [exact Hb|apply Ha]. Qed.
Lemma good_one t : tk_eqb (tk t) HASH = false -> good [t].
Proof. intros H p. cbn. rewrite H. reflexivity. Qed.
Lemma good_cons t X : tk_eqb (tk t) HASH = false -> good X -> good (t :: X).
Proof. intros H HX. apply (good_app [t] X); [apply good_one; exact H|exact HX]. Qed.
Lemma name_kind t : name_ok t -> tk t = IDENTIFIER.
Proof. intros [H _]. rewrite H. reflexivity. Qed.
Lemma good_name t : name_ok t -> good [t].
Proof. intros H. apply good_one. rewrite (name_kind t H). reflexivity. Qed.

Lemma good_restr r : restr_lex_ok r -> good (toks_restr r).
Proof.
  intros (Ht & Hk & Hc). unfold toks_restr.
  assert (Hcond : good (match rs_cond r with Some c => [mk WHITESPACE; mk KEYWORD_WITH; mk WHITESPACE; c] | None => [] end)).
  { destruct (rs_cond r) as [c|]; [|apply good_nil]. do 3 (apply good_cons; [reflexivity|]). apply good_name. exact Hc. }
  change (rs_type r :: ?A ++ ?B) with ((rs_type r :: A) ++ B). apply good_app; [|exact Hcond].
  destruct (rs_kind r) as [| |t].
  - apply good_name. exact Ht.
  - apply good_cons; [rewrite (name_kind _ Ht); reflexivity|]. apply good_cons; [reflexivity|]. apply good_one. reflexivity.
  - intros p. cbn [map hscan]. rewrite (name_kind _ Ht), (name_kind _ Hk). reflexivity.
Qed.

Lemma good_restrs_more rs : Forall restr_lex_ok rs -> good (toks_restrs_more rs).
Proof.
  induction 1 as [|r rs Hr _ IH]; cbn [toks_restrs_more]; [apply good_one; reflexivity|].
  do 2 (apply good_cons; [reflexivity|]). apply good_app; [apply good_restr; exact Hr|exact IH].
Qed.

Lemma good_direct rs : Forall restr_lex_ok rs -> good (toks_direct rs).
Proof.
  intros H. destruct rs as [|r rs]; cbn [toks_direct]; [apply good_cons; [reflexivity|apply good_one; reflexivity]|].
  inversion H as [|? ? Hr Hrs]; subst. apply good_cons; [reflexivity|]. apply good_app; [apply good_restr; exact Hr|apply good_restrs_more; exact Hrs].
Qed.

Lemma optok_not_hash op : tk_eqb (optok op) HASH = false.
Proof. destruct op; reflexivity. Qed.

Lemma good_partials op es : Forall (fun e => lex_ok e -> good (toks_elem e)) es -> lex_ok_all es -> good (toks_partials op es).
Proof.
  induction 1 as [|x es Hx _ IH]; intros Hok; cbn [toks_partials]; [apply good_nil|]. cbn [lex_ok_all] in Hok. destruct Hok as [H1 H2].
  apply good_cons; [reflexivity|]. apply good_cons; [apply optok_not_hash|]. apply good_cons; [reflexivity|].
  apply good_app; [apply Hx; exact H1|apply IH; exact H2].
Qed.

Lemma good_elem e : lex_ok e -> good (toks_elem e).
Proof.
  induction e as [rs|cu ts|nd first op rest IHf IHr] using relem_ind'; intros Hok.
  - cbn [toks_elem]. apply good_direct. exact Hok.
  - cbn [lex_ok] in Hok. destruct Hok as [Hcu Hts]. destruct ts as [t|]; cbn [toks_elem].
    + apply (good_app [cu]); [apply good_name; exact Hcu|]. do 3 (apply good_cons; [reflexivity|]). apply good_name. exact Hts.
    + apply good_name. exact Hcu.
  - destruct (proj1 (lex_ok_group _ _ _ _) Hok) as (Hf & Hr & _). rewrite toks_elem_group. unfold toks_def.
    apply good_cons; [reflexivity|]. apply good_app; [|apply good_one; reflexivity].
    apply good_app; [apply IHf; exact Hf|apply good_partials; assumption].
Qed.

Lemma good_def d : rdef_lex_ok d -> good (toks_def (rd_first d) (rd_op d) (rd_rest d)).
Proof.
  intros (Hf & Hr & _). unfold toks_def. apply good_app; [apply good_elem; exact Hf|].
  apply good_partials; [|exact Hr]. apply Forall_forall. intros e _. apply good_elem.
Qed.

Lemma good_rels rs : Forall decl_lex_ok rs -> good (ctoks_rels rs).
Proof.
  induction 1 as [|r rs [Hn Hd] _ IH]; cbn [ctoks_rels]; [apply good_nil|]. apply good_app; [|exact IH]. unfold toks_decl.
  do 3 (apply good_cons; [reflexivity|]). apply (good_app [rl_name r]); [apply good_name; exact Hn|].
  do 2 (apply good_cons; [reflexivity|]). apply good_def. exact Hd.
Qed.

Lemma good_type t : type_lex_ok t -> good (ctoks_type t).
Proof.
  intros [Hn Hrs]. unfold ctoks_type. do 3 (apply good_cons; [reflexivity|]). apply (good_app [ty_name t]); [apply good_name; exact Hn|].
  destruct (ty_rels t) as [|r rs] eqn:E; [apply good_nil|]. do 2 (apply good_cons; [reflexivity|]). apply good_rels. exact Hrs.
Qed.

Lemma good_types ts : Forall type_lex_ok ts -> good (ctoks_types ts).
Proof. induction 1 as [|t ts Ht _ IH]; cbn [ctoks_types]; [apply good_nil|]. apply good_app; [apply good_type; exact Ht|exact IH]. Qed.

Theorem good_doc v ts : Forall type_lex_ok ts -> good (ctoks_doc v ts).
Proof. intros H. unfold ctoks_doc. do 5 (apply good_cons; [reflexivity|]). apply good_types. exact H. Qed.

Lemma kts_kinds X : map fst (kts X) = map tk X.
Proof. unfold kts. rewrite map_map. reflexivity. Qed.

(* ---------------------------------------------------------------------------------------- *)
(* EVERY LAYOUT whose line breaks hold no blank in front of a line feed                       *)
(* ---------------------------------------------------------------------------------------- *)
Theorem every_clean_layout_prepass v ts L :
  std_version v = true -> Forall type_lex_ok ts ->
  Forall2 relay (kts (ctoks_doc v ts)) L -> nl_clean L ->
  prepass (concat (map snd L) ++ [10]) = concat (map snd L).
Proof.
  intros Hv Hlex HL Hc. destruct (fits_relayout _ _ [] HL (recs_doc v ts Hv Hlex)) as [FL _].
  apply layout_prepass; [|exact FL| |exact Hc].
  - intros ->. inversion HL.
  - rewrite (relay_kinds _ _ HL), kts_kinds. apply good_doc. exact Hlex.
Qed.

Theorem every_clean_layout_accepted v ts L :
  std_version v = true -> Forall type_lex_ok ts -> Forall type_ok ts -> distinct_decls (doc_file v ts) ->
  Forall2 relay (kts (ctoks_doc v ts)) L -> nl_clean L ->
  exists exts md, dsl_to_model (concat (map snd L) ++ [10]) = DOk (sem_file (doc_file v ts)) exts md.
Proof.
  intros Hv Hlex Hok Hd HL Hc.
  exact (every_layout_accepted v ts L _ Hv Hlex Hok Hd HL (every_clean_layout_prepass v ts L Hv Hlex HL Hc)).
Qed.
Print Assumptions every_clean_layout_accepted.

(* for the document the printer writes for a covered model: every run [w] of blanks and tabs, every line break [n] without a
   blank in front of a line feed — no computation of the pre-pass needed to know that the theorem applies *)
Theorem every_clean_layout_of_a_printed_model w n m :
  model_okb m = true -> ws_run w = true -> nl_text n = true -> haspair 32 10 n = false ->
  exists exts md, dsl_to_model (concat (map snd (map (relayout w n) (kts (ctoks_doc (m_schema m) (file_types m))))) ++ [10]) = DOk (canonical m) exts md.
Proof.
  intros Hm Hw Hn Hcl. pose proof (model_okb_ok m Hm) as Hok. pose proof Hok as (Hv & _ & _ & Htds). destruct (file_types_ok m Htds) as [Hlex Htok].
  unfold canonical. rewrite <- (reparsed_is_canonical m Hok).
  apply every_clean_layout_accepted; try assumption.
  - exact (file_types_distinct m Htds).
  - apply relayout_relay; assumption.
  - apply Forall_forall. intros a Hin. apply in_map_iff in Hin. destruct Hin as [[k t] [<- _]]. unfold relayout. cbn [fst].
    destruct k; cbn [fst snd]; intros E; try discriminate E. exact Hcl.
Qed.
Print Assumptions every_clean_layout_of_a_printed_model.

(* Proofs/BfsProofs.v — PathExists of the plain graph (Model/PGraph.v: breadth-first closure of the start node)
   answers true exactly when a path of lines leads from the first node to the second (C17). *)
From Coq Require Import Permutation.
From Verif Require Import Base.Str Base.Outcome Model.Ast Model.Printer Model.PGraph Proofs.PGraphProofs.

Lemma succs_spec g u v : In v (succs g u) <-> exists l, In l (pg_lines g) /\ pl_from l = u /\ pl_to l = v.
Proof.
  unfold succs. rewrite in_map_iff. split.
  - intros [l [Ht Hin]]. apply filter_In in Hin. destruct Hin as [Hin Hf]. apply Nat.eqb_eq in Hf. eauto.
  - intros [l [Hin [Hf Ht]]]. exists l. split; [exact Ht|]. apply filter_In. split; [exact Hin|]. apply Nat.eqb_eq. exact Hf.
Qed.

Lemma existsb_eqb_in x l : existsb (Nat.eqb x) l = true <-> In x l.
Proof.
  rewrite existsb_exists. split.
  - intros [y [Hin E]]. apply Nat.eqb_eq in E. subst. exact Hin.
  - intros H. exists x. split; [exact H|apply Nat.eqb_refl].
Qed.

Lemma NoDup_app_disjoint {A} (l1 l2 : list A) :
  NoDup l1 -> NoDup l2 -> (forall x, In x l2 -> ~ In x l1) -> NoDup (l1 ++ l2).
Proof.
  intros H1 H2 Hd. induction H1 as [|a l1 Ha H1 IH]; simpl; [exact H2|].
  constructor.
  - intros Hin. apply in_app_or in Hin. destruct Hin as [Hin|Hin]; [contradiction|]. apply (Hd a Hin). left. reflexivity.
  - apply IH. intros x Hx Hin. apply (Hd x Hx). right. exact Hin.
Qed.

Section Bfs.
  Variable g : pgraph.
  Variable x : nat.
  Notation lines := (pg_lines g).

  Definition closed_except (frontier seen : list nat) : Prop :=
    forall u, In u seen -> ~ In u frontier -> forall v, In v (succs g u) -> In v seen.

  Lemma closed_contains seen : (forall u, In u seen -> forall v, In v (succs g u) -> In v seen) ->
    forall u y, path lines u y -> In u seen -> In y seen.
  Proof.
    intros Hc u y P. induction P as [u|u v z Hl _ IH]; intros Hu; [exact Hu|].
    apply IH. apply (Hc u Hu). apply succs_spec. destruct Hl as [l [Hin [Hf Ht]]]. exists l. auto.
  Qed.

  Lemma reach_spec fuel : forall frontier seen,
    NoDup seen -> incl frontier seen -> closed_except frontier seen -> In x seen ->
    (forall u, In u seen -> path lines x u) ->
    incl seen (x :: map pl_to lines) ->
    (length seen + fuel > S (length lines))%nat ->
    forall y, In y (reach g fuel frontier seen) <-> path lines x y.
  Proof.
    induction fuel as [|fuel IH]; intros frontier seen Hnd Hfr Hcl Hx Hreach Hincl Hlen y.
    - exfalso. assert (length seen <= length (x :: map pl_to lines))%nat by (apply NoDup_incl_length; assumption).
      simpl in H. rewrite map_length in H. lia.
    - cbn [reach].
      remember (filter (fun v => negb (existsb (Nat.eqb v) seen)) (flat_map (succs g) frontier)) as next eqn:Enext.
      assert (Hnext : forall v, In v next <-> (exists u, In u frontier /\ In v (succs g u)) /\ ~ In v seen).
      { intros v. rewrite Enext. rewrite filter_In, in_flat_map. split.
        - intros [H1 H2]. split; [exact H1|]. intros Hin. apply existsb_eqb_in in Hin. rewrite Hin in H2. discriminate.
        - intros [H1 H2]. split; [exact H1|]. destruct (existsb (Nat.eqb v) seen) eqn:E; [|reflexivity].
          apply existsb_eqb_in in E. contradiction. }
      clear Enext. destruct next as [|n0 nx].
      + (* nothing new: the set is closed *)
        split; [apply Hreach|]. intros P. apply (closed_contains seen) with (u := x); auto.
        intros u Hu v Hv. destruct (in_dec Nat.eq_dec u frontier) as [Hf|Hf]; [|apply (Hcl u Hu Hf v Hv)].
        destruct (in_dec Nat.eq_dec v seen) as [Hs|Hs]; [exact Hs|].
        exfalso. assert (In v []) by (apply Hnext; split; [exists u; auto|exact Hs]). contradiction.
      + set (N := nodup Nat.eq_dec (n0 :: nx)).
        assert (HN : forall v, In v N <-> In v (n0 :: nx)) by (intros v; apply nodup_In).
        apply IH.
        * apply NoDup_app_disjoint; [exact Hnd|apply NoDup_nodup|]. intros v Hv. apply HN, Hnext in Hv. tauto.
        * intros v Hv. apply in_or_app. right. exact Hv.
        * intros u Hu HuN v Hv. apply in_app_or in Hu. destruct Hu as [Hu|Hu]; [|contradiction].
          apply in_or_app. destruct (in_dec Nat.eq_dec u frontier) as [Hf|Hf].
          -- destruct (in_dec Nat.eq_dec v seen) as [Hs|Hs]; [left; exact Hs|].
             right. apply HN, Hnext. split; [exists u; auto|exact Hs].
          -- left. apply (Hcl u Hu Hf v Hv).
        * apply in_or_app. left. exact Hx.
        * intros u Hu. apply in_app_or in Hu. destruct Hu as [Hu|Hu]; [apply Hreach; exact Hu|].
          apply HN, Hnext in Hu. destruct Hu as [[w [Hw Hs]] _].
          apply (path_trans lines x w u); [apply Hreach; apply Hfr; exact Hw|].
          econstructor; [|constructor]. apply succs_spec in Hs. destruct Hs as [l [Hin [Hf Ht]]]. exists l. auto.
        * intros u Hu. apply in_app_or in Hu. destruct Hu as [Hu|Hu]; [apply Hincl; exact Hu|].
          apply HN, Hnext in Hu. destruct Hu as [[w [_ Hs]] _]. right. apply succs_spec in Hs.
          destruct Hs as [l [Hin [_ Ht]]]. rewrite <- Ht. apply in_map. exact Hin.
        * rewrite app_length.
          assert (length N >= 1)%nat.
          { assert (Hin : In n0 N). { apply HN. left. reflexivity. }
            destruct N; [destruct Hin|simpl; lia]. }
          lia.
  Qed.
End Bfs.

Theorem path_exists_spec g a b x y :
  find_pnode a g = Some x -> find_pnode b g = Some y ->
  (path_exists g a b = Some true <-> path (pg_lines g) (pn_id x) (pn_id y)) /\
  (path_exists g a b = Some false <-> ~ path (pg_lines g) (pn_id x) (pn_id y)).
Proof.
  intros Ha Hb. unfold path_exists. rewrite Ha, Hb.
  assert (R := reach_spec g (pn_id x) (S (length (pg_lines g))) [pn_id x] [pn_id x]).
  assert (H : forall z, In z (reach g (S (length (pg_lines g))) [pn_id x] [pn_id x]) <-> path (pg_lines g) (pn_id x) z).
  { apply R.
    - constructor; [intros []|constructor].
    - intros u Hu. exact Hu.
    - intros u Hu Hnf. contradiction.
    - left. reflexivity.
    - intros u [<-|[]]. constructor.
    - intros u [<-|[]]. left. reflexivity.
    - simpl. lia. }
  destruct (existsb (Nat.eqb (pn_id y)) (reach g (S (length (pg_lines g))) [pn_id x] [pn_id x])) eqn:E.
  - apply existsb_eqb_in in E. apply H in E. split; split; intros; auto; try discriminate; contradiction.
  - assert (Hn : ~ path (pg_lines g) (pn_id x) (pn_id y)).
    { intros P. apply H in P. apply existsb_eqb_in in P. congruence. }
    split; split; intros; auto; try discriminate; contradiction.
Qed.

(* unknown labels are the only way to get no answer *)
Theorem path_exists_none g a b : path_exists g a b = None <-> find_pnode a g = None \/ find_pnode b g = None.
Proof.
  unfold path_exists. destruct (find_pnode a g), (find_pnode b g); split; intros H; try discriminate; auto;
    destruct H; discriminate.
Qed.

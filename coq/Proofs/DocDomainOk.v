(* Proofs/DocDomainOk.v — the computable domain test of Spec/DocDomain.v implies the hypotheses of the document-level round
   trip, so that the theorem can be stated with a boolean the extracted model evaluates on every generated model:
   model_okb m = true -> print_model m is accepted back as [canonical m]. *)
From Coq Require Import Lia.
From Verif Require Import Spec.DocDomain Base.Str Base.Outcome Model.Ast Model.Lexer Model.Printer Model.Transform
  Spec.Expressible Spec.Normalize Proofs.LexInversion Proofs.RoundTripChars Proofs.DocLex Proofs.DocPrint Proofs.DocRoundTrip Proofs.DocStable.

Lemma plain_refb_ok r : plain_refb r = true -> plain_ref r.
Proof.
  unfold plain_refb, plain_ref. intros H. apply andb_prop in H. destruct H as [H H3]. apply andb_prop in H. destruct H as [H1 H2].
  split; [exact H1|]. split.
  - destruct (rr_kind r); try exact I. exact H2.
  - intros E. rewrite E in H3. exact H3.
Qed.

Lemma plain_ub_ok u : plain_ub u = true -> plain_u u.
Proof.
  induction u as [| [|] | rel | ts cu | cs IH | cs IH | b s IHb IHs] using userset_ind'; intros H; try exact I.
  - exact H.
  - cbn in H |- *. apply andb_prop in H. exact H.
  - apply plain_u_union. apply plain_all_forall. cbn [plain_ub] in H. induction IH as [|c cs Hc _ IHcs]; [constructor|].
    apply andb_prop in H. destruct H as [H1 H2]. constructor; [apply Hc; exact H1|apply IHcs; exact H2].
  - apply plain_u_inter. apply plain_all_forall. cbn [plain_ub] in H. induction IH as [|c cs Hc _ IHcs]; [constructor|].
    apply andb_prop in H. destruct H as [H1 H2]. constructor; [apply Hc; exact H1|apply IHcs; exact H2].
  - cbn [plain_ub] in H. apply andb_prop in H. destruct H as [H1 H2]. cbn [plain_u]. split; [apply IHb; exact H1|apply IHs; exact H2].
Qed.

Lemma nodup_strb_ok l : nodup_strb l = true -> NoDup l.
Proof.
  induction l as [|x l IH]; intros H; [constructor|]. cbn [nodup_strb] in H. apply andb_prop in H. destruct H as [H1 H2].
  constructor; [|apply IH; exact H2]. intros Hin. apply Bool.negb_true_iff in H1.
  assert (X : existsb (str_eqb x) l = true) by (apply existsb_exists; exists x; split; [exact Hin|apply str_eqb_refl]). congruence.
Qed.

Lemma rel_okb_ok td n : rel_okb td n = true -> rel_ok td n.
Proof.
  unfold rel_okb, rel_ok. intros H.
  apply andb_prop in H. destruct H as [H H6]. apply andb_prop in H. destruct H as [H H5]. apply andb_prop in H. destruct H as [H H4].
  apply andb_prop in H. destruct H as [H H3]. apply andb_prop in H. destruct H as [H1 H2].
  split; [exact H1|]. split; [exact H2|]. split; [exact H3|]. split; [apply plain_ub_ok; exact H4|]. split.
  - apply Bool.orb_prop in H5. destruct H5 as [E|E]; [left; apply Nat.eqb_eq; exact E|right; destruct (refs_of td n); [discriminate E|discriminate]].
  - apply Forall_forall. intros r Hr. apply plain_refb_ok. rewrite forallb_forall in H6. apply H6. exact Hr.
Qed.

Lemma td_okb_ok td : td_okb td = true -> td_ok td.
Proof.
  unfold td_okb, td_ok. intros H. apply andb_prop in H. destruct H as [H H3]. apply andb_prop in H. destruct H as [H1 H2].
  split; [exact H1|]. split; [apply nodup_strb_ok; exact H2|]. intros n Hn. apply rel_okb_ok. rewrite forallb_forall in H3. apply H3. exact Hn.
Qed.

Theorem model_okb_ok m : model_okb m = true -> model_ok m.
Proof.
  unfold model_okb, model_ok. intros H. apply andb_prop in H. destruct H as [H H4]. apply andb_prop in H. destruct H as [H H3]. apply andb_prop in H. destruct H as [H1 H2].
  split; [exact H1|]. split; [destruct (m_conds m); [reflexivity|discriminate H2]|]. split; [apply Bool.negb_true_iff; exact H3|].
  apply Forall_forall. intros td Htd. apply td_okb_ok. rewrite forallb_forall in H4. apply H4. exact Htd.
Qed.

(* the document-level round trip with a DECIDABLE domain and a COMPUTABLE result *)
Theorem document_round_trip_decidable m : model_okb m = true ->
  exists t exts md, fst (print_model false m) = Ok t /\ dsl_to_model t = DOk (canonical m) exts md.
Proof. intros H. exact (document_round_trip m (model_okb_ok m H)). Qed.

Example model_okb_example : model_okb ex_model = true.
Proof. vm_compute. reflexivity. Qed.
Print Assumptions document_round_trip_decidable.

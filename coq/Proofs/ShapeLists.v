(* Proofs/ShapeLists.v — what the lists of Spec/GraphShape.v look like in closed form (C10):
   a direct assignment gives one direct edge per distinct target, in first-occurrence order, each carrying the
   distinct condition names of the restrictions with that target in first-occurrence order ("none" for no
   condition); a tuple-to-userset gives one edge per distinct parent type of the tupleset, labelled
   "type#tupleset", with the condition of the first restriction naming that parent; an operator whose operands are
   computed usersets points to them in source order, repeated operands included. *)
From Coq Require Import Permutation.
From Verif Require Import Base.Str Base.Outcome Model.Ast Model.Printer Model.WGraph Spec.GraphShape Proofs.BuilderShape
  Proofs.GraphPrims Proofs.StrategyProofs Proofs.WildcardProofs.

Definition dedup (l : list str) : list str := fold_left (fun acc x => add_unique x acc) l [].
Definition normc (c : str) : str := if is_empty c then no_cond else c.

Lemma dedup_snoc l x : dedup (l ++ [x]) = add_unique x (dedup l).
Proof. unfold dedup. rewrite fold_left_app. reflexivity. Qed.

Lemma dedup_in l x : In x (dedup l) <-> In x l.
Proof.
  induction l as [|y l IH] using rev_ind; [cbn; tauto|]. rewrite dedup_snoc. split.
  - intros H. apply add_unique_only in H. apply in_or_app. destruct H as [->|H]; [right; left; reflexivity|left; apply IH; exact H].
  - intros H. apply in_app_or in H. destruct H as [H|[<-|[]]]; [apply add_unique_incl; apply IH; exact H|apply add_unique_in].
Qed.

Lemma dedup_nodup l : NoDup (dedup l).
Proof. induction l as [|y l IH] using rev_ind; [constructor|]. rewrite dedup_snoc. apply add_unique_NoDup. exact IH. Qed.

(* ---- a direct assignment ---- *)
Definition conds_of (t : str) (refs : list relation_ref) : list str :=
  map (fun r => normc (rr_cond r)) (filter (fun r => str_eqb (ref_id r) t) refs).
Definition direct_edge (from : str) (refs : list relation_ref) (t : str) : wedge :=
  {| e_from := from; e_to := t; e_type := EDirect; e_tupleset := []; e_conds := dedup (conds_of t refs);
     e_weights := []; e_wild := [] |}.
Definition spec_this (from : str) (refs : list relation_ref) : list wedge :=
  map (direct_edge from refs) (dedup (map ref_id refs)).

Lemma conds_of_snoc_same refs r : conds_of (ref_id r) (refs ++ [r]) = conds_of (ref_id r) refs ++ [normc (rr_cond r)].
Proof. unfold conds_of. rewrite filter_app, map_app. cbn. rewrite str_eqb_refl. reflexivity. Qed.
Lemma conds_of_snoc_other refs r t : t <> ref_id r -> conds_of t (refs ++ [r]) = conds_of t refs.
Proof.
  intros H. unfold conds_of. rewrite filter_app, map_app. cbn. rewrite str_eqb_false by congruence. cbn. apply app_nil_r.
Qed.
Lemma conds_of_absent refs t : ~ In t (map ref_id refs) -> conds_of t refs = [].
Proof.
  intros H. unfold conds_of. induction refs as [|r refs IH]; [reflexivity|]. cbn.
  destruct (str_eqb_spec (ref_id r) t) as [E|_]; [exfalso; apply H; left; exact E|]. apply IH. intros X. apply H. right. exact X.
Qed.

(* upsert into the dictated list of direct edges (distinct targets) *)
Definition bump_edge (from : str) (refs : list relation_ref) (t c x : str) : wedge :=
  if str_eqb x t
  then {| e_from := from; e_to := x; e_type := EDirect; e_tupleset := []; e_conds := add_unique c (dedup (conds_of x refs));
          e_weights := []; e_wild := [] |}
  else direct_edge from refs x.

Lemma map_bump_absent from refs t c D : ~ In t D -> map (bump_edge from refs t c) D = map (direct_edge from refs) D.
Proof.
  intros H. apply map_ext_in. intros x Hx. unfold bump_edge. rewrite str_eqb_false; [reflexivity|]. intros ->. contradiction.
Qed.

Lemma upsert_spec_this from refs D t c : NoDup D ->
  upsert_in (map (direct_edge from refs) D) t EDirect [] c =
  if mem_str t D then Some (map (bump_edge from refs t c) D) else None.
Proof.
  induction D as [|x D IH]; intros Hnd; [reflexivity|]. inversion Hnd as [|? ? Hx Hnd']; subst.
  cbn [map upsert_in mem_str]. unfold same_edge. cbn [direct_edge e_to e_type e_tupleset etype_eqb str_eqb andb].
  rewrite (str_eqb_sym t x). destruct (str_eqb_spec x t) as [->|Hne]; cbn [orb andb].
  - rewrite (map_bump_absent from refs t c D Hx). unfold bump_edge. rewrite str_eqb_refl. unfold add_unique.
    cbn [direct_edge e_conds e_from e_weights e_wild]. destruct (mem_str c (dedup (conds_of t refs))); reflexivity.
  - rewrite (IH Hnd'). destruct (mem_str t D); [|reflexivity].
    assert (Hb : bump_edge from refs t c x = direct_edge from refs x) by (unfold bump_edge; rewrite (str_eqb_false _ _ Hne); reflexivity).
    rewrite Hb. reflexivity.
Qed.

Theorem l_this_closed_form from refs : l_this from refs [] = spec_this from refs.
Proof.
  induction refs as [|r refs IH] using rev_ind; [reflexivity|].
  unfold l_this in *. rewrite fold_left_app. cbn [fold_left]. rewrite IH. unfold l_upsert, spec_this.
  fold (normc (rr_cond r)). rewrite map_app. cbn [map]. rewrite dedup_snoc.
  rewrite (upsert_spec_this from refs (dedup (map ref_id refs)) (ref_id r) (normc (rr_cond r)) (dedup_nodup _)).
  unfold add_unique. destruct (mem_str (ref_id r) (dedup (map ref_id refs))) eqn:Em.
  - apply map_ext_in. intros x Hx. unfold bump_edge, direct_edge. destruct (str_eqb_spec x (ref_id r)) as [->|Hne].
    + rewrite conds_of_snoc_same, dedup_snoc. reflexivity.
    + rewrite conds_of_snoc_other by exact Hne. reflexivity.
  - assert (Hnot : ~ In (ref_id r) (map ref_id refs)).
    { intros X. apply dedup_in in X. apply mem_str_in in X. congruence. }
    rewrite map_app. cbn [map]. f_equal.
    + apply map_ext_in. intros x Hx. unfold direct_edge. rewrite conds_of_snoc_other; [reflexivity|].
      intros ->. apply Hnot. apply dedup_in. exact Hx.
    + unfold direct_edge, mk_edge. rewrite conds_of_snoc_same, (conds_of_absent refs _ Hnot). reflexivity.
Qed.

(* ---- a tuple-to-userset ---- *)
Definition first_cond (ty : str) (refs : list relation_ref) : str :=
  match find (fun r => str_eqb (rr_type r) ty) refs with Some r => rr_cond r | None => [] end.
Definition ttu_edge (from label cu : str) (refs : list relation_ref) (ty : str) : wedge :=
  mk_edge from (ty ++ lit "#" ++ cu) ETTU label (normc (first_cond ty refs)).
Definition spec_ttu (from label cu : str) (refs : list relation_ref) : list wedge :=
  map (ttu_edge from label cu refs) (dedup (map rr_type refs)).

Lemma upsert_in_none l to t ts c : existsb (fun e => same_edge e to t ts) l = false -> upsert_in l to t ts c = None.
Proof.
  induction l as [|e l IH]; [reflexivity|]. cbn [existsb upsert_in]. intros H. apply orb_false_iff in H. destruct H as [H1 H2].
  rewrite H1, (IH H2). reflexivity.
Qed.

Lemma str_eqb_app_tail a b s : str_eqb (a ++ s) (b ++ s) = str_eqb a b.
Proof.
  destruct (str_eqb_spec a b) as [->|Hne]; [apply str_eqb_refl|]. apply str_eqb_false. intros X. apply app_inv_tail in X. contradiction.
Qed.

Lemma same_edge_ttu from label cu refs ty ty' :
  same_edge (ttu_edge from label cu refs ty') (ty ++ lit "#" ++ cu) ETTU label = str_eqb ty' ty.
Proof.
  unfold same_edge, ttu_edge, mk_edge. cbn [e_to e_type e_tupleset etype_eqb]. rewrite str_eqb_refl, !andb_true_r.
  apply str_eqb_app_tail.
Qed.

Lemma existsb_ttu from label cu refs ty D :
  existsb (fun e => same_edge e (ty ++ lit "#" ++ cu) ETTU label) (map (ttu_edge from label cu refs) D) = mem_str ty D.
Proof.
  induction D as [|x D IH]; [reflexivity|]. cbn [map existsb mem_str]. rewrite same_edge_ttu, IH, (str_eqb_sym x ty). reflexivity.
Qed.

Lemma find_app' {A} (f : A -> bool) l l' : find f (l ++ l') = match find f l with Some x => Some x | None => find f l' end.
Proof. induction l as [|x l IH]; cbn; [reflexivity|]. destruct (f x); [reflexivity|exact IH]. Qed.

Lemma first_cond_snoc_old ty refs r : In ty (map rr_type refs) -> first_cond ty (refs ++ [r]) = first_cond ty refs.
Proof.
  intros H. unfold first_cond. rewrite find_app'. destruct (find (fun r0 => str_eqb (rr_type r0) ty) refs) eqn:E; [reflexivity|].
  exfalso. apply in_map_iff in H. destruct H as [r0 [<- Hin]]. apply (find_none _ _ E) in Hin. rewrite str_eqb_refl in Hin. discriminate.
Qed.
Lemma first_cond_snoc_new refs r : ~ In (rr_type r) (map rr_type refs) -> first_cond (rr_type r) (refs ++ [r]) = rr_cond r.
Proof.
  intros H. unfold first_cond. rewrite find_app'. destruct (find (fun r0 => str_eqb (rr_type r0) (rr_type r)) refs) as [r0|] eqn:E.
  - exfalso. apply find_some in E. destruct E as [Hin E]. apply H. apply in_map_iff. exists r0. split; [|exact Hin].
    destruct (str_eqb_spec (rr_type r0) (rr_type r)); [assumption|discriminate].
  - cbn. rewrite str_eqb_refl. reflexivity.
Qed.

Theorem l_ttu_closed_form from label cu refs : l_ttu from label cu refs [] = spec_ttu from label cu refs.
Proof.
  induction refs as [|r refs IH] using rev_ind; [reflexivity|].
  unfold l_ttu in *. rewrite fold_left_app. cbn [fold_left]. rewrite IH. unfold spec_ttu.
  rewrite existsb_ttu, map_app. cbn [map]. rewrite dedup_snoc. unfold add_unique.
  destruct (mem_str (rr_type r) (dedup (map rr_type refs))) eqn:Em.
  - apply map_ext_in. intros x Hx. unfold ttu_edge. rewrite first_cond_snoc_old; [reflexivity|]. apply dedup_in. exact Hx.
  - assert (Hnot : ~ In (rr_type r) (map rr_type refs)).
    { intros X. apply dedup_in in X. apply mem_str_in in X. congruence. }
    unfold l_upsert. fold (normc (rr_cond r)). rewrite upsert_in_none by (rewrite existsb_ttu; exact Em).
    rewrite map_app. cbn [map]. f_equal.
    + apply map_ext_in. intros x Hx. unfold ttu_edge. rewrite first_cond_snoc_old; [reflexivity|]. apply dedup_in. exact Hx.
    + unfold ttu_edge. rewrite (first_cond_snoc_new refs r Hnot). reflexivity.
Qed.

(* ---- an operator over computed usersets: operands in source order, repeated operands kept ---- *)
Lemma shape_children_computed ty td rel oid rs : forall k ol created,
  shape_children ty td rel k oid (map UComputed rs) ol created =
  (ol ++ map (fun r => mk_edge oid (td_name td ++ lit "#" ++ r) (computed_kind ty oid (td_name td ++ lit "#" ++ r)) [] no_cond) rs,
   created, k).
Proof.
  induction rs as [|r rs IH]; intros k ol created; cbn [map shape_children].
  - rewrite app_nil_r. reflexivity.
  - rewrite shape_op. rewrite IH, app_nil_r, <- app_assoc. reflexivity.
Qed.

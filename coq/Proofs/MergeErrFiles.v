(* Proofs/MergeErrFiles.v — the last clause of C07: every error of a failed merge names a file of the list — a conflict by
   the name of the file it was found in, the DSL errors of a file by that file's position in the list (the implementation
   writes its name into them: defect F16, repaired). *)
From Coq Require Import Lia.
From Verif Require Import Base.Str Base.Outcome Model.Ast Model.Printer Model.Transform Model.LineNumbers Model.Merge Spec.MergeSpec.

Definition names_ok (names : list str) (n : nat) (e : merror) : Prop :=
  match e with MSyntax k => (k < n)%nat | MConflict _ file _ => In file names end.

Section Names.
  Variable names : list str.
  Variable n : nat.
  Definition Inv (s : mstate) : Prop := Forall (names_ok names n) (ms_errs s) /\ forall k, In k (keys (ms_ext s)) -> In k names.

  Lemma keys_assoc_set {A} k (v : A) l x : In x (keys (assoc_set k v l)) -> x = k \/ In x (keys l).
  Proof.
    induction l as [|[k' v'] l IH]; cbn [assoc_set keys map fst]; [intros [<-|[]]; left; reflexivity|].
    destruct (str_eqb k k'); cbn [keys map fst].
    - intros [<-|H]; [left; reflexivity|right; right; exact H].
    - intros [<-|H]; [right; left; reflexivity|]. destruct (IH H) as [->|H']; [left; reflexivity|right; right; exact H'].
  Qed.
  Lemma keys_assoc_append {A} k (v : A) l x : In x (keys (assoc_append k v l)) -> x = k \/ In x (keys l).
  Proof.
    unfold assoc_append. destruct (assoc k l); [apply keys_assoc_set|]. unfold keys. rewrite map_app. cbn. intros H. apply in_app_or in H.
    destruct H as [H|[<-|[]]]; auto.
  Qed.

  Lemma inv_with_errs s es : Inv s -> Forall (names_ok names n) es -> Inv (with_errs s es).
  Proof. intros [H1 H2] He. split; [cbn [with_errs ms_errs]; apply Forall_app; split; assumption|exact H2]. Qed.

  Lemma collect_types_inv file lines exts : In file names -> forall tds i s,
    (forall td, In td (ct_defs exts tds i) -> td_meta td <> None) -> Inv s -> Inv (collect_types file lines exts tds i s).
  Proof.
    intros Hf. induction tds as [|td r IH]; intros i s Hm Hs; [exact Hs|]. cbn [collect_types]. apply IH.
    - intros td' H. apply Hm. cbn [ct_defs]. destruct (is_ext exts i td); [exact H|right; exact H].
    - fold (is_ext exts i td). destruct (mem_str (td_name td) (ms_types s) && negb (is_ext exts i td)).
      + apply inv_with_errs; [exact Hs|]. constructor; [exact Hf|constructor].
      + destruct (is_ext exts i td) eqn:Ee.
        * destruct Hs as [H1 H2]. split; [exact H1|]. cbn [ms_ext]. intros k Hk. destruct (keys_assoc_append _ _ _ _ Hk) as [->|Hk']; [exact Hf|apply H2; exact Hk'].
        * destruct (td_meta td) eqn:Em; [destruct Hs as [H1 H2]; split; assumption|].
          exfalso. apply (Hm td); [|exact Em]. cbn [ct_defs]. rewrite Ee. left. reflexivity.
  Qed.

  Lemma collect_conds_inv file lines : In file names -> forall cs s s', collect_conds file lines cs s = Some s' -> Inv s -> Inv s'.
  Proof.
    intros Hf. induction cs as [|[name c] r IH]; intros s s' H Hs; cbn [collect_conds] in H; [inversion H; subst; exact Hs|].
    destruct (assoc name (ms_conds s)).
    - apply (IH _ _ H). apply inv_with_errs; [exact Hs|]. constructor; [exact Hf|constructor].
    - destruct (c_meta c); [|discriminate H]. apply (IH _ _ H). destruct Hs as [H1 H2]. split; assumption.
  Qed.

  Lemma collect_files_inv : forall fs k s s',
    (forall f, In f fs -> In (mf_name f) names) -> (k + length fs <= n)%nat ->
    (forall f, In f fs -> forall td, In td (file_defs f) -> td_meta td <> None) ->
    collect_files fs k s = Ok s' -> Inv s -> Inv s'.
  Proof.
    induction fs as [|f r IH]; intros k s s' Hn Hk Hm H Hs; cbn [collect_files] in H; [inversion H; subst; exact Hs|].
    assert (Hf : In (mf_name f) names) by (apply Hn; left; reflexivity).
    assert (Hr : forall g, In g r -> In (mf_name g) names) by (intros g Hg; apply Hn; right; exact Hg).
    assert (Hmr : forall g, In g r -> forall td, In td (file_defs g) -> td_meta td <> None) by (intros g Hg; apply Hm; right; exact Hg).
    cbn [length] in Hk.
    set (s0 := {| ms_raw := ms_raw s; ms_types := ms_types s; ms_ext := ms_ext s;
                  ms_lines := assoc_set (mf_name f) (split_on 10 (mf_text f)) (ms_lines s); ms_conds := ms_conds s; ms_errs := ms_errs s |}) in *.
    assert (Hs0 : Inv s0) by (destruct Hs as [H1 H2]; split; assumption).
    pose proof (Hm f (or_introl eq_refl)) as Hmf. unfold file_defs, module_of in Hmf.
    destruct (dsl_to_model (mf_text f)) as [m exts md|c b|es|w] eqn:Ed.
    - destruct (is_empty (m_schema m)) eqn:Ee; cbn [negb] in H.
      + destruct (collect_conds (mf_name f) (split_on 10 (mf_text f)) (stable_sort pair_cmp (m_conds m))
                   (collect_types (mf_name f) (split_on 10 (mf_text f)) exts (m_types m) 0 s0)) as [s2|] eqn:Ec; [|discriminate H].
        apply (IH (S k) s2 s' Hr ltac:(lia) Hmr H). apply (collect_conds_inv _ _ Hf _ _ _ Ec). apply collect_types_inv; [exact Hf|exact Hmf|exact Hs0].
      + apply (IH (S k) _ s' Hr ltac:(lia) Hmr H). apply inv_with_errs; [exact Hs0|]. constructor; [exact Hf|constructor].
    - apply (IH (S k) _ s' Hr ltac:(lia) Hmr H). apply inv_with_errs; [exact Hs0|]. constructor; [cbn; lia|constructor].
    - apply (IH (S k) _ s' Hr ltac:(lia) Hmr H). apply inv_with_errs; [exact Hs0|]. constructor; [cbn; lia|constructor].
    - discriminate H.
  Qed.

  (* applying the extensions of one file only produces conflicts that name that file *)
  Lemma merge_relations_errs file lines tyname existing : In file names -> forall nms td orig errs orig' errs',
    merge_relations file lines tyname existing nms td orig errs = Some (orig', errs') ->
    Forall (names_ok names n) errs -> Forall (names_ok names n) errs'.
  Proof.
    intros Hf. induction nms as [|x r IH]; intros td orig errs orig' errs' H He; cbn [merge_relations] in H; [inversion H; subst; exact He|].
    destruct (mem_str x existing).
    - apply (IH _ _ _ _ _ H). apply Forall_app. split; [exact He|constructor; [exact Hf|constructor]].
    - destruct (assoc x (td_meta_rels td)); [|discriminate H]. destruct (td_meta orig); [|discriminate H]. destruct (assoc x (td_rels td)); [|discriminate H].
      apply (IH _ _ _ _ _ H He).
  Qed.

  Lemma apply_extension_errs file lines td raw raw' es : In file names ->
    apply_extension file lines td raw = Some (raw', es) -> Forall (names_ok names n) es.
  Proof.
    intros Hf H. unfold apply_extension in H. destruct (index_of_type (td_name td) raw 0) as [i|].
    - destruct (td_rels (nth i raw empty_typedef)); [inversion H; subst; constructor|].
      match type of H with context [merge_relations ?a ?b ?c ?d ?e ?f ?g ?h] => destruct (merge_relations a b c d e f g h) as [[o' es']|] eqn:Em end; [|discriminate H].
      inversion H; subst. apply (merge_relations_errs _ _ _ _ Hf _ _ _ _ _ _ Em). constructor.
    - inversion H; subst. constructor; [exact Hf|constructor].
  Qed.

  Lemma apply_extensions_errs file lines : In file names -> forall tds raw errs raw' errs',
    apply_extensions file lines tds raw errs = Some (raw', errs') -> Forall (names_ok names n) errs -> Forall (names_ok names n) errs'.
  Proof.
    intros Hf. induction tds as [|td r IH]; intros raw errs raw' errs' H He; cbn [apply_extensions] in H; [inversion H; subst; exact He|].
    destruct (apply_extension file lines td raw) as [[raw1 es]|] eqn:Ea; [|discriminate H].
    apply (IH _ _ _ _ H). apply Forall_app. split; [exact He|apply (apply_extension_errs _ _ _ _ _ _ Hf Ea)].
  Qed.

  Lemma apply_all_errs all_lines : forall exts raw errs raw' errs',
    (forall k, In k (keys exts) -> In k names) ->
    apply_all exts all_lines raw errs = Some (raw', errs') -> Forall (names_ok names n) errs -> Forall (names_ok names n) errs'.
  Proof.
    induction exts as [|[file tds] r IH]; intros raw errs raw' errs' Hk H He; cbn [apply_all] in H; [inversion H; subst; exact He|].
    match type of H with context [apply_extensions ?a ?b ?c ?d ?e] => destruct (apply_extensions a b c d e) as [[raw1 errs1]|] eqn:Ea end; [|discriminate H].
    apply (IH _ _ _ _ (fun k Hk' => Hk k (or_intror Hk')) H).
    apply (apply_extensions_errs _ _ (Hk file (or_introl eq_refl)) _ _ _ _ _ Ea He).
  Qed.
End Names.

Theorem merge_errors_name_files fs v es :
  wf_modules fs -> merge fs v = Err es ->
  Forall (names_ok (map mf_name fs) (length fs)) es.
Proof.
  intros Hwf H. unfold merge in H.
  destruct (collect_files fs 0 init_mstate) as [s|u|w] eqn:Ec; [|inversion H; subst; constructor|discriminate H].
  assert (Hs : Inv (map mf_name fs) (length fs) s).
  { apply (collect_files_inv (map mf_name fs) (length fs) fs 0 init_mstate s); [intros f Hf; apply in_map; exact Hf|lia| |exact Ec|split; [constructor|intros k []]].
    intros f Hf td Htd. pose proof (wf_def_meta fs Hwf) as Hm. rewrite Forall_forall in Hm. apply Hm. unfold defs_of. apply in_flat_map. exists f. split; assumption. }
  destruct Hs as [He Hk].
  destruct (apply_all (ms_ext s) (ms_lines s) (ms_raw s) (ms_errs s)) as [[raw errs]|] eqn:Ea; [|discriminate H].
  pose proof (apply_all_errs (map mf_name fs) (length fs) _ _ _ _ _ _ Hk Ea He) as Hall.
  destruct errs; [discriminate H|]. inversion H; subst. exact Hall.
Qed.
Print Assumptions merge_errors_name_files.

(* Proofs/DeclRoundTrip.v — the round trip of a whole relation DECLARATION line at character level (C01, C02):
   what the printer model writes for one relation ("    define <name>: <definition>"), between the line feed the
   document puts before it and the one after it, is lexed without error and parsed (Model/Parser.p_reldecl: optional
   comment, NEWLINE, DEFINE, name, COLON, definition) back to a declaration with the same name, the normalised
   rewrite and the relation's restrictions.  Extends Proofs/RoundTripChars.v from the definition to the line. *)
From Coq Require Import Lia.
From Verif Require Import Base.Str Base.Outcome Model.Ast Model.Token Gen.Keywords Model.Lexer Model.Parser Model.Listener Model.Printer
  Spec.Sem Spec.Expressible Spec.Normalize Proofs.PrinterExpressible Proofs.ListenerSem Proofs.RoundTrip Proofs.Lossless
  Proofs.ParserComplete Proofs.LosslessTokens Proofs.LexInversion Proofs.LexRender Proofs.ParserNatural Proofs.RoundTripChars.

(* ---------------------------------------------------------------------------------------- *)
(* 1. tokens: the parser model takes the canonical declaration                               *)
(* ---------------------------------------------------------------------------------------- *)
Lemma depth_le_len e : (depth e <= length (toks_elem e))%nat.
Proof.
  induction e as [rs|cu ts|nd first op rest IHf IHr] using relem_ind'; [cbn; lia|cbn; lia|].
  rewrite depth_group, toks_elem_group. unfold toks_def. cbn [length]. rewrite !app_length.
  assert (H : (depth_all rest <= length (toks_partials op rest))%nat).
  { induction IHr as [|x rest Hx _ IH]; [cbn; lia|]. cbn [depth_all toks_partials length]. rewrite app_length. lia. }
  cbn [length]. lia.
Qed.
Lemma depth_def_le_len first op rest : (depth_def first rest <= length (toks_def first op rest))%nat.
Proof.
  unfold depth_def, toks_def. rewrite app_length. pose proof (depth_le_len first).
  assert (H1 : (depth_all rest <= length (toks_partials op rest))%nat).
  { induction rest as [|x rest IH]; [cbn; lia|]. cbn [depth_all toks_partials length]. rewrite app_length. pose proof (depth_le_len x). lia. }
  lia.
Qed.

Definition toks_decl (nl nm : tok) (d : rdef) : list tok :=
  nl :: mk DEFINE :: mk WHITESPACE :: nm :: mk COLON :: mk WHITESPACE :: toks_def (rd_first d) (rd_op d) (rd_rest d).

Lemma def_hd_not_ws d l : toks_ok (rd_first d) ->
  skip_opt WHITESPACE (toks_def (rd_first d) (rd_op d) (rd_rest d) ++ l) = toks_def (rd_first d) (rd_op d) (rd_rest d) ++ l.
Proof. intros H. unfold toks_def. rewrite <- app_assoc. apply elem_hd_not_ws. exact H. Qed.

Lemma expect_mk k l : expect k (mk k :: l) = Some (mk k, l).
Proof. unfold expect. cbn [tk mk]. rewrite tk_eqb_refl. reflexivity. Qed.

Lemma skip_opt_mk k l : skip_opt k (mk k :: l) = l.
Proof. unfold skip_opt. cbn [tk mk]. rewrite tk_eqb_refl. reflexivity. Qed.

Theorem p_reldecl_complete nl nm d k :
  tk nl = NEWLINE -> ident nm ->
  wf_rdef d = true -> toks_ok (rd_first d) -> toks_ok_all (rd_rest d) -> stops k ->
  p_reldecl (toks_decl nl nm d ++ k) = Some ({| rl_name := nm; rl_def := d |}, k).
Proof.
  intros Hnl Hnm Hwf Ok1 Ok2 Hk. unfold p_reldecl, toks_decl, lead_in.
  unfold is_tk, is_tk2, hd_tk, hd2_tk. cbn [app tl]. rewrite Hnl. cbn [mk tk].
  change (tk_eqb NEWLINE NEWLINE) with true. change (tk_eqb DEFINE HASH) with false. cbv iota. cbn [option_map fst].
  rewrite expect_mk. rewrite expect_mk. unfold expect_p. red in Hnm. rewrite Hnm.
  rewrite (skip_opt_no _ WHITESPACE) by reflexivity. rewrite expect_mk.
  rewrite skip_opt_mk.
  unfold wf_rdef in Hwf. apply andb_prop in Hwf. destruct Hwf as [Hwf Hr]. apply andb_prop in Hwf. destruct Hwf as [Hf Hp].
  rewrite (p_def_complete _ true (rd_first d) (rd_op d) (rd_rest d) k).
  - destruct d; reflexivity.
  - cbn [length]. rewrite app_length. pose proof (depth_def_le_len (rd_first d) (rd_op d) (rd_rest d)). lia.
  - repeat split; assumption.
  - exact Hk.
Qed.

(* ---------------------------------------------------------------------------------------- *)
(* 2. the parser reads kinds only, declarations included                                     *)
(* ---------------------------------------------------------------------------------------- *)
Section Natural.
  Variable g : tok -> tok.
  Hypothesis g_kind : forall t, tk (g t) = tk t.

  Definition reldecl_map (r : reldecl) : reldecl :=
    {| rl_name := g (rl_name r);
       rl_def := {| rd_first := relem_map g (rd_first (rl_def r)); rd_op := rd_op (rl_def r);
                    rd_rest := map (relem_map g) (rd_rest (rl_def r)) |} |}.

  Lemma skip_to_newline_map ts : skip_to_newline (map g ts) = map g (skip_to_newline ts).
  Proof. induction ts as [|t r IH]; [reflexivity|]. cbn [map skip_to_newline]. rewrite g_kind. destruct (tk_eqb (tk t) NEWLINE); [reflexivity|exact IH]. Qed.

  Lemma skip_comment_map fuel : forall ts, skip_comment fuel (map g ts) = option_map (map g) (skip_comment fuel ts).
  Proof.
    induction fuel as [|f IH]; intros ts; [reflexivity|]. cbn [skip_comment].
    rewrite (is_tk_map g g_kind HASH ts). destruct (is_tk HASH ts); [|reflexivity].
    rewrite (tl_map g), skip_to_newline_map.
    rewrite (is_tk_map g g_kind NEWLINE (skip_to_newline (tl ts))), (is_tk2_map g g_kind HASH (skip_to_newline (tl ts))).
    destruct (is_tk NEWLINE (skip_to_newline (tl ts)) && is_tk2 HASH (skip_to_newline (tl ts))); [|reflexivity].
    rewrite (tl_map g). apply IH.
  Qed.

  Lemma lead_in_map ts : lead_in (map g ts) = option_map (map g) (lead_in ts).
  Proof.
    unfold lead_in. rewrite (is_tk_map g g_kind NEWLINE ts), (is_tk2_map g g_kind HASH ts), map_length, (tl_map g), skip_comment_map.
    destruct (is_tk NEWLINE ts); [|reflexivity]. destruct (is_tk2 HASH ts); [|reflexivity].
    destruct (skip_comment (S (length ts)) (tl ts)) as [r|]; cbn [option_map]; [|reflexivity].
    rewrite (is_tk_map g g_kind NEWLINE r), (tl_map g). destruct (is_tk NEWLINE r); reflexivity.
  Qed.

  Lemma p_reldecl_map ts : p_reldecl (map g ts) = pmap g reldecl_map (p_reldecl ts).
  Proof.
    unfold p_reldecl. rewrite lead_in_map. destruct (lead_in ts) as [r0|]; cbn [option_map fst pmap]; [|reflexivity].
    rewrite (expect_map g g_kind). destruct (expect DEFINE r0) as [[x1 r1]|]; cbn [pmap option_map fst snd]; [|reflexivity].
    rewrite (expect_map g g_kind). destruct (expect WHITESPACE r1) as [[x2 r2]|]; cbn [pmap option_map fst snd]; [|reflexivity].
    rewrite (expect_p_map g g_kind). destruct (expect_p is_ext_identifier_tk r2) as [[nm r3]|]; cbn [pmap option_map fst snd]; [|reflexivity].
    rewrite (skip_opt_map g g_kind), (expect_map g g_kind). destruct (expect COLON (skip_opt WHITESPACE r3)) as [[x4 r4]|]; cbn [pmap option_map fst snd]; [|reflexivity].
    rewrite (skip_opt_map g g_kind), map_length, (p_def_natural g g_kind).
    destruct (p_def (S (length r4)) true (skip_opt WHITESPACE r4)) as [[[[fi op] rest] r5]|]; cbn [pmap option_map fst snd def_map]; reflexivity.
  Qed.
End Natural.

(* ---------------------------------------------------------------------------------------- *)
(* 3. characters: the line lexes to the canonical declaration                                *)
(* ---------------------------------------------------------------------------------------- *)
(* a text that is a sequence of recognised tokens followed by one line feed lexes to exactly those tokens and a NEWLINE *)
Lemma lexes_of_recs ts :
  recs ts [10] ->
  let s := concat (map snd ts) ++ [10] in
  map (fun t => (tk t, ttext t)) (fst (lex_all s)) = ts ++ [(NEWLINE, [10])] /\ snd (lex_all s) = [].
Proof.
  intros R s. pose proof (recs_length ts [10] R) as Hlen.
  unfold lex_all. destruct (lex_loop_lexk (S (length s)) s 0 1 0) as [A B].
  assert (Hf : (length ts <= S (length s))%nat) by (unfold s; rewrite app_length; lia).
  pose proof (lexk_tokens ts [10] (S (length s)) R Hf) as L. rewrite Nat.add_0_r in L. fold s in L. rewrite L in A, B. cbn [fst snd] in A, B.
  assert (E : (S (length s) - length ts = S (S (length s - length ts - 1)))%nat) by (unfold s; rewrite app_length; cbn [length]; lia).
  rewrite E in A, B. split; [exact A|]. destruct (snd (lex_loop (S (length s)) s 0 1 0)); [reflexivity|discriminate B].
Qed.

Definition decl_prefix (rel : str) : list kt :=
  [(NEWLINE, 10 :: lit "    "); (DEFINE, lit "define"); (WHITESPACE, lit " "); (IDENTIFIER, rel); (COLON, lit ":"); (WHITESPACE, lit " ")].

Lemma recs_decl_prefix rel R : plain_name rel = true -> solid_next R -> fits (decl_prefix rel) R.
Proof.
  intros Hn HR. unfold decl_prefix.
  apply fits_cons; [|apply fits_cons; [|apply fits_cons; [|apply fits_cons; [|apply fits_cons; [|apply fits_one]]]]]; cbn [fst snd map concat].
  - rewrite <- app_assoc. apply fit_newline; reflexivity.
  - rewrite <- app_assoc. apply (fit_kw DEFINE); [cbn; tauto|reflexivity].
  - apply rec_blank'. rewrite <- app_assoc. apply name_solid. exact Hn.
  - apply fit_name; [exact Hn|reflexivity].
  - apply (fit_punct COLON). cbn. tauto.
  - apply rec_blank'. exact HR.
Qed.

Lemma def_text_solid d rest : rdef_lex_ok d -> delim_next rest ->
  solid_next (text_of (toks_def (rd_first d) (rd_op d) (rd_rest d)) ++ rest).
Proof.
  intros (Hf & Hr & Hop) Hd. unfold toks_def. rewrite text_of_app, <- app_assoc.
  assert (Hall : Forall elem_lexes (rd_rest d)) by (apply Forall_forall; intros; apply elem_lexes_all).
  destruct (recs_partials (rd_op d) (rd_rest d) Hall Hr Hop rest Hd) as [_ Dp].
  apply (elem_lexes_all (rd_first d) Hf _ Dp).
Qed.

(* the canonical tokens of the line *)
Definition decl_toks (rel : str) (d : rdef) : list tok :=
  mk DEFINE :: mk WHITESPACE :: name_tok rel :: mk COLON :: mk WHITESPACE :: toks_def (rd_first d) (rd_op d) (rd_rest d).

Definition decl_line (rel : str) (d : rdef) : str := lit "    define " ++ rel ++ lit ": " ++ render_rdef d.

Theorem printed_declaration_lexes rel d :
  plain_name rel = true -> rdef_lex_ok d ->
  let s := [10] ++ decl_line rel d ++ [10] in
  map (fun t => (tk t, ttext t)) (fst (lex_all s)) = (NEWLINE, 10 :: lit "    ") :: kts (decl_toks rel d ++ [mk NEWLINE]) /\
  snd (lex_all s) = [].
Proof.
  intros Hn Hok s. set (C := toks_def (rd_first d) (rd_op d) (rd_rest d)).
  assert (R : recs (decl_prefix rel ++ kts C) [10]).
  { apply fits_recs. apply fits_app. split; [|apply rdef_lexes; [exact Hok|reflexivity]].
    apply recs_decl_prefix; [exact Hn|]. apply (def_text_solid d [10] Hok eq_refl). }
  pose proof (lexes_of_recs _ R) as L. cbv zeta in L.
  assert (Es : concat (map snd (decl_prefix rel ++ kts C)) ++ [10] = s).
  { unfold s, decl_line. rewrite map_app, concat_app. pose proof (rdef_text d Hok) as Et. unfold text_of in Et. fold C in Et.
    transitivity ((concat (map snd (decl_prefix rel)) ++ render_rdef d) ++ [10]); [f_equal; f_equal; exact Et|].
    cbn [decl_prefix map snd concat]. rewrite <- !app_assoc. reflexivity. }
  rewrite Es in L. destruct L as [L1 L2]. split; [|exact L2]. rewrite L1.
  unfold decl_toks. fold C. unfold decl_prefix. cbn [app kts map]. rewrite !kt_of_mk. rewrite map_app. cbn [map]. rewrite kt_of_mk.
  unfold kt_of at 1. cbn [name_tok tk ttext std_text]. destruct rel as [|c r]; [discriminate Hn|]. reflexivity.
Qed.

(* ---------------------------------------------------------------------------------------- *)
(* 4. THE ROUND TRIP of one printed relation line                                            *)
(* ---------------------------------------------------------------------------------------- *)
Lemma print_relation_text ty rel u meta t0 :
  expressible u = true -> print_top u (rm_types_of meta) = Some (t0, count_direct u) ->
  print_relation ty rel u meta false = Ok (lit "    define " ++ rel ++ lit ": " ++ t0).
Proof.
  intros He Hp. unfold print_relation. rewrite Hp, is_first_position_spec. unfold expressible in He. rewrite He.
  unfold source_comment. rewrite Bool.orb_true_r, app_nil_r. reflexivity.
Qed.

Theorem printed_declaration_round_trip ty rel u meta :
  let refs := rm_types_of meta in
  carriable u = true -> expressible u = true -> refs <> [] -> Forall plain_ref refs -> plain_u u -> plain_name rel = true ->
  exists t,
    print_relation ty rel u meta false = Ok t /\
    snd (lex ([10] ++ t ++ [10])) = [] /\
    exists r k,
      p_reldecl (fst (lex ([10] ++ t ++ [10]))) = Some (r, k) /\
      map tk k = [NEWLINE] /\
      ttext (rl_name r) = rel /\
      sem_rdef (rl_def r) = normalize u /\
      restrictions_elem (rd_first (rl_def r)) = (if (count_direct u =? 0)%nat then None else Some refs).
Proof.
  intros refs Hc He Hne Hpr Hpu Hn.
  destruct (printed_relation_denotes_normal_form refs u Hc He (plain_refs_ok refs Hpr)) as (t0 & Hprint & Ht0 & Hwf & Hsem & Hrestr).
  set (d := rdef_of refs u) in *.
  exists (lit "    define " ++ rel ++ lit ": " ++ t0). split; [apply print_relation_text; assumption|].
  pose proof (rdef_of_lex_ok refs u Hpr Hc Hpu) as Hok. fold d in Hok.
  destruct (printed_declaration_lexes rel d Hn Hok) as [HL Herr]. cbv zeta in HL, Herr. unfold decl_line in HL, Herr. rewrite <- Ht0 in HL, Herr.
  set (s := [10] ++ (lit "    define " ++ rel ++ lit ": " ++ t0) ++ [10]) in *.
  set (C := decl_toks rel d ++ [mk NEWLINE]) in *.
  destruct (fst (lex_all s)) as [|l0 L] eqn:EL; [discriminate HL|]. cbn [map] in HL.
  assert (E0 : (tk l0, ttext l0) = (NEWLINE, 10 :: lit "    ")) by (apply (f_equal (hd (tk l0, ttext l0))) in HL; exact HL).
  assert (EL' : map (fun t => (tk t, ttext t)) L = kts C) by (apply (f_equal (@tl _)) in HL; exact HL).
  assert (Hk0 : tk l0 = NEWLINE) by (inversion E0; reflexivity).
  assert (HC : Forall canon C).
  { unfold C, decl_toks. apply Forall_app. split; [|canon_list].
    repeat (apply Forall_cons; [first [apply canon_mk; reflexivity|apply canon_name; apply name_ok_name_tok; exact Hn]|]).
    apply canon_def. exact Hok. }
  destruct (forget_all _ _ EL' HC) as [Hforget Hfilter].
  assert (Elex : lex s = (l0 :: L, [])).
  { unfold lex. destruct (lex_all s) as [ts es]. cbn [fst snd] in *. subst ts es. cbn [filter]. unfold on_default_channel at 1. rewrite Hk0. cbn [tk_eqb negb].
    rewrite Hfilter. reflexivity. }
  rewrite Elex. cbn [fst snd]. split; [reflexivity|].
  destruct (rdef_of_toks_ok refs u Hne Hc) as [O1 O2]. fold d in O1, O2.
  pose proof (p_reldecl_complete (mk NEWLINE) (name_tok rel) d [mk NEWLINE] eq_refl (ident_name_tok rel) Hwf O1 O2 ltac:(unfold stops; cbn; discriminate)) as Hparse.
  pose proof (p_reldecl_map forget forget_kind (l0 :: L)) as Hnat.
  assert (Emap : map forget (l0 :: L) = toks_decl (mk NEWLINE) (name_tok rel) d ++ [mk NEWLINE]).
  { cbn [map]. rewrite Hforget. unfold forget at 1. rewrite Hk0. reflexivity. }
  rewrite Emap, Hparse in Hnat.
  destruct (p_reldecl (l0 :: L)) as [[r k]|]; [|discriminate Hnat].
  cbn [pmap option_map fst snd] in Hnat.
  assert (E1 : reldecl_map forget r = {| rl_name := name_tok rel; rl_def := d |}) by congruence.
  assert (E4 : map forget k = [mk NEWLINE]) by congruence.
  exists r, k. split; [reflexivity|]. split.
  { assert (Hk : map tk (map forget k) = map tk k) by (rewrite map_map; apply map_ext; intros; apply forget_kind). rewrite <- Hk, E4. reflexivity. }
  pose proof (f_equal rl_name E1) as En. pose proof (f_equal (fun x => rd_first (rl_def x)) E1) as Ef.
  pose proof (f_equal (fun x => rd_op (rl_def x)) E1) as Eo. pose proof (f_equal (fun x => rd_rest (rl_def x)) E1) as Er.
  cbn [reldecl_map rl_name rl_def rd_first rd_op rd_rest] in En, Ef, Eo, Er.
  destruct Hok as (Hokf & Hokr & Hokop).
  split.
  { assert (Hki : tk (forget (rl_name r)) = IDENTIFIER) by (rewrite En; reflexivity). rewrite forget_kind in Hki.
    assert (Et : ttext (forget (rl_name r)) = rel) by (rewrite En; reflexivity). unfold forget in Et. rewrite Hki in Et. exact Et. }
  assert (Hfirst : sem_elem (relem_map forget (rd_first (rl_def r))) = sem_elem (rd_first (rl_def r)) /\
                   restrictions_elem (relem_map forget (rd_first (rl_def r))) = restrictions_elem (rd_first (rl_def r))).
  { split; [apply sem_elem_map|apply restrictions_elem_map]; apply (forget_keeps_names _ (rd_first d)); auto. }
  assert (Hrest : map sem_elem (map (relem_map forget) (rd_rest (rl_def r))) = map sem_elem (rd_rest (rl_def r))).
  { rewrite map_map. apply map_ext_in. intros x Hx. apply sem_elem_map.
    assert (Hxok : lex_ok (relem_map forget x)).
    { assert (Hin : In (relem_map forget x) (rd_rest d)) by (rewrite <- Er; apply in_map; exact Hx).
      clear -Hokr Hin. induction (rd_rest d) as [|y l IH]; [destruct Hin|]. cbn in Hokr. destruct Hin as [<-|Hin]; [tauto|apply IH; tauto]. }
    apply (forget_keeps_names x (relem_map forget x) eq_refl Hxok). }
  destruct Hfirst as [S1 R1]. split.
  - rewrite <- Hsem. unfold sem_rdef. rewrite <- Ef, <- Eo, <- Er, S1, Hrest. reflexivity.
  - rewrite <- R1, Ef. exact Hrestr.
Qed.

(* C01 on one relation line: a definition the parser produced, printed as a declaration and read again, gives a
   declaration with the same name, the same rewrite and the same restrictions *)
Theorem parsed_declaration_round_trip ty rel d meta :
  let refs := rm_types_of meta in
  wf_rdef d = true -> refs <> [] -> Forall plain_ref refs -> plain_u (sem_rdef d) -> plain_name rel = true ->
  exists t,
    print_relation ty rel (sem_rdef d) meta false = Ok t /\
    snd (lex ([10] ++ t ++ [10])) = [] /\
    exists r k,
      p_reldecl (fst (lex ([10] ++ t ++ [10]))) = Some (r, k) /\
      map tk k = [NEWLINE] /\
      ttext (rl_name r) = rel /\
      sem_rdef (rl_def r) = sem_rdef d /\
      restrictions_elem (rd_first (rl_def r)) = (if (count_direct (sem_rdef d) =? 0)%nat then None else Some refs).
Proof.
  intros refs Hwf Hne Hpr Hpu Hn. destruct (parsed_relation_expressible d Hwf) as [Hc He].
  destruct (printed_declaration_round_trip ty rel (sem_rdef d) meta Hc He Hne Hpr Hpu Hn) as (t & Hp & Herr & r & k & H1 & H2 & H3 & H4 & H5).
  exists t. split; [exact Hp|]. split; [exact Herr|]. exists r, k. repeat split; try assumption.
  rewrite H4. apply parsed_is_normal. exact Hwf.
Qed.

(* non-vacuity: "    define viewer: [user, group#member with in_window] or editor or viewer from parent" *)
Example declaration_round_trip_example :
  let refs := [{| rr_type := lit "user"; rr_kind := RPlain; rr_cond := [] |};
               {| rr_type := lit "group"; rr_kind := RRel (lit "member"); rr_cond := lit "in_window" |}] in
  let meta := Some {| rm_types := refs; rm_module := []; rm_file := None |} in
  let u := UUnion [UComputed (lit "editor"); UThis ThisEmpty; UTTU (lit "parent") (lit "viewer")] in
  carriable u = true /\ expressible u = true /\ rm_types_of meta <> [] /\ Forall plain_ref (rm_types_of meta) /\ plain_u u /\
  plain_name (lit "viewer") = true /\
  print_relation (lit "doc") (lit "viewer") u meta false
    = Ok (lit "    define viewer: [user, group#member with in_window] or editor or viewer from parent") /\
  option_map (fun r => map tk (snd r))
    (p_reldecl (fst (lex ([10] ++ lit "    define viewer: [user, group#member with in_window] or editor or viewer from parent" ++ [10]))))
    = Some [NEWLINE].
Proof.
  cbv zeta. split; [reflexivity|]. split; [reflexivity|]. split; [discriminate|]. split.
  - repeat constructor; try (vm_compute; reflexivity); try discriminate; exact I.
  - split; [cbn; repeat split; vm_compute; reflexivity|]. split; [vm_compute; reflexivity|]. split; vm_compute; reflexivity.
Qed.
Print Assumptions printed_declaration_round_trip.

(* Proofs/LosslessTokens.v — the tree the printer's text denotes (Spec/Normalize.rdef_of) is parsed back, from its
   canonical token sequence, to itself: printer -> tokens -> parser -> listener gives the normalised rewrite.
   (What is still not mechanised is the lexer: that the characters of the printed line lex to these tokens.) *)
From Verif Require Import Base.Str Base.Outcome Model.Ast Model.Token Model.Parser Model.Listener Model.Printer
  Spec.Sem Spec.Expressible Spec.Normalize Proofs.PrinterExpressible Proofs.ListenerSem Proofs.RoundTrip Proofs.Lossless
  Proofs.ParserComplete.

Lemma ident_name_tok s : ident (name_tok s).
Proof. reflexivity. Qed.

Lemma restr_ok_of_ref r : restr_ok (restr_of_ref r).
Proof.
  unfold restr_ok, restr_of_ref. cbn [rs_type rs_kind rs_cond]. split; [apply ident_name_tok|]. split.
  - destruct (rr_kind r); try exact I. apply ident_name_tok.
  - destruct (is_empty (rr_cond r)); [exact I|reflexivity].
Qed.

Lemma toks_ok_all_map (f : userset -> relem) l : Forall (fun c => toks_ok (f c)) l -> toks_ok_all (map f l).
Proof. induction 1 as [|x l Hx _ IH]; cbn; auto. Qed.

Lemma toks_ok_group_of op xs : xs <> [] -> toks_ok_all xs -> toks_ok (group_of op xs).
Proof.
  intros Hne H. destruct xs as [|x [|y r]]; [contradiction| |].
  - cbn [group_of]. apply (proj2 (toks_ok_group _ _ _ _)). cbn [toks_ok_all] in H. destruct H as [H _]. split; [exact H|exact I].
  - cbn [group_of]. apply (proj2 (toks_ok_group _ _ _ _)). cbn [toks_ok_all] in H. destruct H as [H1 H2]. split; [exact H1|exact H2].
Qed.

Lemma tree_toks_ok refs u : refs <> [] -> carriable u = true -> toks_ok (tree_of refs u).
Proof.
  intros Hrefs.
  induction u as [| [|] | rel | ts cu | cs IH | cs IH | b s IHb IHs] using userset_ind'; intros Hc; try discriminate Hc.
  - cbn [tree_of toks_ok]. split; [intros E; apply map_eq_nil in E; contradiction|].
    apply Forall_forall. intros r Hr. apply in_map_iff in Hr. destruct Hr as [r0 [<- _]]. apply restr_ok_of_ref.
  - cbn. split; [apply ident_name_tok|exact I].
  - cbn. split; apply ident_name_tok.
  - cbn [carriable] in Hc. destruct (carriable_children cs Hc) as [Hne Hall]. rewrite tree_of_union.
    apply toks_ok_group_of.
    + intros E. apply map_eq_nil in E. revert E. apply prioritize_nonempty. exact Hne.
    + apply toks_ok_all_map. apply Forall_prioritize. rewrite Forall_forall in IH, Hall |- *. intros c Hin. apply IH; auto.
  - cbn [carriable] in Hc. destruct (carriable_children cs Hc) as [Hne Hall]. rewrite tree_of_inter.
    apply toks_ok_group_of.
    + intros E. apply map_eq_nil in E. revert E. apply prioritize_nonempty. exact Hne.
    + apply toks_ok_all_map. apply Forall_prioritize. rewrite Forall_forall in IH, Hall |- *. intros c Hin. apply IH; auto.
  - cbn [carriable] in Hc. apply andb_prop in Hc. destruct Hc as [Hb Hs]. cbn [tree_of]. apply (proj2 (toks_ok_group _ _ _ _)).
    split; [apply IHb; exact Hb|]. cbn. split; [apply IHs; exact Hs|exact I].
Qed.

Lemma toks_ok_promote e : toks_ok e -> toks_ok (promote e).
Proof.
  induction e as [rs|cu t|nd first op rest IHf _] using relem_ind'; intros H; try exact H.
  cbn [promote]. apply (proj2 (toks_ok_group _ _ _ _)). destruct (proj1 (toks_ok_group _ _ _ _) H) as [H1 H2]. split; [apply IHf; exact H1|exact H2].
Qed.

Lemma rdef_of_toks_ok refs u : refs <> [] -> carriable u = true ->
  toks_ok (rd_first (rdef_of refs u)) /\ toks_ok_all (rd_rest (rdef_of refs u)).
Proof.
  intros Hrefs Hc. pose proof (tree_toks_ok refs u Hrefs Hc) as H. unfold rdef_of.
  destruct (tree_of refs u) as [rs|cu t|nd first op rest]; cbn [rd_first rd_rest]; try (split; [exact H|exact I]).
  destruct (proj1 (toks_ok_group _ _ _ _) H) as [H1 H2]. split; [apply toks_ok_promote; exact H1|exact H2].
Qed.

(* printer -> (canonical tokens) -> parser -> listener: the normalised rewrite, for every carriable expressible rewrite *)
Theorem printed_tree_parses_back refs u k :
  carriable u = true -> expressible u = true -> refs <> [] -> stops k ->
  let d := rdef_of refs u in
  p_def (S (depth_def (rd_first d) (rd_rest d))) true (toks_def (rd_first d) (rd_op d) (rd_rest d) ++ k)
    = Some ((rd_first d, rd_op d, rd_rest d), k) /\
  sem_rdef d = normalize u.
Proof.
  intros Hc He Hrefs Hk d. destruct (rdef_of_toks_ok refs u Hrefs Hc) as [O1 O2]. split.
  - apply parser_complete_for_definitions; try assumption. unfold d. rewrite rdef_of_wf. apply leading_tree_wf; assumption.
  - unfold d. rewrite rdef_of_sem. apply tree_denotes_normalize. exact Hc.
Qed.

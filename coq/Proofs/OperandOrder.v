(* Proofs/OperandOrder.v — C06, last clause: the weights an operator node gets do not depend on the ORDER of its operand
   edges.  The union strategy (maximum over the edges) and the intersection strategy (types every edge has, with the
   largest weight) are symmetric functions of the list of edge weight maps: any permutation of the list gives the same
   map (the same weight for every type).  The exclusion strategy is symmetric in its base edges. *)
From Coq Require Import Permutation.
From Verif Require Import Base.Str Base.Outcome Model.Ast Model.Printer Model.WGraph Model.WWeights Proofs.StrategyProofs.

(* a fold whose step commutes with itself is invariant under permutation of the list *)
Lemma fold_left_perm {A B} (f : A -> B -> A) : (forall a x y, f (f a x) y = f (f a y) x) ->
  forall l l', Permutation l l' -> forall a, fold_left f l a = fold_left f l' a.
Proof.
  intros Hc l l' H. induction H as [|x l l' _ IH|x y l|l l' l'' _ IH1 _ IH2]; intros a; cbn [fold_left].
  - reflexivity.
  - apply IH.
  - rewrite Hc. reflexivity.
  - rewrite IH1. apply IH2.
Qed.

Lemma omax_swap a x y : omax (omax a x) y = omax (omax a y) x.
Proof. destruct a, x, y; cbn; try reflexivity; f_equal; rewrite <- ?N.max_assoc; try (f_equal; apply N.max_comm); apply N.max_comm. Qed.

Lemma Forall_perm' {A} (P : A -> Prop) l l' : Permutation l l' -> Forall P l -> Forall P l'.
Proof. intros Hp H. apply Forall_forall. intros x Hx. rewrite Forall_forall in H. apply H. apply (Permutation_in x (Permutation_sym Hp)). exact Hx. Qed.

(* ---- union, plain relations ---- *)
Theorem union_operand_order ws ws' k :
  Permutation ws ws' -> Forall (fun w => NoDup (keys w)) ws ->
  wget k (max_weights ws) = wget k (max_weights ws').
Proof.
  intros Hp Hnd. rewrite (max_strategy_spec ws k Hnd), (max_strategy_spec ws' k (Forall_perm' _ _ _ Hp Hnd)). unfold omax_all.
  apply (fold_left_perm (fun acc w => omax acc (wget k w))); [intros; apply omax_swap|exact Hp].
Qed.

(* ---- intersection ---- *)
(* the accumulator before the first operand *)
Inductive acc_t := Top | Val (v : option N).
Definition and_step (k : str) (a : acc_t) (w : wmap) : acc_t :=
  match a with Top => Val (wget k w) | Val v => Val (oand v (wget k w)) end.

Lemma oand_swap a x y : oand (oand a x) y = oand (oand a y) x.
Proof. destruct a, x, y; cbn; try reflexivity. f_equal. rewrite <- !N.max_assoc. f_equal. apply N.max_comm. Qed.
Lemma oand_comm x y : oand x y = oand y x.
Proof. destruct x, y; cbn; try reflexivity. f_equal. apply N.max_comm. Qed.

Lemma and_step_swap k a x y : and_step k (and_step k a x) y = and_step k (and_step k a y) x.
Proof. destruct a; cbn [and_step]; [f_equal; apply oand_comm|f_equal; apply oand_swap]. Qed.

Lemma and_fold k rest : forall v, fold_left (and_step k) rest (Val v) = Val (fold_left (fun acc w => oand acc (wget k w)) rest v).
Proof. induction rest as [|w r IH]; intros v; cbn [fold_left and_step]; [reflexivity|apply IH]. Qed.

Theorem intersection_operand_order first rest first' rest' k :
  Permutation (first :: rest) (first' :: rest') -> NoDup (keys first) -> NoDup (keys first') ->
  wget k (enforce_weights first rest) = wget k (enforce_weights first' rest').
Proof.
  intros Hp H1 H2. rewrite (enforce_strategy_spec first rest k H1), (enforce_strategy_spec first' rest' k H2).
  pose proof (fold_left_perm (and_step k) (and_step_swap k) _ _ Hp Top) as H. cbn [fold_left and_step] in H.
  rewrite !and_fold in H. inversion H. reflexivity.
Qed.

(* ---- exclusion: symmetric in the edges of the base ---- *)
Theorem exclusion_base_order init init' last_w k :
  Permutation init init' -> Forall (fun w => NoDup (keys w)) init -> NoDup (keys last_w) ->
  wget k (raise_only (max_weights init) last_w) = wget k (raise_only (max_weights init') last_w).
Proof.
  intros Hp Hnd Hl. rewrite (mixed_strategy_spec init last_w k Hnd Hl), (mixed_strategy_spec init' last_w k (Forall_perm' _ _ _ Hp Hnd) Hl).
  unfold omax_all. rewrite (fold_left_perm (fun acc w => omax acc (wget k w)) (fun a x y => omax_swap a (wget k x) (wget k y)) _ _ Hp None). reflexivity.
Qed.
Print Assumptions intersection_operand_order.

(* Proofs/DocTidy.v — every line of a canonical document is tidy (no " #", no trailing blank, no comment line), so the
   pre-pass of ParseDSL returns the printed document without its closing line feed (Proofs/PrepassTidy.v). *)
From Coq Require Import Lia.
From Verif Require Import Base.Str Base.Outcome Model.Ast Model.Token Gen.Keywords Model.Lexer Model.Parser Spec.Sem Spec.Normalize
  Proofs.ListenerSem Proofs.ParserComplete Proofs.LexInversion Proofs.LexRender Proofs.PrepassTidy.

(* ---- texts without " #" ---- *)
Definition P (s : str) : Prop := cut_comment s = s /\ hd 0 s <> 35 /\ ~ In 10 s.
(* ... that do not end with a blank *)
Definition L (s : str) : Prop := match rev s with c :: _ => (c =? 32) = false | [] => False end.

Lemma cut_comment_app x : forall y, cut_comment x = x -> cut_comment y = y -> hd 0 y <> 35 -> cut_comment (x ++ y) = x ++ y.
Proof.
  induction x as [|c x IH]; intros y Hx Hy Hh; [exact Hy|]. destruct x as [|d x'].
  - cbn [app cut_comment]. destruct y as [|e y']; [rewrite Bool.andb_false_r; reflexivity|]. cbn [hd] in Hh.
    destruct (c =? 32) eqn:Ec; cbn [andb]; [|f_equal; exact Hy].
    destruct (e =? 35) eqn:Ee; [apply N.eqb_eq in Ee; contradiction|]. f_equal. exact Hy.
  - cbn [app cut_comment] in Hx |- *. destruct ((c =? 32) && (d =? 35)); [discriminate Hx|]. f_equal.
    apply (IH y); [|exact Hy|exact Hh]. injection Hx as Hx. exact Hx.
Qed.

Lemma P_app x y : P x -> P y -> P (x ++ y).
Proof.
  intros (X1 & X2 & X3) (Y1 & Y2 & Y3). split; [apply cut_comment_app; assumption|]. split.
  - destruct x; [exact Y2|exact X2].
  - intros H. apply in_app_or in H. tauto.
Qed.
Lemma P_nil : P [].
Proof. repeat split; [cbn; discriminate|intros []]. Qed.
Lemma P_join sep l : P sep -> Forall P l -> P (join sep l).
Proof.
  intros Hs. induction 1 as [|x l Hx Hl IH]; [exact P_nil|]. destruct l as [|y l]; [exact Hx|].
  change (join sep (x :: y :: l)) with (x ++ sep ++ join sep (y :: l)). apply P_app; [exact Hx|apply P_app; [exact Hs|exact IH]].
Qed.

Lemma L_app_r x y : L y -> L (x ++ y).
Proof. unfold L. rewrite rev_app_distr. destruct (rev y); [intros []|]. cbn. exact (fun H => H). Qed.
Lemma L_join sep x l : Forall L (x :: l) -> L (join sep (x :: l)).
Proof.
  revert x. induction l as [|y l IH]; intros x H; inversion H as [|? ? Hx Hl]; subst; [exact Hx|].
  change (join sep (x :: y :: l)) with (x ++ sep ++ join sep (y :: l)). apply L_app_r, L_app_r, IH. exact Hl.
Qed.

(* texts without blanks and line feeds at all *)
Definition Q (s : str) : Prop := forall c, In c s -> c <> 32 /\ c <> 10.
Lemma Q_cut s : Q s -> cut_comment s = s.
Proof.
  induction s as [|c s IH]; intros H; [reflexivity|]. cbn [cut_comment].
  destruct (c =? 32) eqn:E; [apply N.eqb_eq in E; destruct (H c (or_introl eq_refl)); contradiction|]. cbn [andb]. f_equal.
  apply IH. intros x Hx. apply H. right. exact Hx.
Qed.
Lemma Q_P s : Q s -> hd 0 s <> 35 -> P s.
Proof. intros H Hh. split; [apply Q_cut; exact H|]. split; [exact Hh|]. intros Hin. destruct (H 10 Hin) as [_ X]. contradiction. Qed.
Lemma Q_app x y : Q x -> Q y -> Q (x ++ y).
Proof. intros Hx Hy c H. apply in_app_or in H. destruct H; [apply Hx|apply Hy]; assumption. Qed.

(* ---- names ---- *)
Lemma name_chars s : plain_name s = true -> Q s /\ hd 0 s <> 35 /\ L s.
Proof.
  unfold plain_name. intros H. apply andb_prop in H. destruct H as [H _]. apply andb_prop in H. destruct H as [H _].
  destruct s as [|c r]; [discriminate|]. apply andb_prop in H. destruct H as [Hc Hr].
  assert (HQ : Q (c :: r)).
  { intros x [<-|Hx]; [pose proof (id_start_ge c Hc); lia|]. rewrite forallb_forall in Hr. pose proof (id_char_ge x (Hr x Hx)). lia. }
  split; [exact HQ|]. split; [cbn; pose proof (id_start_ge c Hc); lia|].
  unfold L. destruct (rev (c :: r)) as [|z zs] eqn:E; [apply (f_equal (@rev _)) in E; rewrite rev_involutive in E; discriminate|].
  assert (Hin : In z (c :: r)) by (apply in_rev; rewrite E; left; reflexivity). destruct (HQ z Hin) as [Hz _]. apply N.eqb_neq. exact Hz.
Qed.
Lemma name_P s : plain_name s = true -> P s.
Proof. intros H. destruct (name_chars s H) as (A & B & _). apply Q_P; assumption. Qed.
Lemma name_L s : plain_name s = true -> L s.
Proof. intros H. apply (name_chars s H). Qed.

Ltac lit_P := (split; [reflexivity|split; [cbn; discriminate|cbn; intuition discriminate]]).

(* ---- a type restriction, an operand, a definition ---- *)
Lemma restr_PL r : restr_lex_ok r -> P (render_restr r) /\ L (render_restr r).
Proof.
  intros (Ht & Hk & Hc). destruct Ht as [_ Ht]. unfold render_restr.
  assert (Hhead : Q (ttext (rs_type r) ++ match rs_kind r with RKWild => lit ":*" | RKRel t => lit "#" ++ ttext t | RKPlain => [] end) /\
                  L (ttext (rs_type r) ++ match rs_kind r with RKWild => lit ":*" | RKRel t => lit "#" ++ ttext t | RKPlain => [] end)).
  { destruct (name_chars _ Ht) as (A & B & C). destruct (rs_kind r) as [| |t].
    - rewrite app_nil_r. split; assumption.
    - split; [apply Q_app; [exact A|intros c [<-|[<-|[]]]; split; discriminate]|apply L_app_r; reflexivity].
    - destruct Hk as [_ Hk]. destruct (name_chars _ Hk) as (A' & _ & C'). split.
      + apply Q_app; [exact A|]. apply (Q_app (lit "#")); [intros c [<-|[]]; split; discriminate|exact A'].
      + apply L_app_r, L_app_r. exact C'. }
  destruct Hhead as [HQ HL]. rewrite app_assoc.
  assert (Hh : hd 0 (ttext (rs_type r) ++ match rs_kind r with RKWild => lit ":*" | RKRel t => lit "#" ++ ttext t | RKPlain => [] end) <> 35).
  { destruct (name_chars _ Ht) as (_ & B & _). destruct (ttext (rs_type r)); [cbn in B |- *; destruct (rs_kind r); cbn; try discriminate; exact B|exact B]. }
  destruct (rs_cond r) as [c|].
  - destruct Hc as [_ Hc]. split.
    + apply P_app; [apply Q_P; assumption|]. apply (P_app (lit " with ")); [lit_P|apply name_P; exact Hc].
    + apply L_app_r, L_app_r. apply name_L. exact Hc.
  - rewrite app_nil_r. split; [apply Q_P; assumption|exact HL].
Qed.

Lemma op_text_P op : P (op_text op).
Proof. destruct op; [exact P_nil|lit_P|lit_P|lit_P]. Qed.

Lemma elem_PL e : lex_ok e -> P (render_elem e) /\ L (render_elem e).
Proof.
  induction e as [rs|cu ts|nd first op rest IHf IHr] using relem_ind'; intros Hok.
  - cbn [render_elem]. split; [|apply L_app_r, L_app_r; reflexivity].
    apply (P_app (lit "[")); [lit_P|]. apply P_app; [|lit_P]. apply P_join; [lit_P|].
    cbn [lex_ok] in Hok. apply Forall_forall. intros x Hx. apply in_map_iff in Hx. destruct Hx as [r [<- Hr]].
    rewrite Forall_forall in Hok. apply (restr_PL r (Hok r Hr)).
  - cbn [lex_ok] in Hok. destruct Hok as [[_ Hcu] Hts]. destruct ts as [t|]; cbn [render_elem].
    + destruct Hts as [_ Hts]. split; [|apply L_app_r, L_app_r, name_L; exact Hts].
      apply P_app; [apply name_P; exact Hcu|]. apply (P_app (lit " from ")); [lit_P|apply name_P; exact Hts].
    + split; [apply name_P|apply name_L]; exact Hcu.
  - destruct (proj1 (lex_ok_group _ _ _ _) Hok) as (Hf & Hr & _). cbn [render_elem]. split; [|apply L_app_r, L_app_r; reflexivity].
    apply (P_app (lit "(")); [lit_P|]. apply P_app; [|lit_P]. apply P_join; [apply op_text_P|].
    constructor; [apply IHf; exact Hf|]. clear -IHr Hr. induction IHr as [|x rest Hx _ IH]; [constructor|]. cbn [lex_ok_all] in Hr. destruct Hr as [H1 H2].
    cbn [map]. constructor; [apply Hx; exact H1|apply IH; exact H2].
Qed.

Lemma rdef_PL d : rdef_lex_ok d -> P (render_rdef d) /\ L (render_rdef d).
Proof.
  intros (Hf & Hr & _). unfold render_rdef.
  assert (Hall : Forall (fun x => P x /\ L x) (render_elem (rd_first d) :: map render_elem (rd_rest d))).
  { constructor; [apply elem_PL; exact Hf|]. induction (rd_rest d) as [|x rest IH]; [constructor|]. cbn [lex_ok_all] in Hr. destruct Hr as [H1 H2].
    cbn [map]. constructor; [apply elem_PL; exact H1|apply IH; exact H2]. }
  split; [apply P_join; [apply op_text_P|eapply Forall_impl; [|exact Hall]; intros x [H _]; exact H]|].
  apply L_join. eapply Forall_impl; [|exact Hall]. intros x [_ H]; exact H.
Qed.

(* ---- the lines of a canonical document ---- *)
Lemma tidy_of_PL pre s : pre <> [] -> (forall x, clean_line (pre ++ x) = trim_right is_space (cut_comment (pre ++ x))) -> P pre -> P s -> L s ->
  tidy_line (pre ++ s).
Proof.
  intros Hne Hcl Hp Hs Hl. destruct (P_app pre s Hp Hs) as (C1 & _ & C3). split; [|exact C3].
  rewrite Hcl, C1. apply trim_right_keep. pose proof (L_app_r pre s Hl) as H. unfold L in H. destruct (rev (pre ++ s)); [exact I|exact H].
Qed.

Definition decl_text (n : str) (d : rdef) : str := lit "    define " ++ n ++ lit ": " ++ render_rdef d.

Lemma decl_tidy n d : plain_name n = true -> rdef_lex_ok d -> tidy_line (decl_text n d).
Proof.
  intros Hn Hd. destruct (rdef_PL d Hd) as [Pd Ld]. unfold decl_text.
  apply (tidy_of_PL (lit "    define ")); [discriminate|intros x; reflexivity|lit_P| |].
  - apply P_app; [apply name_P; exact Hn|]. apply (P_app (lit ": ")); [lit_P|exact Pd].
  - apply L_app_r, L_app_r. exact Ld.
Qed.

Lemma type_line_tidy n : plain_name n = true -> tidy_line (lit "type " ++ n).
Proof. intros Hn. apply (tidy_of_PL (lit "type ")); [discriminate|intros x; reflexivity|lit_P|apply name_P; exact Hn|apply name_L; exact Hn]. Qed.

(* Proofs/LexFit.v — recognition of a token as a LOCAL fact: which characters the token consists of and what the first
   character after it is.  [fit k t rest] says so for the tokens of a condition-free document (names, the keywords of
   relation definitions and of the document frame, punctuation, runs of blanks and tabs, line breaks with any
   indentation, the schema version); it implies that the lexer model recognises [t] as one token of kind [k] in front of
   [rest] ([fit_sound]).  Because it looks at one character of [rest] only, a sequence of fitting tokens stays one when the
   runs of blanks and the line breaks in it are replaced by others ([fits_relayout]) — the step from the canonical
   layout of a document to every layout with the same tokens. *)
From Coq Require Import Lia.
From Verif Require Import Spec.DocDomain Base.Str Model.Token Gen.Keywords Model.Lexer Proofs.LexInversion Proofs.LexEof.

(* ---------------------------------------------------------------------------------------- *)
(* texts                                                                                     *)
(* ---------------------------------------------------------------------------------------- *)
Definition std_text (k : tkind) : str :=
  match k with
  | COLON => lit ":" | STAR => lit "*" | HASH => lit "#" | COMMA => lit "," | LBRACKET => lit "[" | RPRACKET => lit "]"
  | LPAREN => lit "(" | RPAREN => lit ")" | WHITESPACE => lit " " | OR => lit "or" | AND => lit "and"
  | BUT_NOT => lit "but not" | FROM => lit "from" | KEYWORD_WITH => lit "with" | NEWLINE => [10]
  | DEFINE => lit "define" | TYPE => lit "type" | RELATIONS => lit "relations" | MODEL => lit "model" | SCHEMA => lit "schema"
  | EXTEND => lit "extend" | MODULE => lit "module" | _ => []
  end.

(* a blank or a tab; a non-empty run of them; a line break: a line feed, then line feeds, blanks and tabs *)
Definition blankc (c : N) : bool := (c =? 32) || (c =? 9).
Definition ws_run (w : str) : bool := match w with [] => false | _ => forallb blankc w end.
Definition nl_text (s : str) : bool :=
  match s with c :: r => (c =? 10) && forallb (fun x => (x =? 10) || blankc x) r | [] => false end.

(* what follows a token *)
Definition delim_next (rest : str) : Prop := match rest with d :: _ => is_delim d = true | [] => True end.
Definition solid_next (rest : str) : Prop := match rest with c :: _ => is_nlish c = false | [] => False end.
Definition blank_next (rest : str) : Prop := match rest with c :: _ => blankc c = true | [] => False end.
Definition nl_next (rest : str) : Prop := match rest with [] => True | c :: _ => c = 10 end.
Definition lf_next (rest : str) : Prop := match rest with [] => False | c :: _ => c = 10 end.

Lemma blankc_cases c : blankc c = true -> c = 32 \/ c = 9.
Proof. unfold blankc. intros H. apply orb_prop in H. destruct H as [H|H]; apply N.eqb_eq in H; tauto. Qed.
Lemma blankc_delim c : blankc c = true -> is_delim c = true.
Proof. intros H. destruct (blankc_cases c H) as [-> | ->]; reflexivity. Qed.
Lemma blankc_ws c : blankc c = true -> is_ws_char c = true.
Proof. intros H. destruct (blankc_cases c H) as [-> | ->]; reflexivity. Qed.

Lemma delim_blank rest : blank_next rest -> delim_next rest.
Proof. destruct rest as [|c r]; [intros []|]. cbn. apply blankc_delim. Qed.
Lemma nl_next_delim rest : nl_next rest -> delim_next rest.
Proof. destruct rest as [|c r]; [exact (fun _ => I)|]. cbn. intros ->. reflexivity. Qed.
Lemma lf_nl_next rest : lf_next rest -> nl_next rest.
Proof. destruct rest; [intros []|exact (fun H => H)]. Qed.

Lemma str_eqb_eq a b : str_eqb a b = true -> a = b.
Proof.
  revert b. induction a as [|x a IH]; intros [|y b] H; cbn in H; try discriminate; [reflexivity|].
  apply andb_prop in H. destruct H as [H1 H2]. apply N.eqb_eq in H1. subst y. f_equal. apply IH. exact H2.
Qed.

(* ---------------------------------------------------------------------------------------- *)
(* keywords in front of a blank or a tab, "relations" and "model" in front of a line feed    *)
(* ---------------------------------------------------------------------------------------- *)
Definition kw_blank : list tkind := [OR; AND; BUT_NOT; FROM; KEYWORD_WITH; TYPE; SCHEMA; DEFINE].
Definition kw_line : list tkind := [RELATIONS; MODEL].
Definition punct : list tkind := [COLON; STAR; HASH; COMMA; LBRACKET; RPRACKET; LPAREN; RPAREN].
Definition mem_tk (k : tkind) (l : list tkind) : bool := existsb (tk_eqb k) l.

Lemma tk_of_code_code k : tk_of_code (tk_code k) = Some k.
Proof. destruct k; vm_compute; reflexivity. Qed.
Lemma tk_eqb_true a b : tk_eqb a b = true -> a = b.
Proof.
  unfold tk_eqb. intros H. apply N.eqb_eq in H. pose proof (tk_of_code_code a) as Ha. rewrite H, tk_of_code_code in Ha. congruence.
Qed.

Lemma mem_tk_in k l : mem_tk k l = true -> In k l.
Proof.
  unfold mem_tk. intros H. apply existsb_exists in H. destruct H as [x [Hin E]]. apply tk_eqb_true in E. subst x. exact Hin.
Qed.

Lemma rec_kw_blank k c rest : In k kw_blank -> blankc c = true -> rec_at k (std_text k) (c :: rest).
Proof.
  intros Hk Hc. destruct (blankc_cases c Hc) as [-> | ->];
    destruct Hk as [<-|[<-|[<-|[<-|[<-|[<-|[<-|[<-|[]]]]]]]]];
    (split; [destruct rest as [|? [|? ?]]; vm_compute; reflexivity|split; [discriminate|reflexivity]]).
Qed.

Lemma rec_kw_line k rest : In k kw_line -> rec_at k (std_text k) (10 :: rest).
Proof.
  intros Hk. destruct Hk as [<-|[<-|[]]];
    (split; [destruct rest as [|? [|? ?]]; vm_compute; reflexivity|split; [discriminate|reflexivity]]).
Qed.

Lemma rec_punct_std k rest : In k punct -> rec_at k (std_text k) rest.
Proof.
  intros Hk. destruct Hk as [<-|[<-|[<-|[<-|[<-|[<-|[<-|[<-|[]]]]]]]]];
    [apply rec_colon|apply rec_star|apply rec_hash|apply rec_comma|apply rec_lbracket|apply rec_rbracket|apply rec_lparen|apply rec_rparen].
Qed.

(* ---------------------------------------------------------------------------------------- *)
(* a run of blanks and tabs in front of something that is neither                            *)
(* ---------------------------------------------------------------------------------------- *)
Lemma no_literal_starts_with_blankc :
  forallb (fun l => match l with c :: _ => negb (blankc c) && negb (c =? 10) | [] => false end) all_literal_spellings = true.
Proof. vm_compute. reflexivity. Qed.

Lemma literal_zero b t l : In l all_literal_spellings -> blankc b = true \/ b = 10 -> rec_literal l (b :: t) = 0%nat.
Proof.
  intros Hl Hb. pose proof no_literal_starts_with_blankc as H. rewrite forallb_forall in H. specialize (H l Hl).
  unfold rec_literal. destruct l as [|c0 l]; [discriminate|]. cbn [is_prefix].
  apply andb_prop in H. destruct H as [H1 H2]. apply negb_true_iff in H1, H2.
  assert (E : (c0 =? b) = false).
  { apply N.eqb_neq. intros ->. destruct Hb as [Hb| ->]; [congruence|discriminate H2]. }
  rewrite E. reflexivity.
Qed.

Lemma ws_run_all w : ws_run w = true -> forallb blankc w = true /\ w <> [].
Proof. destruct w as [|b w']; [discriminate|]. intros H. split; [exact H|discriminate]. Qed.

Lemma forallb_imp {A} (p q : A -> bool) l : (forall x, p x = true -> q x = true) -> forallb p l = true -> forallb q l = true.
Proof. intros Hpq H. rewrite forallb_forall in H |- *. intros x Hx. apply Hpq, H, Hx. Qed.

Lemma existsb_none {A} (p q : A -> bool) l : (forall x, p x = true -> q x = false) -> forallb p l = true -> existsb q l = false.
Proof.
  intros Hpq H. induction l as [|x l IH]; [reflexivity|]. cbn in H |- *. apply andb_prop in H. destruct H as [Hx Hl].
  rewrite (Hpq x Hx), (IH Hl). reflexivity.
Qed.

Lemma rec_ws_run w c rest : ws_run w = true -> is_nlish c = false -> rec_at WHITESPACE w (c :: rest).
Proof.
  intros Hw Hc. destruct (ws_run_all w Hw) as [Hall Hne]. destruct w as [|b w']; [contradiction|].
  assert (Hws : is_ws_char c = false) by (unfold is_nlish in Hc; apply orb_false_iff in Hc; destruct Hc as [Hc _]; apply orb_false_iff in Hc; tauto).
  assert (Hallws : forallb is_ws_char (b :: w') = true) by (apply (forallb_imp blankc); [exact blankc_ws|exact Hall]).
  assert (Hallnl : forallb is_nlish (b :: w') = true).
  { apply (forallb_imp blankc); [|exact Hall]. intros x Hx. unfold is_nlish. rewrite (blankc_ws x Hx). reflexivity. }
  assert (Hb : blankc b = true) by (cbn in Hall; apply andb_prop in Hall; tauto).
  split; [|split; [discriminate|reflexivity]].
  rewrite default_rules_parts. change recognisers with ([] ++ (WHITESPACE, rec_whitespace) :: tl recognisers). rewrite app_assoc.
  apply best_rule_wins.
  - unfold rec_whitespace. apply run_len_app; assumption.
  - cbn. lia.
  - rewrite app_nil_r. apply (literals_bound _ (fun n => (n < length (b :: w'))%nat)).
    + intros l Hl. change ((b :: w') ++ c :: rest) with (b :: (w' ++ c :: rest)). rewrite (literal_zero b _ l Hl (or_introl Hb)). cbn. lia.
    + change ((b :: w') ++ c :: rest) with (b :: (w' ++ c :: rest)). unfold rec_schema_version. cbn [run_len].
      destruct (blankc_cases b Hb) as [-> | ->]; cbn; lia.
  - change ((b :: w') ++ c :: rest) with (b :: (w' ++ c :: rest)).
    cbn [tl recognisers]. repeat apply Forall_cons; try apply Forall_nil; cbn [snd];
      try (destruct (blankc_cases b Hb) as [-> | ->]; destruct (w' ++ c :: rest) as [|? ?]; cbn; lia).
    unfold rec_newline. change (b :: w' ++ c :: rest) with ((b :: w') ++ c :: rest).
    rewrite (run_len_app is_nlish (b :: w') c rest Hallnl Hc), firstn_app_exact.
    rewrite (existsb_none blankc is_nl_core (b :: w')); [lia| |exact Hall].
    intros x Hx. destruct (blankc_cases x Hx) as [-> | ->]; reflexivity.
Qed.

(* ---------------------------------------------------------------------------------------- *)
(* a line break with what stands on the following lines before the first solid character     *)
(* ---------------------------------------------------------------------------------------- *)
Lemma nl_text_nlish s : nl_text s = true -> forallb is_nlish s = true.
Proof.
  destruct s as [|c r]; [discriminate|]. cbn [nl_text forallb]. intros H. apply andb_prop in H. destruct H as [Hc Hr].
  apply andb_true_intro. split.
  - apply N.eqb_eq in Hc. subst c. reflexivity.
  - rewrite forallb_forall in Hr |- *. intros x Hx. specialize (Hr x Hx). apply orb_prop in Hr.
    destruct Hr as [E|E]; [apply N.eqb_eq in E; subst x; reflexivity|]. unfold is_nlish. rewrite (blankc_ws x E). reflexivity.
Qed.

Lemma rec_newline_gen nl c rest : nl_text nl = true -> is_nlish c = false -> rec_at NEWLINE nl (c :: rest).
Proof.
  intros Hnl Hc. pose proof (nl_text_nlish nl Hnl) as Hall. destruct nl as [|c0 r]; [discriminate|].
  assert (E0 : c0 = 10) by (cbn [nl_text] in Hnl; apply andb_prop in Hnl; destruct Hnl as [H _]; apply N.eqb_eq in H; exact H). subst c0.
  split; [|split; [discriminate|reflexivity]].
  rewrite default_rules_parts. change recognisers with (firstn 9 recognisers ++ (NEWLINE, rec_newline) :: []). rewrite app_assoc.
  apply best_rule_wins.
  - unfold rec_newline. rewrite (run_len_app is_nlish (10 :: r) c rest Hall Hc), firstn_app_exact. reflexivity.
  - cbn [length]. lia.
  - apply Forall_app. split.
    + apply (literals_bound _ (fun n => (n < S (length r))%nat)).
      * intros l Hl. change ((10 :: r) ++ c :: rest) with (10 :: (r ++ c :: rest)). rewrite (literal_zero 10 _ l Hl (or_intror eq_refl)). lia.
      * cbn. lia.
    + cbn [firstn recognisers]. repeat apply Forall_cons; try apply Forall_nil; cbn [snd]; cbn; try lia; destruct (r ++ c :: rest) as [|? ?]; cbn; lia.
  - constructor.
Qed.

(* the schema version in front of a line feed or at the end *)
Lemma rec_version v rest : std_version v = true -> nl_next rest -> rec_at SCHEMA_VERSION v rest.
Proof.
  intros Hv Hr. unfold std_version in Hv. apply orb_prop in Hv. destruct Hv as [Hv|Hv]; [apply orb_prop in Hv; destruct Hv as [Hv|Hv]|];
    apply str_eqb_eq in Hv; subst v; (destruct rest as [|c rest]; [|cbn in Hr; subst c]);
    (split; [try (destruct rest as [|? [|? ?]]); vm_compute; reflexivity|split; [discriminate|reflexivity]]).
Qed.

Lemma rec_name_gen s rest : plain_name s = true -> delim_next rest -> rec_at IDENTIFIER s rest.
Proof. intros Hp Hd. destruct rest as [|d rest]; [apply rec_name_eof; exact Hp|apply rec_name; assumption]. Qed.

(* ---------------------------------------------------------------------------------------- *)
(* fitting tokens                                                                            *)
(* ---------------------------------------------------------------------------------------- *)
Definition fit_std (k : tkind) (t rest : str) : Prop :=
  t = std_text k /\
  (if mem_tk k kw_blank then blank_next rest else if mem_tk k kw_line then lf_next rest else mem_tk k punct = true).

Definition fit (k : tkind) (t rest : str) : Prop :=
  match k with
  | IDENTIFIER => plain_name t = true /\ delim_next rest
  | WHITESPACE => ws_run t = true /\ solid_next rest
  | NEWLINE => nl_text t = true /\ solid_next rest
  | SCHEMA_VERSION => std_version t = true /\ nl_next rest
  | _ => fit_std k t rest
  end.

Lemma fit_std_sound k t rest : fit_std k t rest -> rec_at k t rest.
Proof.
  intros [-> H]. destruct (mem_tk k kw_blank) eqn:E1; [|destruct (mem_tk k kw_line) eqn:E2].
  - destruct rest as [|c rest]; [contradiction|]. apply rec_kw_blank; [apply mem_tk_in; exact E1|exact H].
  - destruct rest as [|c rest]; [contradiction|]. cbn in H. subst c. apply rec_kw_line. apply mem_tk_in. exact E2.
  - apply rec_punct_std. apply mem_tk_in. exact H.
Qed.

Theorem fit_sound k t rest : fit k t rest -> rec_at k t rest.
Proof.
  destruct k; cbn [fit]; try apply fit_std_sound; intros [H1 H2].
  - apply rec_version; assumption.
  - destruct rest as [|c rest]; [contradiction|]. apply rec_ws_run; assumption.
  - apply rec_name_gen; assumption.
  - destruct rest as [|c rest]; [contradiction|]. apply rec_newline_gen; assumption.
Qed.

(* the ways a token fits, one by one *)
Lemma fit_name s rest : plain_name s = true -> delim_next rest -> fit IDENTIFIER s rest.
Proof. intros; split; assumption. Qed.
Lemma fit_ws w rest : ws_run w = true -> solid_next rest -> fit WHITESPACE w rest.
Proof. intros; split; assumption. Qed.
Lemma fit_blank rest : solid_next rest -> fit WHITESPACE (lit " ") rest.
Proof. intros; split; [reflexivity|assumption]. Qed.
Lemma fit_newline nl rest : nl_text nl = true -> solid_next rest -> fit NEWLINE nl rest.
Proof. intros; split; assumption. Qed.
Lemma fit_version v rest : std_version v = true -> nl_next rest -> fit SCHEMA_VERSION v rest.
Proof. intros; split; assumption. Qed.
Lemma fit_kw k rest : In k kw_blank -> blank_next rest -> fit k (std_text k) rest.
Proof. intros Hk Hb. destruct Hk as [<-|[<-|[<-|[<-|[<-|[<-|[<-|[<-|[]]]]]]]]]; (split; [reflexivity|exact Hb]). Qed.
Lemma fit_line k rest : In k kw_line -> lf_next rest -> fit k (std_text k) rest.
Proof. intros Hk Hb. destruct Hk as [<-|[<-|[]]]; (split; [reflexivity|exact Hb]). Qed.
Lemma fit_punct k rest : In k punct -> fit k (std_text k) rest.
Proof. intros Hk. destruct Hk as [<-|[<-|[<-|[<-|[<-|[<-|[<-|[<-|[]]]]]]]]]; (split; reflexivity). Qed.

Lemma plain_name_nonempty s : plain_name s = true -> s <> [].
Proof. intros H ->. discriminate H. Qed.

Lemma fit_nonempty k t rest : fit k t rest -> t <> [].
Proof.
  intros H. apply fit_sound in H. destruct H as (_ & H & _). exact H.
Qed.

(* a sequence of tokens, each fitting in front of what follows *)
Fixpoint fits (ts : list kt) (rest : str) : Prop :=
  match ts with
  | [] => True
  | (k, t) :: r => fit k t (concat (map snd r) ++ rest) /\ fits r rest
  end.

Theorem fits_recs ts rest : fits ts rest -> recs ts rest.
Proof.
  induction ts as [|[k t] ts IH]; cbn [fits recs]; [exact (fun H => H)|]. intros [H1 H2]. split; [apply fit_sound; exact H1|apply IH; exact H2].
Qed.

Lemma fits_app a b rest : fits (a ++ b) rest <-> fits a (concat (map snd b) ++ rest) /\ fits b rest.
Proof.
  induction a as [|[k t] a IH]; cbn [app fits]; [tauto|]. rewrite IH, map_app, concat_app, <- app_assoc. tauto.
Qed.
Lemma fits_one k t rest : fit k t rest -> fits [(k, t)] rest.
Proof. intros H. cbn. split; [exact H|exact I]. Qed.
Lemma fits_cons x r rest : fit (fst x) (snd x) (concat (map snd r) ++ rest) -> fits r rest -> fits (x :: r) rest.
Proof. destruct x. cbn. tauto. Qed.

Lemma fits_length ts rest : fits ts rest -> (length ts <= length (concat (map snd ts)))%nat.
Proof.
  induction ts as [|[k t] ts IH]; cbn [fits map snd concat length]; [lia|]. intros [Hf H]. specialize (IH H).
  apply fit_nonempty in Hf. rewrite app_length. destruct t; [contradiction|cbn; lia].
Qed.

(* ---------------------------------------------------------------------------------------- *)
(* another layout: other runs of blanks and tabs, other line breaks, everything else as it is *)
(* ---------------------------------------------------------------------------------------- *)
Definition relay (a b : kt) : Prop :=
  fst a = fst b /\
  match fst a with
  | WHITESPACE => ws_run (snd b) = true
  | NEWLINE => nl_text (snd b) = true
  | _ => snd a = snd b
  end.

(* the first characters agree, or both are blanks or tabs *)
Definition same_head (R R' : str) : Prop :=
  match R, R' with
  | [], [] => True
  | c :: _, c' :: _ => c = c' \/ (blankc c = true /\ blankc c' = true)
  | _, _ => False
  end.

Lemma same_head_refl R : same_head R R.
Proof. destruct R; cbn; [exact I|left; reflexivity]. Qed.

Lemma head_delim R R' : same_head R R' -> delim_next R -> delim_next R'.
Proof.
  destruct R as [|c R], R' as [|c' R']; cbn; try tauto. intros [->|[_ H]] Hd; [exact Hd|apply blankc_delim; exact H].
Qed.
Lemma head_solid R R' : same_head R R' -> solid_next R -> solid_next R'.
Proof.
  destruct R as [|c R], R' as [|c' R']; cbn; try tauto. intros [->|[H _]] Hd; [exact Hd|].
  exfalso. unfold is_nlish in Hd. rewrite (blankc_ws c H) in Hd. discriminate.
Qed.
Lemma head_blank R R' : same_head R R' -> blank_next R -> blank_next R'.
Proof. destruct R as [|c R], R' as [|c' R']; cbn; try tauto. intros [->|[_ H]] Hd; [exact Hd|exact H]. Qed.
Lemma head_nl R R' : same_head R R' -> nl_next R -> nl_next R'.
Proof.
  destruct R as [|c R], R' as [|c' R']; cbn; try tauto. intros [->|[H _]] Hd; [exact Hd|]. subst c. discriminate H.
Qed.
Lemma head_lf R R' : same_head R R' -> lf_next R -> lf_next R'.
Proof.
  destruct R as [|c R], R' as [|c' R']; cbn; try tauto. intros [->|[H _]] Hd; [exact Hd|]. subst c. discriminate H.
Qed.

Lemma fit_std_head k t R R' : same_head R R' -> fit_std k t R -> fit_std k t R'.
Proof.
  intros Hh [H1 H2]. split; [exact H1|]. destruct (mem_tk k kw_blank); [exact (head_blank _ _ Hh H2)|].
  destruct (mem_tk k kw_line); [exact (head_lf _ _ Hh H2)|exact H2].
Qed.

Lemma fit_head k t R R' : same_head R R' -> fit k t R -> fit k t R'.
Proof.
  intros Hh. destruct k; cbn [fit]; try apply (fit_std_head _ _ _ _ Hh); intros [H1 H2]; (split; [exact H1|]);
    first [ exact (head_delim _ _ Hh H2) | exact (head_solid _ _ Hh H2) | exact (head_nl _ _ Hh H2) ].
Qed.

Lemma fit_relay k t t' R : relay (k, t) (k, t') -> fit k t R -> fit k t' R.
Proof.
  intros [_ Hr]. cbn [fst snd] in Hr. destruct k; cbn [fit]; try (subst t'; exact (fun H => H)); intros [_ H2]; split; assumption.
Qed.

Lemma relay_head k t t' R R' :
  relay (k, t) (k, t') -> fit k t R -> fit k t' R' -> same_head (t ++ R) (t' ++ R').
Proof.
  intros [_ Hr] Hf Hf'. cbn [fst snd] in Hr. pose proof (fit_nonempty _ _ _ Hf) as Hn. pose proof (fit_nonempty _ _ _ Hf') as Hn'.
  destruct t as [|c t0]; [contradiction|]. destruct t' as [|c' t0']; [contradiction|]. cbn [app same_head].
  destruct k; try (inversion Hr; left; reflexivity).
  - (* WHITESPACE *) right. cbn [fit] in Hf. destruct Hf as [Hw _]. cbn in Hw, Hr. apply andb_prop in Hw, Hr. tauto.
  - (* NEWLINE *) left. cbn [fit] in Hf. destruct Hf as [Hw _]. cbn in Hw, Hr. apply andb_prop in Hw, Hr.
    destruct Hw as [Hw _]. destruct Hr as [Hr _]. apply N.eqb_eq in Hw, Hr. congruence.
Qed.

Theorem fits_relayout ts ts' rest :
  Forall2 relay ts ts' -> fits ts rest ->
  fits ts' rest /\ same_head (concat (map snd ts) ++ rest) (concat (map snd ts') ++ rest).
Proof.
  induction 1 as [|[k t] [k' t'] ts ts' Hr _ IH]; intros Hf; [split; [exact I|apply same_head_refl]|].
  cbn [fits] in Hf. destruct Hf as [Hf1 Hf2]. destruct (IH Hf2) as [IH1 IH2].
  assert (Ek : k' = k) by (destruct Hr as [E _]; cbn in E; congruence). subst k'.
  assert (Hf' : fit k t' (concat (map snd ts') ++ rest)).
  { apply (fit_relay k t t'); [exact Hr|]. apply (fit_head k t _ _ IH2). exact Hf1. }
  split; [cbn [fits]; split; assumption|]. cbn [map snd concat]. rewrite <- !app_assoc.
  apply (relay_head k); assumption.
Qed.

(* the kinds stay, and so do the texts of everything that is neither a run of blanks nor a line break *)
Lemma relay_kinds ts ts' : Forall2 relay ts ts' -> map fst ts' = map fst ts.
Proof. induction 1 as [|a b ts ts' [E _] _ IH]; [reflexivity|]. cbn [map]. rewrite IH, E. reflexivity. Qed.

(* one particular re-layout: the run [w] for every run of blanks, the line break [n] for every line break *)
Definition relayout (w n : str) (a : kt) : kt :=
  match fst a with WHITESPACE => (WHITESPACE, w) | NEWLINE => (NEWLINE, n) | _ => a end.
Lemma relayout_relay w n ts : ws_run w = true -> nl_text n = true -> Forall2 relay ts (map (relayout w n) ts).
Proof.
  intros Hw Hn. induction ts as [|[k t] ts IH]; [constructor|]. cbn [map]. constructor; [|exact IH].
  unfold relayout, relay. cbn [fst snd]. destruct k; cbn [fst snd]; split; first [reflexivity|exact Hw|exact Hn].
Qed.

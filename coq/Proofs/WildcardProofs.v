(* Proofs/WildcardProofs.v — wildcard lists: the two list operations AssignWeights uses keep lists
   duplicate-free and only ever add entries (C11). *)
From Verif Require Import Base.Str Base.Outcome Model.Ast Model.Printer Model.WGraph Model.WWeights Proofs.StrategyProofs.

Lemma add_unique_NoDup x l : NoDup l -> NoDup (add_unique x l).
Proof.
  intros H. unfold add_unique. destruct (mem_str x l) eqn:E; [exact H|].
  apply NoDup_app_single_str; auto. intros Hin. apply mem_str_in in Hin. congruence.
Qed.

Lemma add_unique_incl x l y : In y l -> In y (add_unique x l).
Proof. intros H. unfold add_unique. destruct (mem_str x l); [exact H|apply in_or_app; left; exact H]. Qed.

Lemma add_unique_in x l : In x (add_unique x l).
Proof. unfold add_unique. destruct (mem_str x l) eqn:E; [apply mem_str_in; exact E|apply in_or_app; right; left; reflexivity]. Qed.

Lemma add_unique_only x l y : In y (add_unique x l) -> y = x \/ In y l.
Proof. unfold add_unique. destruct (mem_str x l); [tauto|]. intros H. apply in_app_or in H. destruct H as [H|[H|[]]]; auto. Qed.

Lemma fold_add_unique_NoDup from : forall into, NoDup into -> NoDup (fold_left (fun acc x => add_unique x acc) from into).
Proof. induction from as [|x from IH]; intros into H; simpl; [exact H|]. apply IH. apply add_unique_NoDup. exact H. Qed.

(* merging wildcard lists keeps them duplicate-free ... *)
Theorem merge_wild_NoDup into from : NoDup into -> NoDup from -> NoDup (merge_wild into from).
Proof. intros Hi Hf. unfold merge_wild. destruct into; [exact Hf|]. apply fold_add_unique_NoDup. exact Hi. Qed.

Lemma fold_add_unique_spec from : forall into y, In y (fold_left (fun acc x => add_unique x acc) from into) <-> In y into \/ In y from.
Proof.
  induction from as [|x from IH]; intros into y; simpl; [tauto|]. rewrite IH. split.
  - intros [H|H]; [apply add_unique_only in H; destruct H as [->|H]; auto|auto].
  - intros [H|[->|H]]; [left; apply add_unique_incl; exact H|left; apply add_unique_in|right; exact H].
Qed.

(* ... and the result has exactly the entries of both: nothing is lost, nothing invented *)
Theorem merge_wild_spec into from y : In y (merge_wild into from) <-> In y into \/ In y from.
Proof.
  unfold merge_wild. destruct into as [|a into]; [simpl; tauto|]. apply fold_add_unique_spec.
Qed.

(* the edge to a wildcard node T:* carries weight {T:1} and the wildcard T *)
Theorem wildcard_edge_label id : drop_last2 (id ++ lit ":*") = id.
Proof. unfold drop_last2. rewrite app_length. simpl. replace (length id + 2 - 2)%nat with (length id) by lia. rewrite firstn_app, Nat.sub_diag, firstn_all. simpl. apply app_nil_r. Qed.

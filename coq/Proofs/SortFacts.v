(* Proofs/SortFacts.v — [stable_sort] (Model/Printer.v) with a comparator that is a strict total order
   on the elements of the list returns the unique sorted permutation: its result does not depend
   on the order of the input.  (Go's sort.Strings / slices.SortStableFunc are trusted to return a
   sorted permutation; by uniqueness the particular algorithm is irrelevant.) *)
From Coq Require Import Permutation Sorted.
From Verif Require Import Base.Str Model.Printer.

Section Sort.
  Context {A : Type} (cmp : A -> A -> comparison).

  Lemma insert_sorted_perm x l : Permutation (x :: l) (insert_sorted cmp x l).
  Proof.
    induction l as [|y l IH]; simpl; [reflexivity|].
    destruct (cmp x y); try reflexivity.
    - rewrite perm_swap. constructor. exact IH.
    - rewrite perm_swap. constructor. exact IH.
  Qed.

  Lemma stable_sort_perm l : Permutation l (stable_sort cmp l).
  Proof.
    induction l as [|x l IH]; simpl; [constructor|].
    unfold stable_sort in *; simpl.
    etransitivity; [|apply insert_sorted_perm]. constructor. exact IH.
  Qed.

  (* the order: strictly below *)
  Definition lt (a b : A) : Prop := cmp a b = Lt.

  (* hypotheses on a carrier predicate P (the elements that occur) *)
  Variable P : A -> Prop.
  Hypothesis trans : forall a b c, P a -> P b -> P c -> lt a b -> lt b c -> lt a c.
  Hypothesis total : forall a b, P a -> P b -> a <> b -> lt a b \/ lt b a.
  Hypothesis irrefl : forall a, P a -> ~ lt a a.
  Hypothesis asym : forall a b, P a -> P b -> lt a b -> ~ lt b a.

  Definition sorted (l : list A) : Prop := StronglySorted lt l.

  Lemma insert_sorted_sorted x l :
    P x -> Forall P l -> ~ In x l -> sorted l -> sorted (insert_sorted cmp x l).
  Proof.
    intros Px Pl Hn Hs. induction l as [|y l IH]; simpl.
    - constructor; constructor.
    - inversion Hs as [|? ? Hs' Hy]; subst. inversion Pl as [|? ? Py Pl']; subst.
      destruct (cmp x y) eqn:E.
      + (* Eq: cannot be Lt either way; x goes after y; need lt y x *)
        assert (Hxy : x <> y) by (intros ->; apply Hn; left; reflexivity).
        destruct (total x y Px Py Hxy) as [H|H]; [unfold lt in H; congruence|].
        constructor.
        * apply IH; auto. intros Hin; apply Hn; right; exact Hin.
        * apply Forall_forall. intros z Hz.
          apply (Permutation_in z (Permutation_sym (insert_sorted_perm x l))) in Hz.
          destruct Hz as [<-|Hz]; [exact H|]. rewrite Forall_forall in Hy. auto.
      + constructor; [exact Hs|]. constructor; [exact E|].
        apply Forall_forall. intros z Hz. rewrite Forall_forall in Hy, Pl'.
        apply (trans x y z); [exact Px|exact Py|apply Pl'; exact Hz|exact E|apply Hy; exact Hz].
      + assert (Hxy : x <> y) by (intros ->; apply Hn; left; reflexivity).
        destruct (total x y Px Py Hxy) as [H|H]; [unfold lt in H; congruence|].
        constructor.
        * apply IH; auto. intros Hin; apply Hn; right; exact Hin.
        * apply Forall_forall. intros z Hz.
          apply (Permutation_in z (Permutation_sym (insert_sorted_perm x l))) in Hz.
          destruct Hz as [<-|Hz]; [exact H|]. rewrite Forall_forall in Hy. auto.
  Qed.

  Lemma stable_sort_sorted l : Forall P l -> NoDup l -> sorted (stable_sort cmp l).
  Proof.
    induction l as [|x l IH]; intros Pl Hnd.
    - constructor.
    - inversion Pl; subst. inversion Hnd; subst.
      change (stable_sort cmp (x :: l)) with (insert_sorted cmp x (stable_sort cmp l)).
      apply insert_sorted_sorted; auto.
      + apply Forall_forall. intros z Hz. rewrite Forall_forall in H2. apply H2.
        apply (Permutation_in z (Permutation_sym (stable_sort_perm l))). exact Hz.
      + intros Hin. apply H3. apply (Permutation_in x (Permutation_sym (stable_sort_perm l))). exact Hin.
  Qed.

  (* two sorted lists with the same elements are equal *)
  Lemma sorted_perm_unique l l' :
    Forall P l -> sorted l -> sorted l' -> Permutation l l' -> l = l'.
  Proof.
    revert l'. induction l as [|x l IH]; intros l' Pl Hs Hs' Hp.
    - apply Permutation_nil in Hp. subst; reflexivity.
    - destruct l' as [|y l']; [apply Permutation_sym, Permutation_nil in Hp; discriminate|].
      inversion Hs as [|? ? Hsl Hx]; subst. inversion Hs' as [|? ? Hsl' Hy]; subst.
      inversion Pl as [|? ? Px Pl']; subst.
      assert (Py : P y).
      { assert (In y (x :: l)) by (apply (Permutation_in y (Permutation_sym Hp)); left; reflexivity).
        rewrite Forall_forall in Pl. auto. }
      assert (x = y) as <-.
      { assert (Hin1 : In x (y :: l')) by (apply (Permutation_in x Hp); left; reflexivity).
        assert (Hin2 : In y (x :: l)) by (apply (Permutation_in y (Permutation_sym Hp)); left; reflexivity).
        destruct Hin1 as [->|Hin1]; [reflexivity|].
        destruct Hin2 as [->|Hin2]; [reflexivity|].
        rewrite Forall_forall in Hx, Hy.
        exfalso. apply (asym x y Px Py); auto. }
      f_equal. apply IH; auto. eapply Permutation_cons_inv; eauto.
  Qed.

  Theorem stable_sort_canonical l l' :
    Forall P l -> NoDup l -> Permutation l l' -> stable_sort cmp l = stable_sort cmp l'.
  Proof.
    intros Pl Hnd Hp.
    assert (Pl' : Forall P l').
    { apply Forall_forall. intros z Hz. rewrite Forall_forall in Pl. apply Pl.
      apply (Permutation_in z (Permutation_sym Hp)). exact Hz. }
    assert (Hnd' : NoDup l') by (eapply Permutation_NoDup; eauto).
    apply sorted_perm_unique.
    - apply Forall_forall. intros z Hz. rewrite Forall_forall in Pl. apply Pl.
      apply (Permutation_in z (Permutation_sym (stable_sort_perm l))). exact Hz.
    - apply stable_sort_sorted; auto.
    - apply stable_sort_sorted; auto.
    - etransitivity; [apply Permutation_sym, stable_sort_perm|].
      etransitivity; [exact Hp|]. apply stable_sort_perm.
  Qed.
End Sort.

(* ---- Go's string order is a strict total order ---- *)

Lemma str_compare_refl a : str_compare a a = Eq.
Proof. induction a as [|x a IH]; simpl; [reflexivity|]. rewrite N.compare_refl. exact IH. Qed.

Lemma str_compare_eq a b : str_compare a b = Eq -> a = b.
Proof.
  revert b; induction a as [|x a IH]; intros [|y b]; simpl; try discriminate; auto.
  destruct (N.compare x y) eqn:E; try discriminate.
  apply N.compare_eq in E. subst. intros H. f_equal. auto.
Qed.

Lemma str_compare_antisym a b : str_compare b a = CompOpp (str_compare a b).
Proof.
  revert b; induction a as [|x a IH]; intros [|y b]; simpl; try reflexivity.
  rewrite (N.compare_antisym x y). destruct (N.compare x y); simpl; auto.
Qed.

Lemma str_compare_trans a b c : str_compare a b = Lt -> str_compare b c = Lt -> str_compare a c = Lt.
Proof.
  revert b c; induction a as [|x a IH]; intros [|y b] [|z c]; simpl; try discriminate; auto.
  destruct (N.compare x y) eqn:E1; try discriminate.
  - apply N.compare_eq in E1; subst.
    destruct (N.compare y z) eqn:E2; try discriminate; auto. intros; eapply IH; eauto.
  - destruct (N.compare y z) eqn:E2; try discriminate; intros _ _.
    + apply N.compare_eq in E2; subst. rewrite E1. reflexivity.
    + apply N.compare_lt_iff in E1. apply N.compare_lt_iff in E2.
      assert (H : x < z) by (eapply N.lt_trans; eauto). apply N.compare_lt_iff in H. rewrite H. reflexivity.
Qed.

Lemma str_compare_total a b : a <> b -> str_compare a b = Lt \/ str_compare b a = Lt.
Proof.
  intros Hn. destruct (str_compare a b) eqn:E.
  - apply str_compare_eq in E. contradiction.
  - left; reflexivity.
  - right. rewrite str_compare_antisym, E. reflexivity.
Qed.

Lemma str_compare_irrefl a : str_compare a a <> Lt.
Proof. rewrite str_compare_refl. discriminate. Qed.

Lemma str_compare_asym a b : str_compare a b = Lt -> str_compare b a <> Lt.
Proof. intros H. rewrite str_compare_antisym, H. discriminate. Qed.

(* sort.Strings on distinct names is canonical *)
Theorem sort_strings_canonical (l l' : list str) :
  NoDup l -> Permutation l l' -> stable_sort str_compare l = stable_sort str_compare l'.
Proof.
  intros Hnd Hp.
  apply (stable_sort_canonical str_compare (fun _ => True)); auto.
  - intros a b c _ _ _. apply str_compare_trans.
  - intros a b _ _. apply str_compare_total.
  - intros a b _ _. apply str_compare_asym.
  - apply Forall_forall; auto.
Qed.

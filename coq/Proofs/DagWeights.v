(* Proofs/DagWeights.v — AssignWeights on a graph without cycles: whatever the depth-first start order,
   if it succeeds, every node it reached carries exactly the weights of Spec/GraphWeights.v (C04), so the
   result does not depend on the order (C06). *)
From Verif Require Import Base.Str Base.Outcome Model.Ast Model.Printer Model.WGraph Model.WWeights
  Proofs.StrategyProofs Proofs.WildcardProofs Proofs.GraphPrims Spec.GraphWeights.

(* ---------------------------------------------------------------------------------------- *)
(* 1. keys of the strategies' results come from their inputs                                 *)
(* ---------------------------------------------------------------------------------------- *)
Section Keys.
  Variable P : str -> Prop.
  Definition KP (w : wmap) : Prop := Forall P (keys w).

  Lemma KP_nil : KP []. Proof. constructor. Qed.

  Lemma KP_wset k v w : P k -> KP w -> KP (wset k v w).
  Proof.
    unfold KP. intros Hk Hw. rewrite keys_wset. destruct (mem_str k (keys w)); [exact Hw|].
    apply Forall_app. split; [exact Hw|constructor; [exact Hk|constructor]].
  Qed.
  Lemma KP_wmax k v w : P k -> KP w -> KP (wmax k v w).
  Proof. intros Hk Hw. unfold wmax. destruct (wget k w); apply KP_wset; auto. Qed.
  Lemma KP_wdel k w : KP w -> KP (wdel k w).
  Proof.
    unfold KP. rewrite keys_wdel. intros H. apply Forall_forall. rewrite Forall_forall in H.
    intros x Hx. apply filter_In in Hx. apply H. tauto.
  Qed.
  Lemma KP_in k v w : KP w -> In (k, v) w -> P k.
  Proof. unfold KP. rewrite Forall_forall. intros H Hin. apply H. apply (in_map fst) in Hin. exact Hin. Qed.

  Lemma KP_add_entries l : forall w, KP w -> KP l -> KP (add_entries w l).
  Proof.
    unfold add_entries. induction l as [|[k v] l IH]; intros w Hw Hl; simpl; [exact Hw|].
    inversion Hl; subst. apply IH; [apply KP_wmax; auto|assumption].
  Qed.
  Lemma KP_max_weights ws : Forall KP ws -> KP (max_weights ws).
  Proof.
    unfold max_weights. generalize (@nil (str * N)) KP_nil.
    induction ws as [|w ws IH]; intros acc Hacc H; simpl; [exact Hacc|].
    inversion H; subst. apply IH; [apply KP_add_entries; auto|assumption].
  Qed.
  Lemma KP_copy w : KP w -> KP (copy_weights w).
  Proof.
    unfold copy_weights. generalize (@nil (str * N)) KP_nil.
    induction w as [|[k v] w IH]; intros acc Hacc H; simpl; [exact Hacc|].
    inversion H; subst. apply IH; [apply KP_wset; auto|assumption].
  Qed.
  Lemma KP_narrow w ew : KP w -> KP (narrow w ew).
  Proof.
    unfold narrow. intros Hw.
    assert (G : forall l acc, KP l -> KP acc ->
                KP (fold_left (fun acc kv => match wget (fst kv) ew with
                                             | None => wdel (fst kv) acc
                                             | Some v => wset (fst kv) (N.max (snd kv) v) acc
                                             end) l acc)).
    { induction l as [|[k v] l IH]; intros acc Hl Hacc; simpl; [exact Hacc|].
      inversion Hl; subst. apply IH; [assumption|]. destruct (wget k ew); [apply KP_wset|apply KP_wdel]; auto. }
    apply G; assumption.
  Qed.
  Lemma KP_enforce f r : KP f -> KP (enforce_weights f r).
  Proof.
    unfold enforce_weights. intros Hf. fold (copy_weights f). generalize (copy_weights f) (KP_copy f Hf).
    induction r as [|w r IH]; intros acc Hacc; simpl; [exact Hacc|]. apply IH. apply KP_narrow. exact Hacc.
  Qed.
  Lemma KP_raise_only l : forall w, KP w -> KP (raise_only w l).
  Proof.
    unfold raise_only. induction l as [|[k v] l IH]; intros w Hw; simpl; [exact Hw|].
    apply IH. destruct (wget k w) eqn:E; [|exact Hw]. apply KP_wset; [|exact Hw].
    unfold wget in E. clear -E Hw. induction w as [|[k0 v0] w IHw]; simpl in E; [discriminate|].
    inversion Hw; subst. destruct (str_eqb_spec k k0) as [->|]; [assumption|auto].
  Qed.

  Lemma KP_pure k ews : Forall KP ews -> KP (pure_weights k ews).
  Proof.
    intros H. destruct k; simpl.
    - apply KP_max_weights; exact H.
    - destruct ews as [|f r]; [constructor|]. inversion H; subst. apply KP_enforce; assumption.
    - destruct (rev ews) as [|l ri] eqn:E; [constructor|].
      assert (H' : Forall KP (rev ews)) by (apply Forall_rev; exact H). rewrite E in H'. inversion H'; subst.
      apply KP_raise_only. apply KP_max_weights. apply Forall_rev. assumption.
    - constructor.
  Qed.

  Lemma KP_bump t w : KP w -> KP (bump t w).
  Proof.
    unfold bump, KP. destruct (_ || _); [|auto]. unfold keys. rewrite map_map. simpl. auto.
  Qed.
End Keys.

(* ---------------------------------------------------------------------------------------- *)
(* 2. the specification on a ranked graph: fuel beyond the rank changes nothing; no key is a  *)
(*    tuple-cycle placeholder                                                                 *)
(* ---------------------------------------------------------------------------------------- *)
Definition nonref (k : str) : Prop := is_ref_key k = false.

Section Static.
  Variable g0 : wgraph.
  Variable rank : str -> nat.
  Hypothesis ranked : ranked_by g0 rank.
  Hypothesis termok : terminals_not_placeholders g0.

  Definition gs (x : str) : wmap := gspec g0 (S (rank x)) x.
  Definition ew (sh : eshape_t) : wmap := edge_w g0 gs sh.

  Lemma gspec_fuel f1 : forall f2 x, (rank x < f1)%nat -> (rank x < f2)%nat -> gspec g0 f1 x = gspec g0 f2 x.
  Proof.
    induction f1 as [|f1 IH]; intros f2 x H1 H2; [lia|]. destruct f2 as [|f2]; [lia|].
    cbn [gspec]. f_equal. apply map_ext_in. intros e He.
    destruct (ranked x e He) as [_ Hr]. unfold edge_w, eshape.
    destruct (is_terminal _); [reflexivity|]. f_equal. f_equal. apply IH; lia.
  Qed.

  Lemma gspec_gs f x : (rank x < f)%nat -> gspec g0 f x = gs x.
  Proof. intros H. apply gspec_fuel; [exact H|lia]. Qed.

  (* the defining equation of gs *)
  Lemma gs_equation x :
    gs x = pure_weights (kind_of (n_type (node_of g0 x)) (n_label (node_of g0 x)))
                        (map (fun e => ew (eshape e)) (edges_from g0 x)).
  Proof.
    unfold gs at 1. cbn [gspec]. f_equal. apply map_ext_in. intros e He.
    destruct (ranked x e He) as [_ Hr]. unfold ew, edge_w, eshape.
    destruct (is_terminal _); [reflexivity|]. f_equal. f_equal. apply gspec_gs. exact Hr.
  Qed.

  Lemma gspec_nonref f : forall x, KP nonref (gspec g0 f x).
  Proof.
    induction f as [|f IH]; intros x; [constructor|]. cbn [gspec]. apply KP_pure.
    apply Forall_forall. intros w Hw. apply in_map_iff in Hw. destruct Hw as [e [<- He]].
    unfold edge_w, eshape. destruct (is_terminal (n_type (node_of g0 (e_to e)))) eqn:T.
    - constructor; [|constructor]. simpl. apply (termok x e He). exact T.
    - apply KP_bump. apply KP_copy. apply IH.
  Qed.
  Lemma gs_nonref x : KP nonref (gs x). Proof. apply gspec_nonref. Qed.

  (* ---- acceptance ---- *)
  Definition acc (x : str) : bool := accepts g0 (S (rank x)) x.

  Lemma forallb_ext_in {A} (f g : A -> bool) l : (forall a, In a l -> f a = g a) -> forallb f l = forallb g l.
  Proof. induction l as [|a l IH]; intros H; simpl; [reflexivity|]. rewrite (H a) by (left; reflexivity). f_equal. apply IH. intros b Hb. apply H. right. exact Hb. Qed.

  Lemma accepts_fuel f1 : forall f2 x, (rank x < f1)%nat -> (rank x < f2)%nat -> accepts g0 f1 x = accepts g0 f2 x.
  Proof.
    induction f1 as [|f1 IH]; intros f2 x H1 H2; [lia|]. destruct f2 as [|f2]; [lia|].
    cbn [accepts].
    assert (E1 : forallb (fun e => is_terminal (n_type (node_of g0 (e_to e))) || (accepts g0 f1 (e_to e) && negb (is_nil (gspec g0 f1 (e_to e))))) (edges_from g0 x)
               = forallb (fun e => is_terminal (n_type (node_of g0 (e_to e))) || (accepts g0 f2 (e_to e) && negb (is_nil (gspec g0 f2 (e_to e))))) (edges_from g0 x)).
    { apply forallb_ext_in. intros e He. destruct (ranked x e He) as [_ Hr].
      destruct (is_terminal _); [reflexivity|]. cbn [orb]. rewrite (IH f2 (e_to e)) by lia.
      rewrite (gspec_fuel f1 f2 (e_to e)) by lia. reflexivity. }
    rewrite E1. rewrite (gspec_fuel (S f1) (S f2) x) by lia. reflexivity.
  Qed.

  Lemma acc_equation x :
    acc x =
    (negb (needs_edges (kind_of (n_type (node_of g0 x)) (n_label (node_of g0 x)))) || negb (is_nil (edges_from g0 x))) &&
    forallb (fun e => is_terminal (n_type (node_of g0 (e_to e))) || (acc (e_to e) && negb (is_nil (gs (e_to e))))) (edges_from g0 x) &&
    match kind_of (n_type (node_of g0 x)) (n_label (node_of g0 x)) with REnforce => negb (is_nil (gs x)) | _ => true end.
  Proof.
    unfold acc at 1. cbn [accepts].
    assert (E1 : forallb (fun e => is_terminal (n_type (node_of g0 (e_to e))) || (accepts g0 (rank x) (e_to e) && negb (is_nil (gspec g0 (rank x) (e_to e))))) (edges_from g0 x)
               = forallb (fun e => is_terminal (n_type (node_of g0 (e_to e))) || (acc (e_to e) && negb (is_nil (gs (e_to e))))) (edges_from g0 x)).
    { apply forallb_ext_in. intros e He. destruct (ranked x e He) as [_ Hr].
      destruct (is_terminal _); [reflexivity|]. cbn [orb]. unfold acc. rewrite (accepts_fuel (rank x) (S (rank (e_to e))) (e_to e)) by lia.
      rewrite (gspec_gs (rank x) (e_to e)) by lia. reflexivity. }
    rewrite E1. reflexivity.
  Qed.

  (* ---- wildcards ---- *)
  Lemma flat_map_ext_in {A B} (f g : A -> list B) l : (forall a, In a l -> f a = g a) -> flat_map f l = flat_map g l.
  Proof. induction l as [|a l IH]; intros H; simpl; [reflexivity|]. rewrite (H a) by (left; reflexivity). f_equal. apply IH. intros b Hb. apply H. right. exact Hb. Qed.

  Definition wsx (x : str) : list str := wild_spec g0 (S (rank x)) x.
  Definition ews (sh : eshape_t) : list str := edge_wild g0 wsx sh.

  Lemma wild_spec_fuel f1 : forall f2 x, (rank x < f1)%nat -> (rank x < f2)%nat -> wild_spec g0 f1 x = wild_spec g0 f2 x.
  Proof.
    induction f1 as [|f1 IH]; intros f2 x H1 H2; [lia|]. destruct f2 as [|f2]; [lia|].
    cbn [wild_spec]. apply flat_map_ext_in. intros e He.
    destruct (ranked x e He) as [_ Hr]. unfold edge_wild, eshape.
    destruct (n_type (node_of g0 (e_to e))); try reflexivity; apply IH; lia.
  Qed.

  Lemma wsx_equation x : wsx x = flat_map (fun e => ews (eshape e)) (edges_from g0 x).
  Proof.
    unfold wsx at 1. cbn [wild_spec]. apply flat_map_ext_in. intros e He.
    destruct (ranked x e He) as [_ Hr]. unfold ews, edge_wild, eshape.
    destruct (n_type (node_of g0 (e_to e))); try reflexivity; apply wild_spec_fuel; lia.
  Qed.

  (* the specification lists exactly the public types whose wildcard node can be reached *)
  Lemma wsx_reaches n : forall x T, (rank x < n)%nat -> (In T (wsx x) <-> reaches_wild g0 x T).
  Proof.
    induction n as [|n IH]; intros x T Hn; [lia|]. rewrite wsx_equation. rewrite in_flat_map. split.
    - intros [e [He Hin]]. destruct (ranked x e He) as [_ Hr]. unfold ews, edge_wild, eshape in Hin.
      destruct (n_type (node_of g0 (e_to e))) eqn:Tt.
      + destruct Hin.
      + apply (rw_step g0 x e T He); [rewrite Tt; reflexivity|]. apply IH; [lia|exact Hin].
      + apply (rw_step g0 x e T He); [rewrite Tt; reflexivity|]. apply IH; [lia|exact Hin].
      + destruct Hin as [<-|[]]. apply (rw_here g0 x e He Tt).
    - intros H. inversion H as [x' e He Tt Ex ET|x' e T' He Tt Hr' Ex ET]; subst.
      + exists e. split; [exact He|]. unfold ews, edge_wild, eshape. rewrite Tt. left. reflexivity.
      + exists e. split; [exact He|]. destruct (ranked x e He) as [_ Hr]. unfold ews, edge_wild, eshape.
        destruct (n_type (node_of g0 (e_to e))) eqn:Tt'; try discriminate Tt; apply IH; try lia; exact Hr'.
  Qed.
End Static.

(* ---------------------------------------------------------------------------------------- *)
(* 3. pieces of the traversal                                                                *)
(* ---------------------------------------------------------------------------------------- *)

(* with no tuple cycle pending, the node's weights are the pure strategy of its edges' weights *)
Lemma from_edges_pure s id tcs' s' :
  is_terminal (n_type (nd s id)) = false ->
  from_edges s id [] = (tcs', Ok s') ->
  tcs' = [] /\
  let W := pure_weights (kind_of (n_type (nd s id)) (n_label (nd s id))) (map e_weights (es s id)) in
  (s' = upd_node s id (fun n => with_weights n W) \/ (s' = s /\ W = [])).
Proof.
  intros Hnt H. unfold from_edges in H. cbn [fst snd] in H.
  assert (Hmax : forall s1, max_strategy s id = Ok s1 ->
                 s1 = upd_node s id (fun n => with_weights n (max_weights (map e_weights (es s id))))).
  { intros s1 H1. destruct (es s id) eqn:E.
    - unfold max_strategy in H1. unfold es in E. rewrite E in H1. unfold nd in Hnt. rewrite Hnt in H1. discriminate.
    - rewrite <- E. apply max_strategy_computes; [exact H1|]. unfold es in E. rewrite E. discriminate. }
  fold (nd s id) in H. unfold kind_of.
  destruct (n_type (nd s id)) eqn:T.
  - inversion H; subst. split; [reflexivity|]. left. apply Hmax. assumption.
  - inversion H; subst. split; [reflexivity|]. left. apply Hmax. assumption.
  - destruct (str_eqb (n_label (nd s id)) (lit "union")).
    { inversion H; subst. split; [reflexivity|]. left. apply Hmax. assumption. }
    destruct (str_eqb (n_label (nd s id)) (lit "intersection")).
    { inversion H as [[H1 H2]]. split; [reflexivity|]. left. simpl.
      destruct (es s id) as [|f r] eqn:E.
      - unfold enforce_strategy in H2. unfold es in E. rewrite E in H2. fold (nd s id) in H2. rewrite T in H2. discriminate.
      - apply (enforce_strategy_computes s id s' f r); assumption. }
    destruct (str_eqb (n_label (nd s id)) (lit "exclusion")).
    { inversion H as [[H1 H2]]. split; [reflexivity|]. left. simpl.
      destruct (es s id) as [|f r] eqn:E.
      - unfold mixed_strategy in H2. unfold es in E. rewrite E in H2. fold (nd s id) in H2. rewrite T in H2. discriminate.
      - destruct (@exists_last _ (f :: r)) as [init [last El]]; [discriminate|].
        rewrite El. rewrite map_app, rev_app_distr. cbn [map rev app]. rewrite rev_involutive.
        apply (mixed_strategy_computes s id s' init last); [unfold es in E; rewrite E; exact El|exact H2]. }
    inversion H; subst. split; [reflexivity|]. right. split; reflexivity.
  - inversion H; subst. split; [reflexivity|]. left. apply Hmax. assumption.
Qed.


(* when the node's own step succeeds: it had edges if its kind needs them, and an intersection kept a type;
   and conversely these conditions make it succeed *)
Lemma enforce_fold_is_weights first rest :
  fold_left (fun w e => fold_left (fun acc kv => match wget (fst kv) (e_weights e) with
                                                 | None => wdel (fst kv) acc
                                                 | Some v => wset (fst kv) (N.max (snd kv) v) acc
                                                 end) w w) rest
            (fold_left (fun w kv => wset (fst kv) (snd kv) w) (e_weights first) [])
  = enforce_weights (e_weights first) (map e_weights rest).
Proof. unfold enforce_weights. rewrite fold_left_map. reflexivity. Qed.

Lemma from_edges_conditions s id tcs' s' :
  is_terminal (n_type (nd s id)) = false -> from_edges s id [] = (tcs', Ok s') ->
  (needs_edges (kind_of (n_type (nd s id)) (n_label (nd s id))) = true -> es s id <> []) /\
  (kind_of (n_type (nd s id)) (n_label (nd s id)) = REnforce ->
   pure_weights REnforce (map e_weights (es s id)) <> []).
Proof.
  intros Hnt H. unfold from_edges in H. cbn [fst snd] in H. fold (nd s id) in H.
  assert (Hmax : forall s1, max_strategy s id = Ok s1 -> es s id <> []).
  { intros s1 H1 E. unfold max_strategy in H1. unfold es in E. rewrite E in H1. fold (nd s id) in H1. rewrite Hnt in H1. discriminate. }
  unfold kind_of. destruct (n_type (nd s id)) eqn:T.
  - inversion H as [[H1 H2]]. split; [intros _; eapply Hmax; eauto|discriminate].
  - inversion H as [[H1 H2]]. split; [intros _; eapply Hmax; eauto|discriminate].
  - destruct (str_eqb (n_label (nd s id)) (lit "union")).
    { inversion H as [[H1 H2]]. split; [intros _; eapply Hmax; eauto|discriminate]. }
    destruct (str_eqb (n_label (nd s id)) (lit "intersection")).
    { inversion H as [[H1 H2]]. unfold enforce_strategy in H2. fold (nd s id) in H2. fold (es s id) in H2.
      destruct (es s id) as [|f r] eqn:E; [rewrite T in H2; discriminate|].
      rewrite enforce_fold_is_weights in H2. split; [intros _; discriminate|]. intros _. cbn [pure_weights map].
      destruct (enforce_weights (e_weights f) (map e_weights r)); [discriminate|discriminate]. }
    destruct (str_eqb (n_label (nd s id)) (lit "exclusion")).
    { inversion H as [[H1 H2]]. split; [|discriminate]. intros _ E. unfold mixed_strategy in H2. unfold es in E. rewrite E in H2.
      fold (nd s id) in H2. rewrite T in H2. discriminate. }
    split; [discriminate|discriminate].
  - inversion H as [[H1 H2]]. split; [intros _; eapply Hmax; eauto|discriminate].
Qed.

Lemma from_edges_ok s id :
  is_terminal (n_type (nd s id)) = false ->
  (needs_edges (kind_of (n_type (nd s id)) (n_label (nd s id))) = true -> es s id <> []) ->
  (kind_of (n_type (nd s id)) (n_label (nd s id)) = REnforce -> pure_weights REnforce (map e_weights (es s id)) <> []) ->
  exists s', from_edges s id [] = ([], Ok s').
Proof.
  intros Hnt Hne Henf. unfold from_edges. cbn [fst snd]. fold (nd s id).
  assert (Hmax : es s id <> [] -> exists s', max_strategy s id = Ok s').
  { intros E. unfold max_strategy. fold (es s id). destruct (es s id); [contradiction|]. eexists; reflexivity. }
  revert Hne Henf. unfold kind_of. destruct (n_type (nd s id)) eqn:T; intros Hne Henf.
  - destruct (Hmax (Hne eq_refl)) as [s' ->]. eauto.
  - destruct (Hmax (Hne eq_refl)) as [s' ->]. eauto.
  - destruct (str_eqb (n_label (nd s id)) (lit "union")).
    { destruct (Hmax (Hne eq_refl)) as [s' ->]. eauto. }
    destruct (str_eqb (n_label (nd s id)) (lit "intersection")).
    { specialize (Hne eq_refl). specialize (Henf eq_refl). unfold enforce_strategy. fold (es s id).
      destruct (es s id) as [|f r]; [contradiction|]. rewrite enforce_fold_is_weights. cbn [pure_weights map] in Henf.
      destruct (enforce_weights (e_weights f) (map e_weights r)); [contradiction|]. eauto. }
    destruct (str_eqb (n_label (nd s id)) (lit "exclusion")).
    { specialize (Hne eq_refl). unfold mixed_strategy. fold (es s id). destruct (es s id); [contradiction|]. eauto. }
    eauto.
  - destruct (Hmax (Hne eq_refl)) as [s' ->]. eauto.
Qed.

(* the target's weights are copied when none of their keys is a placeholder *)
Lemma copy_fold_nonref r tw : forall w (s : wstate),
  KP nonref tw ->
  fold_left (fun (acc : wmap * list str * wstate) kv =>
               let '(w, tc, s) := acc in
               if negb false && is_ref_key (fst kv) then
                 (wset (fst kv) (snd kv) w, tc ++ [strip_ref (fst kv)], add_dep s (strip_ref (fst kv)) r)
               else (wset (fst kv) (snd kv) w, tc, s))
            tw (w, [], s)
  = (fold_left (fun w kv => wset (fst kv) (snd kv) w) tw w, [], s).
Proof.
  induction tw as [|[k v] tw IH]; intros w s H; simpl; [reflexivity|].
  inversion H as [|? ? Hk Htw]; subst. unfold nonref in Hk. simpl in Hk. rewrite Hk. simpl. apply IH. exact Htw.
Qed.

Lemma edge_from_target_nonref e r s :
  KP nonref (n_weights (nd s (e_to e))) ->
  edge_from_target e r [] s =
  ([], None, upd_edge s r (fun e' => edge_with_weights e' (bump (e_type e) (copy_weights (n_weights (nd s (e_to e))))))).
Proof.
  intros H. unfold edge_from_target. cbn [fold_left]. cbv beta iota zeta. fold (nd s (e_to e)).
  match goal with |- context [fold_left ?f (n_weights (nd s (e_to e))) ?a] =>
    assert (E : fold_left f (n_weights (nd s (e_to e))) a = (copy_weights (n_weights (nd s (e_to e))), [], s))
      by (apply copy_fold_nonref; exact H)
  end.
  rewrite E. reflexivity.
Qed.

(* no ancestor is the node itself: not a tuple cycle *)
Lemma is_tuple_cycle_absent node path :
  Forall (fun p : pentry => fst (fst p) <> node) path -> is_tuple_cycle node path = false.
Proof.
  unfold is_tuple_cycle. induction 1 as [|[[from t] tot] path Hne _ IH]; [reflexivity|].
  cbn [fst] in Hne. simpl. rewrite (str_eqb_false from node) by exact Hne. simpl. exact IH.
Qed.

(* ---------------------------------------------------------------------------------------- *)
(* 4. what the invariant looks at                                                            *)
(* ---------------------------------------------------------------------------------------- *)
Definition ev (e : wedge) : eshape_t * wmap := (eshape e, e_weights e).
Definition eview (s : wstate) (x : str) : list (eshape_t * wmap) := map ev (es s x).
Definition nview (s : wstate) (x : str) : bool * ntype * str * wmap :=
  (has_node (ws_g s) x, n_type (nd s x), n_label (nd s x), n_weights (nd s x)).
(* wildcard lists: of the node, and of its edges (with their shapes) *)
Definition ewv (e : wedge) : eshape_t * list str := (eshape e, e_wild e).
Definition wv (s : wstate) (x : str) : list str * list (eshape_t * list str) := (n_wild (nd s x), map ewv (es s x)).

Definition seteq (a b : list str) : Prop := forall T, In T a <-> In T b.
Lemma seteq_refl a : seteq a a. Proof. intros T; tauto. Qed.

Lemma map_wreplace_nth {A B} (f : A -> B) (l : list A) i x : map f (wreplace_nth i x l) = wreplace_nth i (f x) (map f l).
Proof. revert i. induction l as [|y l IH]; intros [|i]; simpl; try reflexivity. f_equal. apply IH. Qed.

Lemma nth_error_map_inv {A B} (f : A -> B) l i p : nth_error (map f l) i = Some p -> exists a, nth_error l i = Some a /\ f a = p.
Proof.
  revert i. induction l as [|y l IH]; intros [|i] H; simpl in *; try discriminate.
  - inversion H. eauto.
  - apply IH. exact H.
Qed.

Lemma nodefn_views s id f :
  (forall n, n_id (f n) = n_id n /\ n_type (f n) = n_type n /\ n_label (f n) = n_label n /\ n_weights (f n) = n_weights n) ->
  forall x, nview (upd_node s id f) x = nview s x /\ eview (upd_node s id f) x = eview s x.
Proof.
  intros Hf x. split; [|reflexivity]. unfold nview. rewrite has_node_upd_node.
  rewrite nd_upd_node by (intros n; apply Hf).
  destruct (str_eqb_spec x id) as [->|]; simpl; [|reflexivity].
  destruct (has_node (ws_g s) id); [|reflexivity]. destruct (Hf (nd s id)) as (_ & -> & -> & ->). reflexivity.
Qed.

Lemma edgefn_views s r f :
  (forall e, ev (f e) = ev e) ->
  forall x, nview (upd_edge s r f) x = nview s x /\ eview (upd_edge s r f) x = eview s x.
Proof.
  intros Hf x. split.
  - unfold nview. rewrite has_node_upd_edge, nd_upd_edge. reflexivity.
  - unfold eview. rewrite es_upd_edge. destruct (str_eqb_spec x (fst r)) as [->|]; [|reflexivity].
    destruct (nth_error (es s (fst r)) (snd r)) as [e|] eqn:E; [|reflexivity].
    apply map_wreplace with (y := e); auto.
Qed.

Lemma edge_weights_views s id i e W f :
  nth_error (es s id) i = Some e -> ev (f e) = (eshape e, W) ->
  (forall x, nview (upd_edge s (id, i) f) x = nview s x) /\
  (forall x, x <> id -> eview (upd_edge s (id, i) f) x = eview s x) /\
  eview (upd_edge s (id, i) f) id = wreplace_nth i (eshape e, W) (eview s id).
Proof.
  intros He Hf. split; [|split].
  - intros x. unfold nview. rewrite has_node_upd_edge, nd_upd_edge. reflexivity.
  - intros x Hx. unfold eview. rewrite es_upd_edge. cbn [fst snd]. rewrite (str_eqb_false x id) by exact Hx. reflexivity.
  - unfold eview. rewrite es_upd_edge. cbn [fst snd]. rewrite str_eqb_refl, He. rewrite map_wreplace_nth, Hf. reflexivity.
Qed.

Lemma set_node_weights_views s id W :
  (forall x, eview (upd_node s id (fun n => with_weights n W)) x = eview s x) /\
  (forall x, x <> id -> nview (upd_node s id (fun n => with_weights n W)) x = nview s x) /\
  (has_node (ws_g s) id = true ->
   nview (upd_node s id (fun n => with_weights n W)) id = (true, n_type (nd s id), n_label (nd s id), W)).
Proof.
  split; [|split].
  - reflexivity.
  - intros x Hx. unfold nview. rewrite has_node_upd_node. rewrite nd_upd_node by reflexivity.
    rewrite (str_eqb_false x id) by exact Hx. reflexivity.
  - intros Hn. unfold nview. rewrite has_node_upd_node. rewrite nd_upd_node by reflexivity.
    rewrite str_eqb_refl, Hn. reflexivity.
Qed.

Lemma nonterminal_has_node g x : is_terminal (n_type (node_of g x)) = false -> has_node g x = true.
Proof. unfold node_of, has_node. destruct (find_node x (g_nodes g)); [reflexivity|discriminate]. Qed.

(* wildcard views under the updates *)
Lemma wv_upd_node_keep s id f x :
  (forall n, n_id (f n) = n_id n) -> (forall n, n_wild (f n) = n_wild n) -> wv (upd_node s id f) x = wv s x.
Proof.
  intros Hid Hw. unfold wv. rewrite es_upd_node. f_equal. rewrite nd_upd_node by exact Hid.
  destruct (str_eqb_spec x id) as [->|]; simpl; [|reflexivity]. destruct (has_node (ws_g s) id); [apply Hw|reflexivity].
Qed.
Lemma wv_upd_node_other s id f x : (forall n, n_id (f n) = n_id n) -> x <> id -> wv (upd_node s id f) x = wv s x.
Proof.
  intros Hid Hx. unfold wv. rewrite es_upd_node. f_equal. rewrite nd_upd_node by exact Hid.
  rewrite (str_eqb_false x id) by exact Hx. reflexivity.
Qed.
Lemma wv_upd_node_at s id f :
  (forall n, n_id (f n) = n_id n) -> has_node (ws_g s) id = true ->
  wv (upd_node s id f) id = (n_wild (f (nd s id)), snd (wv s id)).
Proof.
  intros Hid Hn. unfold wv. rewrite es_upd_node. cbn [snd]. f_equal. rewrite nd_upd_node by exact Hid.
  rewrite str_eqb_refl, Hn. reflexivity.
Qed.
Lemma wv_upd_edge_keep s r f x : (forall e, ewv (f e) = ewv e) -> wv (upd_edge s r f) x = wv s x.
Proof.
  intros Hf. unfold wv. rewrite nd_upd_edge. f_equal. rewrite es_upd_edge.
  destruct (str_eqb_spec x (fst r)) as [->|]; [|reflexivity].
  destruct (nth_error (es s (fst r)) (snd r)) as [e|] eqn:E; [|reflexivity].
  apply map_wreplace with (y := e); auto.
Qed.
Lemma wv_upd_edge_other s id i f x : x <> id -> wv (upd_edge s (id, i) f) x = wv s x.
Proof.
  intros Hx. unfold wv. rewrite nd_upd_edge. f_equal. rewrite es_upd_edge. cbn [fst snd].
  rewrite (str_eqb_false x id) by exact Hx. reflexivity.
Qed.
Lemma wv_upd_edge_at s id i e f :
  nth_error (es s id) i = Some e ->
  wv (upd_edge s (id, i) f) id = (fst (wv s id), wreplace_nth i (ewv (f e)) (snd (wv s id))).
Proof.
  intros He. unfold wv. rewrite nd_upd_edge. cbn [fst snd]. f_equal. rewrite es_upd_edge. cbn [fst snd].
  rewrite str_eqb_refl, He. apply map_wreplace_nth.
Qed.

(* ---------------------------------------------------------------------------------------- *)
(* 5. the invariant of the traversal on a graph without cycles                               *)
(* ---------------------------------------------------------------------------------------- *)
Section Dyn.
  Variable g0 : wgraph.
  Variable rank : str -> nat.
  Hypothesis ranked : ranked_by g0 rank.
  Hypothesis termok : terminals_not_placeholders g0.
  Notation gs := (gs g0 rank).
  Notation ew := (ew g0 rank).
  Notation wsx := (wsx g0 rank).
  Notation ews := (ews g0 rank).
  Notation acc := (acc g0 rank).

  Definition Shape (s : wstate) : Prop := forall x,
    has_node (ws_g s) x = has_node g0 x /\ n_type (nd s x) = n_type (node_of g0 x) /\
    n_label (nd s x) = n_label (node_of g0 x) /\ map fst (eview s x) = map eshape (edges_from g0 x).
  Definition Fresh (s : wstate) (x : str) : Prop :=
    n_weights (nd s x) = [] /\ Forall (fun p => snd p = []) (eview s x).
  Definition Done (s : wstate) (x : str) : Prop :=
    n_weights (nd s x) = gs x /\ Forall (fun p => snd p = ew (fst p)) (eview s x).
  Definition WFresh (s : wstate) (x : str) : Prop :=
    (is_terminal (n_type (node_of g0 x)) = false -> fst (wv s x) = []) /\ Forall (fun p => snd p = []) (snd (wv s x)).
  Definition WDone (s : wstate) (x : str) : Prop :=
    seteq (fst (wv s x)) (wsx x) /\ Forall (fun p => seteq (snd p) (ews (fst p))) (snd (wv s x)).

  Record Inv (A : list str) (s : wstate) : Prop := {
    inv_shape : Shape s;
    inv_deps : ws_deps s = [];
    inv_fresh : forall x, ~ In x (ws_visited s) -> Fresh s x /\ WFresh s x;
    inv_done : forall x, In x (ws_visited s) -> ~ In x A -> Done s x /\ WDone s x;
    inv_A : forall a, In a A -> In a (ws_visited s);
    inv_nodup : forall x, is_terminal (n_type (node_of g0 x)) = false ->
                          NoDup (fst (wv s x)) /\ Forall (fun p => NoDup (snd p)) (snd (wv s x));
    inv_acc : forall x, In x (ws_visited s) -> ~ In x A -> acc x = true }.

  (* nodes visited before are left alone (except, inside a node's own loop, that node) *)
  Definition Frame (ex : option str) (s s' : wstate) : Prop :=
    (forall x, In x (ws_visited s) -> In x (ws_visited s')) /\
    (forall x, In x (ws_visited s) -> Some x <> ex -> nview s' x = nview s x /\ eview s' x = eview s x /\ wv s' x = wv s x).

  Lemma Frame_refl ex s : Frame ex s s.
  Proof. split; auto. Qed.
  Lemma Frame_trans ex s1 s2 s3 : Frame ex s1 s2 -> Frame ex s2 s3 -> Frame ex s1 s3.
  Proof.
    intros [V1 F1] [V2 F2]. split; [auto|]. intros x Hx Hex.
    destruct (F1 x Hx Hex) as (N1 & E1 & W1). destruct (F2 x (V1 x Hx) Hex) as (N2 & E2 & W2). repeat split; congruence.
  Qed.

  Lemma nview_parts s s' x : nview s' x = nview s x ->
    has_node (ws_g s') x = has_node (ws_g s) x /\ n_type (nd s' x) = n_type (nd s x) /\
    n_label (nd s' x) = n_label (nd s x) /\ n_weights (nd s' x) = n_weights (nd s x).
  Proof. unfold nview. intros H. inversion H. auto. Qed.

  Lemma nview_eq s x a b c d : nview s x = (a, b, c, d) ->
    has_node (ws_g s) x = a /\ n_type (nd s x) = b /\ n_label (nd s x) = c /\ n_weights (nd s x) = d.
  Proof. unfold nview. intros H. inversion H. auto. Qed.

  (* a change confined to a node still in progress: the weights and wildcards of its edges, its own wildcards *)
  Lemma Inv_inprogress_update A s s' id :
    In id A -> Inv A s ->
    ws_visited s' = ws_visited s -> ws_deps s' = ws_deps s ->
    (forall x, nview s' x = nview s x) ->
    (forall x, x <> id -> eview s' x = eview s x) ->
    map fst (eview s' id) = map fst (eview s id) ->
    (forall x, x <> id -> wv s' x = wv s x) ->
    (is_terminal (n_type (node_of g0 id)) = false -> NoDup (fst (wv s' id)) /\ Forall (fun p => NoDup (snd p)) (snd (wv s' id))) ->
    Inv A s'.
  Proof.
    intros HA [Sh Dp Fr Dn IA ND AC] Hv Hd Hn He Hs Hw Hnd. split.
    - intros x. destruct (Sh x) as (S1 & S2 & S3 & S4). destruct (nview_parts _ _ _ (Hn x)) as (N1 & N2 & N3 & _).
      repeat split; try congruence.
      destruct (str_eqb_spec x id) as [->|Hx]; [congruence|]. rewrite (He x Hx). exact S4.
    - congruence.
    - intros x Hx. rewrite Hv in Hx. destruct (Fr x Hx) as [[F1 F2] WF].
      assert (x <> id) by (intros ->; apply Hx; apply IA; exact HA).
      destruct (nview_parts _ _ _ (Hn x)) as (_ & _ & _ & N4). split.
      + split; [congruence|]. rewrite (He x H). exact F2.
      + unfold WFresh. rewrite (Hw x H). exact WF.
    - intros x Hx HxA. rewrite Hv in Hx. destruct (Dn x Hx HxA) as [[D1 D2] WD].
      assert (x <> id) by (intros ->; contradiction).
      destruct (nview_parts _ _ _ (Hn x)) as (_ & _ & _ & N4). split.
      + split; [congruence|]. rewrite (He x H). exact D2.
      + unfold WDone. rewrite (Hw x H). exact WD.
    - intros a Ha. rewrite Hv. apply IA. exact Ha.
    - intros x Hx. destruct (str_eqb_spec x id) as [->|Hne]; [apply Hnd; exact Hx|]. rewrite (Hw x Hne). apply ND. exact Hx.
    - intros x Hx HxA. rewrite Hv in Hx. apply AC; assumption.
  Qed.

  (* shapes of the current edges are those of the unweighted graph: rank and source *)
  Lemma shape_edge s x i e :
    Shape s -> nth_error (es s x) i = Some e -> e_from e = x /\ (rank (e_to e) < rank x)%nat.
  Proof.
    intros Sh He. destruct (Sh x) as (_ & _ & _ & S4).
    assert (Hin : In (eshape e) (map fst (eview s x))).
    { unfold eview. rewrite map_map. apply in_map_iff. exists e. split; [reflexivity|]. eapply nth_error_In; eauto. }
    rewrite S4 in Hin. apply in_map_iff in Hin. destruct Hin as [e0 [Esh Hin0]].
    destruct (ranked x e0 Hin0) as [R1 R2]. unfold eshape in Esh. inversion Esh. split; congruence.
  Qed.

  (* ---- specifications of the two mutually recursive procedures ---- *)
  Definition chain (A : list str) (x : str) : Prop := forall a, In a A -> (rank x < rank a)%nat.
  Definition path_in (A : list str) (path : list pentry) : Prop := Forall (fun p : pentry => In (fst (fst p)) A) path.

  Definition NodeSpec (rec_node : str -> list pentry -> wstate -> cresult) : Prop :=
    forall A id path s tc s',
      Inv A s -> chain A id -> path_in A path ->
      rec_node id path s = (tc, None, s') ->
      tc = [] /\ Inv A s' /\ Frame None s s' /\
      (is_terminal (n_type (node_of g0 id)) = true \/ (In id (ws_visited s') /\ ~ In id A)).

  Definition EdgeSpec (rec_edge : eref -> list pentry -> wstate -> cresult) : Prop :=
    forall A id i path s e tc s',
      Inv (id :: A) s -> chain A id -> path_in (id :: A) path ->
      nth_error (es s id) i = Some e -> is_terminal (n_type (node_of g0 (e_to e))) = false ->
      rec_edge (id, i) path s = (tc, None, s') ->
      tc = [] /\ Inv (id :: A) s' /\ Frame (Some id) s s' /\
      nview s' id = nview s id /\ eview s' id = wreplace_nth i (eshape e, ew (eshape e)) (eview s id) /\
      wv s' id = wv s id /\
      (* the target is finished, with a weight map that is not empty *)
      In (e_to e) (ws_visited s') /\ ~ In (e_to e) (id :: A) /\ gs (e_to e) <> [].

  Lemma chain_notin A x : chain A x -> ~ In x A.
  Proof. intros H Hin. specialize (H x Hin). lia. Qed.

  (* ---- calculateEdgeWeight ---- *)
  Lemma calc_edge_body_spec rec_node : NodeSpec rec_node -> EdgeSpec (calc_edge_body rec_node).
  Proof.
    intros HN A id i path s e tc s' HI Hch Hp He Hnt H.
    unfold calc_edge_body in H. unfold edge_at in H. cbn [fst snd] in H. fold (es s id) in H. rewrite He in H.
    destruct (shape_edge s id i e (inv_shape _ _ HI) He) as [Efrom Erank].
    assert (Hne : e_from e <> e_to e) by (rewrite Efrom; intros E; rewrite <- E in Erank; lia).
    rewrite (str_eqb_false _ _ Hne) in H.
    set (path' := path ++ [(e_from e, e_type e, n_type (node_of (ws_g s) (e_to e)))]) in H.
    assert (Hch' : chain (id :: A) (e_to e)).
    { intros a [<-|Ha]; [exact Erank|]. specialize (Hch a Ha). lia. }
    assert (Hp' : path_in (id :: A) path').
    { unfold path_in, path'. apply Forall_app. split; [exact Hp|]. constructor; [|constructor]. cbn [fst]. left. symmetry. exact Efrom. }
    destruct (rec_node (e_to e) path' s) as [[tc1 err1] s1] eqn:E1.
    destruct err1 as [x|]; [discriminate|].
    destruct (HN (id :: A) (e_to e) path' s tc1 s1 HI Hch' Hp' E1) as (-> & HI1 & HF1 & Hfin).
    destruct Hfin as [Hterm|[Hvis HnA]]; [congruence|].
    destruct (inv_done _ _ HI1 (e_to e) Hvis HnA) as [[Dw _] _]. fold (nd s1 (e_to e)) in H.
    destruct (n_weights (nd s1 (e_to e))) as [|kv0 tw0] eqn:Ew.
    - (* no weights: would have to be an ancestor *)
      rewrite is_tuple_cycle_absent in H; [discriminate|].
      apply Forall_forall. intros p Hin. unfold path_in in Hp'. rewrite Forall_forall in Hp'. specialize (Hp' p Hin).
      intros E. apply HnA. rewrite <- E. exact Hp'.
    - assert (Hgs : gs (e_to e) <> []) by (rewrite <- Dw; discriminate).
      rewrite <- Ew in Dw. clear Ew.
      assert (Hk : KP nonref (n_weights (nd s1 (e_to e)))) by (rewrite Dw; apply gs_nonref; assumption).
      rewrite (edge_from_target_nonref e (id, i) s1 Hk) in H. inversion H; subst tc s'. clear H.
      split; [reflexivity|].
      (* the edge is still there in s1 *)
      assert (Hid : In id (ws_visited s)) by (apply (inv_A _ _ HI); left; reflexivity).
      destruct HF1 as [V1 F1]. destruct (F1 id Hid) as (Nid & Eid & Wid); [discriminate|].
      assert (He1 : exists e1, nth_error (es s1 id) i = Some e1 /\ ev e1 = ev e).
      { apply nth_error_map_inv. fold (eview s1 id). rewrite Eid. unfold eview. apply map_nth_error. exact He. }
      destruct He1 as [e1 [He1 Ev1]].
      assert (Esh1 : eshape e1 = eshape e) by (unfold ev in Ev1; congruence).
      set (W := bump (e_type e) (copy_weights (n_weights (nd s1 (e_to e))))).
      assert (HW : W = ew (eshape e)).
      { unfold W, ew, edge_w, eshape. rewrite Hnt. rewrite Dw. reflexivity. }
      destruct (edge_weights_views s1 id i e1 W (fun e' => edge_with_weights e' W) He1) as (Vn & Ve & Vi); [reflexivity|].
      assert (Vw : forall x, wv (upd_edge s1 (id, i) (fun e' => edge_with_weights e' W)) x = wv s1 x).
      { intros x. apply wv_upd_edge_keep. reflexivity. }
      split; [|split; [|split; [|split; [|split; [|split; [|split]]]]]].
      + apply (Inv_inprogress_update (id :: A) s1 _ id); auto.
        * left; reflexivity.
        * apply upd_edge_visited.
        * apply upd_edge_deps.
        * rewrite Vi.
          apply (map_wreplace fst (eview s1 id) i (eshape e1, W) (ev e1)); [unfold eview; apply map_nth_error; exact He1|reflexivity].
        * intros Hnt'. rewrite Vw. apply (inv_nodup _ _ HI1 id Hnt').
      + split.
        * intros x Hx. rewrite upd_edge_visited. auto.
        * intros x Hx Hex. assert (x <> id) by congruence. destruct (F1 x Hx) as (N1 & E1' & W1); [discriminate|].
          rewrite Vn, (Ve x H), Vw. repeat split; assumption.
      + rewrite Vn. exact Nid.
      + rewrite Vi, Eid, Esh1, HW. reflexivity.
      + rewrite Vw. exact Wid.
      + rewrite upd_edge_visited. exact Hvis.
      + exact HnA.
      + exact Hgs.
  Qed.

  (* ---- the loop over the edges of a node ---- *)
  Definition progress (id : str) (i : nat) (s : wstate) : Prop :=
    forall j p, nth_error (eview s id) j = Some p -> snd p = if (j <? i)%nat then ew (fst p) else [].

  Definition wprogress (id : str) (i : nat) (s : wstate) : Prop :=
    (forall T, In T (fst (wv s id)) <->
               exists j p, (j < i)%nat /\ nth_error (snd (wv s id)) j = Some p /\ In T (ews (fst p))) /\
    (forall j p, nth_error (snd (wv s id)) j = Some p -> if (j <? i)%nat then seteq (snd p) (ews (fst p)) else snd p = []).

  Lemma progress_step id i s s' e W :
    progress id i s -> nth_error (es s id) i = Some e -> W = ew (eshape e) ->
    eview s' id = wreplace_nth i (eshape e, W) (eview s id) ->
    progress id (S i) s'.
  Proof.
    intros Hp He HW Hv j p Hj. rewrite Hv, nth_error_wreplace in Hj.
    destruct (Nat.eqb_spec j i) as [->|Hne].
    - unfold eview in Hj. rewrite (map_nth_error ev _ _ He) in Hj. inversion Hj; subst p. cbn [fst snd].
      rewrite (proj2 (Nat.ltb_lt i (S i))) by lia. exact HW.
    - rewrite (Hp j p Hj). destruct (Nat.ltb_spec j i), (Nat.ltb_spec j (S i)); try reflexivity; lia.
  Qed.

  (* edge i gets the wildcard list X (the specification's, as a set), the node's list grows by X *)
  Lemma wprogress_step id i s s' e X :
    wprogress id i s -> nth_error (es s id) i = Some e -> seteq X (ews (eshape e)) ->
    (forall T, In T (fst (wv s' id)) <-> In T (fst (wv s id)) \/ In T X) ->
    snd (wv s' id) = wreplace_nth i (eshape e, X) (snd (wv s id)) ->
    wprogress id (S i) s'.
  Proof.
    intros [Hn Hl] He HX Hnode Hedges.
    assert (Hi : nth_error (snd (wv s id)) i = Some (ewv e)) by (unfold wv; cbn [snd]; apply map_nth_error; exact He).
    split.
    - intros T. rewrite Hnode, Hn, Hedges. split.
      + intros [(j & p & Hj & Hp & HT)|HT].
        * exists j, p. split; [lia|]. split; [|exact HT]. rewrite nth_error_wreplace.
          destruct (Nat.eqb_spec j i); [lia|exact Hp].
        * exists i, (eshape e, X). split; [lia|]. split; [|apply HX; exact HT].
          rewrite nth_error_wreplace, Nat.eqb_refl, Hi. reflexivity.
      + intros (j & p & Hj & Hp & HT). rewrite nth_error_wreplace in Hp.
        destruct (Nat.eqb_spec j i) as [->|Hne].
        * rewrite Hi in Hp. inversion Hp; subst p. right. apply HX. exact HT.
        * left. exists j, p. split; [lia|]. split; assumption.
    - intros j p Hp. rewrite Hedges, nth_error_wreplace in Hp.
      destruct (Nat.eqb_spec j i) as [->|Hne].
      + rewrite Hi in Hp. inversion Hp; subst p. cbn [fst snd]. rewrite (proj2 (Nat.ltb_lt i (S i))) by lia. exact HX.
      + specialize (Hl j p Hp). destruct (Nat.ltb_spec j i), (Nat.ltb_spec j (S i)); try exact Hl; lia.
  Qed.

  Lemma merge_wild_in into from T : In T (merge_wild into from) <-> In T into \/ In T from.
  Proof. apply Proofs.WildcardProofs.merge_wild_spec. Qed.

  Lemma edge_wild_to_node_in n e T :
    In T (n_wild (edge_wild_to_node n e)) <-> In T (n_wild n) \/ In T (e_wild e).
  Proof.
    unfold edge_wild_to_node. destruct (e_wild e) as [|w ws] eqn:E; [simpl; tauto|].
    cbn [n_wild with_wild]. apply merge_wild_in.
  Qed.
  Lemma edge_wild_to_node_fn e n :
    n_id (edge_wild_to_node n e) = n_id n /\ n_type (edge_wild_to_node n e) = n_type n /\
    n_label (edge_wild_to_node n e) = n_label n /\ n_weights (edge_wild_to_node n e) = n_weights n.
  Proof. unfold edge_wild_to_node. destruct (e_wild e); auto. Qed.

  Lemma edge_wild_to_node_nodup n e : NoDup (n_wild n) -> NoDup (e_wild e) -> NoDup (n_wild (edge_wild_to_node n e)).
  Proof.
    intros Hn He. unfold edge_wild_to_node. destruct (e_wild e) as [|w ws] eqn:E; [exact Hn|].
    cbn [n_wild with_wild]. apply merge_wild_NoDup; assumption.
  Qed.
  Lemma Forall_wreplace {X} (P : X -> Prop) l i x : Forall P l -> P x -> Forall P (wreplace_nth i x l).
  Proof.
    intros Hl Hx. revert i. induction Hl as [|y l Hy Hl IH]; intros [|i]; simpl; try constructor; auto.
  Qed.

  Definition LoopInv (A : list str) (id : str) (i : nat) (s : wstate) : Prop :=
    Inv (id :: A) s /\ n_weights (nd s id) = [] /\ progress id i s /\ wprogress id i s /\ (i <= length (es s id))%nat.

  (* one edge: the invariant of the loop moves on by one; the target of the edge is terminal or finished with
     a weight map that is not empty *)
  Lemma edge_step_spec rec_edge A id path :
    EdgeSpec rec_edge -> chain A id -> path_in (id :: A) path ->
    is_terminal (n_type (node_of g0 id)) = false ->
    forall i s e tc s',
      LoopInv A id i s -> nth_error (es s id) i = Some e ->
      edge_step (fun r s => rec_edge r path s) id i s = (tc, None, s') ->
      tc = [] /\ LoopInv A id (S i) s' /\ length (es s' id) = length (es s id) /\ Frame (Some id) s s' /\
      (is_terminal (n_type (node_of g0 (e_to e))) = true \/
       (In (e_to e) (ws_visited s') /\ ~ In (e_to e) (id :: A) /\ gs (e_to e) <> [])).
  Proof.
    intros HE Hch Hp Hnt i s e0 tc s' (HI & Hw & Hpr & Hwp & Hle) He0 H.
    assert (Hlt : (i < length (es s id))%nat) by (apply nth_error_Some; congruence).
      unfold edge_step in H. unfold edge_at in H. cbn [fst snd] in H. fold (es s id) in H.
      rewrite He0 in H. rename e0 into e. rename He0 into He.
      assert (Hew : e_weights e = []).
      { specialize (Hpr i (ev e)). unfold eview in Hpr. rewrite (map_nth_error ev _ _ He) in Hpr. specialize (Hpr eq_refl).
        rewrite Nat.ltb_irrefl in Hpr. exact Hpr. }
      assert (Hewild : e_wild e = []).
      { destruct Hwp as [_ Hl]. specialize (Hl i (ewv e)). unfold wv in Hl. cbn [snd] in Hl.
        rewrite (map_nth_error ewv _ _ He) in Hl. specialize (Hl eq_refl). rewrite Nat.ltb_irrefl in Hl. exact Hl. }
      rewrite Hew in H.
      destruct (inv_shape _ _ HI (e_to e)) as (_ & ShT & _ & _). fold (nd s (e_to e)) in H. rewrite ShT in H.
      assert (Hid : In id (ws_visited s)) by (apply (inv_A _ _ HI); left; reflexivity).
      destruct (inv_shape _ _ HI id) as (_ & Sh2 & _ & _).
      assert (Hhas : has_node (ws_g s) id = true) by (apply nonterminal_has_node; fold (nd s id); rewrite Sh2; exact Hnt).
      destruct (is_terminal (n_type (node_of g0 (e_to e)))) eqn:Tt.
      + (* an edge to a type or a wildcard *)
        set (tt := n_type (node_of g0 (e_to e))) in *.
        set (label := if ntype_eqb tt NWildcard then drop_last2 (e_to e) else e_to e) in H.
        set (e1 := if ntype_eqb tt NWildcard then add_wild_to_edge label e else e) in H.
        set (s1 := if ntype_eqb tt NWildcard then upd_node s id (fun n => edge_wild_to_node n e1) else s) in H.
        set (s2 := st_g s1 (set_edge (ws_g s1) (id, i) (edge_with_weights e1 [(label, 1)]))) in H.
        assert (V1 : ws_visited s1 = ws_visited s /\ ws_deps s1 = ws_deps s /\
                     (forall x, nview s1 x = nview s x /\ eview s1 x = eview s x) /\
                     (forall x, x <> id -> wv s1 x = wv s x) /\ snd (wv s1 id) = snd (wv s id) /\
                     (forall T, In T (fst (wv s1 id)) <-> In T (fst (wv s id)) \/ In T (e_wild e1)) /\
                     NoDup (e_wild e1) /\ NoDup (fst (wv s1 id))).
        { assert (ND0 := proj1 (inv_nodup _ _ HI id Hnt)).
          assert (NDe : NoDup (e_wild e1)).
          { unfold e1. destruct (ntype_eqb tt NWildcard); [|rewrite Hewild; constructor].
            unfold add_wild_to_edge. cbn [e_wild edge_with_wild]. apply add_unique_NoDup. rewrite Hewild. constructor. }
          unfold s1. destruct (ntype_eqb tt NWildcard) eqn:Wc.
          - split; [reflexivity|]. split; [reflexivity|]. split; [apply nodefn_views; intros n; apply edge_wild_to_node_fn|].
            split; [intros x Hx; apply wv_upd_node_other; [intros n; apply edge_wild_to_node_fn|exact Hx]|].
            rewrite wv_upd_node_at by (try exact Hhas; intros n; apply edge_wild_to_node_fn). cbn [fst snd].
            split; [reflexivity|]. split; [intros T; apply edge_wild_to_node_in|]. split; [exact NDe|].
            apply edge_wild_to_node_nodup; [exact ND0|exact NDe].
          - split; [reflexivity|]. split; [reflexivity|]. split; [auto|]. split; [auto|]. split; [reflexivity|].
            split; [intros T; unfold e1; rewrite Hewild; simpl; tauto|]. split; [exact NDe|exact ND0]. }
        destruct V1 as (Vv & Vd & Vw & Vwo & Vws & Vwn & NDe & NDn).
        assert (He1 : nth_error (es s1 id) i = Some e).
        { unfold s1. destruct (ntype_eqb tt NWildcard); [|exact He]. rewrite es_upd_node. exact He. }
        assert (Esh : eshape e1 = eshape e) by (unfold e1; destruct (ntype_eqb tt NWildcard); reflexivity).
        assert (HW : [(label, 1)] = ew (eshape e)).
        { unfold ew, edge_w, eshape. fold tt. rewrite Tt. reflexivity. }
        assert (HX : seteq (e_wild e1) (ews (eshape e))).
        { unfold ews, edge_wild, eshape. fold tt. unfold e1, label. destruct tt eqn:Ett; try discriminate Tt; cbn [ntype_eqb].
          - rewrite Hewild. apply seteq_refl.
          - unfold add_wild_to_edge. cbn [e_wild edge_with_wild]. rewrite Hewild. apply seteq_refl. }
        assert (Es2 : s2 = upd_edge s1 (id, i) (fun _ => edge_with_weights e1 [(label, 1)])).
        { unfold s2, upd_edge, edge_at. cbn [fst snd]. fold (es s1 id). rewrite He1. reflexivity. }
        destruct (edge_weights_views s1 id i e [(label, 1)] (fun _ => edge_with_weights e1 [(label, 1)]) He1) as (Un & Ue & Ui).
        { unfold ev. cbn [e_weights edge_with_weights]. f_equal. exact Esh. }
        assert (HI2 : Inv (id :: A) s2).
        { rewrite Es2. apply (Inv_inprogress_update (id :: A) s _ id); auto.
          - left; reflexivity.
          - rewrite upd_edge_visited. exact Vv.
          - rewrite upd_edge_deps. exact Vd.
          - intros x. rewrite Un. apply Vw.
          - intros x Hx. rewrite (Ue x Hx). apply Vw.
          - rewrite Ui. destruct (Vw id) as [_ ->].
            apply (map_wreplace fst (eview s id) i (eshape e, [(label, 1)]) (ev e)); [unfold eview; apply map_nth_error; exact He|reflexivity].
          - intros x Hx. rewrite wv_upd_edge_other by exact Hx. apply Vwo. exact Hx.
          - intros _. rewrite (wv_upd_edge_at s1 id i e _ He1). cbn [fst snd]. split; [exact NDn|].
            apply Forall_wreplace; [rewrite Vws; apply (inv_nodup _ _ HI id Hnt)|exact NDe]. }
        assert (Hpr2 : progress id (S i) s2).
        { apply (progress_step id i s s2 e [(label, 1)]); auto.
          rewrite Es2, Ui. destruct (Vw id) as [_ ->]. reflexivity. }
        assert (Hwp2 : wprogress id (S i) s2).
        { apply (wprogress_step id i s s2 e (e_wild e1)); [exact Hwp|exact He|exact HX| |].
          - intros T. rewrite Es2. rewrite (wv_upd_edge_at s1 id i e _ He1). cbn [fst]. apply Vwn.
          - rewrite Es2. rewrite (wv_upd_edge_at s1 id i e _ He1). cbn [snd]. rewrite Vws.
            unfold ewv. cbn [e_wild edge_with_weights]. f_equal. f_equal. exact Esh. }
        assert (Hw2 : n_weights (nd s2 id) = []).
        { rewrite Es2. destruct (nview_parts _ _ _ (Un id)) as (_ & _ & _ & ->).
          destruct (Vw id) as [Vn _]. destruct (nview_parts _ _ _ Vn) as (_ & _ & _ & ->). exact Hw. }
        assert (Hlen2 : length (es s2 id) = length (es s id)).
        { transitivity (length (eview s2 id)); [unfold eview; symmetry; apply map_length|].
          rewrite Es2, Ui, length_wreplace. destruct (Vw id) as [_ ->]. unfold eview. apply map_length. }
        inversion H; subst tc s'. clear H.
        split; [reflexivity|]. split; [split; [exact HI2|split; [exact Hw2|split; [exact Hpr2|split; [exact Hwp2|rewrite Hlen2; lia]]]]|]. split; [exact Hlen2|].
        split; [|left; reflexivity].
        split.
        * intros x Hx. rewrite Es2, upd_edge_visited, Vv. exact Hx.
        * intros x Hx Hex. assert (Hxid : x <> id) by congruence. rewrite Es2.
          rewrite (Un x), (Ue x Hxid), (wv_upd_edge_other s1 id i _ x Hxid). destruct (Vw x) as [-> ->]. rewrite (Vwo x Hxid). auto.
      + (* an edge to a relation or an operator: calculateEdgeWeight, then the wildcard bookkeeping *)
        destruct (rec_edge (id, i) path s) as [[tc1 err1] s1] eqn:E1.
        set (wf := fun e0 : wedge => match e_wild e0, n_wild (node_of (ws_g s1) (e_to e0)) with
                                     | [], (_ :: _) as nw => edge_with_wild e0 nw
                                     | _, _ => e0
                                     end) in H.
        set (s2 := upd_edge s1 (id, i) wf) in H.
        set (s3 := match edge_at (ws_g s2) (id, i) with Some e' => upd_node s2 id (fun n => edge_wild_to_node n e') | None => s2 end) in H.
        assert (Herr : err1 = None) by (inversion H; reflexivity). subst err1.
        destruct (HE A id i path s e tc1 s1 HI Hch Hp He Tt E1) as (-> & HI1 & HF1 & Nid & Eid & Wid & Tvis & TnA & Tgs).
        (* edge i in s1: same shape, no wildcards yet *)
        assert (He1 : exists e1, nth_error (es s1 id) i = Some e1 /\ ewv e1 = ewv e).
        { apply nth_error_map_inv. change (map ewv (es s1 id)) with (snd (wv s1 id)). rewrite Wid. unfold wv. cbn [snd].
          apply map_nth_error. exact He. }
        destruct He1 as [e1 [He1 Ew1]].
        assert (Esh1 : eshape e1 = eshape e) by (unfold ewv in Ew1; congruence).
        assert (Ewild1 : e_wild e1 = []) by (unfold ewv in Ew1; congruence).
        assert (Eto1 : e_to e1 = e_to e) by (unfold eshape in Esh1; congruence).
        destruct (inv_done _ _ HI1 (e_to e) Tvis TnA) as [_ [WDt _]].
        set (X := n_wild (nd s1 (e_to e))).
        assert (Hwf : ewv (wf e1) = (eshape e, X)).
        { unfold wf, ewv. rewrite Ewild1, Eto1. fold (nd s1 (e_to e)). fold X.
          destruct X as [|x0 X0] eqn:EX; cbn [e_wild edge_with_wild eshape e_from e_to e_type]; rewrite <- ?Esh1; try rewrite Ewild1; reflexivity. }
        assert (HX : seteq X (ews (eshape e))).
        { unfold ews, edge_wild, eshape. unfold X.
          destruct (n_type (node_of g0 (e_to e))) eqn:Ett; try discriminate Tt; exact WDt. }
        assert (V2 : forall x, nview s2 x = nview s1 x /\ eview s2 x = eview s1 x).
        { apply edgefn_views. intros e'. unfold wf. destruct (e_wild e'); [|reflexivity].
          destruct (n_wild (node_of (ws_g s1) (e_to e'))); reflexivity. }
        assert (W2 : wv s2 id = (fst (wv s1 id), wreplace_nth i (eshape e, X) (snd (wv s1 id)))).
        { unfold s2. rewrite (wv_upd_edge_at s1 id i e1 wf He1). rewrite Hwf. reflexivity. }
        assert (He2 : exists e2, edge_at (ws_g s2) (id, i) = Some e2 /\ e_wild e2 = X).
        { unfold edge_at. cbn [fst snd]. fold (es s2 id).
          assert (Hn : nth_error (snd (wv s2 id)) i = Some (eshape e, X)).
          { rewrite W2. cbn [snd]. rewrite nth_error_wreplace, Nat.eqb_refl.
            unfold wv. cbn [snd]. rewrite (map_nth_error ewv _ _ He1). reflexivity. }
          unfold wv in Hn. cbn [snd] in Hn. apply nth_error_map_inv in Hn. destruct Hn as [e2 [Hn2 E2]].
          exists e2. split; [exact Hn2|]. unfold ewv in E2. congruence. }
        destruct He2 as [e2 [He2 Ew2]].
        assert (Es3 : s3 = upd_node s2 id (fun n => edge_wild_to_node n e2)) by (unfold s3; rewrite He2; reflexivity).
        assert (Hhas2 : has_node (ws_g s2) id = true).
        { destruct (nview_parts _ _ _ (proj1 (V2 id))) as (-> & _). destruct (nview_parts _ _ _ Nid) as (-> & _). exact Hhas. }
        assert (V3 : forall x, nview s3 x = nview s2 x /\ eview s3 x = eview s2 x).
        { rewrite Es3. apply nodefn_views. intros n. apply edge_wild_to_node_fn. }
        assert (V13 : forall x, nview s3 x = nview s1 x /\ eview s3 x = eview s1 x).
        { intros x. destruct (V3 x) as [-> ->]. apply V2. }
        assert (Vv : ws_visited s3 = ws_visited s1) by (rewrite Es3; cbn [upd_node st_g ws_visited]; apply upd_edge_visited).
        assert (Vd : ws_deps s3 = ws_deps s1) by (rewrite Es3; cbn [upd_node st_g ws_deps]; apply upd_edge_deps).
        assert (Wo : forall x, x <> id -> wv s3 x = wv s1 x).
        { intros x Hx. rewrite Es3. rewrite wv_upd_node_other by (try exact Hx; intros n; apply edge_wild_to_node_fn).
          apply wv_upd_edge_other. exact Hx. }
        assert (W3 : wv s3 id = (n_wild (edge_wild_to_node (nd s2 id) e2), wreplace_nth i (eshape e, X) (snd (wv s1 id)))).
        { rewrite Es3. rewrite wv_upd_node_at by (try exact Hhas2; intros n; apply edge_wild_to_node_fn). rewrite W2. reflexivity. }
        assert (HI3 : Inv (id :: A) s3).
        { apply (Inv_inprogress_update (id :: A) s1 s3 id); auto.
          - left; reflexivity.
          - intros x. apply V13.
          - intros x _. apply V13.
          - destruct (V13 id) as [_ ->]. reflexivity.
          - intros _. rewrite W3. cbn [fst snd].
            assert (NDX : NoDup X) by (apply (inv_nodup _ _ HI1 (e_to e) Tt)).
            split.
            + apply edge_wild_to_node_nodup; [|rewrite Ew2; exact NDX].
              change (n_wild (nd s2 id)) with (fst (wv s2 id)). rewrite W2. cbn [fst]. rewrite Wid. apply (inv_nodup _ _ HI id Hnt).
            + apply Forall_wreplace; [rewrite Wid; apply (inv_nodup _ _ HI id Hnt)|exact NDX]. }
        assert (Hpr3 : progress id (S i) s3).
        { apply (progress_step id i s s3 e (ew (eshape e))); auto. destruct (V13 id) as [_ ->]. exact Eid. }
        assert (Hwp3 : wprogress id (S i) s3).
        { apply (wprogress_step id i s s3 e X); [exact Hwp|exact He|exact HX| |].
          - intros T. rewrite W3. cbn [fst]. rewrite edge_wild_to_node_in, Ew2.
            change (n_wild (nd s2 id)) with (fst (wv s2 id)). rewrite W2. cbn [fst]. rewrite Wid. tauto.
          - rewrite W3. cbn [snd]. rewrite Wid. reflexivity. }
        assert (Hw3 : n_weights (nd s3 id) = []).
        { destruct (V13 id) as [Vn _]. destruct (nview_parts _ _ _ Vn) as (_ & _ & _ & ->).
          destruct (nview_parts _ _ _ Nid) as (_ & _ & _ & ->). exact Hw. }
        assert (Hlen3 : length (es s3 id) = length (es s id)).
        { transitivity (length (eview s3 id)); [unfold eview; symmetry; apply map_length|].
          destruct (V13 id) as [_ ->]. rewrite Eid, length_wreplace. unfold eview. apply map_length. }
        assert (Hs' : s' = s3) by (inversion H; reflexivity). assert (Htc : tc = []) by (inversion H; reflexivity).
        clear H. clearbody s3. subst tc s'.
        split; [reflexivity|]. split; [split; [exact HI3|split; [exact Hw3|split; [exact Hpr3|split; [exact Hwp3|rewrite Hlen3; lia]]]]|]. split; [exact Hlen3|].
        split; [|right; split; [rewrite Vv; exact Tvis|split; [exact TnA|exact Tgs]]].
        destruct HF1 as [VF1 FF1]. split.
        * intros x Hx. rewrite Vv. auto.
        * intros x Hx Hex. assert (Hxid : x <> id) by congruence. destruct (FF1 x Hx Hex) as (N1 & E1' & W1).
          destruct (V13 x) as [-> ->]. rewrite (Wo x Hxid). auto.
  Qed.


  (* the edges before i lead to a type, a wildcard, or an accepted node with a weight map that is not empty *)
  Definition aprogress (id : str) (i : nat) : Prop :=
    forall j e0, (j < i)%nat -> nth_error (edges_from g0 id) j = Some e0 ->
      is_terminal (n_type (node_of g0 (e_to e0))) = true \/ (acc (e_to e0) = true /\ gs (e_to e0) <> []).

  Lemma edge_loop_spec rec_edge A id path :
    EdgeSpec rec_edge -> chain A id -> path_in (id :: A) path ->
    is_terminal (n_type (node_of g0 id)) = false ->
    forall k i s tc s',
      Inv (id :: A) s -> n_weights (nd s id) = [] -> progress id i s -> wprogress id i s -> aprogress id i ->
      (k + i = length (es s id))%nat ->
      edge_loop (fun r s => rec_edge r path s) id k i [] s = (tc, None, s') ->
      tc = [] /\ Inv A s' /\ Frame (Some id) s s'.
  Proof.
    intros HE Hch Hp Hnt. induction k as [|k IH]; intros i s tc s' HI Hw Hpr Hwp Hap Hlen H.
    - (* all edges done: the node's own weights *)
      cbn [edge_loop] in H. destruct (from_edges s id []) as [tcs' r] eqn:Efe.
      destruct r as [s2|err|w]; try discriminate. inversion H; subst tc s'. clear H.
      destruct (inv_shape _ _ HI id) as (Sh1 & Sh2 & Sh3 & Sh4).
      assert (Hnt' : is_terminal (n_type (nd s id)) = false) by (rewrite Sh2; exact Hnt).
      destruct (from_edges_conditions s id tcs' s2 Hnt' Efe) as [Cne Cenf].
      destruct (from_edges_pure s id tcs' s2 Hnt' Efe) as [-> Hs2]. split; [reflexivity|].
      cbv zeta in Hs2.
      (* the edge weights are all final *)
      assert (Hall : Forall (fun p => snd p = ew (fst p)) (eview s id)).
      { apply Forall_forall. intros p Hin. apply In_nth_error in Hin. destruct Hin as [j Hj].
        rewrite (Hpr j p Hj). assert (j < length (eview s id))%nat by (apply nth_error_Some; congruence).
        unfold eview in H. rewrite map_length in H. rewrite (proj2 (Nat.ltb_lt j i)) by lia. reflexivity. }
      assert (HW : pure_weights (kind_of (n_type (nd s id)) (n_label (nd s id))) (map e_weights (es s id)) = gs id).
      { rewrite (gs_equation g0 rank ranked id). rewrite Sh2, Sh3. f_equal.
        transitivity (map (fun p => ew (fst p)) (eview s id)).
        - transitivity (map snd (eview s id)); [unfold eview; rewrite map_map; reflexivity|].
          apply map_ext_in. intros p Hin. rewrite Forall_forall in Hall. apply Hall. exact Hin.
        - rewrite <- (map_map fst ew). rewrite Sh4. rewrite map_map. reflexivity. }
      (* the node is accepted by the specification *)
      assert (Hlen0 : length (edges_from g0 id) = length (es s id)).
      { rewrite <- (map_length eshape (edges_from g0 id)), <- Sh4. unfold eview. rewrite !map_length. reflexivity. }
      assert (ACid : acc id = true).
      { rewrite (acc_equation g0 rank ranked id). rewrite Sh2, Sh3 in Cne, Cenf. apply andb_true_intro. split; [apply andb_true_intro; split|].
        - destruct (needs_edges _) eqn:Nk; [|reflexivity]. cbn [negb orb].
          destruct (edges_from g0 id) eqn:E0; [|reflexivity]. exfalso. apply (Cne eq_refl).
          destruct (es s id); [reflexivity|]. simpl in Hlen0. discriminate.
        - apply forallb_forall. intros e0 Hin. apply In_nth_error in Hin. destruct Hin as [j Hj].
          assert (j < length (edges_from g0 id))%nat by (apply nth_error_Some; congruence).
          destruct (Hap j e0) as [Ht|[Ha Hg]]; [lia|exact Hj|rewrite Ht; reflexivity|].
          rewrite Ha. destruct (gs (e_to e0)); [contradiction|]. cbn. apply orb_true_r.
        - destruct (kind_of _ _) eqn:Ek; try reflexivity. specialize (Cenf eq_refl). rewrite Sh2, Sh3, Ek in HW.
          rewrite HW in Cenf. destruct (gs id); [contradiction|reflexivity]. }
      (* and so are the wildcard lists *)
      assert (Hlenw : length (snd (wv s id)) = length (es s id)) by (unfold wv; cbn [snd]; apply map_length).
      assert (WD : WDone s id).
      { destruct Hwp as [Hn Hl]. split.
        - intros T. rewrite Hn. rewrite (wsx_equation g0 rank ranked id). rewrite in_flat_map.
          assert (Hsh : map fst (snd (wv s id)) = map eshape (edges_from g0 id)).
          { rewrite <- Sh4. unfold wv, eview. cbn [snd]. rewrite !map_map. reflexivity. }
          split.
          + intros (j & p & _ & Hp' & HT).
            assert (Hin : In (fst p) (map eshape (edges_from g0 id))).
            { rewrite <- Hsh. apply in_map. eapply nth_error_In; eauto. }
            apply in_map_iff in Hin. destruct Hin as [e0 [E0 Hin0]]. exists e0. split; [exact Hin0|]. rewrite E0. exact HT.
          + intros (e0 & Hin0 & HT).
            assert (Hin : In (eshape e0) (map fst (snd (wv s id)))) by (rewrite Hsh; apply in_map; exact Hin0).
            apply in_map_iff in Hin. destruct Hin as [p [Ep Hinp]]. apply In_nth_error in Hinp. destruct Hinp as [j Hj].
            exists j, p. split; [|split; [exact Hj|rewrite Ep; exact HT]].
            assert (j < length (snd (wv s id)))%nat by (apply nth_error_Some; congruence). lia.
        - apply Forall_forall. intros p Hin. apply In_nth_error in Hin. destruct Hin as [j Hj].
          specialize (Hl j p Hj). assert (j < length (snd (wv s id)))%nat by (apply nth_error_Some; congruence).
          rewrite (proj2 (Nat.ltb_lt j i)) in Hl by lia. exact Hl. }
      assert (Hid : In id (ws_visited s)) by (apply (inv_A _ _ HI); left; reflexivity).
      assert (HnA : ~ In id A) by (apply chain_notin; exact Hch).
      destruct Hs2 as [->|[-> HW0]].
      + rewrite HW. destruct (set_node_weights_views s id (gs id)) as (Ve & Vn & Vi).
        specialize (Vi (nonterminal_has_node _ _ Hnt')).
        assert (Vw : forall x, wv (upd_node s id (fun n => with_weights n (gs id))) x = wv s x).
        { intros x. apply wv_upd_node_keep; reflexivity. }
        split.
        * destruct HI as [Sh Dp Fr Dn IA ND AC]. split.
          -- intros x. destruct (Sh x) as (S1 & S2 & S3 & S4).
             destruct (str_eqb_spec x id) as [->|Hx].
             ++ destruct (nview_eq _ _ _ _ _ _ Vi) as (V1 & V2 & V3 & V4).
                split; [rewrite has_node_upd_node; exact S1|]. split; [rewrite V2; exact S2|].
                split; [rewrite V3; exact S3|]. rewrite Ve. exact S4.
             ++ destruct (nview_parts _ _ _ (Vn x Hx)) as (N1 & N2 & N3 & _). rewrite Ve. repeat split; congruence.
          -- exact Dp.
          -- intros x Hx. cbn [upd_node st_g ws_visited] in Hx. destruct (Fr x Hx) as [[F1 F2] WF].
             assert (x <> id) by (intros ->; contradiction).
             destruct (nview_parts _ _ _ (Vn x H)) as (_ & _ & _ & N4). split.
             ++ split; [congruence|]. rewrite Ve. exact F2.
             ++ unfold WFresh. rewrite Vw. exact WF.
          -- intros x Hx HxA. cbn [upd_node st_g ws_visited] in Hx.
             destruct (str_eqb_spec x id) as [->|Hne].
             ++ split.
                ** split; [|rewrite Ve; exact Hall]. destruct (nview_eq _ _ _ _ _ _ Vi) as (_ & _ & _ & V4). exact V4.
                ** unfold WDone. rewrite Vw. exact WD.
             ++ destruct (Dn x Hx) as [[D1 D2] WDx]; [intros [E|E]; [congruence|contradiction]|].
                destruct (nview_parts _ _ _ (Vn x Hne)) as (_ & _ & _ & N4). split.
                ** split; [congruence|]. rewrite Ve. exact D2.
                ** unfold WDone. rewrite Vw. exact WDx.
          -- intros a Ha. apply IA. right. exact Ha.
          -- intros x Hx. rewrite Vw. apply ND. exact Hx.
          -- intros x Hx HxA. cbn [upd_node st_g ws_visited] in Hx. destruct (str_eqb_spec x id) as [->|Hne]; [exact ACid|].
             apply AC; [exact Hx|]. intros [E|E]; [congruence|contradiction].
        * split; [auto|]. intros x Hx Hex. assert (x <> id) by congruence. split; [apply Vn; exact H|]. split; [apply Ve|apply Vw].
      + (* an operator of unknown kind: nothing stored, and nothing to store *)
        split; [|apply Frame_refl].
        destruct HI as [Sh Dp Fr Dn IA ND AC]. split; auto.
        * intros x Hx HxA. destruct (str_eqb_spec x id) as [->|Hne].
          -- split; [|exact WD]. split; [|exact Hall]. rewrite Hw. rewrite <- HW. symmetry. exact HW0.
          -- apply Dn; [exact Hx|]. intros [E|E]; [congruence|contradiction].
        * intros a Ha. apply IA. right. exact Ha.
        * intros x Hx HxA. destruct (str_eqb_spec x id) as [->|Hne]; [exact ACid|].
          apply AC; [exact Hx|]. intros [E|E]; [congruence|contradiction].
    - (* one more edge *)
      cbn [edge_loop] in H.
      destruct (edge_step (fun r s0 => rec_edge r path s0) id i s) as [[tc1 err1] s1] eqn:Es.
      destruct err1 as [x|]; [discriminate|].
      assert (Hlt : (i < length (es s id))%nat) by lia.
      destruct (nth_error (es s id) i) as [e|] eqn:He; [|apply nth_error_None in He; lia].
      destruct (edge_step_spec rec_edge A id path HE Hch Hp Hnt i s e tc1 s1) as (-> & (HI1 & Hw1 & Hpr1 & Hwp1 & _) & Hlen1 & HF1 & Htgt); auto.
      { split; [exact HI|]. split; [exact Hw|]. split; [exact Hpr|]. split; [exact Hwp|lia]. }
      cbn [app] in H.
      assert (Hap1 : aprogress id (S i)).
      { intros j e0 Hj He0. destruct (Nat.eq_dec j i) as [->|Hne]; [|apply (Hap j e0); [lia|exact He0]].
        assert (Eto : e_to e0 = e_to e).
        { destruct (inv_shape _ _ HI id) as (_ & _ & _ & S4).
          assert (Hn : nth_error (map fst (eview s id)) i = Some (eshape e)).
          { unfold eview. rewrite map_map. apply (map_nth_error (fun x => fst (ev x)) _ _ He). }
          rewrite S4 in Hn. rewrite (map_nth_error eshape _ _ He0) in Hn. unfold eshape in Hn. congruence. }
        rewrite Eto. destruct Htgt as [Ht|(Tv & TnA & Tg)]; [left; exact Ht|right].
        split; [apply (inv_acc _ _ HI1 (e_to e) Tv TnA)|exact Tg]. }
      destruct (IH (S i) s1 tc s' HI1 Hw1 Hpr1 Hwp1 Hap1) as (-> & HI' & HF'); [lia|exact H|].
      split; [reflexivity|]. split; [exact HI'|]. apply (Frame_trans _ s s1 s'); assumption.
  Qed.

  (* ---- calculateNodeWeight ---- *)
  Lemma calc_node_body_spec rec_edge : EdgeSpec rec_edge -> NodeSpec (calc_node_body rec_edge).
  Proof.
    intros HE A id path s tc s' HI Hch Hp H. unfold calc_node_body in H.
    destruct (mem_str id (ws_visited s)) eqn:Hm.
    { inversion H; subst. split; [reflexivity|]. split; [exact HI|]. split; [apply Frame_refl|].
      right. split; [apply mem_str_in; exact Hm|apply chain_notin; exact Hch]. }
    destruct (inv_shape _ _ HI id) as (_ & Sh2 & _ & _). fold (nd s id) in H. rewrite Sh2 in H.
    destruct (is_terminal (n_type (node_of g0 id))) eqn:Tt.
    { inversion H; subst. split; [reflexivity|]. split; [exact HI|]. split; [apply Frame_refl|]. left. reflexivity. }
    assert (Hnv : ~ In id (ws_visited s)).
    { intros Hin. apply mem_str_in in Hin. congruence. }
    set (s1 := mark_visited s id) in H.
    assert (HI1 : Inv (id :: A) s1).
    { destruct HI as [Sh Dp Fr Dn IA ND AC]. split; [| | | | |exact ND|].
      - exact Sh.
      - exact Dp.
      - intros x Hx. apply Fr. intros Hin. apply Hx. unfold s1, mark_visited. cbn [ws_visited]. apply in_or_app. left. exact Hin.
      - intros x Hx HxA. unfold s1, mark_visited in Hx. cbn [ws_visited] in Hx. apply in_app_or in Hx.
        destruct Hx as [Hx|[<-|[]]]; [|exfalso; apply HxA; left; reflexivity].
        apply (Dn x Hx). intros Hin. apply HxA. right. exact Hin.
      - intros a [<-|Ha]; unfold s1, mark_visited; cbn [ws_visited]; apply in_or_app; [right; left; reflexivity|left; auto].
      - intros x Hx HxA. unfold s1, mark_visited in Hx. cbn [ws_visited] in Hx. apply in_app_or in Hx.
        destruct Hx as [Hx|[<-|[]]]; [|exfalso; apply HxA; left; reflexivity].
        apply (AC x Hx). intros Hin. apply HxA. right. exact Hin. }
    destruct (inv_fresh _ _ HI id Hnv) as [[Fw Fe] [WFn WFe]].
    assert (Hpr : progress id 0 s1).
    { intros j p Hj. change (eview s1 id) with (eview s id) in Hj. rewrite Forall_forall in Fe.
      apply Fe. eapply nth_error_In; eauto. }
    assert (Hwp : wprogress id 0 s1).
    { unfold wprogress. change (wv s1 id) with (wv s id). split.
      - intros T. rewrite (WFn Tt). split; [intros []|]. intros (j & p & Hj & _). lia.
      - intros j p Hj. rewrite Forall_forall in WFe. apply WFe. eapply nth_error_In; eauto. }
    assert (Hp1 : path_in (id :: A) path).
    { unfold path_in in *. rewrite Forall_forall in *. intros p Hin. right. apply Hp. exact Hin. }
    assert (Hap : aprogress id 0) by (intros j e0 Hj; lia).
    destruct (edge_loop_spec rec_edge A id path HE Hch Hp1 Tt _ 0%nat s1 tc s' HI1 Fw Hpr Hwp Hap (Nat.add_0_r _) H) as (-> & HI' & [VF FF]).
    split; [reflexivity|]. split; [exact HI'|]. split.
    - split.
      + intros x Hx. apply VF. unfold s1, mark_visited. cbn [ws_visited]. apply in_or_app. left. exact Hx.
      + intros x Hx _. apply (FF x).
        * unfold s1, mark_visited. cbn [ws_visited]. apply in_or_app. left. exact Hx.
        * intros E. inversion E. subst. contradiction.
    - right. split; [|apply chain_notin; exact Hch].
      apply VF. unfold s1, mark_visited. cbn [ws_visited]. apply in_or_app. right. left. reflexivity.
  Qed.

  (* ---- the knot ---- *)
  Lemma calc_specs fuel : NodeSpec (calc_node fuel) /\ EdgeSpec (calc_edge fuel).
  Proof.
    induction fuel as [|f [IHn IHe]].
    - split.
      + intros A id path s tc s' _ _ _ H. discriminate H.
      + intros A id i path s e tc s' _ _ _ _ _ H. discriminate H.
    - split.
      + apply calc_node_body_spec. exact IHe.
      + apply calc_edge_body_spec. exact IHn.
  Qed.

  (* ---- AssignWeights ---- *)
  Definition reached (s : wstate) (x : str) : Prop :=
    is_terminal (n_type (node_of g0 x)) = true \/ In x (ws_visited s).

  Lemma assign_loop_spec fuel order : forall s s',
    Inv [] s -> assign_loop fuel order s = Ok s' ->
    Inv [] s' /\ (forall x, In x (ws_visited s) -> In x (ws_visited s')) /\ (forall x, In x order -> reached s' x).
  Proof.
    induction order as [|id order IH]; intros s s' HI H; cbn [assign_loop] in H.
    - inversion H; subst. split; [exact HI|]. split; [auto|]. intros x [].
    - destruct (mem_str id (ws_visited s)) eqn:Hm.
      + destruct (IH s s' HI H) as (HI' & Hv & Hr). split; [exact HI'|]. split; [exact Hv|].
        intros x [<-|Hx]; [right; apply Hv; apply mem_str_in; exact Hm|auto].
      + destruct (calc_node fuel id [] s) as [[tcs err] s1] eqn:E. destruct err as [e|]; [discriminate|].
        destruct (proj1 (calc_specs fuel) [] id [] s tcs s1 HI) as (-> & HI1 & [VF _] & Hfin); auto.
        { intros a []. }
        { constructor. }
        destruct (IH s1 s' HI1 H) as (HI' & Hv & Hr). split; [exact HI'|]. split; [auto|].
        intros x [<-|Hx]; [|auto].
        destruct Hfin as [Ht|[Hin _]]; [left; exact Ht|right; auto].
  Qed.
  (* ---------------------------------------------------------------------------------------- *)
  (* completeness: what the specification accepts goes through without an error                *)
  (* ---------------------------------------------------------------------------------------- *)
  Definition err_of (r : cresult) : option werr := snd (fst r).

  Definition NodeOK (bound : nat) (rec_node : str -> list pentry -> wstate -> cresult) : Prop :=
    forall A id path s,
      Inv A s -> chain A id -> path_in A path -> (2 * rank id + 1 <= bound)%nat ->
      (is_terminal (n_type (node_of g0 id)) = true \/ acc id = true) ->
      err_of (rec_node id path s) = None.

  Definition EdgeOK (bound : nat) (rec_edge : eref -> list pentry -> wstate -> cresult) : Prop :=
    forall A id i path s e,
      Inv (id :: A) s -> chain A id -> path_in (id :: A) path ->
      nth_error (es s id) i = Some e -> is_terminal (n_type (node_of g0 (e_to e))) = false ->
      (2 * rank (e_to e) + 2 <= bound)%nat -> acc (e_to e) = true -> gs (e_to e) <> [] ->
      err_of (rec_edge (id, i) path s) = None.

  Lemma calc_edge_body_ok bound rec_node :
    NodeSpec rec_node -> NodeOK bound rec_node -> EdgeOK (S bound) (calc_edge_body rec_node).
  Proof.
    intros HN HO A id i path s e HI Hch Hp He Hnt Hb Hacc Hgs.
    unfold calc_edge_body. unfold edge_at. cbn [fst snd]. fold (es s id). rewrite He.
    destruct (shape_edge s id i e (inv_shape _ _ HI) He) as [Efrom Erank].
    assert (Hne : e_from e <> e_to e) by (rewrite Efrom; intros E; rewrite <- E in Erank; lia).
    rewrite (str_eqb_false _ _ Hne).
    set (path' := path ++ [(e_from e, e_type e, n_type (node_of (ws_g s) (e_to e)))]).
    assert (Hch' : chain (id :: A) (e_to e)).
    { intros a [<-|Ha]; [exact Erank|]. specialize (Hch a Ha). lia. }
    assert (Hp' : path_in (id :: A) path').
    { unfold path_in, path'. apply Forall_app. split; [exact Hp|]. constructor; [|constructor]. cbn [fst]. left. symmetry. exact Efrom. }
    assert (Hok := HO (id :: A) (e_to e) path' s HI Hch' Hp').
    destruct (rec_node (e_to e) path' s) as [[tc1 err1] s1] eqn:E1. unfold err_of in Hok. cbn [fst snd] in Hok.
    rewrite Hok by (try lia; right; exact Hacc).
    destruct (HN (id :: A) (e_to e) path' s tc1 s1 HI Hch' Hp') as (-> & HI1 & HF1 & Hfin).
    { rewrite E1. rewrite Hok by (try lia; right; exact Hacc). reflexivity. }
    destruct Hfin as [Hterm|[Hvis HnA]]; [congruence|].
    destruct (inv_done _ _ HI1 (e_to e) Hvis HnA) as [[Dw _] _]. fold (nd s1 (e_to e)).
    destruct (n_weights (nd s1 (e_to e))) as [|kv0 tw0] eqn:Ew; [exfalso; apply Hgs; symmetry; exact Dw|].
    rewrite <- Ew in Dw.
    assert (Hk : KP nonref (n_weights (nd s1 (e_to e)))) by (rewrite Dw; apply gs_nonref; assumption).
    rewrite (edge_from_target_nonref e (id, i) s1 Hk). reflexivity.
  Qed.

  Lemma edge_step_ok bound rec_edge A id path i s e :
    EdgeOK bound rec_edge -> chain A id -> path_in (id :: A) path ->
    LoopInv A id i s -> nth_error (es s id) i = Some e ->
    (is_terminal (n_type (node_of g0 (e_to e))) = true \/
     ((2 * rank (e_to e) + 2 <= bound)%nat /\ acc (e_to e) = true /\ gs (e_to e) <> [])) ->
    err_of (edge_step (fun r s => rec_edge r path s) id i s) = None.
  Proof.
    intros HO Hch Hp (HI & Hw & Hpr & Hwp & Hle) He Hcond.
    unfold edge_step. unfold edge_at. cbn [fst snd]. fold (es s id). rewrite He.
    destruct (e_weights e); [|reflexivity].
    destruct (inv_shape _ _ HI (e_to e)) as (_ & ShT & _ & _). fold (nd s (e_to e)). rewrite ShT.
    destruct (is_terminal (n_type (node_of g0 (e_to e)))) eqn:Tt; [reflexivity|].
    destruct Hcond as [Ht|(Hb & Ha & Hg)]; [discriminate|].
    assert (Hok := HO A id i path s e HI Hch Hp He Tt Hb Ha Hg).
    destruct (rec_edge (id, i) path s) as [[tc1 err1] s1]. exact Hok.
  Qed.

  (* the weights the node stores when its loop is over *)
  Lemma final_weights A id s :
    Inv (id :: A) s -> progress id (length (es s id)) s ->
    pure_weights (kind_of (n_type (nd s id)) (n_label (nd s id))) (map e_weights (es s id)) = gs id.
  Proof.
    intros HI Hpr. destruct (inv_shape _ _ HI id) as (Sh1 & Sh2 & Sh3 & Sh4).
    assert (Hall : Forall (fun p => snd p = ew (fst p)) (eview s id)).
    { apply Forall_forall. intros p Hin. apply In_nth_error in Hin. destruct Hin as [j Hj].
      rewrite (Hpr j p Hj). assert (j < length (eview s id))%nat by (apply nth_error_Some; congruence).
      unfold eview in H. rewrite map_length in H. rewrite (proj2 (Nat.ltb_lt j _)) by lia. reflexivity. }
    rewrite (gs_equation g0 rank ranked id). rewrite Sh2, Sh3. f_equal.
    transitivity (map (fun p => ew (fst p)) (eview s id)).
    - transitivity (map snd (eview s id)); [unfold eview; rewrite map_map; reflexivity|].
      apply map_ext_in. intros p Hin. rewrite Forall_forall in Hall. apply Hall. exact Hin.
    - rewrite <- (map_map fst ew). rewrite Sh4. rewrite map_map. reflexivity.
  Qed.

  Lemma edge_loop_ok bound rec_edge A id path :
    EdgeSpec rec_edge -> EdgeOK bound rec_edge -> chain A id -> path_in (id :: A) path ->
    is_terminal (n_type (node_of g0 id)) = false -> acc id = true -> (2 * rank id <= bound)%nat ->
    forall k i s,
      LoopInv A id i s -> (k + i = length (es s id))%nat ->
      err_of (edge_loop (fun r s => rec_edge r path s) id k i [] s) = None.
  Proof.
    intros HE HO Hch Hp Hnt Hacc Hb.
    assert (Haq := acc_equation g0 rank ranked id). rewrite Hacc in Haq. symmetry in Haq.
    apply andb_prop in Haq. destruct Haq as [Haq Aenf]. apply andb_prop in Haq. destruct Haq as [Ane Aall].
    rewrite forallb_forall in Aall.
    induction k as [|k IH]; intros i s LI Hlen.
    - cbn [edge_loop]. destruct LI as (HI & Hw & Hpr & Hwp & Hle).
      destruct (inv_shape _ _ HI id) as (Sh1 & Sh2 & Sh3 & Sh4).
      assert (Hnt' : is_terminal (n_type (nd s id)) = false) by (rewrite Sh2; exact Hnt).
      assert (Hi : i = length (es s id)) by lia. subst i.
      assert (HW := final_weights A id s HI Hpr).
      assert (Hlen0 : length (edges_from g0 id) = length (es s id)).
      { rewrite <- (map_length eshape (edges_from g0 id)), <- Sh4. unfold eview. rewrite !map_length. reflexivity. }
      destruct (from_edges_ok s id Hnt') as [s' ->]; [| |reflexivity].
      + rewrite Sh2, Sh3. intros Nk. rewrite Nk in Ane. cbn in Ane. intros E. rewrite E in Hlen0.
        destruct (edges_from g0 id); [discriminate|discriminate].
      + rewrite Sh2, Sh3. intros Ek. rewrite Ek in Aenf. rewrite Sh2, Sh3, Ek in HW. rewrite HW.
        destruct (gs id); [discriminate|discriminate].
    - cbn [edge_loop].
      assert (Hlt : (i < length (es s id))%nat) by lia.
      destruct (nth_error (es s id) i) as [e|] eqn:He; [|apply nth_error_None in He; lia].
      (* the edge of the unweighted graph at this position *)
      assert (HI := proj1 LI). destruct (inv_shape _ _ HI id) as (_ & _ & _ & S4).
      assert (Hn : nth_error (map eshape (edges_from g0 id)) i = Some (eshape e)).
      { rewrite <- S4. unfold eview. rewrite map_map. apply (map_nth_error (fun x => fst (ev x)) _ _ He). }
      apply nth_error_map_inv in Hn. destruct Hn as [e0 [He0 Esh0]].
      assert (Eto : e_to e0 = e_to e) by (unfold eshape in Esh0; congruence).
      assert (Hcond : is_terminal (n_type (node_of g0 (e_to e))) = true \/
                      ((2 * rank (e_to e) + 2 <= bound)%nat /\ acc (e_to e) = true /\ gs (e_to e) <> [])).
      { specialize (Aall e0 (nth_error_In _ _ He0)). rewrite Eto in Aall.
        destruct (is_terminal (n_type (node_of g0 (e_to e)))); [left; reflexivity|right]. cbn [orb] in Aall.
        apply andb_prop in Aall. destruct Aall as [Aa Ag].
        destruct (ranked id e0 (nth_error_In _ _ He0)) as [_ Hr]. rewrite Eto in Hr.
        split; [lia|]. split; [exact Aa|]. destruct (gs (e_to e)); [discriminate|discriminate]. }
      assert (Hok := edge_step_ok bound rec_edge A id path i s e HO Hch Hp LI He Hcond).
      destruct (edge_step (fun r s0 => rec_edge r path s0) id i s) as [[tc1 err1] s1] eqn:Es.
      unfold err_of in Hok. cbn [fst snd] in Hok. subst err1.
      destruct (edge_step_spec rec_edge A id path HE Hch Hp Hnt i s e tc1 s1 LI He Es) as (-> & LI1 & Hlen1 & _ & _).
      cbn [app]. apply IH; [exact LI1|lia].
  Qed.

  Lemma calc_node_body_ok bound rec_edge :
    EdgeSpec rec_edge -> EdgeOK bound rec_edge -> NodeOK (S bound) (calc_node_body rec_edge).
  Proof.
    intros HE HO A id path s HI Hch Hp Hb Hacc. unfold calc_node_body.
    destruct (mem_str id (ws_visited s)) eqn:Hm; [reflexivity|].
    destruct (inv_shape _ _ HI id) as (_ & Sh2 & _ & _). fold (nd s id). rewrite Sh2.
    destruct (is_terminal (n_type (node_of g0 id))) eqn:Tt; [reflexivity|].
    destruct Hacc as [Ht|Hacc]; [discriminate|].
    assert (Hnv : ~ In id (ws_visited s)).
    { intros Hin. apply mem_str_in in Hin. congruence. }
    set (s1 := mark_visited s id).
    assert (HI1 : Inv (id :: A) s1).
    { destruct HI as [Sh Dp Fr Dn IA ND AC]. split; [| | | | |exact ND|].
      - exact Sh.
      - exact Dp.
      - intros x Hx. apply Fr. intros Hin. apply Hx. unfold s1, mark_visited. cbn [ws_visited]. apply in_or_app. left. exact Hin.
      - intros x Hx HxA. unfold s1, mark_visited in Hx. cbn [ws_visited] in Hx. apply in_app_or in Hx.
        destruct Hx as [Hx|[<-|[]]]; [|exfalso; apply HxA; left; reflexivity].
        apply (Dn x Hx). intros Hin. apply HxA. right. exact Hin.
      - intros a [<-|Ha]; unfold s1, mark_visited; cbn [ws_visited]; apply in_or_app; [right; left; reflexivity|left; auto].
      - intros x Hx HxA. unfold s1, mark_visited in Hx. cbn [ws_visited] in Hx. apply in_app_or in Hx.
        destruct Hx as [Hx|[<-|[]]]; [|exfalso; apply HxA; left; reflexivity].
        apply (AC x Hx). intros Hin. apply HxA. right. exact Hin. }
    destruct (inv_fresh _ _ HI id Hnv) as [[Fw Fe] [WFn WFe]].
    assert (LI : LoopInv A id 0 s1).
    { split; [exact HI1|]. split; [exact Fw|]. split; [|split; [|lia]].
      - intros j p Hj. change (eview s1 id) with (eview s id) in Hj. rewrite Forall_forall in Fe.
        apply Fe. eapply nth_error_In; eauto.
      - unfold wprogress. change (wv s1 id) with (wv s id). split.
        + intros T. rewrite (WFn Tt). split; [intros []|]. intros (j & p & Hj & _). lia.
        + intros j p Hj. rewrite Forall_forall in WFe. apply WFe. eapply nth_error_In; eauto. }
    assert (Hp1 : path_in (id :: A) path).
    { unfold path_in in *. rewrite Forall_forall in *. intros p Hin. right. apply Hp. exact Hin. }
    apply (edge_loop_ok bound rec_edge A id path HE HO Hch Hp1 Tt Hacc); [lia|exact LI|unfold es; lia].
  Qed.

  Lemma calc_ok fuel : NodeOK fuel (calc_node fuel) /\ EdgeOK fuel (calc_edge fuel).
  Proof.
    induction fuel as [|f [IHn IHe]].
    - split.
      + intros A id path s _ _ _ Hb _. lia.
      + intros A id i path s e _ _ _ _ _ Hb _ _. lia.
    - split.
      + apply calc_node_body_ok; [apply calc_specs|exact IHe].
      + apply calc_edge_body_ok; [apply calc_specs|exact IHn].
  Qed.

  Lemma assign_loop_ok fuel order : forall s,
    Inv [] s ->
    (forall x, In x order -> is_terminal (n_type (node_of g0 x)) = true \/ acc x = true) ->
    (forall x, In x order -> (2 * rank x + 1 <= fuel)%nat) ->
    exists s', assign_loop fuel order s = Ok s'.
  Proof.
    induction order as [|id order IH]; intros s HI Hacc Hb; cbn [assign_loop]; [eauto|].
    destruct (mem_str id (ws_visited s)); [apply IH; auto; intros; [apply Hacc|apply Hb]; right; assumption|].
    assert (Hok := proj1 (calc_ok fuel) [] id [] s HI).
    destruct (calc_node fuel id [] s) as [[tcs err] s1] eqn:E. unfold err_of in Hok. cbn [fst snd] in Hok.
    rewrite Hok; [|intros a []|constructor|apply Hb; left; reflexivity|apply Hacc; left; reflexivity].
    destruct (proj1 (calc_specs fuel) [] id [] s tcs s1 HI) as (-> & HI1 & _ & _).
    { intros a []. }
    { constructor. }
    { rewrite E. rewrite Hok; [reflexivity|intros a []|constructor|apply Hb; left; reflexivity|apply Hacc; left; reflexivity]. }
    apply IH; auto; intros; [apply Hacc|apply Hb]; right; assumption.
  Qed.

End Dyn.

(* ---------------------------------------------------------------------------------------- *)
(* 6. the theorems                                                                           *)
(* ---------------------------------------------------------------------------------------- *)
Lemma initial_inv g0 rank : unweighted g0 -> Inv g0 rank [] {| ws_g := g0; ws_visited := []; ws_deps := [] |}.
Proof.
  intros (Un & Ue & Uw & Uew). set (s0 := {| ws_g := g0; ws_visited := []; ws_deps := [] |}). split.
  - intros y. repeat split; try reflexivity. unfold eview, es. cbn [ws_g s0]. rewrite map_map. reflexivity.
  - reflexivity.
  - intros y _. split.
    + split; [apply Un|]. apply Forall_forall. intros p Hp. unfold eview in Hp. apply in_map_iff in Hp.
      destruct Hp as [e [<- He]]. cbn [snd ev]. apply (Ue y). exact He.
    + split; [intros Hnt; apply (Uw y Hnt)|]. apply Forall_forall. intros p Hp. unfold wv in Hp. cbn [snd] in Hp.
      apply in_map_iff in Hp. destruct Hp as [e [<- He]]. cbn [snd ewv]. apply (Uew y). exact He.
  - intros y [].
  - intros a [].
  - intros y Hnt. unfold wv. cbn [fst snd]. split; [change (nd s0 y) with (node_of g0 y); rewrite (Uw y Hnt); constructor|].
    apply Forall_forall. intros p Hp. apply in_map_iff in Hp. destruct Hp as [e [<- He]]. cbn [snd ewv].
    rewrite (Uew y e He). constructor.
  - intros y [].
Qed.

Lemma dag_invariant g0 rank order g' :
  ranked_by g0 rank -> terminals_not_placeholders g0 -> unweighted g0 ->
  assign_weights order g0 = Ok g' ->
  exists s', ws_g s' = g' /\ Inv g0 rank [] s' /\ forall x, In x order -> reached g0 s' x.
Proof.
  intros Hr Ht Hu H. unfold assign_weights in H.
  set (s0 := {| ws_g := g0; ws_visited := []; ws_deps := [] |}) in H.
  destruct (assign_loop _ order s0) as [s'| |] eqn:E; try discriminate. inversion H; subst g'. clear H.
  destruct (assign_loop_spec g0 rank Hr Ht _ order s0 s' (initial_inv g0 rank Hu) E) as (HI' & _ & Hreach).
  exists s'. auto.
Qed.

(* acceptance (C05 on graphs without cycles): weight assignment succeeds exactly when the specification accepts
   every node the traversal starts from — for every start order *)
Theorem dag_accepts_iff g0 rank order :
  ranked_by g0 rank -> terminals_not_placeholders g0 -> unweighted g0 ->
  (forall x, In x order -> (2 * rank x + 1 <= 2 * length (g_nodes g0) + 2)%nat) ->
  ((exists g', assign_weights order g0 = Ok g') <->
   (forall x, In x order -> is_terminal (n_type (node_of g0 x)) = true \/ acc g0 rank x = true)).
Proof.
  intros Hr Ht Hu Hfuel. split.
  - intros [g' H] x Hx. destruct (dag_invariant g0 rank order g' Hr Ht Hu H) as (s' & _ & HI' & Hreach).
    destruct (Hreach x Hx) as [Hterm|Hvis]; [left; exact Hterm|right].
    apply (inv_acc _ _ _ _ HI' x Hvis). intros [].
  - intros Hacc. unfold assign_weights.
    destruct (assign_loop_ok g0 rank Hr Ht _ order _ (initial_inv g0 rank Hu) Hacc Hfuel) as [s' ->]. eauto.
Qed.

Theorem dag_weights g0 rank order g' :
  ranked_by g0 rank -> terminals_not_placeholders g0 -> unweighted g0 ->
  assign_weights order g0 = Ok g' ->
  forall x, In x order -> is_terminal (n_type (node_of g0 x)) = false ->
    n_weights (node_of g' x) = gs g0 rank x /\
    map ev (edges_from g' x) = map (fun e => (eshape e, ew g0 rank (eshape e))) (edges_from g0 x).
Proof.
  intros Hr Ht Hu H x Hx Hnt.
  destruct (dag_invariant g0 rank order g' Hr Ht Hu H) as (s' & <- & HI' & Hreach).
  destruct (Hreach x Hx) as [Hterm|Hvis]; [congruence|].
  destruct (inv_done _ _ _ _ HI' x Hvis) as [[D1 D2] _]; [intros []|].
  split; [exact D1|].
  destruct (inv_shape _ _ _ _ HI' x) as (_ & _ & _ & S4).
  fold (es s' x). fold (eview s' x).
  transitivity (map (fun p => (fst p, ew g0 rank (fst p))) (eview s' x)).
  - rewrite <- (map_id (eview s' x)) at 1. apply map_ext_in. intros [sh w] Hin. rewrite Forall_forall in D2.
    specialize (D2 _ Hin). cbn [fst snd] in *. congruence.
  - rewrite <- (map_map fst (fun sh => (sh, ew g0 rank sh))). rewrite S4. rewrite map_map. reflexivity.
Qed.

(* the order of the depth-first traversal does not reach the weights *)
Corollary dag_order_independent g0 rank o1 o2 g1 g2 :
  ranked_by g0 rank -> terminals_not_placeholders g0 -> unweighted g0 ->
  assign_weights o1 g0 = Ok g1 -> assign_weights o2 g0 = Ok g2 ->
  forall x, In x o1 -> In x o2 -> is_terminal (n_type (node_of g0 x)) = false ->
    n_weights (node_of g1 x) = n_weights (node_of g2 x) /\ map ev (edges_from g1 x) = map ev (edges_from g2 x).
Proof.
  intros Hr Ht Hu H1 H2 x Hx1 Hx2 Hnt.
  destruct (dag_weights g0 rank o1 g1 Hr Ht Hu H1 x Hx1 Hnt) as [A1 B1].
  destruct (dag_weights g0 rank o2 g2 Hr Ht Hu H2 x Hx2 Hnt) as [A2 B2]. split; congruence.
Qed.

(* wildcards (C11): the list of a node holds exactly the public types whose wildcard node can be reached from it *)
Theorem dag_wildcards g0 rank order g' :
  ranked_by g0 rank -> terminals_not_placeholders g0 -> unweighted g0 ->
  assign_weights order g0 = Ok g' ->
  forall x, In x order -> is_terminal (n_type (node_of g0 x)) = false ->
    (forall T, In T (n_wild (node_of g' x)) <-> reaches_wild g0 x T) /\
    (forall e, In e (edges_from g' x) -> forall T, In T (e_wild e) <-> In T (ews g0 rank (eshape e))).
Proof.
  intros Hr Ht Hu H x Hx Hnt.
  destruct (dag_invariant g0 rank order g' Hr Ht Hu H) as (s' & <- & HI' & Hreach).
  destruct (Hreach x Hx) as [Hterm|Hvis]; [congruence|].
  destruct (inv_done _ _ _ _ HI' x Hvis) as [_ [W1 W2]]; [intros []|].
  split.
  - intros T. rewrite <- (wsx_reaches g0 rank Hr (S (rank x)) x T) by lia. apply W1.
  - intros e He T. rewrite Forall_forall in W2. apply (W2 (ewv e)). unfold wv. cbn [snd]. apply in_map. exact He.
Qed.

(* ... and holds none of them twice; neither do the lists of the edges *)
Theorem dag_wildcards_nodup g0 rank order g' :
  ranked_by g0 rank -> terminals_not_placeholders g0 -> unweighted g0 ->
  assign_weights order g0 = Ok g' ->
  forall x, is_terminal (n_type (node_of g0 x)) = false ->
    NoDup (n_wild (node_of g' x)) /\ (forall e, In e (edges_from g' x) -> NoDup (e_wild e)).
Proof.
  intros Hr Ht Hu H x Hnt.
  destruct (dag_invariant g0 rank order g' Hr Ht Hu H) as (s' & <- & HI' & _).
  destruct (inv_nodup _ _ _ _ HI' x Hnt) as [N1 N2]. split; [exact N1|].
  intros e He. rewrite Forall_forall in N2. apply (N2 (ewv e)). unfold wv. cbn [snd]. apply in_map. exact He.
Qed.

(* Proofs/RoundTripChars.v — the round trip of a relation definition AT CHARACTER LEVEL (C01, C02):
   printer -> characters -> lexer model -> parser model -> listener = the normalised rewrite, with the relation's
   restrictions, and without a lexer error — for every carriable expressible rewrite whose names are plain
   identifiers that no literal rule of the lexer claims.  Composition of Proofs/Lossless.v (the printed text is the
   canonical rendering of rdef_of), LexRender.v (that text lexes to the canonical tokens), ParserNatural.v (the parser
   looks at kinds only) and LosslessTokens.v (the canonical tokens parse back). *)
From Coq Require Import Lia.
From Verif Require Import Base.Str Base.Outcome Model.Ast Model.Token Gen.Keywords Model.Lexer Model.Parser Model.Listener Model.Printer
  Spec.Sem Spec.Expressible Spec.Normalize Proofs.PrinterExpressible Proofs.ListenerSem Proofs.RoundTrip Proofs.Lossless
  Proofs.ParserComplete Proofs.LosslessTokens Proofs.LexInversion Proofs.LexRender Proofs.ParserNatural.

(* ---- names ---- *)
Definition plain_ref (r : relation_ref) : Prop :=
  plain_name (rr_type r) = true /\ (match rr_kind r with RRel x => plain_name x = true | _ => True end) /\
  (is_empty (rr_cond r) = false -> plain_name (rr_cond r) = true).
Fixpoint plain_u (u : userset) : Prop :=
  let all := fix all (cs : list userset) : Prop := match cs with [] => True | c :: r => plain_u c /\ all r end in
  match u with
  | UComputed r => plain_name r = true
  | UTTU t c => plain_name t = true /\ plain_name c = true
  | UUnion cs | UInter cs => all cs
  | UDiff b s => plain_u b /\ plain_u s
  | _ => True
  end.
Fixpoint plain_all (cs : list userset) : Prop := match cs with [] => True | c :: r => plain_u c /\ plain_all r end.
Lemma plain_u_union cs : plain_u (UUnion cs) <-> plain_all cs.
Proof. cbn [plain_u]. induction cs as [|c cs IH]; cbn; [tauto|]. rewrite IH. tauto. Qed.
Lemma plain_u_inter cs : plain_u (UInter cs) <-> plain_all cs.
Proof. cbn [plain_u]. induction cs as [|c cs IH]; cbn; [tauto|]. rewrite IH. tauto. Qed.
Lemma plain_all_forall cs : plain_all cs <-> Forall plain_u cs.
Proof. induction cs as [|c cs IH]; cbn; [split; [constructor|tauto]|]. rewrite IH. split; [intros [A B]; constructor; assumption|intros H; inversion H; tauto]. Qed.

Lemma name_ok_name_tok s : plain_name s = true -> name_ok (name_tok s).
Proof. intros H. split; [reflexivity|exact H]. Qed.

Lemma restr_lex_ok_of_ref r : plain_ref r -> restr_lex_ok (restr_of_ref r).
Proof.
  intros (H1 & H2 & H3). unfold restr_lex_ok, restr_of_ref. cbn [rs_type rs_kind rs_cond]. split; [apply name_ok_name_tok; exact H1|]. split.
  - destruct (rr_kind r); try exact I. apply name_ok_name_tok. exact H2.
  - destruct (is_empty (rr_cond r)) eqn:E; [exact I|]. apply name_ok_name_tok. apply H3. reflexivity.
Qed.

Lemma lex_ok_all_map (f : userset -> relem) l : Forall (fun c => lex_ok (f c)) l -> lex_ok_all (map f l).
Proof. induction 1 as [|x l Hx _ IH]; cbn; auto. Qed.

Lemma lex_ok_group_of op xs : op <> ONone -> xs <> [] -> lex_ok_all xs -> lex_ok (group_of op xs).
Proof.
  intros Hop Hne H. destruct xs as [|x [|y r]]; [contradiction| |]; cbn [group_of]; apply (proj2 (lex_ok_group _ _ _ _)).
  - cbn [lex_ok_all] in H. destruct H as [H _]. split; [exact H|]. split; [exact I|reflexivity].
  - cbn [lex_ok_all] in H. destruct H as [H1 H2]. split; [exact H1|]. split; [exact H2|]. intros E. contradiction.
Qed.

Lemma tree_lex_ok refs u : Forall plain_ref refs -> carriable u = true -> plain_u u -> lex_ok (tree_of refs u).
Proof.
  intros Hrefs.
  induction u as [| [|] | rel | ts cu | cs IH | cs IH | b s IHb IHs] using userset_ind'; intros Hc Hp; try discriminate Hc.
  - cbn [tree_of lex_ok]. apply Forall_forall. intros r Hr. apply in_map_iff in Hr. destruct Hr as [r0 [<- Hin]].
    apply restr_lex_ok_of_ref. rewrite Forall_forall in Hrefs. apply Hrefs. exact Hin.
  - cbn. split; [apply name_ok_name_tok; exact Hp|exact I].
  - cbn in Hp |- *. destruct Hp as [Ht Hcu]. split; apply name_ok_name_tok; assumption.
  - cbn [carriable] in Hc. destruct (carriable_children cs Hc) as [Hne Hall]. rewrite tree_of_union.
    apply plain_u_union, plain_all_forall in Hp.
    apply lex_ok_group_of; [discriminate| |].
    + intros E. apply map_eq_nil in E. revert E. apply prioritize_nonempty. exact Hne.
    + apply lex_ok_all_map. apply Forall_prioritize. rewrite Forall_forall in IH, Hall, Hp |- *. intros c Hin. apply IH; auto.
  - cbn [carriable] in Hc. destruct (carriable_children cs Hc) as [Hne Hall]. rewrite tree_of_inter.
    apply plain_u_inter, plain_all_forall in Hp.
    apply lex_ok_group_of; [discriminate| |].
    + intros E. apply map_eq_nil in E. revert E. apply prioritize_nonempty. exact Hne.
    + apply lex_ok_all_map. apply Forall_prioritize. rewrite Forall_forall in IH, Hall, Hp |- *. intros c Hin. apply IH; auto.
  - cbn [carriable] in Hc. apply andb_prop in Hc. destruct Hc as [Hb Hs]. cbn [plain_u] in Hp. destruct Hp as [Pb Ps].
    cbn [tree_of]. apply (proj2 (lex_ok_group _ _ _ _)). split; [apply IHb; assumption|]. split; [cbn; split; [apply IHs; assumption|exact I]|discriminate].
Qed.

Lemma lex_ok_promote e : lex_ok e -> lex_ok (promote e).
Proof.
  induction e as [rs|cu t|nd first op rest IHf _] using relem_ind'; intros H; try exact H.
  cbn [promote]. apply (proj2 (lex_ok_group _ _ _ _)). destruct (proj1 (lex_ok_group _ _ _ _) H) as (H1 & H2 & H3).
  split; [apply IHf; exact H1|]. split; assumption.
Qed.

Lemma rdef_of_lex_ok refs u : Forall plain_ref refs -> carriable u = true -> plain_u u -> rdef_lex_ok (rdef_of refs u).
Proof.
  intros Hrefs Hc Hp. pose proof (tree_lex_ok refs u Hrefs Hc Hp) as H. unfold rdef_of, rdef_lex_ok.
  destruct (tree_of refs u) as [rs|cu t|nd first op rest]; cbn [rd_first rd_rest rd_op]; try (split; [exact H|split; [exact I|reflexivity]]).
  destruct (proj1 (lex_ok_group _ _ _ _) H) as (H1 & H2 & H3). split; [apply lex_ok_promote; exact H1|]. split; assumption.
Qed.

(* ---- the canonical tokens are canonical: names as name_tok, everything else without text ---- *)
Definition canon (c : tok) : Prop :=
  (c = mk (tk c) /\ tk_eqb (tk c) IDENTIFIER = false /\ tk_eqb (tk c) CEL_COMMENT = false) \/ (c = name_tok (ttext c) /\ ttext c <> []).

Lemma canon_mk k : tk_eqb k IDENTIFIER = false -> tk_eqb k CEL_COMMENT = false -> canon (mk k).
Proof. intros H1 H2. left. split; [reflexivity|]. split; assumption. Qed.
Lemma canon_name t : name_ok t -> canon t.
Proof. intros [H1 H2]. right. split; [exact H1|]. intros E. rewrite E in H2. discriminate. Qed.

Ltac canon_list := repeat (first [apply Forall_nil | apply Forall_cons; [first [apply canon_mk; reflexivity | apply canon_name; assumption]|]]).

Lemma canon_restr r : restr_lex_ok r -> Forall canon (toks_restr r).
Proof.
  intros (Ht & Hk & Hc). unfold toks_restr. constructor; [apply canon_name; exact Ht|]. apply Forall_app. split.
  - destruct (rs_kind r) as [| |t]; canon_list.
  - destruct (rs_cond r) as [c|]; canon_list.
Qed.
Lemma canon_more rs : Forall restr_lex_ok rs -> Forall canon (toks_restrs_more rs).
Proof.
  induction 1 as [|r rs Hr _ IH]; cbn [toks_restrs_more]; [canon_list|].
  constructor; [apply canon_mk; reflexivity|]. constructor; [apply canon_mk; reflexivity|]. apply Forall_app. split; [apply canon_restr; exact Hr|exact IH].
Qed.
Lemma canon_direct rs : Forall restr_lex_ok rs -> Forall canon (toks_direct rs).
Proof.
  intros H. destruct rs as [|r rs]; cbn [toks_direct]; [canon_list|]. inversion H; subst.
  constructor; [apply canon_mk; reflexivity|]. apply Forall_app. split; [apply canon_restr; assumption|apply canon_more; assumption].
Qed.
Definition elem_canon (e : relem) : Prop := lex_ok e -> Forall canon (toks_elem e).
Lemma canon_partials op es : Forall elem_canon es -> lex_ok_all es -> op <> ONone \/ es = [] -> Forall canon (toks_partials op es).
Proof.
  induction 1 as [|x es Hx _ IH]; intros Hok Hop; [constructor|]. cbn [lex_ok_all] in Hok. destruct Hok as [Hokx Hokr].
  destruct Hop as [Hop|Hop]; [|discriminate]. cbn [toks_partials].
  constructor; [apply canon_mk; reflexivity|]. constructor; [destruct op; try contradiction; apply canon_mk; reflexivity|].
  constructor; [apply canon_mk; reflexivity|]. apply Forall_app. split; [apply Hx; exact Hokx|apply IH; [exact Hokr|left; exact Hop]].
Qed.
Lemma op_or_nil op (rest : list relem) : (op = ONone -> rest = []) -> op <> ONone \/ rest = [].
Proof. destruct op; intros H; [right; auto|left; discriminate..]. Qed.
Theorem elem_canon_all e : elem_canon e.
Proof.
  induction e as [rs|cu ts|nd first op rest IHf IHr] using relem_ind'; intros Hok.
  - apply canon_direct. exact Hok.
  - cbn [lex_ok] in Hok. destruct Hok as [Hcu Hts]. destruct ts as [t|]; cbn [toks_elem]; canon_list.
  - destruct (proj1 (lex_ok_group _ _ _ _) Hok) as (Hf & Hr & Hop). rewrite toks_elem_group. unfold toks_def.
    constructor; [apply canon_mk; reflexivity|]. apply Forall_app. split; [|canon_list].
    apply Forall_app. split; [apply IHf; exact Hf|apply canon_partials; [exact IHr|exact Hr|apply op_or_nil; exact Hop]].
Qed.
Lemma canon_def d : rdef_lex_ok d -> Forall canon (toks_def (rd_first d) (rd_op d) (rd_rest d)).
Proof.
  intros (Hf & Hr & Hop). unfold toks_def. apply Forall_app. split; [apply elem_canon_all; exact Hf|].
  apply canon_partials; [apply Forall_forall; intros; apply elem_canon_all|exact Hr|apply op_or_nil; exact Hop].
Qed.

(* ---- forgetting what the parser does not read ---- *)
Definition forget (t : tok) : tok := if tk_eqb (tk t) IDENTIFIER then name_tok (ttext t) else mk (tk t).
Lemma forget_kind t : tk (forget t) = tk t.
Proof. unfold forget. destruct (tk_eqb (tk t) IDENTIFIER) eqn:E; [apply tk_eqb_true in E; rewrite E; reflexivity|reflexivity]. Qed.

Lemma forget_of_kt l c : (tk l, ttext l) = kt_of c -> canon c -> forget l = c /\ on_default_channel l = true.
Proof.
  unfold kt_of. intros E [(Hc & Hi & Hcc)|(Hc & Hn)]; inversion E as [[Ek Et]]; unfold forget, on_default_channel; rewrite Ek.
  - rewrite Hi, Hcc. split; [symmetry; exact Hc|reflexivity].
  - rewrite Hc. cbn. split; [|reflexivity]. rewrite Hc in Et. cbn [ttext name_tok] in Et. destruct (ttext c); [contradiction|]. rewrite Et. reflexivity.
Qed.

Lemma forget_all L C : map (fun t => (tk t, ttext t)) L = kts C -> Forall canon C -> map forget L = C /\ filter on_default_channel L = L.
Proof.
  revert C. induction L as [|l L IH]; intros [|c C] E HC; cbn in E; try discriminate; [split; reflexivity|].
  assert (Ekt : (tk l, ttext l) = kt_of c) by (apply (f_equal (hd (tk l, ttext l))) in E; exact E).
  assert (E3 : map (fun t => (tk t, ttext t)) L = kts C) by (apply (f_equal (@tl _)) in E; exact E).
  inversion HC as [|? ? Hc HC']; subst.
  destruct (forget_of_kt l c Ekt Hc) as [F1 F2]. destruct (IH C E3 HC') as [I1 I2]. cbn [map filter]. rewrite F1, F2, I1, I2. split; reflexivity.
Qed.

(* names of a relabelled tree *)
Lemma names_elem_map g e : names_elem (relem_map g e) = map g (names_elem e).
Proof.
  induction e as [rs|cu ts|nd first op rest IHf IHr] using relem_ind'.
  - cbn [relem_map names_elem]. induction rs as [|r rs IH]; [reflexivity|]. cbn [map flat_map]. rewrite IH, map_app. f_equal.
    unfold restr_map. cbn [rs_type rs_kind rs_cond]. destruct (rs_kind r); destruct (rs_cond r); reflexivity.
  - destruct ts; reflexivity.
  - cbn [relem_map names_elem]. rewrite IHf, map_app. f_equal. induction IHr as [|x rest Hx _ IH]; [reflexivity|]. cbn [map flat_map]. rewrite Hx, IH, map_app. reflexivity.
Qed.

Lemma names_ident e : lex_ok e -> Forall (fun t => tk t = IDENTIFIER) (names_elem e).
Proof.
  assert (Hn : forall t, name_ok t -> tk t = IDENTIFIER) by (intros t [H _]; rewrite H; reflexivity).
  induction e as [rs|cu ts|nd first op rest IHf IHr] using relem_ind'; intros Hok.
  - cbn [names_elem lex_ok] in *. induction Hok as [|r rs (Ht & Hk & Hc) _ IH]; [constructor|]. cbn [flat_map]. apply Forall_app. split; [|exact IH].
    constructor; [apply Hn; exact Ht|]. apply Forall_app. split.
    + destruct (rs_kind r); repeat constructor. apply Hn. exact Hk.
    + destruct (rs_cond r); repeat constructor. apply Hn. exact Hc.
  - cbn [lex_ok names_elem] in *. destruct Hok as [Hcu Hts]. constructor; [apply Hn; exact Hcu|]. destruct ts; repeat constructor. apply Hn. exact Hts.
  - destruct (proj1 (lex_ok_group _ _ _ _) Hok) as (Hf & Hr & _). cbn [names_elem]. apply Forall_app. split; [apply IHf; exact Hf|].
    clear Hok. induction IHr as [|x rest Hx _ IH]; [constructor|]. cbn [lex_ok_all] in Hr. destruct Hr as [Hrx Hrr]. cbn [flat_map].
    apply Forall_app. split; [apply Hx; exact Hrx|apply IH; exact Hrr].
Qed.

(* a tree that is relabelled into a tree with IDENTIFIER names has IDENTIFIER names: its texts survive *)
Lemma forget_keeps_names e' e : relem_map forget e' = e -> lex_ok e -> forall t, In t (names_elem e') -> ttext (forget t) = ttext t.
Proof.
  intros E Hok t Hin. pose proof (names_ident e Hok) as H. rewrite <- E, names_elem_map in H. rewrite Forall_forall in H.
  specialize (H (forget t) (in_map forget _ _ Hin)). rewrite forget_kind in H. unfold forget. rewrite H. reflexivity.
Qed.

(* ---------------------------------------------------------------------------------------- *)
(* THE ROUND TRIP, characters included                                                       *)
(* ---------------------------------------------------------------------------------------- *)
Theorem printed_definition_round_trip refs u :
  carriable u = true -> expressible u = true -> refs <> [] -> Forall plain_ref refs -> plain_u u ->
  let d := rdef_of refs u in
  let line := render_rdef d ++ [10] in
  snd (lex line) = [] /\
  exists first op rest k,
    p_def (S (depth_def (rd_first d) (rd_rest d))) true (fst (lex line)) = Some ((first, op, rest), k) /\
    map tk k = [NEWLINE] /\
    sem_rdef {| rd_first := first; rd_op := op; rd_rest := rest |} = normalize u /\
    restrictions_elem first = restrictions_elem (rd_first d).
Proof.
  intros Hc He Hrefs Hpr Hpu d line.
  pose proof (rdef_of_lex_ok refs u Hpr Hc Hpu) as Hok. fold d in Hok.
  destruct (printed_line_lexes d Hok) as [HL Herr]. fold line in HL, Herr.
  set (C := toks_def (rd_first d) (rd_op d) (rd_rest d)) in *.
  assert (HC : Forall canon (C ++ [mk NEWLINE])) by (apply Forall_app; split; [apply canon_def; exact Hok|canon_list]).
  assert (HL' : map (fun t => (tk t, ttext t)) (fst (lex_all line)) = kts (C ++ [mk NEWLINE])) by (rewrite kts_app; exact HL).
  destruct (forget_all _ _ HL' HC) as [Hforget Hfilter].
  assert (Elex : lex line = (fst (lex_all line), snd (lex_all line))).
  { unfold lex. destruct (lex_all line) as [ts es]. cbn [fst snd] in *. rewrite Hfilter. reflexivity. }
  rewrite Elex. cbn [fst snd]. split; [exact Herr|].
  destruct (printed_tree_parses_back refs u [mk NEWLINE] Hc He Hrefs ltac:(unfold stops; cbn; discriminate)) as [Hparse Hsem].
  fold d in Hparse, Hsem. fold C in Hparse.
  pose proof (p_def_natural forget forget_kind (S (depth_def (rd_first d) (rd_rest d))) true (fst (lex_all line))) as Hnat.
  rewrite Hforget, Hparse in Hnat.
  destruct (p_def (S (depth_def (rd_first d) (rd_rest d))) true (fst (lex_all line))) as [[[[first op] rest] k]|]; [|discriminate Hnat].
  cbn [pmap option_map fst snd def_map] in Hnat. inversion Hnat as [[E1 E2 E3 E4]].
  subst op. exists first, (rd_op d), rest, k. split; [reflexivity|]. split.
  - assert (Hk : map tk (map forget k) = map tk k) by (rewrite map_map; apply map_ext; intros; apply forget_kind). rewrite <- Hk, <- E4. reflexivity.
  - destruct Hok as (Hokf & Hokr & Hokop).
    assert (Hfirst : sem_elem (relem_map forget first) = sem_elem first /\ restrictions_elem (relem_map forget first) = restrictions_elem first).
    { split; [apply sem_elem_map|apply restrictions_elem_map]; apply (forget_keeps_names first (rd_first d)); auto. }
    assert (Hrest : map sem_elem (map (relem_map forget) rest) = map sem_elem rest).
    { rewrite map_map. apply map_ext_in. intros x Hx. apply sem_elem_map.
      assert (Hxok : lex_ok (relem_map forget x)).
      { assert (Hin : In (relem_map forget x) (rd_rest d)) by (rewrite E3; apply in_map; exact Hx).
        clear -Hokr Hin. induction (rd_rest d) as [|y l IH]; [destruct Hin|]. cbn in Hokr. destruct Hin as [<-|Hin]; [tauto|apply IH; tauto]. }
      apply (forget_keeps_names x (relem_map forget x) eq_refl Hxok). }
    destruct Hfirst as [S1 R1]. split.
    + rewrite <- Hsem. unfold sem_rdef. cbn [rd_first rd_op rd_rest]. rewrite E1, E3, S1, Hrest. reflexivity.
    + rewrite E1, R1. reflexivity.
Qed.

Lemma plain_refs_ok refs : Forall plain_ref refs -> refs_ok refs.
Proof.
  unfold refs_ok. apply Forall_impl. intros r (_ & H & _) x E. rewrite E in H. intros ->. discriminate H.
Qed.

(* from the printer model's own output: what [print_top] writes for the relation, followed by the line feed the
   document puts after it, is lexed without error and parsed back to a definition whose denotation is the
   normalised rewrite and whose restrictions are the relation's *)
Theorem printed_relation_reads_back refs u :
  carriable u = true -> expressible u = true -> refs <> [] -> Forall plain_ref refs -> plain_u u ->
  exists t,
    print_top u refs = Some (t, count_direct u) /\
    snd (lex (t ++ [10])) = [] /\
    exists first op rest k,
      p_def (S (depth_def (rd_first (rdef_of refs u)) (rd_rest (rdef_of refs u)))) true (fst (lex (t ++ [10]))) = Some ((first, op, rest), k) /\
      map tk k = [NEWLINE] /\
      sem_rdef {| rd_first := first; rd_op := op; rd_rest := rest |} = normalize u /\
      restrictions_elem first = (if (count_direct u =? 0)%nat then None else Some refs).
Proof.
  intros Hc He Hne Hpr Hpu.
  destruct (printed_relation_denotes_normal_form refs u Hc He (plain_refs_ok refs Hpr)) as (t & Hprint & Ht & _ & _ & Hrestr).
  exists t. split; [exact Hprint|]. subst t.
  destruct (printed_definition_round_trip refs u Hc He Hne Hpr Hpu) as (Herr & first & op & rest & k & Hp & Hk & Hs & Hr).
  split; [exact Herr|]. exists first, op, rest, k. repeat split; try assumption. rewrite Hr. exact Hrestr.
Qed.

(* non-vacuity: "[user, group#member with in_window] or editor or viewer from parent" *)
Example round_trip_example :
  let refs := [{| rr_type := lit "user"; rr_kind := RPlain; rr_cond := [] |};
               {| rr_type := lit "group"; rr_kind := RRel (lit "member"); rr_cond := lit "in_window" |}] in
  let u := UUnion [UComputed (lit "editor"); UThis ThisEmpty; UTTU (lit "parent") (lit "viewer")] in
  carriable u = true /\ expressible u = true /\ Forall plain_ref refs /\ plain_u u /\
  option_map fst (print_top u refs) = Some (lit "[user, group#member with in_window] or editor or viewer from parent").
Proof.
  cbv zeta. split; [reflexivity|]. split; [reflexivity|]. split.
  - repeat constructor; try (vm_compute; reflexivity); try discriminate; exact I.
  - split; [cbn; repeat split; vm_compute; reflexivity|vm_compute; reflexivity].
Qed.

(* C01 on one relation: a definition the parser produced, printed and read again, denotes the same rewrite with
   the same restrictions *)
Theorem parsed_relation_round_trip d refs :
  wf_rdef d = true -> refs <> [] -> Forall plain_ref refs -> plain_u (sem_rdef d) ->
  exists t,
    print_top (sem_rdef d) refs = Some (t, count_direct (sem_rdef d)) /\
    snd (lex (t ++ [10])) = [] /\
    exists first op rest k,
      p_def (S (depth_def (rd_first (rdef_of refs (sem_rdef d))) (rd_rest (rdef_of refs (sem_rdef d))))) true (fst (lex (t ++ [10])))
        = Some ((first, op, rest), k) /\
      map tk k = [NEWLINE] /\
      sem_rdef {| rd_first := first; rd_op := op; rd_rest := rest |} = sem_rdef d /\
      restrictions_elem first = (if (count_direct (sem_rdef d) =? 0)%nat then None else Some refs).
Proof.
  intros Hwf Hne Hpr Hpu. destruct (parsed_relation_expressible d Hwf) as [Hc He].
  destruct (printed_relation_reads_back refs (sem_rdef d) Hc He Hne Hpr Hpu) as (t & Hp & Herr & first & op & rest & k & H1 & H2 & H3 & H4).
  exists t. split; [exact Hp|]. split; [exact Herr|]. exists first, op, rest, k. repeat split; try assumption.
  rewrite H3. apply parsed_is_normal. exact Hwf.
Qed.

(* Proofs/Assignable.v — C02's last observation point: utils.IsRelationAssignable agrees with the presence of a type
   restriction list in the DSL written for the relation, and with the model read back from that DSL.  For every rewrite a
   DSL document can carry: assignable iff the number of direct assignments — which is the number of "[...]" lists the
   printer writes (Properties/C02.C02_counter_is_count) — is not zero; and hoisting / collapsing keep both. *)
From Coq Require Import Lia Permutation.
From Verif Require Import Base.Str Model.Ast Model.Printer Model.Utils Spec.Expressible Spec.Normalize Proofs.PrinterExpressible.

Lemma existsb_perm {A} (f : A -> bool) l l' : Permutation l l' -> existsb f l = existsb f l'.
Proof.
  induction 1 as [|x l l' _ IH|x y l|l l' l'' _ IH1 _ IH2]; cbn; [reflexivity|rewrite IH; reflexivity| |congruence].
  destruct (f x), (f y); reflexivity.
Qed.

Lemma fold_count_zero cs :
  (fold_right (fun c n => (count_direct c + n)%nat) 0%nat cs =? 0)%nat = forallb (fun c => (count_direct c =? 0)%nat) cs.
Proof.
  induction cs as [|c cs IH]; [reflexivity|]. cbn [fold_right forallb]. rewrite <- IH.
  destruct (count_direct c); cbn; [reflexivity|reflexivity].
Qed.

(* assignable = at least one direct assignment, for every rewrite without a nil direct assignment *)
Theorem assignable_iff_direct u : carriable u = true -> is_assignable u = negb (count_direct u =? 0)%nat.
Proof.
  induction u as [| r | rel | ts cu | cs IH | cs IH | b s IHb IHs] using userset_ind'; intros Hc; try reflexivity.
  - destruct r; [discriminate Hc|reflexivity].
  - cbn [is_assignable count_direct]. rewrite fold_count_zero. cbn [carriable] in Hc. destruct cs as [|c0 cs0]; [discriminate|].
    induction (c0 :: cs0) as [|c cs' IHl]; [reflexivity|]. cbn [existsb forallb] in *. apply andb_prop in Hc. destruct Hc as [Hc1 Hc2].
    inversion IH as [|? ? Hc0 Hcs]; subst. rewrite (Hc0 Hc1), (IHl Hcs Hc2). destruct (count_direct c =? 0)%nat; reflexivity.
  - cbn [is_assignable count_direct]. rewrite fold_count_zero. cbn [carriable] in Hc. destruct cs as [|c0 cs0]; [discriminate|].
    induction (c0 :: cs0) as [|c cs' IHl]; [reflexivity|]. cbn [existsb forallb] in *. apply andb_prop in Hc. destruct Hc as [Hc1 Hc2].
    inversion IH as [|? ? Hc0 Hcs]; subst. rewrite (Hc0 Hc1), (IHl Hcs Hc2). destruct (count_direct c =? 0)%nat; reflexivity.
  - cbn [is_assignable count_direct carriable] in *. apply andb_prop in Hc. destruct Hc as [H1 H2]. rewrite (IHb H1), (IHs H2).
    destruct (count_direct b), (count_direct s); reflexivity.
Qed.

Theorem assignable_iff_restriction_written rs u : carriable u = true ->
  exists t n, print_top u rs = Some (t, n) /\ is_assignable u = negb (n =? 0)%nat.
Proof.
  intros Hc. destruct (print_top_carriable rs u Hc) as [t Ht]. exists t, (count_direct u). split; [exact Ht|apply assignable_iff_direct; exact Hc].
Qed.

(* the model read back from the DSL (Spec/Normalize.normalize: hoisted, collapsed) is assignable iff the input is *)
Lemma kids_assignable (f : userset -> userset) cs :
  Forall (fun c => is_assignable (f c) = is_assignable c) cs ->
  existsb is_assignable (map snd (prioritize_by fst (map (fun c => (is_this c, f c)) cs))) = existsb is_assignable cs.
Proof.
  intros H. rewrite (existsb_perm _ _ _ (Permutation_map snd (prioritize_by_perm fst _))). rewrite map_map. cbn [snd].
  induction H as [|c cs Hc _ IH]; [reflexivity|]. cbn [map existsb]. rewrite Hc, IH. reflexivity.
Qed.

Lemma collapse_assignable mk cs : (forall l, is_assignable (mk l) = existsb is_assignable l) ->
  is_assignable (collapse mk cs) = existsb is_assignable cs.
Proof.
  intros Hmk. unfold collapse. destruct cs as [|x [|y r]]; [apply Hmk| |apply Hmk]. cbn. rewrite orb_false_r. reflexivity.
Qed.

Theorem normalize_assignable u : is_assignable (normalize u) = is_assignable u.
Proof.
  induction u as [| r | rel | ts cu | cs IH | cs IH | b s IHb IHs] using userset_ind'; try reflexivity.
  - cbn [normalize].
    assert (E : (fix kids (cs : list userset) : list (bool * userset) := match cs with [] => [] | c :: r => (is_this c, normalize c) :: kids r end) cs
                = map (fun c => (is_this c, normalize c)) cs) by (clear IH; induction cs as [|c r IHr]; [reflexivity|cbn [map]; rewrite <- IHr; reflexivity]).
    rewrite E, (collapse_assignable UUnion); [|reflexivity]. cbn [is_assignable]. apply kids_assignable. exact IH.
  - cbn [normalize].
    assert (E : (fix kids (cs : list userset) : list (bool * userset) := match cs with [] => [] | c :: r => (is_this c, normalize c) :: kids r end) cs
                = map (fun c => (is_this c, normalize c)) cs) by (clear IH; induction cs as [|c r IHr]; [reflexivity|cbn [map]; rewrite <- IHr; reflexivity]).
    rewrite E, (collapse_assignable UInter); [|reflexivity]. cbn [is_assignable]. apply kids_assignable. exact IH.
  - cbn [normalize is_assignable]. rewrite IHb, IHs. reflexivity.
Qed.
Print Assumptions assignable_iff_direct.
Print Assumptions normalize_assignable.

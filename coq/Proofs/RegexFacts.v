(* Proofs/RegexFacts.v — the derivative matcher decides the denotational language. *)
From Verif Require Import Base.Str Model.Regex.

Inductive lang : re -> str -> Prop :=
| L_eps : lang REps []
| L_cls k c : cls_match k c = true -> lang (RCls k) [c]
| L_cat a b s t : lang a s -> lang b t -> lang (RCat a b) (s ++ t)
| L_altl a b s : lang a s -> lang (RAlt a b) s
| L_altr a b s : lang b s -> lang (RAlt a b) s
| L_star_nil a : lang (RStar a) []
| L_star_cons a s t : lang a s -> lang (RStar a) t -> lang (RStar a) (s ++ t)
| L_rep_zero a hi : lang (RRep a 0 hi) []
| L_rep_cons a lo hi s t :
    lang a s -> lang (RRep a (pred lo) hi) t -> lang (RRep a lo (S hi)) (s ++ t).

Lemma lang_empty s : ~ lang REmpty s.
Proof. intros H; inversion H. Qed.

Lemma lang_eps_inv s : lang REps s -> s = [].
Proof. intros H; inversion H; reflexivity. Qed.

Lemma lang_cat_iff a b s :
  lang (RCat a b) s <-> exists u v, s = u ++ v /\ lang a u /\ lang b v.
Proof.
  split.
  - intros H; inversion H; subst; eauto.
  - intros (u & v & -> & Hu & Hv); constructor; assumption.
Qed.

Lemma lang_alt_iff a b s : lang (RAlt a b) s <-> lang a s \/ lang b s.
Proof.
  split.
  - intros H; inversion H; subst; auto.
  - intros [H|H]; [apply L_altl | apply L_altr]; assumption.
Qed.

Lemma cat_lang a b s : lang (cat a b) s <-> lang (RCat a b) s.
Proof.
  unfold cat.
  destruct a; destruct b; try tauto;
    try (split; [intros H; exfalso; eapply lang_empty; eassumption
                | intros H; apply lang_cat_iff in H; destruct H as (u & v & _ & Hu & Hv);
                  exfalso; (eapply lang_empty; eassumption)]);
    try (split;
         [ intros H; change s with ([] ++ s); constructor; [constructor | assumption]
         | intros H; apply lang_cat_iff in H; destruct H as (u & v & -> & Hu & Hv);
           apply lang_eps_inv in Hu; subst; simpl; assumption ]).
Qed.

Lemma alt_lang a b s : lang (alt a b) s <-> lang (RAlt a b) s.
Proof.
  rewrite lang_alt_iff.
  unfold alt; destruct a; destruct b; rewrite ?lang_alt_iff;
    (split; [intros H; try tauto | intros [H|H]; try tauto]);
    try (inversion H; fail); auto.
Qed.

Lemma nullable_spec r : wf_re r = true -> (nullable r = true <-> lang r []).
Proof.
  induction r as [| |k|a IHa b IHb|a IHa b IHb|a IHa|a IHa lo hi]; simpl; intros Hwf.
  - split; [discriminate | intros H; inversion H].
  - split; [constructor | reflexivity].
  - split; [discriminate | intros H; inversion H].
  - apply andb_true_iff in Hwf as [Ha Hb].
    rewrite andb_true_iff, IHa, IHb by assumption.
    split.
    + intros [H1 H2]. change (@nil N) with (@nil N ++ []). constructor; assumption.
    + intros H. apply lang_cat_iff in H as (u & v & E & Hu & Hv).
      symmetry in E; apply app_eq_nil in E as [-> ->]. auto.
  - apply andb_true_iff in Hwf as [Ha Hb].
    rewrite orb_true_iff, IHa, IHb, lang_alt_iff by assumption. tauto.
  - split; [constructor | reflexivity].
  - apply andb_true_iff in Hwf as [Hwf Hle]. apply andb_true_iff in Hwf as [Ha Hn].
    apply negb_true_iff in Hn.
    rewrite Hn, orb_false_r.
    split.
    + intros H. apply Nat.eqb_eq in H; subst. constructor.
    + intros H. inversion H; subst.
      * reflexivity.
      * match goal with E : _ ++ _ = [] |- _ => apply app_eq_nil in E as [-> ->] end.
        match goal with HH : lang a [] |- _ => apply IHa in HH; [congruence | assumption] end.
Qed.

Lemma wf_cat a b : wf_re a = true -> wf_re b = true -> wf_re (cat a b) = true.
Proof.
  intros Ha Hb; unfold cat; destruct a; destruct b; simpl in *; auto;
    rewrite ?Ha, ?Hb; auto.
Qed.

Lemma wf_alt a b : wf_re a = true -> wf_re b = true -> wf_re (alt a b) = true.
Proof.
  intros Ha Hb; unfold alt; destruct a; destruct b; simpl in *; auto;
    rewrite ?Ha, ?Hb; auto.
Qed.

Lemma wf_deriv c r : wf_re r = true -> wf_re (deriv c r) = true.
Proof.
  induction r as [| |k|a IHa b IHb|a IHa b IHb|a IHa|a IHa lo hi]; simpl; intros Hwf; auto.
  - destruct (cls_match k c); reflexivity.
  - apply andb_true_iff in Hwf as [Ha Hb].
    apply wf_alt.
    + apply wf_cat; auto.
    + destruct (nullable a); auto.
  - apply andb_true_iff in Hwf as [Ha Hb]. apply wf_alt; auto.
  - apply andb_true_iff in Hwf as [Ha Hn].
    apply wf_cat; auto. simpl. rewrite Ha, Hn. reflexivity.
  - apply andb_true_iff in Hwf as [Hwf Hle]. apply andb_true_iff in Hwf as [Ha Hn].
    destruct hi as [|hi']; [reflexivity|].
    apply wf_cat; auto. simpl. rewrite Ha, Hn. simpl.
    apply Nat.leb_le in Hle. apply Nat.leb_le. lia.
Qed.

(* a non-empty word of a^* / a^{lo..hi} starts with a non-empty word of a *)
Lemma star_cons_inv a c s :
  lang (RStar a) (c :: s) ->
  exists u v, s = u ++ v /\ lang a (c :: u) /\ lang (RStar a) v.
Proof.
  intros H. remember (RStar a) as r eqn:Er. remember (c :: s) as w eqn:Ew.
  revert s Ew. induction H; intros s0 Ew; try discriminate.
  injection Er as ->.
  destruct s as [|x s'].
  - simpl in Ew. apply IHlang2; auto.
  - simpl in Ew. injection Ew as -> <-. eauto.
Qed.

Lemma rep_cons_inv a lo hi c s :
  (forall w, lang a w -> w <> []) ->
  lang (RRep a lo hi) (c :: s) ->
  exists hi' u v, hi = S hi' /\ s = u ++ v /\ lang a (c :: u) /\ lang (RRep a (pred lo) hi') v.
Proof.
  intros Hne H. inversion H; subst.
  destruct s0 as [|x s'].
  - exfalso. eapply Hne; eauto.
  - match goal with E : (_ :: _) ++ _ = _ :: _ |- _ => simpl in E; injection E as -> <- end.
    eauto 8.
Qed.

Lemma deriv_spec c r : wf_re r = true -> forall s, lang (deriv c r) s <-> lang r (c :: s).
Proof.
  induction r as [| |k|a IHa b IHb|a IHa b IHb|a IHa|a IHa lo hi]; simpl; intros Hwf s.
  - split; intros H; inversion H.
  - split; intros H; inversion H.
  - destruct (cls_match k c) eqn:E.
    + split.
      * intros H. apply lang_eps_inv in H; subst. constructor; assumption.
      * intros H. inversion H; subst. constructor.
    + split; intros H; inversion H; subst; congruence.
  - apply andb_true_iff in Hwf as [Ha Hb].
    rewrite alt_lang, lang_alt_iff, cat_lang, lang_cat_iff.
    split.
    + intros [(u & v & -> & Hu & Hv) | H].
      * apply IHa in Hu; auto. change (c :: u ++ v) with ((c :: u) ++ v). constructor; assumption.
      * destruct (nullable a) eqn:En; [| inversion H].
        apply IHb in H; auto. change (c :: s) with ([] ++ c :: s). constructor; auto.
        apply nullable_spec; assumption.
    + intros H. apply lang_cat_iff in H as (u & v & E & Hu & Hv).
      destruct u as [|x u'].
      * simpl in E; subst v. right.
        assert (nullable a = true) as -> by (apply nullable_spec; assumption).
        apply IHb; assumption.
      * simpl in E. injection E as <- ->. left. exists u', v. split; auto. split; auto.
        apply IHa; assumption.
  - apply andb_true_iff in Hwf as [Ha Hb].
    rewrite alt_lang, !lang_alt_iff, IHa, IHb by assumption. tauto.
  - apply andb_true_iff in Hwf as [Ha Hn].
    rewrite cat_lang, lang_cat_iff. split.
    + intros (u & v & -> & Hu & Hv). apply IHa in Hu; auto.
      change (c :: u ++ v) with ((c :: u) ++ v). constructor; assumption.
    + intros H. apply star_cons_inv in H as (u & v & -> & Hu & Hv).
      exists u, v. split; auto. split; auto. apply IHa; assumption.
  - apply andb_true_iff in Hwf as [Hwf Hle]. apply andb_true_iff in Hwf as [Ha Hn].
    apply negb_true_iff in Hn.
    assert (Hne : forall w, lang a w -> w <> []).
    { intros w Hw ->. apply nullable_spec in Hw; [congruence | assumption]. }
    destruct hi as [|hi'].
    + split; intros H; [inversion H|]. inversion H.
    + rewrite cat_lang, lang_cat_iff. split.
      * intros (u & v & -> & Hu & Hv). apply IHa in Hu; auto.
        change (c :: u ++ v) with ((c :: u) ++ v). constructor; assumption.
      * intros H. apply rep_cons_inv in H as (hi'' & u & v & E & -> & Hu & Hv); auto.
        injection E as <-. exists u, v. split; auto. split; auto. apply IHa; assumption.
Qed.

Theorem matches_spec r s : wf_re r = true -> (matches r s = true <-> lang r s).
Proof.
  revert r; induction s as [|c s IH]; intros r Hwf; simpl.
  - apply nullable_spec; assumption.
  - rewrite IH by (apply wf_deriv; assumption). apply deriv_spec; assumption.
Qed.

(* ---------- characterisations used for the rule regexes ---------- *)

Lemma lang_cls_iff k s : lang (RCls k) s <-> exists c, s = [c] /\ cls_match k c = true.
Proof.
  split.
  - intros H; inversion H; subst; eauto.
  - intros (c & -> & H); constructor; assumption.
Qed.

Lemma lang_char_iff x s : lang (RChar x) s <-> s = [x].
Proof.
  unfold RChar. rewrite lang_cls_iff. unfold cls_match; simpl.
  split.
  - intros (c & -> & H). destruct (N.eqb_spec c x); [subst; reflexivity | discriminate].
  - intros ->. exists x. rewrite N.eqb_refl. auto.
Qed.

Lemma lang_star_cls k s : lang (RStar (RCls k)) s <-> forallb (cls_match k) s = true.
Proof.
  split.
  - intros H. remember (RStar (RCls k)) as r eqn:E.
    induction H; try discriminate; injection E as ->.
    + reflexivity.
    + inversion H; subst. simpl. rewrite IHlang2 by reflexivity.
      match goal with HH : cls_match _ _ = true |- _ => rewrite HH end. reflexivity.
  - induction s as [|c s IH]; simpl; intros H.
    + constructor.
    + apply andb_true_iff in H as [Hc Hs].
      change (c :: s) with ([c] ++ s). constructor; [constructor; assumption | auto].
Qed.

Lemma lang_rep_cls k lo hi s :
  lang (RRep (RCls k) lo hi) s <->
  (lo <= length s)%nat /\ (length s <= hi)%nat /\ forallb (cls_match k) s = true.
Proof.
  split.
  - intros H. remember (RRep (RCls k) lo hi) as r eqn:E. revert lo hi E.
    induction H; intros lo0 hi0 E; try discriminate; injection E as E1 E2 E3; subst.
    + simpl. repeat split; lia.
    + inversion H; subst. simpl.
      destruct (IHlang2 _ _ eq_refl) as (Ha & Hb & Hc).
      match goal with HH : cls_match _ _ = true |- _ => rewrite HH end.
      repeat split; auto; lia.
  - revert lo hi; induction s as [|c s IH]; simpl; intros lo hi (H1 & H2 & H3).
    + assert (lo = 0)%nat as -> by lia. constructor.
    + apply andb_true_iff in H3 as [Hc Hs].
      destruct hi as [|hi']; [lia|].
      change (c :: s) with ([c] ++ s). constructor; [constructor; assumption|].
      apply IH. repeat split; auto; lia.
Qed.

(* Proofs/AcceptedText.v — from the TEXT of a document, with no hypothesis about tokens left: whenever ParseDSL
   accepts, the model is the denotation of a grammatical tree with nothing declared twice, and that model always
   renders (C01 first clause, C09). *)
From Verif Require Import Base.Str Base.Outcome Model.Ast Model.Token Model.Lexer Model.Parser Model.Listener Model.Printer
  Model.Transform Spec.Sem Spec.Expressible
  Proofs.ListenerSem Proofs.ListenerFile Proofs.ParserShape Proofs.ParserTokens Proofs.PrinterExpressible Proofs.RoundTrip.

Lemma scalar_literal_numbers l : In l scalar_literals -> type_name_number l <> 9 /\ type_name_number l <> 10.
Proof. unfold scalar_literals. cbn [In]. intros H. repeat (destruct H as [<-|H]; [split; discriminate|]). destruct H. Qed.

Theorem accepted_text d m exts md :
  dsl_to_model d = DOk m exts md ->
  exists f, parse (fst (lex (prepass d))) = Some f /\ wf_file f /\ distinct_decls f /\ m = sem_file f /\ scalar_params f.
Proof.
  unfold dsl_to_model. destruct (lex (prepass d)) as [ts es] eqn:El. destruct es; [|discriminate].
  unfold parse_walk. destruct (parse ts) as [f|] eqn:Ep; [|discriminate].
  destruct (walk f) as [s| |] eqn:Ew; try discriminate. destruct (ls_errs s) eqn:Ee; [|discriminate].
  intros H. inversion H; subst. exists f. cbn [fst].
  assert (Hn := accepted_names_nonempty (prepass d) f). rewrite El in Hn. cbn [fst] in Hn. destruct (Hn Ep) as [Hh Ht].
  pose proof (parse_wf ts f Ep) as Hwf.
  assert (Hd : distinct_decls f) by (apply (walk_accepts_only_distinct f s Hwf Ht Ew Ee)).
  destruct (walk_is_sem f Hwf Hd) as (s' & Ew' & _ & Em). rewrite Ew in Ew'. inversion Ew'; subst s'.
  split; [exact Ep|]. split; [exact Hwf|]. split; [exact Hd|]. split; [unfold model_of in *; exact Em|].
  pose proof (parse_keeps_params scalar_tok ts f Ep (lex_scalar _ _ _ El)) as Hp.
  unfold scalar_params. apply Forall_forall. intros c Hc. rewrite Forall_forall in Hp. specialize (Hp c Hc).
  apply Forall_forall. intros p Hpin _. rewrite Forall_forall in Hp. destruct (Hp p Hpin) as [Hs Hk].
  apply scalar_literal_numbers. apply Hs. exact Hk.
Qed.

(* C01, first clause, from the text: every accepted document renders, with or without source information *)
Theorem accepted_text_prints src d m exts md :
  dsl_to_model d = DOk m exts md -> exists t, fst (print_model src m) = Ok t.
Proof.
  intros H. destruct (accepted_text d m exts md H) as (f & _ & Hwf & Hd & -> & Hs). apply parsed_model_prints; assumption.
Qed.

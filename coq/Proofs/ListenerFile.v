(* Proofs/ListenerFile.v — the listener over whole documents: for a grammatical parse tree in which
   nothing is declared twice the walk raises no error and builds exactly the denotation of the tree
   (C03); conversely a repeated declaration raises an error wherever it stands (C09). *)
From Verif Require Import Base.Str Base.Outcome Model.Ast Model.Token Model.Parser Model.Listener
  Spec.Sem Proofs.ListenerSem.

Lemma assoc_set_fresh {A} k (v : A) l : assoc k l = None -> assoc_set k v l = l ++ [(k, v)].
Proof.
  induction l as [|[k' v'] l IH]; simpl; intros H; [reflexivity|].
  destruct (str_eqb k k'); [discriminate|]. rewrite IH; auto.
Qed.

Lemma assoc_app_none {A} k (l l' : list (str * A)) : assoc k l = None -> assoc k (l ++ l') = assoc k l'.
Proof.
  induction l as [|[k' v'] l IH]; simpl; intros H; [reflexivity|].
  destruct (str_eqb k k'); [discriminate|]. auto.
Qed.

Lemma assoc_single_other {A} k k' (v : A) : k <> k' -> assoc k [(k', v)] = None.
Proof. intros H. simpl. destruct (str_eqb_spec k k'); [contradiction|reflexivity]. Qed.

Definition rname (r : reldecl) : str := ttext (rl_name r).

(* ---- relations of one type ---- *)
Lemma walk_reldecls_sem modular ext module_ tyname rs :
  Forall (fun r => wf_rdef (rl_def r) = true) rs ->
  NoDup (map rname rs) ->
  forall rels meta errs,
  (forall r, In r rs -> assoc (rname r) rels = None /\ assoc (rname r) meta = None) ->
  walk_reldecls modular ext module_ tyname rs rels meta errs =
  Ok (rels ++ map (fun r => (rname r, sem_rdef (rl_def r))) rs,
      meta ++ map (fun r => (rname r, sem_relmeta modular ext module_ r)) rs,
      errs).
Proof.
  induction rs as [|r rs IH]; intros Hwf Hnd rels meta errs Hfresh.
  - simpl. rewrite !app_nil_r. reflexivity.
  - inversion Hwf as [|? ? Hr Hwf']; subst. inversion Hnd as [|? ? Hnotin Hnd']; subst.
    cbn [walk_reldecls]. destruct (walk_rdef_sem (rl_def r) Hr) as [s [Ew [Epe [Eti _]]]].
    rewrite Ew. cbn [obind]. rewrite Epe.
    destruct (Hfresh r (or_introl eq_refl)) as [Fr Fm]. fold (rname r). rewrite Fr.
    rewrite (assoc_set_fresh _ _ _ Fr), (assoc_set_fresh _ _ _ Fm).
    rewrite IH; auto.
    + rewrite <- !app_assoc. simpl. unfold sem_relmeta at 2. rewrite Eti. reflexivity.
    + intros r' Hin. destruct (Hfresh r' (or_intror Hin)) as [Fr' Fm'].
      assert (Hne : rname r' <> rname r).
      { intros E. apply Hnotin. rewrite <- E. apply in_map. exact Hin. }
      split; rewrite assoc_app_none; auto using assoc_single_other.
Qed.

(* a relation name that is already bound raises the error, at the token of the repeated name *)
Lemma walk_reldecls_errs_grow modular ext module_ tyname rs :
  forall rels meta errs rels' meta' errs',
  walk_reldecls modular ext module_ tyname rs rels meta errs = Ok (rels', meta', errs') ->
  exists more, errs' = errs ++ more.
Proof.
  induction rs as [|r rs IH]; intros rels meta errs rels' meta' errs' H.
  - simpl in H. inversion H; subst. exists []. rewrite app_nil_r. reflexivity.
  - cbn [walk_reldecls] in H. destruct (walk_rdef (rl_def r)) as [s| |]; cbn [obind] in H; try discriminate.
    destruct (parse_expression (rewrites s) (operator s)).
    + apply IH in H. destruct H as [more E]. destruct (assoc (ttext (rl_name r)) rels).
      * exists ([err_at (rl_name r) (msg_already_defined (ttext (rl_name r)) tyname)] ++ more). rewrite E, <- app_assoc. reflexivity.
      * exists more. exact E.
    + eapply IH; eauto.
Qed.

Lemma walk_reldecls_duplicate modular ext module_ tyname rs :
  Forall (fun r => wf_rdef (rl_def r) = true) rs ->
  forall rels meta errs rels' meta' errs',
  (~ NoDup (map rname rs) \/ exists r, In r rs /\ assoc (rname r) rels <> None) ->
  walk_reldecls modular ext module_ tyname rs rels meta errs = Ok (rels', meta', errs') ->
  errs' <> errs.
Proof.
  induction rs as [|r rs IH]; intros Hwf rels meta errs rels' meta' errs' Hdup H.
  - exfalso. destruct Hdup as [Hd|[r [[] _]]]. apply Hd. constructor.
  - inversion Hwf as [|? ? Hr Hwf']; subst.
    cbn [walk_reldecls] in H. destruct (walk_rdef_sem (rl_def r) Hr) as [s [Ew [Epe _]]].
    rewrite Ew in H. cbn [obind] in H. rewrite Epe in H. fold (rname r) in H.
    destruct (assoc (rname r) rels) eqn:Ea.
    + (* the head itself is a repeat: an error is appended right here *)
      apply walk_reldecls_errs_grow in H. destruct H as [more E]. rewrite E, <- app_assoc.
      intros Heq. apply (f_equal (@length lerror)) in Heq. rewrite !app_length in Heq. simpl in Heq. lia.
    + (* the head is fresh: the repeat is further on *)
      eapply IH; [exact Hwf'| |exact H].
      destruct Hdup as [Hd|[r' [[<-|Hin] Hne]]].
      * destruct (in_dec (list_eq_dec N.eq_dec) (rname r) (map rname rs)) as [Hin|Hnin].
        -- right. apply in_map_iff in Hin. destruct Hin as [r' [E Hin]]. exists r'. split; auto.
           rewrite E. rewrite assoc_set_fresh by exact Ea. rewrite assoc_app_none by exact Ea. simpl. rewrite str_eqb_refl. discriminate.
        -- left. intros Hnd. apply Hd. constructor; auto.
      * congruence.
      * right. exists r'. split; auto. rewrite assoc_set_fresh by exact Ea.
        destruct (assoc (rname r') rels) eqn:E'; [|congruence].
        clear -E'. induction rels as [|[k v] l IHl]; simpl in *; [discriminate|].
        destruct (str_eqb (rname r') k); [discriminate|]. apply IHl. exact E'.
Qed.

(* ---- one type declaration ---- *)
Definition tname (t : typedecl) : str := ttext (ty_name t).

Definition after_type (s : lstate) (t : typedecl) : lstate :=
  let td := sem_type (ls_modular s) (ls_module s) t in
  {| ls_modular := ls_modular s; ls_module := ls_module s; ls_ext_alloc := ls_ext_alloc s;
     ls_types := ls_types s ++ [td]; ls_conds := ls_conds s;
     ls_exts := if ty_extend t then ls_exts s ++ [(tname t, (length (ls_types s), td))] else ls_exts s;
     ls_errs := ls_errs s; ls_schema := ls_schema s |}.

Lemma walk_typedecl_sem t s :
  Forall (fun r => wf_rdef (rl_def r) = true) (ty_rels t) ->
  NoDup (map rname (ty_rels t)) ->
  tname t <> [] ->
  (ty_extend t = true -> ls_modular s = true /\ ls_ext_alloc s = true /\ assoc (tname t) (ls_exts s) = None) ->
  walk_typedecl t s = Ok (after_type s t).
Proof.
  intros Hwf Hnd Hname Hext. unfold walk_typedecl. fold (tname t).
  assert (Hno : ty_extend t && negb (ls_modular s) = false).
  { destruct (ty_extend t) eqn:E; [|reflexivity]. destruct (Hext eq_refl) as [-> _]. reflexivity. }
  rewrite Hno.
  rewrite (walk_reldecls_sem (ls_modular s) (ty_extend t) (ls_module s) (tname t) (ty_rels t) Hwf Hnd [] [] []);
    [|intros; split; reflexivity].
  cbn [obind app]. destruct (tname t) as [|c0 nm] eqn:En; [contradiction|]. rewrite <- En. try rewrite <- En in Hext.
  rewrite app_nil_r.
  assert (Htd : {| td_name := tname t;
                   td_rels := map (fun r => (rname r, sem_rdef (rl_def r))) (ty_rels t);
                   td_meta := if ls_modular s
                              then Some {| tm_rels := map (fun r => (rname r, sem_relmeta (ls_modular s) (ty_extend t) (ls_module s) r)) (ty_rels t);
                                           tm_module := ls_module s; tm_file := None |}
                              else match map (fun r => (rname r, sem_relmeta (ls_modular s) (ty_extend t) (ls_module s) r)) (ty_rels t) with
                                   | [] => None
                                   | _ => Some {| tm_rels := map (fun r => (rname r, sem_relmeta (ls_modular s) (ty_extend t) (ls_module s) r)) (ty_rels t);
                                                  tm_module := []; tm_file := None |}
                                   end |} = sem_type (ls_modular s) (ls_module s) t) by reflexivity.
  rewrite Htd.
  destruct (ty_extend t) eqn:Ee.
  - destruct (Hext eq_refl) as [Hm [Ha Hx]]. rewrite Hm. cbn [andb ls_exts ls_ext_alloc].
    rewrite Hx, Ha. unfold after_type. rewrite Ee, Hm, Ha. reflexivity.
  - cbn [andb]. unfold after_type. rewrite Ee. reflexivity.
Qed.

(* the error cases of a type declaration: `extend` in a model file, a type extended twice in a file *)
Lemma walk_typedecl_extend_in_model t s s' :
  ty_extend t = true -> ls_modular s = false -> walk_typedecl t s = Ok s' -> ls_errs s' <> ls_errs s.
Proof.
  intros He Hm H. unfold walk_typedecl in H. rewrite He, Hm in H. cbn [andb negb] in H.
  destruct (walk_reldecls _ _ _ _ _ _ _ _) as [[[rels meta] errs]| |] eqn:Ew; cbn [obind] in H; try discriminate.
  destruct (ttext (ty_name t)); cbn in H; rewrite ?He, ?Hm in H; cbn in H; inversion H; subst; cbn; intros E;
    apply (f_equal (@length lerror)) in E; rewrite ?app_length in E; simpl in E; lia.
Qed.

Lemma walk_typedecl_extended_twice t s s' :
  ty_extend t = true -> ls_modular s = true -> tname t <> [] -> assoc (tname t) (ls_exts s) <> None ->
  walk_typedecl t s = Ok s' -> ls_errs s' <> ls_errs s.
Proof.
  intros He Hm Hn Hx H. unfold walk_typedecl in H. fold (tname t) in H. rewrite He, Hm in H. cbn [andb negb] in H.
  destruct (walk_reldecls _ _ _ _ _ _ _ _) as [[[rels meta] errs]| |] eqn:Ew; cbn [obind] in H; try discriminate.
  destruct (tname t) as [|c0 nm] eqn:En; [contradiction|].
  cbn [ls_exts] in H. destruct (assoc (c0 :: nm) (ls_exts s)); [|contradiction].
  rewrite ?Hm in H. inversion H; subst. unfold add_err. simpl. intros E. apply (f_equal (@length lerror)) in E. repeat rewrite app_length in E. simpl in E. lia.
Qed.

(* ---- all type declarations ---- *)
Lemma after_type_fields s t :
  ls_modular (after_type s t) = ls_modular s /\ ls_module (after_type s t) = ls_module s /\
  ls_ext_alloc (after_type s t) = ls_ext_alloc s /\ ls_errs (after_type s t) = ls_errs s /\
  ls_conds (after_type s t) = ls_conds s /\ ls_schema (after_type s t) = ls_schema s.
Proof. repeat split; reflexivity. Qed.

Lemma assoc_app_single_none {A} k k' (v : A) l : assoc k l = None -> k <> k' -> assoc k (l ++ [(k', v)]) = None.
Proof. intros H Hn. rewrite assoc_app_none by exact H. apply assoc_single_other. exact Hn. Qed.

Lemma walk_typedecls_sem ts :
  Forall (fun t => Forall (fun r => wf_rdef (rl_def r) = true) (ty_rels t)) ts ->
  Forall (fun t => NoDup (map rname (ty_rels t))) ts ->
  Forall (fun t => tname t <> []) ts ->
  NoDup (map tname (filter ty_extend ts)) ->
  forall s,
  (forall t, In t ts -> ty_extend t = true -> ls_modular s = true /\ ls_ext_alloc s = true /\ assoc (tname t) (ls_exts s) = None) ->
  exists s', walk_typedecls ts s = Ok s' /\
             ls_types s' = ls_types s ++ map (sem_type (ls_modular s) (ls_module s)) ts /\
             ls_errs s' = ls_errs s /\ ls_conds s' = ls_conds s /\ ls_modular s' = ls_modular s /\
             ls_module s' = ls_module s /\ ls_schema s' = ls_schema s.
Proof.
  induction ts as [|t ts IH]; intros Hwf Hnd Hname Hext s Hs.
  - exists s. simpl. rewrite app_nil_r. repeat split; reflexivity.
  - inversion Hwf; subst. inversion Hnd; subst. inversion Hname; subst.
    cbn [walk_typedecls].
    rewrite (walk_typedecl_sem t s); auto; [|intros He; apply Hs; auto; left; reflexivity].
    cbn [obind].
    assert (Hext' : NoDup (map tname (filter ty_extend ts))).
    { simpl in Hext. destruct (ty_extend t); [inversion Hext; auto|exact Hext]. }
    destruct (IH H2 H4 H6 Hext' (after_type s t)) as [s' [Ew [Et [Ee [Ec [Em [Emod Esch]]]]]]].
    + intros t' Hin He'. destruct (Hs t' (or_intror Hin) He') as [Hm [Ha Hx]]. cbn [after_type ls_modular ls_ext_alloc ls_exts].
      repeat split; auto.
      destruct (ty_extend t) eqn:Et0; [|exact Hx].
      apply assoc_app_single_none; auto.
      simpl in Hext. rewrite Et0 in Hext. inversion Hext as [|? ? Hnotin _]; subst.
      intros E. apply Hnotin. rewrite <- E. apply in_map. apply filter_In. split; auto.
    + exists s'. split; [exact Ew|]. cbn [after_type ls_types ls_errs ls_conds ls_modular ls_module ls_schema] in *.
      rewrite Et, <- app_assoc. repeat split; auto.
Qed.

(* ---- conditions ---- *)
Definition pname (p : pdecl) : str := ttext (pd_name p).

Lemma walk_params_sem cname ps :
  NoDup (map pname ps) ->
  forall acc errs, (forall p, In p ps -> assoc (pname p) acc = None) ->
  walk_params cname ps acc errs = (acc ++ map (fun p => (pname p, ptype_of p)) ps, errs).
Proof.
  induction ps as [|p ps IH]; intros Hnd acc errs Hfresh.
  - simpl. rewrite app_nil_r. reflexivity.
  - inversion Hnd as [|? ? Hnotin Hnd']; subst. cbn [walk_params]. fold (pname p).
    rewrite (Hfresh p (or_introl eq_refl)). rewrite assoc_set_fresh by (apply Hfresh; left; reflexivity).
    rewrite IH; auto.
    + rewrite <- app_assoc. reflexivity.
    + intros p' Hin. apply assoc_app_single_none; [apply Hfresh; right; exact Hin|].
      intros E. apply Hnotin. rewrite <- E. apply in_map. exact Hin.
Qed.

Definition cname (c : conddecl) : str := ttext (cd_name c).

Lemma walk_conddecl_sem c s :
  NoDup (map pname (cd_params c)) -> assoc (cname c) (ls_conds s) = None ->
  walk_conddecl c s =
  {| ls_modular := ls_modular s; ls_module := ls_module s; ls_ext_alloc := ls_ext_alloc s;
     ls_types := ls_types s; ls_conds := ls_conds s ++ [sem_cond (ls_modular s) (ls_module s) c];
     ls_exts := ls_exts s; ls_errs := ls_errs s; ls_schema := ls_schema s |}.
Proof.
  intros Hnd Hfresh. unfold walk_conddecl. cbv zeta. fold (cname c). rewrite Hfresh.
  rewrite (walk_params_sem (cname c) (cd_params c) Hnd [] []) by (intros; reflexivity).
  cbn [app]. rewrite assoc_set_fresh by exact Hfresh. rewrite app_nil_r. reflexivity.
Qed.

Lemma walk_conddecls_sem cs :
  Forall (fun c => NoDup (map pname (cd_params c))) cs -> NoDup (map cname cs) ->
  forall s, (forall c, In c cs -> assoc (cname c) (ls_conds s) = None) ->
  let s' := fold_left (fun s c => walk_conddecl c s) cs s in
  ls_conds s' = ls_conds s ++ map (sem_cond (ls_modular s) (ls_module s)) cs /\
  ls_types s' = ls_types s /\ ls_errs s' = ls_errs s /\ ls_schema s' = ls_schema s.
Proof.
  induction cs as [|c cs IH]; intros Hp Hnd s Hfresh.
  - simpl. rewrite app_nil_r. repeat split; reflexivity.
  - inversion Hp; subst. inversion Hnd as [|? ? Hnotin Hnd']; subst.
    cbn [fold_left]. rewrite (walk_conddecl_sem c s); auto; [|apply Hfresh; left; reflexivity].
    set (s1 := {| ls_modular := _ |}).
    destruct (IH H2 Hnd' s1) as [Ec [Et [Ee Es]]].
    + intros c' Hin. unfold s1; cbn [ls_conds]. apply assoc_app_single_none; [apply Hfresh; right; exact Hin|].
      intros E. apply Hnotin. apply in_map_iff. exists c'. split; [exact E|exact Hin].
    + cbv zeta. rewrite Ec, Et, Ee, Es. unfold s1; cbn. rewrite <- app_assoc. repeat split; reflexivity.
Qed.

(* ---- the whole document (C03_listener_is_sem) ---- *)
Theorem walk_is_sem f :
  wf_file f -> distinct_decls f ->
  exists s, walk f = Ok s /\ ls_errs s = [] /\ model_of s = sem_file f.
Proof.
  intros Hwf [Hrel [Hcond [Hpar [Hext [Hext2 Hname]]]]].
  unfold walk.
  assert (Hs0 : forall t, In t (f_types f) -> ty_extend t = true ->
                ls_modular (init_lstate (f_header f)) = true /\ ls_ext_alloc (init_lstate (f_header f)) = true /\
                assoc (tname t) (ls_exts (init_lstate (f_header f))) = None).
  { intros t Hin He. destruct (f_header f) as [v|n] eqn:Eh; simpl.
    - exfalso. specialize (Hext eq_refl). rewrite Forall_forall in Hext. rewrite (Hext t Hin) in He. discriminate.
    - repeat split; reflexivity. }
  destruct (walk_typedecls_sem (f_types f) Hwf Hrel Hname Hext2 (init_lstate (f_header f)) Hs0)
    as [s1 [Ew [Et [Ee [Ec [Em [Emod Esch]]]]]]].
  rewrite Ew. cbn [obind].
  destruct (walk_conddecls_sem (f_conds f) Hpar Hcond s1) as [Ec2 [Et2 [Ee2 Es2]]].
  { intros c Hin. rewrite Ec. destruct (f_header f); reflexivity. }
  eexists. split; [reflexivity|]. split.
  - rewrite Ee2, Ee. destruct (f_header f); reflexivity.
  - unfold model_of, sem_file. rewrite Es2, Et2, Ec2, Et, Ec, Esch, Em, Emod.
    destruct (f_header f); reflexivity.
Qed.

(* ---------------------------------------------------------------------------------------- *)
(* C09: an accepted document declares nothing twice                                          *)
(* ---------------------------------------------------------------------------------------- *)

Lemma NoDup_dec_str (l : list str) : {NoDup l} + {~ NoDup l}.
Proof.
  induction l as [|x l IH]; [left; constructor|].
  destruct (in_dec (list_eq_dec N.eq_dec) x l) as [Hin|Hnin].
  - right. intros H. inversion H; contradiction.
  - destruct IH as [Hnd|Hd]; [left; constructor; auto|right; intros H; inversion H; contradiction].
Qed.

Lemma app_eq_self {A} (l more : list A) : l ++ more = l -> more = [].
Proof.
  intros H. apply (f_equal (@length A)) in H. rewrite app_length in H.
  destruct more; [reflexivity|simpl in H; lia].
Qed.

Ltac norm_td t H Ee Em :=
  unfold walk_typedecl in H; fold (tname t) in H;
  do 3 (rewrite ?Ee, ?Em in H; cbn [andb negb add_err ls_modular ls_module ls_exts ls_ext_alloc ls_types ls_errs] in H).

(* one type declaration: errors only grow; if they do not grow the declaration was clean *)
Lemma walk_typedecl_clean t s s' :
  Forall (fun r => wf_rdef (rl_def r) = true) (ty_rels t) -> tname t <> [] ->
  walk_typedecl t s = Ok s' ->
  (exists more, ls_errs s' = ls_errs s ++ more) /\
  (ls_errs s' = ls_errs s ->
   NoDup (map rname (ty_rels t)) /\
   (ty_extend t = true -> ls_modular s = true /\ ls_ext_alloc s = true /\ assoc (tname t) (ls_exts s) = None)).
Proof.
  intros Hwf Hname H.
  destruct (NoDup_dec_str (map rname (ty_rels t))) as [Hnd|Hdup].
  - (* relation names distinct: look at the extend conditions *)
    destruct (ty_extend t) eqn:Ee.
    + destruct (ls_modular s) eqn:Em.
      * destruct (assoc (tname t) (ls_exts s)) eqn:Ex.
        -- assert (Hx : assoc (tname t) (ls_exts s) <> None) by congruence.
           pose proof (walk_typedecl_extended_twice t s s' Ee Em Hname Hx H) as Hne.
           split.
           ++ norm_td t H Ee Em.
              rewrite (walk_reldecls_sem true true (ls_module s) (tname t) (ty_rels t) Hwf Hnd [] [] []) in H by (intros; split; reflexivity).
              cbn [obind app] in H. destruct (tname t) as [|c0 nm] eqn:En; [contradiction|].
              cbn [ls_exts] in H. rewrite ?Em in H. cbn [andb] in H. rewrite Ex in H. inversion H; subst. unfold add_err; simpl.
              eexists. rewrite app_nil_r. reflexivity.
           ++ intros E; contradiction.
        -- destruct (ls_ext_alloc s) eqn:Ea.
           ++ rewrite (walk_typedecl_sem t s Hwf Hnd Hname) in H by (intros _; auto).
              inversion H; subst. split; [exists []; rewrite app_nil_r; reflexivity|]. intros _. split; auto.
           ++ exfalso. norm_td t H Ee Em.
              rewrite (walk_reldecls_sem true true (ls_module s) (tname t) (ty_rels t) Hwf Hnd [] [] []) in H by (intros; split; reflexivity).
              cbn [obind app] in H. destruct (tname t) as [|c0 nm] eqn:En; [contradiction|].
              cbn [ls_exts ls_ext_alloc] in H. rewrite ?Em in H. cbn [andb] in H. rewrite Ex, Ea in H. discriminate.
      * pose proof (walk_typedecl_extend_in_model t s s' Ee Em H) as Hne. split; [|intros E; contradiction].
        norm_td t H Ee Em.
        rewrite (walk_reldecls_sem false true (ls_module s) (tname t) (ty_rels t) Hwf Hnd [] [] []) in H by (intros; split; reflexivity).
        cbn [obind app] in H. destruct (tname t) as [|c0 nm] eqn:En; [contradiction|].
        cbn [add_err ls_modular andb] in H. inversion H; subst. simpl. eexists. rewrite app_nil_r. reflexivity.
    + rewrite (walk_typedecl_sem t s Hwf Hnd Hname) in H by (intros E; congruence).
      inversion H; subst. split; [exists []; rewrite app_nil_r; reflexivity|]. intros _. split; [auto|intros E; congruence].
  - (* a relation is defined twice: the relation walker appends an error, and nothing removes it *)
    unfold walk_typedecl in H. fold (tname t) in H.
    set (s0 := if ty_extend t && negb (ls_modular s) then _ else s) in H.
    assert (Hs0 : exists pre, ls_errs s0 = ls_errs s ++ pre).
    { unfold s0. destruct (ty_extend t && negb (ls_modular s)); [eexists; reflexivity|exists []; rewrite app_nil_r; reflexivity]. }
    destruct Hs0 as [pre Epre].
    destruct (walk_reldecls (ls_modular s0) (ty_extend t) (ls_module s0) (tname t) (ty_rels t) [] [] []) as [[[rels meta] errs]| |] eqn:Ew;
      cbn [obind] in H; try discriminate.
    assert (Herrs : errs <> []) by (eapply (walk_reldecls_duplicate _ _ _ _ _ Hwf [] [] [] rels meta errs); [left; exact Hdup|exact Ew]).
    destruct (tname t) as [|c0 nm] eqn:En; [contradiction|].
    assert (Hgrow : exists more, ls_errs s' = ls_errs s ++ pre ++ errs ++ more).
    { destruct (ty_extend t && ls_modular s0).
      - cbn [ls_exts] in H. destruct (assoc (c0 :: nm) (ls_exts s0)).
        + inversion H; subst. unfold add_err; simpl. rewrite Epre, <- !app_assoc. eexists; reflexivity.
        + cbn [ls_ext_alloc] in H. destruct (ls_ext_alloc s0); [|discriminate]. inversion H; subst; simpl.
          rewrite Epre, <- !app_assoc. exists []. rewrite app_nil_r. reflexivity.
      - inversion H; subst; simpl. rewrite Epre, <- !app_assoc. exists []. rewrite app_nil_r. reflexivity. }
    destruct Hgrow as [more Eg]. split; [eexists; exact Eg|].
    intros E. rewrite E in Eg. symmetry in Eg. apply app_eq_self in Eg.
    apply app_eq_nil in Eg. destruct Eg as [_ Eg]. apply app_eq_nil in Eg. destruct Eg as [Eg _]. contradiction.
Qed.

Lemma walk_typedecls_grow ts :
  Forall (fun t => Forall (fun r => wf_rdef (rl_def r) = true) (ty_rels t)) ts ->
  Forall (fun t => tname t <> []) ts ->
  forall s s', walk_typedecls ts s = Ok s' -> exists more, ls_errs s' = ls_errs s ++ more.
Proof.
  induction ts as [|t ts IH]; intros Hwf Hname s s' H.
  - simpl in H. inversion H; subst. exists []. rewrite app_nil_r. reflexivity.
  - inversion Hwf as [|? ? Hwt Hwts]; subst. inversion Hname as [|? ? Hnt Hnts]; subst. cbn [walk_typedecls] in H.
    destruct (walk_typedecl t s) as [s1| |] eqn:E1; cbn [obind] in H; try discriminate.
    destruct (proj1 (walk_typedecl_clean t s s1 Hwt Hnt E1)) as [m1 Em1].
    destruct (IH Hwts Hnts s1 s' H) as [m2 Em2].
    exists (m1 ++ m2). rewrite Em2, Em1, app_assoc. reflexivity.
Qed.

Lemma assoc_app_single_inv {A} k k' (v : A) l : assoc k (l ++ [(k', v)]) = None -> assoc k l = None /\ k <> k'.
Proof.
  intros H. destruct (assoc k l) eqn:E.
  - exfalso. clear -H E. induction l as [|[k0 v0] l IH]; simpl in *; [discriminate|].
    destruct (str_eqb k k0); [discriminate|]. auto.
  - split; [reflexivity|]. rewrite assoc_app_none in H by exact E. simpl in H.
    destruct (str_eqb_spec k k'); [discriminate|assumption].
Qed.

Lemma walk_typedecls_clean ts :
  Forall (fun t => Forall (fun r => wf_rdef (rl_def r) = true) (ty_rels t)) ts ->
  Forall (fun t => tname t <> []) ts ->
  forall s s', walk_typedecls ts s = Ok s' -> ls_errs s' = ls_errs s ->
  Forall (fun t => NoDup (map rname (ty_rels t))) ts /\
  (forall t, In t ts -> ty_extend t = true -> ls_modular s = true) /\
  NoDup (map tname (filter ty_extend ts)) /\
  (forall t, In t (filter ty_extend ts) -> assoc (tname t) (ls_exts s) = None).
Proof.
  induction ts as [|t ts IH]; intros Hwf Hname s s' H Herr.
  - simpl. repeat split; try constructor; intros t [].
  - inversion Hwf as [|? ? Hwt Hwts]; subst. inversion Hname as [|? ? Hnt Hnts]; subst. cbn [walk_typedecls] in H.
    destruct (walk_typedecl t s) as [s1| |] eqn:E1; cbn [obind] in H; try discriminate.
    destruct (walk_typedecl_clean t s s1 Hwt Hnt E1) as [[m1 Em1] Hclean].
    destruct (walk_typedecls_grow ts Hwts Hnts s1 s' H) as [m2 Em2].
    assert (Hm : m1 = [] /\ m2 = []).
    { rewrite Em2, Em1, <- app_assoc in Herr. apply app_eq_self in Herr. apply app_eq_nil in Herr. exact Herr. }
    destruct Hm as [-> ->]. rewrite app_nil_r in Em1, Em2.
    destruct (Hclean Em1) as [Hnd Hext].
    assert (Es1 : s1 = after_type s t).
    { rewrite (walk_typedecl_sem t s Hwt Hnd Hnt Hext) in E1. inversion E1; reflexivity. }
    destruct (IH Hwts Hnts s1 s' H Em2) as [Hnds [Hmods [Hndx Hfresh]]].
    subst s1. cbn [after_type ls_modular ls_exts] in *.
    split; [constructor; auto|]. split; [|split].
    + intros t' [<-|Hin] He; [apply Hext; exact He|eapply Hmods; eauto].
    + simpl. destruct (ty_extend t) eqn:Ee; [|exact Hndx]. simpl. constructor; [|exact Hndx].
      intros Hin. apply in_map_iff in Hin. destruct Hin as [t' [En Hin']].
      destruct (assoc_app_single_inv _ _ _ _ (Hfresh t' Hin')) as [_ Hne]. congruence.
    + intros t' Hin. simpl in Hin. destruct (ty_extend t) eqn:Ee.
      * destruct Hin as [<-|Hin]; [apply Hext; reflexivity|].
        destruct (assoc_app_single_inv _ _ _ _ (Hfresh t' Hin)) as [Hn _]. exact Hn.
      * apply Hfresh. exact Hin.
Qed.

(* conditions: a repeated condition or parameter name raises an error *)
Lemma walk_params_clean cname ps :
  forall acc errs acc' errs', walk_params cname ps acc errs = (acc', errs') ->
  (exists more, errs' = errs ++ more) /\
  (errs' = errs -> NoDup (map pname ps) /\ forall p, In p ps -> assoc (pname p) acc = None).
Proof.
  induction ps as [|p ps IH]; intros acc errs acc' errs' H.
  - simpl in H. inversion H; subst. split; [exists []; rewrite app_nil_r; reflexivity|]. intros _. split; [constructor|intros p []].
  - cbn [walk_params] in H. fold (pname p) in H.
    destruct (assoc (pname p) acc) eqn:Ea.
    + destruct (IH _ _ _ _ H) as [[more E] _]. split; [exists ([err_at (pd_name p) (msg_param_defined (pname p) cname)] ++ more); rewrite E, <- app_assoc; reflexivity|].
      intros Heq. rewrite Heq in E. rewrite <- app_assoc in E. symmetry in E. apply app_eq_self in E. discriminate.
    + destruct (IH _ _ _ _ H) as [[more E] Hc]. split; [exists more; exact E|].
      intros Heq. destruct (Hc Heq) as [Hnd Hfresh]. split.
      * simpl. constructor; auto. intros Hin. apply in_map_iff in Hin. destruct Hin as [p' [En Hin]].
        specialize (Hfresh p' Hin). rewrite assoc_set_fresh in Hfresh by exact Ea.
        destruct (assoc_app_single_inv _ _ _ _ Hfresh) as [_ Hne]. congruence.
      * intros p' [<-|Hin]; [exact Ea|]. specialize (Hfresh p' Hin). rewrite assoc_set_fresh in Hfresh by exact Ea.
        destruct (assoc_app_single_inv _ _ _ _ Hfresh) as [Hn _]. exact Hn.
Qed.

Lemma walk_conddecl_clean c s :
  (exists more, ls_errs (walk_conddecl c s) = ls_errs s ++ more) /\
  (ls_errs (walk_conddecl c s) = ls_errs s ->
   NoDup (map pname (cd_params c)) /\ assoc (cname c) (ls_conds s) = None).
Proof.
  unfold walk_conddecl. cbv zeta. fold (cname c).
  destruct (walk_params (cname c) (cd_params c) [] []) as [params errs] eqn:Ep.
  destruct (walk_params_clean _ _ _ _ _ _ Ep) as [[more Em] Hc]. simpl in Em. subst errs.
  destruct (assoc (cname c) (ls_conds s)) eqn:Ea; cbn [ls_errs add_err].
  - split; [eexists; rewrite <- app_assoc; reflexivity|].
    intros E. rewrite <- app_assoc in E. apply app_eq_self in E. discriminate.
  - split; [eexists; reflexivity|]. intros E. apply app_eq_self in E. subst more.
    split; [|reflexivity]. apply (Hc eq_refl).
Qed.

Lemma walk_conddecls_clean cs :
  forall s, let s' := fold_left (fun s c => walk_conddecl c s) cs s in
  (exists more, ls_errs s' = ls_errs s ++ more) /\
  (ls_errs s' = ls_errs s ->
   Forall (fun c => NoDup (map pname (cd_params c))) cs /\ NoDup (map cname cs) /\
   forall c, In c cs -> assoc (cname c) (ls_conds s) = None).
Proof.
  induction cs as [|c cs IH]; intros s; cbn [fold_left].
  - split; [exists []; rewrite app_nil_r; reflexivity|]. intros _. repeat split; try constructor. intros c [].
  - destruct (walk_conddecl_clean c s) as [[m1 E1] Hc1].
    destruct (IH (walk_conddecl c s)) as [[m2 E2] Hc2]. cbv zeta in *.
    split; [exists (m1 ++ m2); rewrite E2, E1, app_assoc; reflexivity|].
    intros E. rewrite E2, E1, <- app_assoc in E. apply app_eq_self in E. apply app_eq_nil in E. destruct E as [-> ->].
    rewrite app_nil_r in E1, E2. destruct (Hc1 E1) as [Hp Hfresh]. destruct (Hc2 E2) as [Hps [Hnd Hfr]].
    assert (Ew : ls_conds (walk_conddecl c s) = ls_conds s ++ [sem_cond (ls_modular s) (ls_module s) c]).
    { rewrite (walk_conddecl_sem c s Hp Hfresh). reflexivity. }
    split; [constructor; auto|]. split.
    + simpl. constructor; auto. intros Hin. apply in_map_iff in Hin. destruct Hin as [c' [En Hin]].
      specialize (Hfr c' Hin). rewrite Ew in Hfr. unfold sem_cond in Hfr.
      destruct (assoc_app_single_inv _ _ _ _ Hfr) as [_ Hne]. apply Hne. exact En.
    + intros c' [<-|Hin]; [exact Hfresh|]. specialize (Hfr c' Hin). rewrite Ew in Hfr. unfold sem_cond in Hfr.
      destruct (assoc_app_single_inv _ _ _ _ Hfr) as [Hn _]. exact Hn.
Qed.

(* C09, the "equivalently" form: whenever the listener accepts a grammatical document, nothing in it is
   declared twice, no `extend` stands in a model file and no type is extended twice *)
Theorem walk_accepts_only_distinct f s :
  wf_file f -> Forall (fun t => tname t <> []) (f_types f) ->
  walk f = Ok s -> ls_errs s = [] -> distinct_decls f.
Proof.
  intros Hwf Hname H Herr. unfold walk in H.
  destruct (walk_typedecls (f_types f) (init_lstate (f_header f))) as [s1| |] eqn:Ew; cbn [obind] in H; try discriminate.
  inversion H; subst; clear H.
  destruct (walk_typedecls_grow _ Hwf Hname _ _ Ew) as [m1 E1].
  destruct (walk_conddecls_clean (f_conds f) s1) as [[m2 E2] Hcc]. cbv zeta in *.
  assert (Hinit : ls_errs (init_lstate (f_header f)) = []) by (destruct (f_header f); reflexivity).
  rewrite E2, E1, Hinit in Herr. simpl in Herr. apply app_eq_nil in Herr. destruct Herr as [-> ->].
  rewrite app_nil_r in E1, E2.
  destruct (walk_typedecls_clean _ Hwf Hname _ _ Ew E1) as [Hrel [Hmod [Hndx _]]].
  destruct (Hcc E2) as [Hpar [Hcond _]].
  repeat split; auto.
  intros Hm. apply Forall_forall. intros t Hin. destruct (ty_extend t) eqn:Ee; [|reflexivity].
  specialize (Hmod t Hin Ee). destruct (f_header f); simpl in *; congruence.
Qed.

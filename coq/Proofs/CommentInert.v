(* Proofs/CommentInert.v — the source-information comments of the printer are inert (C14): the output with comments
   is the plain output with " # ..." segments inserted right before line breaks (or at the very end); cutting
   comments line by line gives the same lines, so the pre-pass of ParseDSL sees the same text and both outputs
   parse to the same result. *)
From Verif Require Import Base.Str Base.Outcome Model.Ast Model.Token Model.Lexer Model.Parser Model.Listener Model.Printer
  Model.Transform Proofs.SortFacts Proofs.PrinterComments.
From Coq Require Import Permutation.

Definition nonl (s : str) : Prop := Forall (fun c => c <> 10) s.

(* [p] = the decorated text ends inside a comment that nothing terminates yet *)
Inductive DecorP : bool -> str -> str -> Prop :=
| Pnil : DecorP false [] []
| Pchar c p a b : DecorP p a b -> DecorP p (c :: a) (c :: b)
| Pcom_end cm : nonl cm -> DecorP true (lit " #" ++ cm) []
| Pcom_nl cm p a b : nonl cm -> DecorP p a b -> DecorP p (lit " #" ++ cm ++ 10 :: a) (10 :: b).

Definition DP (a1 a0 : str) : Prop := exists p, DecorP p a1 a0.

Lemma DecorP_refl a : DecorP false a a.
Proof. induction a; constructor; auto. Qed.

Lemma P_app_false x1 x0 : DecorP false x1 x0 -> forall q y1 y0, DecorP q y1 y0 -> DecorP q (x1 ++ y1) (x0 ++ y0).
Proof.
  intros H. remember false as p eqn:Ep. induction H as [|c p a b H IH|cm Hc|cm p a b Hc H IH]; intros q y1 y0 Hy.
  - exact Hy.
  - cbn [app]. constructor. apply IH; assumption.
  - discriminate Ep.
  - replace ((lit " #" ++ cm ++ 10 :: a) ++ y1) with (lit " #" ++ cm ++ 10 :: (a ++ y1)) by (simpl; rewrite <- ?app_assoc; simpl; reflexivity).
    cbn [app]. apply (Pcom_nl cm q (a ++ y1) (b ++ y0) Hc). apply IH; assumption.
Qed.

Lemma P_app_nl p x1 x0 : DecorP p x1 x0 -> forall q y1 y0, DecorP q y1 y0 -> DecorP q (x1 ++ 10 :: y1) (x0 ++ 10 :: y0).
Proof.
  intros H. induction H as [|c p a b H IH|cm Hc|cm p a b Hc H IH]; intros q y1 y0 Hy.
  - cbn [app]. constructor. exact Hy.
  - cbn [app]. constructor. apply IH; assumption.
  - replace ((lit " #" ++ cm) ++ 10 :: y1) with (lit " #" ++ cm ++ 10 :: y1) by (simpl; rewrite <- ?app_assoc; simpl; reflexivity).
    cbn [app]. apply (Pcom_nl cm q y1 y0 Hc Hy).
  - replace ((lit " #" ++ cm ++ 10 :: a) ++ 10 :: y1) with (lit " #" ++ cm ++ 10 :: (a ++ 10 :: y1)) by (simpl; rewrite <- ?app_assoc; simpl; reflexivity).
    cbn [app]. apply (Pcom_nl cm q (a ++ 10 :: y1) (b ++ 10 :: y0) Hc). apply IH; assumption.
Qed.

Lemma DP_refl a : DP a a. Proof. exists false. apply DecorP_refl. Qed.
Lemma DP_app_plain x a1 a0 : DP a1 a0 -> DP (x ++ a1) (x ++ a0).
Proof. intros [p H]. exists p. apply (P_app_false x x (DecorP_refl x)). exact H. Qed.
Lemma DP_cons c a1 a0 : DP a1 a0 -> DP (c :: a1) (c :: a0).
Proof. intros [p H]. exists p. constructor. exact H. Qed.
Ltac dp_skip := repeat (apply DP_cons || apply DP_app_plain).

Lemma DP_app_nl x1 x0 y1 y0 : DP x1 x0 -> DP y1 y0 -> DP (x1 ++ 10 :: y1) (x0 ++ 10 :: y0).
Proof. intros [p H] [q G]. exists q. eapply P_app_nl; eauto. Qed.
Lemma DP_app_end x1 x0 : DP x1 x0 -> DP (x1 ++ []) (x0 ++ []).
Proof. rewrite !app_nil_r. auto. Qed.

(* ---- cutting comments, line by line ---- *)
Lemma cut_comment_decor l cm : cut_comment (l ++ lit " #" ++ cm) = cut_comment l.
Proof.
  induction l as [|c r IH]; [reflexivity|]. cbn [app cut_comment].
  destruct r as [|d r']; cbn [app].
  - cbn. destruct (c =? 32); reflexivity.
  - cbn [app] in IH. destruct ((c =? 32) && (d =? 35)); [reflexivity|]. f_equal. exact IH.
Qed.

Lemma trim_left_app p l x : trim_left p (l ++ x) = match trim_left p l with [] => trim_left p x | t => t ++ x end.
Proof. induction l as [|c r IH]; cbn; [destruct (trim_left p x); reflexivity|]. destruct (p c); [exact IH|reflexivity]. Qed.

Lemma clean_line_decor l cm : clean_line (l ++ lit " #" ++ cm) = clean_line l.
Proof.
  unfold clean_line. rewrite trim_left_app. destruct (trim_left is_space l) as [|c t] eqn:E.
  - reflexivity.
  - cbn [app]. destruct (c =? 35); [reflexivity|]. rewrite cut_comment_decor. reflexivity.
Qed.

Definition same_line (l1 l0 : str) : Prop := clean_line l1 = clean_line l0 /\ cut_comment l1 = cut_comment l0.

Lemma split_nonl cm : nonl cm -> forall a cur, split_on_aux 10 (cm ++ a) cur = split_on_aux 10 a (rev cm ++ cur).
Proof.
  induction 1 as [|c cm Hc _ IH]; intros a cur; [reflexivity|]. cbn [app split_on_aux].
  destruct (N.eqb_spec c 10); [contradiction|]. rewrite IH. cbn [rev]. rewrite <- app_assoc. reflexivity.
Qed.

Lemma DecorP_lines p t1 t0 : DecorP p t1 t0 -> forall cur, Forall2 same_line (split_on_aux 10 t1 cur) (split_on_aux 10 t0 cur).
Proof.
  induction 1 as [|c p a b H IH|cm Hc|cm p a b Hc H IH]; intros cur.
  - cbn. constructor; [split; reflexivity|constructor].
  - cbn [split_on_aux]. destruct (c =? 10); [constructor; [split; reflexivity|apply IH]|apply IH].
  - change (lit " #" ++ cm) with (32 :: 35 :: cm). cbn [split_on_aux N.eqb Pos.eqb].
    rewrite <- (app_nil_r cm). rewrite (split_nonl cm Hc [] (35 :: 32 :: cur)). cbn [split_on_aux].
    constructor; [|constructor]. rewrite rev_app_distr, rev_involutive. cbn [rev app]. rewrite <- !app_assoc. cbn [app].
    split; [apply (clean_line_decor (rev cur) cm)|apply (cut_comment_decor (rev cur) cm)].
  - change (lit " #" ++ cm ++ 10 :: a) with (32 :: 35 :: cm ++ 10 :: a). cbn [split_on_aux N.eqb Pos.eqb].
    rewrite (split_nonl cm Hc (10 :: a) (35 :: 32 :: cur)). cbn [split_on_aux N.eqb Pos.eqb].
    constructor; [|apply IH]. rewrite rev_app_distr, rev_involutive. cbn [rev app]. rewrite <- !app_assoc. cbn [app].
    split; [apply (clean_line_decor (rev cur) cm)|apply (cut_comment_decor (rev cur) cm)].
Qed.

Lemma Forall2_impl {A B} (R R' : A -> B -> Prop) l1 l0 : (forall a b, R a b -> R' a b) -> Forall2 R l1 l0 -> Forall2 R' l1 l0.
Proof. intros H. induction 1; constructor; auto. Qed.

Lemma Forall2_map_eq {A B} (f : A -> B) l1 l0 : Forall2 (fun a b => f a = f b) l1 l0 -> map f l1 = map f l0.
Proof. induction 1 as [|x y l1 l0 H _ IH]; cbn; [reflexivity|]. rewrite H, IH. reflexivity. Qed.

Theorem decorated_same_prepass t1 t0 : DP t1 t0 -> prepass t1 = prepass t0.
Proof.
  intros [p H]. unfold prepass, split_on. f_equal. f_equal. apply Forall2_map_eq.
  eapply Forall2_impl; [|apply (DecorP_lines p t1 t0 H [])]. intros a b [E _]. exact E.
Qed.

Theorem decorated_same_parse t1 t0 : DP t1 t0 -> dsl_to_model t1 = dsl_to_model t0.
Proof. intros H. unfold dsl_to_model. rewrite (decorated_same_prepass t1 t0 H). reflexivity. Qed.

(* cutting the comments out of the decorated text gives the lines of the plain text, comment-cut as well
   (and those are the plain lines themselves when the plain text contains no " #") *)
Theorem decorated_cut_lines t1 t0 : DP t1 t0 -> map cut_comment (split_on 10 t1) = map cut_comment (split_on 10 t0).
Proof.
  intros [p H]. unfold split_on. apply Forall2_map_eq.
  eapply Forall2_impl; [|apply (DecorP_lines p t1 t0 H [])]. intros a b [_ E]. exact E.
Qed.

(* ---------------------------------------------------------------------------------------- *)
(* the printer: with and without source information                                          *)
(* ---------------------------------------------------------------------------------------- *)
Lemma nonl_app a b : nonl a -> nonl b -> nonl (a ++ b).
Proof. unfold nonl. intros. apply Forall_app. auto. Qed.
Lemma nonl_lit_module : nonl (lit " module: "). Proof. repeat constructor; discriminate. Qed.
Lemma nonl_lit_file : nonl (lit ", file: "). Proof. repeat constructor; discriminate. Qed.
Lemma nonl_lit_ext : nonl (lit " extended by:"). Proof. repeat constructor; discriminate. Qed.

Lemma comment_DP m f lead : nonl m -> nonl f -> nonl lead -> DP (source_comment m f lead true) (source_comment m f lead false).
Proof.
  intros Hm Hf Hl. unfold source_comment. rewrite orb_true_r. cbn [negb]. rewrite orb_false_r.
  destruct (is_empty m && is_empty f); [apply DP_refl|].
  exists true. apply Pcom_end. repeat apply nonl_app; auto using nonl_lit_module, nonl_lit_file.
Qed.

Lemma DP_suffix_comment x c1 : DP c1 [] -> DP (x ++ c1) x.
Proof. intros H. rewrite <- (app_nil_r x) at 2. apply DP_app_plain. exact H. Qed.

(* the metadata strings of a model contain no line break *)
Definition rel_meta_nonl (meta : option rel_meta) : Prop := nonl (rm_module_str meta) /\ nonl (rm_file_str meta).
Definition type_nonl (t : typedef) : Prop :=
  nonl (td_module t) /\ nonl (td_file t) /\ forall n, rel_meta_nonl (assoc n (td_meta_rels t)).
Definition cond_nonl (c : condition) : Prop := nonl (c_module c) /\ nonl (c_file c).
Definition model_nonl (m : model) : Prop :=
  Forall type_nonl (m_types m) /\ Forall (fun p : str * condition => cond_nonl (snd p)) (m_conds m).

Lemma print_relation_DP ty rel u meta t1 t0 :
  rel_meta_nonl meta -> print_relation ty rel u meta true = Ok t1 -> print_relation ty rel u meta false = Ok t0 -> DP t1 t0.
Proof.
  intros [Hm Hf]. unfold print_relation. destruct (print_top u (rm_types_of meta)) as [[t n]|]; [|discriminate].
  destruct ((n =? 0)%nat || ((n =? 1)%nat && is_first_position u)); [|discriminate]. intros H1 H0. injection H1 as <-. injection H0 as <-.
  dp_skip. apply (comment_DP _ _ _ Hm Hf nonl_lit_ext).
Qed.

(* a block that is empty or starts a new line *)
Definition block (r1 r0 : str) : Prop := (r1 = [] /\ r0 = []) \/ exists a1 a0, r1 = 10 :: a1 /\ r0 = 10 :: a0 /\ DP a1 a0.

Lemma block_after x1 x0 r1 r0 : DP x1 x0 -> block r1 r0 -> DP (x1 ++ r1) (x0 ++ r0).
Proof. intros Hx [[-> ->]|(a1 & a0 & -> & -> & Ha)]; [apply DP_app_end; exact Hx|apply DP_app_nl; assumption]. Qed.

Lemma print_relations_DP ty names rels meta : (forall n, rel_meta_nonl (assoc n meta)) -> forall r1 r0,
  print_relations ty names rels meta true = Ok r1 -> print_relations ty names rels meta false = Ok r0 -> block r1 r0.
Proof.
  intros Hm. induction names as [|n names IH]; intros r1 r0 H1 H0; cbn [print_relations] in H1, H0.
  - inversion H1; inversion H0; subst. left. auto.
  - destruct (print_relation ty n _ (assoc n meta) true) as [t1| |] eqn:E1; try discriminate.
    destruct (print_relation ty n _ (assoc n meta) false) as [t0| |] eqn:E0; try discriminate.
    destruct (print_relations ty names rels meta true) as [x1| |] eqn:F1; try discriminate.
    destruct (print_relations ty names rels meta false) as [x0| |] eqn:F0; try discriminate.
    inversion H1; inversion H0; subst. right. exists (t1 ++ x1), (t0 ++ x0). split; [reflexivity|]. split; [reflexivity|].
    apply block_after; [eapply print_relation_DP; eauto|apply IH; reflexivity].
Qed.

Lemma print_type_DP t modular x1 x0 :
  type_nonl t -> print_type t modular true = Ok x1 -> print_type t modular false = Ok x0 -> DP x1 x0.
Proof.
  intros (Hm & Hf & Hr). unfold print_type.
  assert (Hhead : DP (lit "type " ++ td_name t ++ source_comment (td_module t) (td_file t) [] true)
                     (lit "type " ++ td_name t ++ source_comment (td_module t) (td_file t) [] false)).
  { dp_skip. apply (comment_DP _ _ _ Hm Hf). constructor. }
  destruct (td_rels t) as [|r0 rs]; [intros H1 H0; injection H1 as <-; injection H0 as <-; exact Hhead|].
  match goal with |- context [print_relations ?a ?b ?c ?d true] =>
    destruct (print_relations a b c d true) as [b1| |] eqn:F1; try discriminate;
    destruct (print_relations a b c d false) as [b0| |] eqn:F0; try discriminate;
    pose proof (print_relations_DP a b c d Hr b1 b0 F1 F0) as Hb end.
  intros H1 H0. injection H1 as <-. injection H0 as <-.
  change (DP ((lit "type " ++ td_name t ++ source_comment (td_module t) (td_file t) [] true) ++ 10 :: lit "  relations" ++ b1)
             ((lit "type " ++ td_name t ++ source_comment (td_module t) (td_file t) [] false) ++ 10 :: lit "  relations" ++ b0)).
  apply DP_app_nl; [exact Hhead|]. apply block_after; [apply DP_refl|exact Hb].
Qed.

(* the list of printed types: each entry is a line break followed by the type's text *)
Lemma print_types_DP ts modular : Forall type_nonl ts -> forall l1 l0,
  print_types ts modular true = Ok l1 -> print_types ts modular false = Ok l0 ->
  Forall2 (fun x1 x0 => exists a1 a0, x1 = 10 :: a1 /\ x0 = 10 :: a0 /\ DP a1 a0) l1 l0.
Proof.
  induction 1 as [|t ts Ht _ IH]; intros l1 l0 H1 H0; cbn [print_types] in H1, H0.
  - injection H1 as <-. injection H0 as <-. constructor.
  - destruct (print_type t modular true) as [x1| |] eqn:E1; try discriminate.
    destruct (print_type t modular false) as [x0| |] eqn:E0; try discriminate.
    destruct (print_types ts modular true) as [r1| |] eqn:F1; try discriminate.
    destruct (print_types ts modular false) as [r0| |] eqn:F0; try discriminate.
    injection H1 as <-. injection H0 as <-. constructor; [|apply IH; reflexivity].
    exists x1, x0. split; [reflexivity|]. split; [reflexivity|]. eapply print_type_DP; eauto.
Qed.

(* joining such entries with line breaks, then whatever follows a final line break *)
Lemma join_blocks_DP l1 l0 k1 k0 :
  Forall2 (fun x1 x0 => exists a1 a0, x1 = 10 :: a1 /\ x0 = 10 :: a0 /\ DP a1 a0) l1 l0 -> DP k1 k0 ->
  DP (join [10] l1 ++ match l1 with [] => [] | _ => [10] end ++ k1) (join [10] l0 ++ match l0 with [] => [] | _ => [10] end ++ k0).
Proof.
  induction 1 as [|x1 x0 l1 l0 (a1 & a0 & -> & -> & Ha) Hl IH]; intros Hk; [exact Hk|].
  destruct Hl as [|y1 y0 l1 l0 Hy Hl].
  - cbn [join app]. apply DP_cons. change (DP (a1 ++ 10 :: k1) (a0 ++ 10 :: k0)). apply DP_app_nl; assumption.
  - specialize (IH Hk).
    assert (E1 : join [10] ((10 :: a1) :: y1 :: l1) = (10 :: a1) ++ [10] ++ join [10] (y1 :: l1)) by reflexivity.
    assert (E0 : join [10] ((10 :: a0) :: y0 :: l0) = (10 :: a0) ++ [10] ++ join [10] (y0 :: l0)) by reflexivity.
    rewrite E1, E0. rewrite <- !app_assoc. cbn [app]. apply DP_cons. apply DP_app_nl; [exact Ha|]. cbn [app] in IH. exact IH.
Qed.

Lemma print_condition_DP k c t1 t0 :
  cond_nonl c -> print_condition k c true = Ok t1 -> print_condition k c false = Ok t0 ->
  exists a1 a0, t1 = a1 ++ [10] /\ t0 = a0 ++ [10] /\ DP a1 a0.
Proof.
  intros [Hm Hf]. unfold print_condition. destruct (negb (str_eqb k (c_name c))); [discriminate|].
  destruct (print_params (c_name c) (stable_sort pair_cmp (c_params c))) as [ps| |]; try discriminate.
  intros H1 H0. injection H1 as <-. injection H0 as <-.
  eexists (lit "condition " ++ c_name c ++ lit "(" ++ join (lit ", ") ps ++ lit ") {" ++ [10] ++ lit "  " ++ c_expr c ++ [10] ++ lit "}" ++ source_comment (c_module c) (c_file c) [] true).
  eexists (lit "condition " ++ c_name c ++ lit "(" ++ join (lit ", ") ps ++ lit ") {" ++ [10] ++ lit "  " ++ c_expr c ++ [10] ++ lit "}" ++ source_comment (c_module c) (c_file c) [] false).
  split; [rewrite <- !app_assoc; reflexivity|]. split; [rewrite <- !app_assoc; reflexivity|].
  dp_skip. apply (comment_DP _ _ _ Hm Hf). constructor.
Qed.

Lemma print_conditions_DP cs : Forall (fun p : str * condition => cond_nonl (snd p)) cs -> forall r1 r0,
  print_conditions cs true = Ok r1 -> print_conditions cs false = Ok r0 -> DP r1 r0.
Proof.
  induction 1 as [|[k c] cs Hc _ IH]; intros r1 r0 H1 H0; cbn [print_conditions] in H1, H0.
  - injection H1 as <-. injection H0 as <-. apply DP_refl.
  - destruct (print_condition k c true) as [t1| |] eqn:E1; try discriminate.
    destruct (print_condition k c false) as [t0| |] eqn:E0; try discriminate.
    destruct (print_conditions cs true) as [x1| |] eqn:F1; try discriminate.
    destruct (print_conditions cs false) as [x0| |] eqn:F0; try discriminate.
    injection H1 as <-. injection H0 as <-.
    destruct (print_condition_DP k c t1 t0 Hc E1 E0) as (a1 & a0 & -> & -> & Ha).
    cbn [app]. apply DP_cons. rewrite <- !app_assoc. cbn [app]. apply DP_app_nl; [exact Ha|apply IH; reflexivity].
Qed.

Lemma Forall_sorted {A} (P : A -> Prop) cmp l : Forall P l -> Forall P (stable_sort cmp l).
Proof.
  intros H. apply Forall_forall. rewrite Forall_forall in H. intros x Hx. apply H.
  apply (Permutation_in x (Permutation_sym (stable_sort_perm cmp l))). exact Hx.
Qed.

Theorem print_model_decorated m t1 t0 :
  model_nonl m -> fst (print_model true m) = Ok t1 -> fst (print_model false m) = Ok t0 -> DP t1 t0.
Proof.
  intros [Ht Hc]. unfold print_model. cbn [fst].
  set (sorted := if is_modular_model m then stable_sort type_cmp (m_types m) else m_types m).
  assert (Hs : Forall type_nonl sorted) by (unfold sorted; destruct (is_modular_model m); [apply Forall_sorted|]; exact Ht).
  destruct (print_types sorted (is_modular_model m) true) as [l1| |] eqn:E1; try discriminate.
  destruct (print_types sorted (is_modular_model m) false) as [l0| |] eqn:E0; try discriminate.
  destruct (print_conditions (stable_sort cond_cmp (m_conds m)) true) as [c1| |] eqn:F1; try discriminate.
  destruct (print_conditions (stable_sort cond_cmp (m_conds m)) false) as [c0| |] eqn:F0; try discriminate.
  intros H1 H0. injection H1 as <-. injection H0 as <-.
  dp_skip. rewrite <- !app_assoc.
  apply join_blocks_DP; [eapply print_types_DP; eauto|].
  apply (print_conditions_DP (stable_sort cond_cmp (m_conds m))); [apply Forall_sorted; exact Hc|exact F1|exact F0].
Qed.

(* ---- the statements ---- *)
Theorem comments_are_inert m t1 t0 :
  model_nonl m -> fst (print_model true m) = Ok t1 -> fst (print_model false m) = Ok t0 ->
  prepass t1 = prepass t0 /\ dsl_to_model t1 = dsl_to_model t0 /\
  map cut_comment (split_on 10 t1) = map cut_comment (split_on 10 t0).
Proof.
  intros Hm H1 H0. pose proof (print_model_decorated m t1 t0 Hm H1 H0) as D.
  split; [apply decorated_same_prepass; exact D|]. split; [apply decorated_same_parse; exact D|apply decorated_cut_lines; exact D].
Qed.
